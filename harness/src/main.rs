// scimpl — correspondence harness: drives the real smartcalc library (current /repo working tree)
// in-process from a JSON-lines op file and prints one canonical JSON line per op.
//
// usage: scimpl <ops.jsonl> [--timeout-ms N]
// Every op is wrapped in catch_unwind; the whole op stream runs on a worker thread under a
// per-op watchdog (a hang prints {"hang":true} for that op and exits with status 3).

use std::cell::RefCell;
use std::collections::BTreeMap;
use std::io::{BufRead, Write};
use std::panic::{catch_unwind, AssertUnwindSafe};
use std::rc::Rc;
use std::sync::mpsc;
use std::sync::Mutex;
use std::time::Duration as StdDuration;

use chrono::{Datelike, Timelike};
use serde_json::{json, Value};
use smartcalc::{
    FieldType, NumberType, RuleTrait, Session, SmartCalc, SmartCalcAstType, SmartCalcConfig,
    TokenType,
};

static LAST_PANIC: Mutex<Option<String>> = Mutex::new(None);

// Logger that keeps only the records of the verification hook (target "verif_ui"); installed before the
// library's own logger, which then stays uninstalled (it would print every debug line to stdout).
static UI_LOG: Mutex<Vec<String>> = Mutex::new(Vec::new());
struct HookLogger;
impl log::Log for HookLogger {
    fn enabled(&self, m: &log::Metadata) -> bool { m.target() == "verif_ui" }
    fn log(&self, r: &log::Record) {
        if r.target() == "verif_ui" { UI_LOG.lock().unwrap().push(format!("{}", r.args())); }
    }
    fn flush(&self) {}
}
static HOOK_LOGGER: HookLogger = HookLogger;

fn bits(v: f64) -> String {
    format!("{:016x}", v.to_bits())
}

fn tz_json(tz: &smartcalc::TimeOffset) -> Value {
    json!([tz.name, tz.offset])
}

fn field_json(f: &FieldType) -> Value {
    match f {
        FieldType::Text(n, e) => json!({"f":"TEXT","name":n,"extra":e}),
        FieldType::DateTime(n) => json!({"f":"DATE_TIME","name":n}),
        FieldType::Date(n) => json!({"f":"DATE","name":n}),
        FieldType::Time(n) => json!({"f":"TIME","name":n}),
        FieldType::Money(n) => json!({"f":"MONEY","name":n}),
        FieldType::Percent(n) => json!({"f":"PERCENT","name":n}),
        FieldType::Number(n) => json!({"f":"NUMBER","name":n}),
        FieldType::Group(n, items) => json!({"f":"GROUP","name":n,"items":items}),
        FieldType::TypeGroup(types, n) => json!({"f":"TYPE_GROUP","name":n,"types":types}),
        FieldType::Month(n) => json!({"f":"MONTH","name":n}),
        FieldType::Duration(n) => json!({"f":"DURATION","name":n}),
        FieldType::Timezone(n) => json!({"f":"TIMEZONE","name":n}),
        FieldType::DynamicType(n, e) => json!({"f":"DYNAMIC_TYPE","name":n,"extra":e}),
    }
}

fn ntype(t: &NumberType) -> &'static str {
    match t {
        NumberType::Decimal => "Decimal",
        NumberType::Octal => "Octal",
        NumberType::Hexadecimal => "Hexadecimal",
        NumberType::Binary => "Binary",
        NumberType::Raw => "Raw",
    }
}

fn ast_json(ast: &SmartCalcAstType, depth: usize) -> Value {
    match ast {
        SmartCalcAstType::None => Value::Null,
        SmartCalcAstType::Item(item) => tok_json(&item.as_token_type(), depth + 1),
        SmartCalcAstType::Month(m) => json!({"t":"Mo","m":m}),
        _ => json!({"t":"?ast"}),
    }
}

fn tok_json(t: &TokenType, depth: usize) -> Value {
    match t {
        TokenType::Number(v, nt) => json!({"t":"N","v":bits(*v),"nt":ntype(nt)}),
        TokenType::Text(s) => json!({"t":"T","s":s}),
        TokenType::Time(dt, tz) => json!({"t":"Ti","secs":dt.timestamp(),"nanos":dt.nanosecond(),"tz":tz_json(tz)}),
        TokenType::Date(d, tz) => json!({"t":"D","ymd":[d.year(), d.month(), d.day()],"tz":tz_json(tz)}),
        TokenType::DateTime(dt, tz) => json!({"t":"DT","secs":dt.timestamp(),"nanos":dt.nanosecond(),"tz":tz_json(tz)}),
        TokenType::Operator(c) => json!({"t":"O","c":c.to_string()}),
        TokenType::Field(f) => { let mut v = field_json(f); v["t"] = json!("F"); v },
        TokenType::Percent(v) => json!({"t":"P","v":bits(*v)}),
        TokenType::DynamicType(v, dt) => json!({"t":"DY","v":bits(*v),"group":dt.group_name,"index":dt.index}),
        TokenType::Money(v, c) => json!({"t":"M","v":bits(*v),"cur":c.code}),
        TokenType::Variable(var) => {
            let toks: Vec<Value> = if depth < 3 { var.tokens.iter().map(|t| tok_json(t, depth + 1)).collect() } else { vec![] };
            let data = if depth < 3 { ast_json(&var.data.borrow(), depth + 1) } else { Value::Null };
            json!({"t":"V","name":var.to_string(),"tokens":toks,"data":data})
        },
        TokenType::Month(m) => json!({"t":"Mo","m":m}),
        TokenType::Duration(d) => {
            let secs = d.num_seconds();
            let rest = *d - chrono::Duration::seconds(secs);
            json!({"t":"Du","secs":secs,"nanos":rest.num_nanoseconds()})
        },
        TokenType::Timezone(n, o) => json!({"t":"TZ","name":n,"off":o}),
    }
}

#[derive(Clone)]
enum Canned {
    Const(f64),
    Decline,
    Echo(String),
    Sum,
    Coin(f64, String),
    When(String, String, f64),
}

struct CannedRule {
    name: String,
    kind: Canned,
    log: Rc<RefCell<Vec<Value>>>,
}

impl RuleTrait for CannedRule {
    fn name(&self) -> String {
        self.name.clone()
    }
    fn call(&self, config: &SmartCalcConfig, fields: &BTreeMap<String, TokenType>) -> Option<TokenType> {
        let fj: BTreeMap<String, Value> = fields.iter().map(|(k, v)| (k.clone(), tok_json(v, 0))).collect();
        self.log.borrow_mut().push(json!({"rule": self.name, "fields": fj}));
        match &self.kind {
            Canned::Const(v) => Some(TokenType::Number(*v, NumberType::Decimal)),
            Canned::Decline => None,
            Canned::Echo(f) => fields.get(f).cloned(),
            Canned::Sum => {
                let mut s = 0.0;
                for (_, v) in fields.iter() {
                    if let TokenType::Number(n, _) = v { s += *n; }
                }
                Some(TokenType::Number(s, NumberType::Decimal))
            }
            Canned::Coin(v, cur) => config.get_currency(cur.to_string()).map(|c| TokenType::Money(*v, c)),
            Canned::When(f, w, v) => match fields.get(f) {
                Some(TokenType::Text(s)) if s == w => Some(TokenType::Number(*v, NumberType::Decimal)),
                _ => None
            },
        }
    }
}

fn parse_f64(v: &Value) -> f64 {
    match v {
        Value::String(s) => {
            if let Some(h) = s.strip_prefix("bits:") { f64::from_bits(u64::from_str_radix(h, 16).unwrap()) }
            else { s.parse::<f64>().unwrap() }
        },
        Value::Number(n) => n.as_f64().unwrap(),
        _ => panic!("bad f64"),
    }
}

struct State {
    calc: SmartCalc,
    sessions: BTreeMap<i64, Session>,
    rule_log: Rc<RefCell<Vec<Value>>>,
}

fn new_calc() -> SmartCalc {
    let c = SmartCalc::default();
    log::set_max_level(log::LevelFilter::Off);
    c
}

fn with_ui_log<T>(f: impl FnOnce() -> T) -> (T, Vec<String>) {
    UI_LOG.lock().unwrap().clear();
    log::set_max_level(log::LevelFilter::Trace);
    let r = f();
    log::set_max_level(log::LevelFilter::Off);
    let l = std::mem::take(&mut *UI_LOG.lock().unwrap());
    (r, l)
}

macro_rules! result_json {
    ($res:expr, $detail:expr) => {{
        let res = &$res;
        let mut lines = Vec::new();
        for l in res.lines.iter() {
            match l {
                None => lines.push(Value::Null),
                Some(line) => {
                    let mut o = serde_json::Map::new();
                    match &line.result {
                        Ok(r) => {
                            o.insert("ok".into(), ast_json(&r.ast, 0));
                            o.insert("out".into(), json!(r.output));
                        }
                        Err(e) => { o.insert("err".into(), json!(e)); }
                    }
                    let ui: Vec<Value> = line.ui_tokens.iter().map(|u| json!([u.start, u.end, format!("{:?}", u.ui_type)])).collect();
                    o.insert("ui".into(), json!(ui));
                    if $detail {
                        let raw: Vec<Value> = line.raw_tokens.iter().map(|t| tok_json(t, 0)).collect();
                        o.insert("raw".into(), json!(raw));
                        let calc: Vec<Value> = line.calculated_tokens.iter().map(|ti| {
                            let tt = ti.token_type.borrow();
                            json!({"s": ti.start, "e": ti.end, "text": ti.original_text,
                                   "active": format!("{:?}", ti.status.get()) == "Active",
                                   "tok": match tt.as_ref() { Some(t) => tok_json(t, 0), None => Value::Null }})
                        }).collect();
                        o.insert("calc".into(), json!(calc));
                    }
                    lines.push(Value::Object(o));
                }
            }
        }
        json!({"status": res.status, "lines": lines})
    }};
}

fn do_op(st: &mut State, op: &Value) -> Value {
    let name = op["op"].as_str().unwrap_or("");
    let detail = op.get("detail").and_then(|v| v.as_bool()).unwrap_or(false);
    match name {
        "reset" => {
            st.calc = new_calc();
            st.sessions.clear();
            st.rule_log.borrow_mut().clear();
            json!({"ok":true})
        }
        "cfg" => {
            // the two separator setters are independent calls: either order must give the same configuration
            let thou_first = op.get("order").and_then(|v| v.as_str()) == Some("thou-first");
            if thou_first { if let Some(v) = op.get("thou") { st.calc.set_thousand_separator(v.as_str().unwrap().to_string()); } }
            if let Some(v) = op.get("dec") { st.calc.set_decimal_seperator(v.as_str().unwrap().to_string()); }
            if !thou_first { if let Some(v) = op.get("thou") { st.calc.set_thousand_separator(v.as_str().unwrap().to_string()); } }
            if let Some(v) = op.get("num") { st.calc.set_number_configuration(v[0].as_u64().unwrap() as u8, v[1].as_bool().unwrap(), v[2].as_bool().unwrap()); }
            if let Some(v) = op.get("pct") { st.calc.set_percentage_configuration(v[0].as_u64().unwrap() as u8, v[1].as_bool().unwrap(), v[2].as_bool().unwrap()); }
            if let Some(v) = op.get("money") { st.calc.set_money_configuration(v[0].as_bool().unwrap(), v[1].as_bool().unwrap()); }
            json!({"ok":true})
        }
        "tz" => {
            let r = st.calc.set_timezone(op["v"].as_str().unwrap().to_string());
            let off = st.calc.get_time_offset();
            json!({"ok": r.is_ok(), "tz": tz_json(&off)})
        }
        "get_tz" => { let off = st.calc.get_time_offset(); json!({"tz": tz_json(&off)}) }
        "rate" => {
            let r = st.calc.update_currency(op["cur"].as_str().unwrap(), parse_f64(&op["v"]));
            json!({"ret": r})
        }
        "rule_add" => {
            let kind = match op["kind"].as_str().unwrap() {
                "const" => Canned::Const(parse_f64(&op["v"])),
                "decline" => Canned::Decline,
                "echo" => Canned::Echo(op["field"].as_str().unwrap().to_string()),
                "sum" => Canned::Sum,
                "coin" => Canned::Coin(parse_f64(&op["v"]), op["cur"].as_str().unwrap().to_string()),
                "when" => Canned::When(op["field"].as_str().unwrap().to_string(), op["word"].as_str().unwrap().to_string(), parse_f64(&op["v"])),
                k => panic!("unknown canned kind {}", k),
            };
            let pats: Vec<String> = op["patterns"].as_array().unwrap().iter().map(|p| p.as_str().unwrap().to_string()).collect();
            let rule = Rc::new(CannedRule { name: op["name"].as_str().unwrap().to_string(), kind, log: st.rule_log.clone() });
            let r = st.calc.add_rule(op["lang"].as_str().unwrap().to_string(), pats, rule);
            json!({"ret": r})
        }
        "rule_del" => {
            let r = st.calc.delete_rule(op["lang"].as_str().unwrap().to_string(), op["name"].as_str().unwrap().to_string());
            json!({"ret": r})
        }
        "rule_log" => { let l = st.rule_log.borrow().clone(); st.rule_log.borrow_mut().clear(); json!({"log": l}) }
        "dtype_add" => { let r = st.calc.add_dynamic_type(op["name"].as_str().unwrap()); json!({"ret": r}) }
        "dtype_item" => {
            let parse: Vec<&str> = op["parse"].as_array().unwrap().iter().map(|p| p.as_str().unwrap()).collect();
            let names: Vec<String> = op["names"].as_array().unwrap().iter().map(|p| p.as_str().unwrap().to_string()).collect();
            let r = st.calc.add_dynamic_type_item(op["name"].as_str().unwrap(), op["index"].as_u64().unwrap() as usize,
                op["format"].as_str().unwrap(), parse, op["up"].as_str().unwrap(), op["down"].as_str().unwrap(), names,
                op.get("digits").and_then(|v| v.as_u64()).map(|v| v as u8),
                op.get("rounding").and_then(|v| v.as_bool()), op.get("remove_zero").and_then(|v| v.as_bool()));
            json!({"ret": r})
        }
        "date_rule" => {
            let pats: Vec<String> = op["patterns"].as_array().unwrap().iter().map(|p| p.as_str().unwrap().to_string()).collect();
            st.calc.set_date_rule(op["lang"].as_str().unwrap(), pats);
            json!({"ok": true})
        }
        "exec" => {
            if op.get("uilog").and_then(|v| v.as_bool()).unwrap_or(false) {
                let (res, l) = with_ui_log(|| st.calc.execute(op["lang"].as_str().unwrap(), op["text"].as_str().unwrap()));
                let mut v = result_json!(res, detail);
                v["uilog"] = json!(l);
                v
            } else {
                let res = st.calc.execute(op["lang"].as_str().unwrap(), op["text"].as_str().unwrap());
                result_json!(res, detail)
            }
        }
        "exec_fresh" => {
            let c = new_calc();
            let res = c.execute(op["lang"].as_str().unwrap(), op["text"].as_str().unwrap());
            result_json!(res, detail)
        }
        "sess_new" => {
            let mut s = Session::new();
            s.set_language(op["lang"].as_str().unwrap().to_string());
            st.sessions.insert(op["id"].as_i64().unwrap(), s);
            json!({"ok":true})
        }
        "sess_text" => {
            let s = st.sessions.get_mut(&op["id"].as_i64().unwrap()).unwrap();
            s.set_text(op["text"].as_str().unwrap().to_string());
            json!({"ok":true})
        }
        "sess_run" => {
            let s = st.sessions.get(&op["id"].as_i64().unwrap()).unwrap();
            let res = st.calc.execute_session(s);
            result_json!(res, detail)
        }
        "lex" => {
            let toks = st.calc.verif_lex(op["lang"].as_str().unwrap(), op["text"].as_str().unwrap());
            let v: Vec<Value> = toks.iter().map(|ti| {
                let tt = ti.token_type.borrow();
                json!({"s": ti.start, "e": ti.end, "text": ti.original_text,
                       "tok": match tt.as_ref() { Some(t) => tok_json(t, 0), None => Value::Null }})
            }).collect();
            json!({"toks": v})
        }
        "fingerprint" => {
            let f = st.calc.verif_fingerprint();
            // a short stable digest (FNV-1a) plus the length; the text itself can be requested
            let mut h: u64 = 0xcbf29ce484222325;
            for b in f.as_bytes() { h ^= *b as u64; h = h.wrapping_mul(0x100000001b3); }
            if op.get("full").and_then(|v| v.as_bool()).unwrap_or(false) { json!({"fp": format!("{:016x}", h), "len": f.len(), "text": f}) }
            else { json!({"fp": format!("{:016x}", h), "len": f.len()}) }
        }
        "basic" => {
            let cfg = SmartCalcConfig::default();
            log::set_max_level(log::LevelFilter::Off);
            match SmartCalc::basic_execute(op["text"].as_str().unwrap(), &cfg) {
                Ok(v) => json!({"v": bits(v)}),
                Err(e) => json!({"err": e.to_string()}),
            }
        }
        "now" => {
            let n = chrono::Utc::now().naive_utc();
            json!({"secs": n.timestamp(), "ymd": [n.year(), n.month(), n.day()]})
        }
        "f64" => {
            match op["fn"].as_str().unwrap() {
                "parse" => match op["arg"].as_str().unwrap().parse::<f64>() { Ok(v) => json!({"v": bits(v)}), Err(_) => json!({"err":"parse"}) },
                "short" => json!({"s": parse_f64(&op["arg"]).to_string()}),
                "fixed" => json!({"s": format!("{:.*}", op["n"].as_u64().unwrap() as usize, parse_f64(&op["arg"]))}),
                "round" => json!({"v": bits(parse_f64(&op["arg"]).round())}),
                "i32" => json!({"v": parse_f64(&op["arg"]) as i32}),
                "i64" => json!({"v": parse_f64(&op["arg"]) as i64}),
                "u32" => json!({"v": parse_f64(&op["arg"]) as u32}),
                _ => json!({"err":"fn"}),
            }
        }
        "unicode" => {
            // dump range tables of the implementation's own regex / core libraries
            let mut out = serde_json::Map::new();
            for (key, pat) in [("L", r"^\p{L}$"), ("W", r"^\w$"), ("Sc", r"^\p{Currency_Symbol}$")] {
                let re = regex::Regex::new(pat).unwrap();
                let mut ranges: Vec<[u32; 2]> = Vec::new();
                let mut start: Option<u32> = None;
                let mut prev = 0u32;
                for cp in 0u32..=0x10FFFF {
                    let m = match char::from_u32(cp) { Some(c) => { let mut b = [0u8; 4]; re.is_match(c.encode_utf8(&mut b)) }, None => false };
                    if m { if start.is_none() { start = Some(cp); } prev = cp; }
                    else if let Some(s) = start { ranges.push([s, prev]); start = None; }
                }
                if let Some(s) = start { ranges.push([s, prev]); }
                out.insert(key.to_string(), json!(ranges));
            }
            let mut lower = Vec::new();
            let mut upper = Vec::new();
            for cp in 0u32..=0x10FFFF {
                if let Some(c) = char::from_u32(cp) {
                    let l: Vec<u32> = c.to_lowercase().map(|x| x as u32).collect();
                    if l != vec![cp] { lower.push(json!([cp, l])); }
                    let u: Vec<u32> = c.to_uppercase().map(|x| x as u32).collect();
                    if u != vec![cp] { upper.push(json!([cp, u])); }
                }
            }
            out.insert("lower".into(), json!(lower));
            out.insert("upper".into(), json!(upper));
            Value::Object(out)
        }
        _ => json!({"error": format!("unknown op {}", name)}),
    }
}

fn main() {
    let args: Vec<String> = std::env::args().collect();
    if args.len() < 2 {
        eprintln!("usage: scimpl <ops.jsonl> [--timeout-ms N]");
        std::process::exit(2);
    }
    let mut timeout_ms: u64 = 5000;
    let mut i = 2;
    while i < args.len() {
        if args[i] == "--timeout-ms" { timeout_ms = args[i + 1].parse().unwrap(); i += 1; }
        i += 1;
    }
    let file = std::fs::File::open(&args[1]).expect("ops file");
    let ops: Vec<String> = std::io::BufReader::new(file).lines().map(|l| l.unwrap()).filter(|l| !l.trim().is_empty()).collect();
    let n = ops.len();

    std::panic::set_hook(Box::new(|info| {
        let loc = info.location().map(|l| format!("{}:{}", l.file(), l.line())).unwrap_or_default();
        let msg = if let Some(s) = info.payload().downcast_ref::<&str>() { s.to_string() }
                  else if let Some(s) = info.payload().downcast_ref::<String>() { s.clone() }
                  else { "?".to_string() };
        // attribute the panic to the first frame inside the repository
        let bt = std::backtrace::Backtrace::force_capture().to_string();
        let mut site = String::new();
        for l in bt.lines() {
            let l = l.trim();
            if let Some(p) = l.find("/repo/src/") {
                if l.starts_with("at ") { site = l[p + 6..].to_string(); break; }
            }
        }
        let loc = match loc.find("/src/") { Some(_) if loc.contains("/repo/") => loc.replace("/repo/", ""), _ => {
            let parts: Vec<&str> = loc.rsplitn(4, '/').collect();
            parts.into_iter().rev().collect::<Vec<&str>>().join("/") } };
        *LAST_PANIC.lock().unwrap() = Some(format!("{} @ {} <- {}", msg, loc, site));
    }));

    let _ = log::set_logger(&HOOK_LOGGER);
    log::set_max_level(log::LevelFilter::Off);
    let (tx, rx) = mpsc::channel::<String>();
    let builder = std::thread::Builder::new().stack_size(256 * 1024 * 1024);
    let _worker = builder.spawn(move || {
        let mut st = State { calc: new_calc(), sessions: BTreeMap::new(), rule_log: Rc::new(RefCell::new(Vec::new())) };
        for line in ops.iter() {
            let op: Value = match serde_json::from_str(line) { Ok(v) => v, Err(e) => { tx.send(json!({"error": format!("bad json: {}", e)}).to_string()).ok(); continue; } };
            let r = catch_unwind(AssertUnwindSafe(|| do_op(&mut st, &op)));
            let out = match r {
                Ok(v) => v,
                Err(_) => {
                    let site = LAST_PANIC.lock().unwrap().take().unwrap_or_default();
                    json!({"panic": site})
                }
            };
            if tx.send(out.to_string()).is_err() { break; }
        }
    }).unwrap();

    let stdout = std::io::stdout();
    let mut w = std::io::BufWriter::new(stdout.lock());
    for _ in 0..n {
        match rx.recv_timeout(StdDuration::from_millis(timeout_ms)) {
            Ok(s) => { writeln!(w, "{}", s).unwrap(); }
            Err(mpsc::RecvTimeoutError::Timeout) => {
                writeln!(w, "{}", json!({"hang": true})).unwrap();
                w.flush().unwrap();
                std::process::exit(3);
            }
            Err(mpsc::RecvTimeoutError::Disconnected) => {
                writeln!(w, "{}", json!({"error": "worker died"})).unwrap();
                w.flush().unwrap();
                std::process::exit(4);
            }
        }
    }
    w.flush().unwrap();
}
