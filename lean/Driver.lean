/-
  Driver — line protocol around the executable model (compiled as `scdriver`).
  One request per input line, fields separated by TAB, text fields escaped
  (\\ \n \r \t); one answer line per request.
-/
import SC
open SC

def unescape (s : String) : List Char :=
  let rec go : List Char → List Char
    | [] => []
    | ['\\'] => ['\\']
    | '\\' :: c :: rest =>
      (if c = 'n' then '\n' else if c = 'r' then '\r' else if c = 't' then '\t' else c) :: go rest
    | c :: rest => c :: go rest
  go s.toList

def escape (cs : List Char) : String :=
  String.ofList (cs.flatMap fun c =>
    if c = '\\' then ['\\', '\\'] else if c = '\n' then ['\\', 'n']
    else if c = '\r' then ['\\', 'r'] else if c = '\t' then ['\\', 't'] else [c])

def hexVal (c : Char) : Nat :=
  if '0' ≤ c ∧ c ≤ '9' then c.toNat - '0'.toNat
  else if 'a' ≤ c ∧ c ≤ 'f' then c.toNat - 'a'.toNat + 10
  else if 'A' ≤ c ∧ c ≤ 'F' then c.toNat - 'A'.toNat + 10 else 0

def floatOfHex (s : String) : Float :=
  Float.ofBits (UInt64.ofNat (s.toList.foldl (fun a c => a * 16 + hexVal c) 0))

def hexDigit (n : Nat) : Char := if n < 10 then Char.ofNat (48 + n) else Char.ofNat (87 + n)

def hexOfFloat (x : Float) : String :=
  let b := x.toBits.toNat
  String.ofList ((List.range 16).map fun i => hexDigit ((b / 16 ^ (15 - i)) % 16))

/-! ### token wire format (see tools/wire.py) -/

def hexOfString (s : String) : String :=
  String.ofList (s.toUTF8.toList.flatMap fun b => [hexDigit (b.toNat / 16), hexDigit (b.toNat % 16)])

def stringOfHex (h : String) : String :=
  let rec go : List Char → List UInt8
    | a :: b :: rest => UInt8.ofNat (hexVal a * 16 + hexVal b) :: go rest
    | _ => []
  match String.fromUTF8? (ByteArray.mk (go h.toList).toArray) with
  | some s => s
  | none => "?"

def ntCode : NumType → String
  | .decimal => "d" | .octal => "o" | .hex => "h" | .binary => "b" | .raw => "r"

def ntOfCode (s : String) : NumType :=
  if s = "o" then .octal else if s = "h" then .hex else if s = "b" then .binary else if s = "r" then .raw else .decimal

def encItem : Item Float → String
  | .number v t => s!"N:{hexOfFloat v}:{ntCode t}"
  | .percent v => s!"P:{hexOfFloat v}"
  | .money v c => s!"M:{hexOfFloat v}:{c}"
  | .time s tz => s!"Ti:{s}:{hexOfString tz.name}:{tz.off}"
  | .date d tz => s!"D:{d.y}:{d.m}:{d.d}:{hexOfString tz.name}:{tz.off}"
  | .dateTime s tz => s!"DT:{s}:{hexOfString tz.name}:{tz.off}"
  | .duration s => s!"Du:{s}"
  | .dyn v u => s!"DY:{hexOfFloat v}:{hexOfString u.group}:{u.index}"

def encOpt : Option String → String
  | some s => hexOfString s
  | none => "-"

def encList (l : List String) : String := if l.isEmpty then "-" else ".".intercalate (l.map hexOfString)

def encField : Field → String
  | .text n e => s!"F:TEXT:{hexOfString n}:{encOpt e}"
  | .dyn n e => s!"F:DYNAMIC_TYPE:{hexOfString n}:{encOpt e}"
  | .group n items => s!"F:GROUP:{hexOfString n}:{encList items}"
  | .typeGroup ts n => s!"F:TYPE_GROUP:{hexOfString n}:{encList ts}"
  | .dateTime n => s!"F:DATE_TIME:{hexOfString n}:-"
  | .date n => s!"F:DATE:{hexOfString n}:-"
  | .time n => s!"F:TIME:{hexOfString n}:-"
  | .money n => s!"F:MONEY:{hexOfString n}:-"
  | .percent n => s!"F:PERCENT:{hexOfString n}:-"
  | .number n => s!"F:NUMBER:{hexOfString n}:-"
  | .month n => s!"F:MONTH:{hexOfString n}:-"
  | .duration n => s!"F:DURATION:{hexOfString n}:-"
  | .timezone n => s!"F:TIMEZONE:{hexOfString n}:-"

def encTok : Tok Float → String
  | .item i => encItem i
  | .text s => s!"T:{hexOfString s}"
  | .op o => s!"O:{o.toChar.toNat}"
  | .field f => encField f
  | .var n => s!"V:{hexOfString n}"
  | .month m => s!"Mo:{m}"
  | .tz n o => s!"TZ:{hexOfString n}:{o}"

def decTok (s : String) : Option (Tok Float) :=
  match s.splitOn ":" with
  | ["N", b, t] => some (.item (.number (floatOfHex b) (ntOfCode t)))
  | ["P", b] => some (.item (.percent (floatOfHex b)))
  | ["M", b, c] => some (.item (.money (floatOfHex b) c))
  | ["Ti", secs, n, o] => some (.item (.time secs.toInt! ⟨stringOfHex n, o.toInt!⟩))
  | ["D", y, m, d, n, o] => some (.item (.date ⟨y.toInt!, m.toNat!, d.toNat!⟩ ⟨stringOfHex n, o.toInt!⟩))
  | ["DT", secs, n, o] => some (.item (.dateTime secs.toInt! ⟨stringOfHex n, o.toInt!⟩))
  | ["Du", secs] => some (.item (.duration secs.toInt!))
  | ["DY", b, g, i] => some (.item (.dyn (floatOfHex b) ⟨stringOfHex g, i.toNat!⟩))
  | ["T", h] => some (.text (stringOfHex h))
  | ["T"] => some (.text "")
  | ["O", c] => some (.op (Op.ofChar (Char.ofNat c.toNat!)))
  | ["V", h] => some (.var (stringOfHex h))
  | ["Mo", m] => some (.month m.toNat!)
  | ["TZ", n, o] => some (.tz (stringOfHex n) o.toInt!)
  | ["F", kind, n, extra] =>
    -- pattern field: extra is `-` (none), a hex string, or hex strings joined by '.'
    let name := stringOfHex n
    let opt : Option String := if extra = "-" then none else some (stringOfHex extra)
    let lst : List String := if extra = "-" || extra = "" then [] else (extra.splitOn ".").map stringOfHex
    if kind = "TEXT" then some (.field (.text name opt))
    else if kind = "DYNAMIC_TYPE" then some (.field (.dyn name opt))
    else if kind = "GROUP" then some (.field (.group name lst))
    else if kind = "TYPE_GROUP" then some (.field (.typeGroup lst name))
    else if kind = "DATE_TIME" then some (.field (.dateTime name))
    else if kind = "DATE" then some (.field (.date name))
    else if kind = "TIME" then some (.field (.time name))
    else if kind = "MONEY" then some (.field (.money name))
    else if kind = "PERCENT" then some (.field (.percent name))
    else if kind = "NUMBER" then some (.field (.number name))
    else if kind = "MONTH" then some (.field (.month name))
    else if kind = "DURATION" then some (.field (.duration name))
    else if kind = "TIMEZONE" then some (.field (.timezone name))
    else none
  | _ => none

/-- `start,stop,active,texthex,tok` ; tok `-` = untyped ; unsupported token kinds make the whole
    request unsupported -/
def decInfo (s : String) : Option (TokInfo Float) :=
  match s.splitOn "," with
  | [a, b, act, txt, tok] =>
    if tok = "-" then some { start := a.toNat!, stop := b.toNat!, tok := none, text := stringOfHex txt, active := act = "1" }
    else (decTok tok).map fun t => { start := a.toNat!, stop := b.toNat!, tok := some t, text := stringOfHex txt, active := act = "1" }
  | _ => none

def decInfos (s : String) : Option (List (TokInfo Float)) :=
  if s.isEmpty then some [] else (s.splitOn " ").mapM decInfo

def encInfo (ti : TokInfo Float) : String :=
  s!"{ti.start},{ti.stop},{if ti.active then "1" else "0"}," ++ (match ti.tok with | some t => encTok t | none => "-")

/-- driver state: model sessions for the C04 protocol (evaluator = echo), plus one calculator
    configuration, the current time and one variable environment for line evaluation -/
structure DState where
  sessions : List (Nat × Sess Unit) := []
  cfg : Cfg Float := Gen.cfg Float
  now : Now := ⟨0⟩
  vars : Vars Float := []
  apiRules : List (String × Rule Float) := []

def echoEv : Unit → List Char → Unit × List Char := fun _ l => ((), l)

def DState.getSess (st : DState) (id : Nat) : Sess Unit :=
  match st.sessions.find? (·.1 = id) with
  | some (_, s) => s
  | none => { vars := () }

def DState.setSess (st : DState) (id : Nat) (s : Sess Unit) : DState :=
  { st with sessions := (id, s) :: st.sessions.filter (·.1 ≠ id) }

def step (st : DState) (line : String) : DState × String :=
  match line.splitOn "\t" with
  | ["split", t] =>
    let ls := splitLines (unescape t)
    (st, s!"{ls.length}\t" ++ "\t".intercalate (ls.map escape))
  | ["exec_slots", t] =>
    let r := execute echoEv () (unescape t)
    (st, s!"{r.1}\t{r.2.length}")
  | ["sess_new", id] => (st.setSess id.toNat! { vars := () }, "ok")
  | ["sess_text", id, t] =>
    let s := st.getSess id.toNat!
    (st.setSess id.toNat! (s.setText (unescape t)), "ok")
  | ["sess_run", id] =>
    let s := st.getSess id.toNat!
    let (s', status, rs) := execSession echoEv s
    (st.setSess id.toNat! s', s!"{status}\t{rs.length}\t" ++ "\t".intercalate (rs.map escape))
  | ["now", secs] => ({ st with now := ⟨secs.toInt!⟩ }, "ok")
  | ["reset"] => ({ st with cfg := Gen.cfg Float, vars := [], apiRules := [] }, "ok")
  | ["newvars"] => ({ st with vars := [] }, "ok")
  | ["cfg_sep", dec, thou] =>
    ({ st with cfg := setThousandSeparator (setDecimalSeparator st.cfg (stringOfHex dec)) (stringOfHex thou) }, "ok")
  | ["cfg_num", d, rz, r] =>
    ({ st with cfg := setNumberConfiguration st.cfg ⟨d.toNat!, rz = "1", r = "1"⟩ }, "ok")
  | ["cfg_pct", d, rz, r] =>
    ({ st with cfg := setPercentageConfiguration st.cfg ⟨d.toNat!, rz = "1", r = "1"⟩ }, "ok")
  | ["cfg_money", rz, r] =>
    ({ st with cfg := setMoneyConfiguration st.cfg (rz = "1") (r = "1") }, "ok")
  | ["cfg_tz", name, off] =>
    ({ st with cfg := { st.cfg with tz := ⟨stringOfHex name, off.toInt!⟩ } }, "ok")
  | ["rate", code, bits] =>
    -- update_currency after read_currency resolved the name to `code`
    let rec upd : List (String × Float) → List (String × Float)
      | [] => [(code, floatOfHex bits)]
      | (k, v) :: rest => if k = code then (k, floatOfHex bits) :: rest
                          else if code < k then (code, floatOfHex bits) :: (k, v) :: rest
                          else (k, v) :: upd rest
    ({ st with cfg := { st.cfg with rates := upd st.cfg.rates } }, "ok")
  | ["line", lang, infos] =>
    match decInfos infos with
    | none => (st, "unsupported")
    | some tis =>
      -- the per-line hypothesis of SCP.VarInvariant (name in front of '=' admissible), in the state the line meets
      let lok := if lineOKb st.cfg lang st.now st.vars tis then "\tLOK:1" else "\tLOK:0"
      let (vs', r) := evalInfos st.cfg lang st.now st.vars tis
      let st := { st with vars := vs' }
      match r with
      | none => (st, "none")
      | some (res, cinfos, raw) =>
        let tail := "\t" ++ " ".intercalate (cinfos.map encInfo) ++ "\t" ++ " ".intercalate (raw.map encTok) ++ lok
        match res with
        | .err _ => (st, "err" ++ tail)
        | .ok .none => (st, "ok\t-\t" ++ tail)
        | .ok (.month m) => (st, s!"ok\tMo:{m}\t" ++ tail)
        | .ok (.item i) => (st, "ok\t" ++ encItem i ++ "\t" ++ hexOfString (printItem st.cfg lang st.now i) ++ tail)
  | ["lextext", lang, t] =>
    -- the model's own tokenizers on the raw text
    match lexText Gen.lexEnv st.cfg lang st.now (stringOfHex t).toList with
    | none => (st, "unsupported")
    | some tis => (st, "toks\t" ++ " ".intercalate (tis.map fun ti =>
        s!"{ti.start},{ti.stop},1,{hexOfString ti.text}," ++ (match ti.tok with | some t => encTok t | none => "-")))
  | ["codehyp", code, bits] =>
    -- hypothesis of the separator-independence theorem of unit conversion on one code and amount
    (st, if codeTextOK (F := Float) (stringOfHex code) (floatOfHex bits) then "1" else "0")
  | ["lexui", lang, t] =>
    -- the highlight requests of the model's tokenizers, in the format of the implementation's operation log
    let line := (stringOfHex t).toList
    match lexFull Gen.lexEnv st.cfg lang st.now line with
    | none => (st, "unsupported")
    | some (_, adds) =>
      let c := UiColl.new line
      (st, "ui\t" ++ ";".intercalate (adds.map fun a => s!"r,{a.1},{a.2.1};a,{c.pos a.1},{c.pos a.2.1},{a.2.2}"))
  | ["text", lang, t] =>
    -- one line from raw text: model lexer, then the evaluation layers
    match lexText Gen.lexEnv st.cfg lang st.now (stringOfHex t).toList with
    | none => (st, "unsupported")
    | some tis =>
      -- the per-line hypothesis of SCP.VarInvariant (name in front of '=' admissible), in the state the line meets
      let lok := if lineOKb st.cfg lang st.now st.vars tis then "\tLOK:1" else "\tLOK:0"
      let (vs', r) := evalInfos st.cfg lang st.now st.vars tis
      let st := { st with vars := vs' }
      match r with
      | none => (st, "none")
      | some (res, cinfos, raw) =>
        let tail := "\t" ++ " ".intercalate (cinfos.map encInfo) ++ "\t" ++ " ".intercalate (raw.map encTok) ++ lok
        match res with
        | .err _ => (st, "err" ++ tail)
        | .ok .none => (st, "ok\t-\t" ++ tail)
        | .ok (.month m) => (st, s!"ok\tMo:{m}\t" ++ tail)
        | .ok (.item i) => (st, "ok\t" ++ encItem i ++ "\t" ++ hexOfString (printItem st.cfg lang st.now i) ++ tail)
  | ["rule_add", lang, name, kind, a1, a2, pats] =>
    let patsDec : Option (List (List (TokInfo Float))) := if pats = "" then some [] else (pats.splitOn "|").mapM decInfos
    let k : Option (ApiKind Float) :=
      if kind = "const" then some (.const (floatOfHex a1)) else if kind = "decline" then some .decline
      else if kind = "echo" then some (.echo (stringOfHex a1)) else if kind = "sum" then some .sum
      else if kind = "coin" then some (.coin (floatOfHex a1) a2)
      else if kind = "when" then (match a2.splitOn ":" with | [f, w] => some (.when (stringOfHex f) (stringOfHex w) (floatOfHex a1)) | _ => none) else none
    (match patsDec, k with
     | some ps, some k =>
       let (c', ok) := addRule st.cfg lang ⟨.api (stringOfHex name) k, ps⟩
       ({ st with cfg := c' }, if ok then "1" else "0")
     | _, _ => (st, "unsupported"))
  | ["rule_add_text", lang, name, kind, a1, a2, pats] =>
    -- registration from the pattern TEXTS (hex, '|'-separated): the model tokenises them itself, in the rule's language
    let texts : List String := if pats = "" then [] else (pats.splitOn "|").map stringOfHex
    let k : Option (ApiKind Float) :=
      if kind = "const" then some (.const (floatOfHex a1)) else if kind = "decline" then some .decline
      else if kind = "echo" then some (.echo (stringOfHex a1)) else if kind = "sum" then some .sum
      else if kind = "coin" then some (.coin (floatOfHex a1) a2)
      else if kind = "when" then (match a2.splitOn ":" with | [f, w] => some (.when (stringOfHex f) (stringOfHex w) (floatOfHex a1)) | _ => none) else none
    (match k with
     | some k =>
       (match addRuleText Gen.lexEnv st.cfg st.now lang (.api (stringOfHex name) k) texts with
        | some (c', ok) => ({ st with cfg := c' }, if ok then "1" else "0")
        | none => (st, "unsupported"))
     | none => (st, "unsupported"))
  | ["dtype_item_text", g, idx, fmt, upc, downc, nms, dig, pats] =>
    let texts : List String := if pats = "" then [] else (pats.splitOn "|").map stringOfHex
    let nameList : List String := if nms = "" then [] else (nms.splitOn ".").map stringOfHex
    let digs : Option Nat := if dig = "-" then none else some dig.toNat!
    let it : UnitItem Float := ⟨stringOfHex g, idx.toNat!, stringOfHex fmt, [], stringOfHex upc, stringOfHex downc, nameList, digs, none, none⟩
    (match addDynamicTypeItemText Gen.lexEnv st.cfg st.now it texts with
     | some (c', ok) => ({ st with cfg := c' }, if ok then "1" else "0")
     | none => (st, "unsupported"))
  | ["date_rule_text", lang, pats] =>
    -- `set_date_rule` from the pattern TEXTS (hex, '|'-separated), tokenised in the language
    let texts : List String := if pats = "" then [] else (pats.splitOn "|").map stringOfHex
    (match setDateRuleText Gen.lexEnv st.cfg st.now lang texts with
     | some c' => ({ st with cfg := c' }, "ok")
     | none => (st, "unsupported"))
  | ["readsback", dec, thou, bits] =>
    -- hypothesis of SCP.C12Exec.executeCode_mul on one amount: its printed text is a literal that reads back as itself
    (st, if readsBackB (F := Float) (stringOfHex dec) (stringOfHex thou) (floatOfHex bits) then "1" else "0")
  | ["rule_del", lang, name] =>
    let (c', ok) := deleteRule st.cfg lang (stringOfHex name)
    ({ st with cfg := c' }, if ok then "1" else "0")
  | ["dtype_add", name] =>
    let (c', ok) := addDynamicType st.cfg (stringOfHex name)
    ({ st with cfg := c' }, if ok then "1" else "0")
  | ["dtype_item", g, idx, fmt, upc, downc, nms, dig, pats] =>
    let patsDec : Option (List (List (TokInfo Float))) := if pats = "" then some [] else (pats.splitOn "|").mapM decInfos
    (match patsDec with
     | some ps =>
       let nameList : List String := if nms = "" then [] else (nms.splitOn ".").map stringOfHex
       let digs : Option Nat := if dig = "-" then none else some dig.toNat!
       let it : UnitItem Float := ⟨stringOfHex g, idx.toNat!, stringOfHex fmt, ps, stringOfHex upc, stringOfHex downc, nameList, digs, none, none⟩
       let (c', ok) := addDynamicTypeItem st.cfg it
       ({ st with cfg := c' }, if ok then "1" else "0")
     | none => (st, "unsupported"))
  | ["codelex", dec, thou, line] =>
    -- the model lexer of the arithmetic / conversion-code alphabet on a whole line
    let cs := (stringOfHex line).toList
    (st, match (lexLine (stringOfHex dec) (stringOfHex thou) cs : Option (List (Tok Float))) with
      | some ts => "ok\t" ++ " ".intercalate (ts.map encTok)
      | none => "none")
  | ["lower", h] => (st, hexOfString (lowerStr (stringOfHex h)))
  | ["constdate", lang, word] =>
    -- the date a constant word (`today`, …) denotes in that language at the current `now`
    (st, match (constantOf st.cfg lang (stringOfHex word)).bind (constDate st.now) with
      | some d => s!"{d.y}-{d.m}-{d.d}"
      | none => "none")
  | ["ui", line, ops] =>
    -- replay of the operation log of one UiTokenCollection (hook log of the implementation):
    -- r,bs,be  a,s,e,Kind  s  u,ps,pe,Kind ; answers "<position mismatches>\t<tokens>"
    let c0 := UiColl.new (stringOfHex line).toList
    let (c, _, bad) := (ops.splitOn ";").foldl (fun (acc : UiColl × Option (Nat × Nat) × Nat) o =>
      let (c, pending, bad) := acc
      match o.splitOn "," with
      | ["r", bs, be] => (c, some (bs.toNat!, be.toNat!), bad)
      | ["a", s, e, k] =>
        (match pending with
         | some (bs, be) =>
           let ms := c.pos bs
           let me := c.pos be
           (c.add ms me k, none, if ms = s.toNat! && me = e.toNat! then bad else bad + 1)
         | none => (c.add s.toNat! e.toNat! k, none, bad))
      | ["s"] => (c.sort, none, bad)
      | ["u", ps, pe, k] => (c.update ps.toNat! pe.toNat! k, none, bad)
      | _ => (c, pending, bad)) (c0, none, 0)
    (st, s!"{bad}\t" ++ " ".intercalate (c.toks.map fun t => s!"{t.start},{t.stop},{t.kind}"))
  | ["f64parse", t] =>
    (st, match parseF64 (unescape t) with | some v => hexOfFloat v | none => "err")
  | ["f64short", h] => (st, shortStr (floatOfHex h))
  | ["f64fixed", h, n] => (st, fixedStr (floatOfHex h) n.toNat!)
  | _ => (st, "bad-op")

partial def loop (h : IO.FS.Stream) (out : IO.FS.Stream) (st : DState) : IO Unit := do
  let line ← h.getLine
  if line.isEmpty then return ()
  let line := if line.endsWith "\n" then (line.dropEnd 1).toString else line
  let (st', o) := step st line
  out.putStrLn o
  loop h out st'

def main : IO Unit := do
  let stdin ← IO.getStdin
  let stdout ← IO.getStdout
  loop stdin stdout {}
