/-
  Driver — line protocol around the executable model (compiled as `scdriver`).
  One request per input line, fields separated by TAB, text fields escaped
  (\\ \n \r \t); one answer line per request.
-/
import SC
open SC

def unescape (s : String) : List Char :=
  let rec go : List Char → List Char
    | [] => []
    | ['\\'] => ['\\']
    | '\\' :: c :: rest =>
      (if c = 'n' then '\n' else if c = 'r' then '\r' else if c = 't' then '\t' else c) :: go rest
    | c :: rest => c :: go rest
  go s.toList

def escape (cs : List Char) : String :=
  String.ofList (cs.flatMap fun c =>
    if c = '\\' then ['\\', '\\'] else if c = '\n' then ['\\', 'n']
    else if c = '\r' then ['\\', 'r'] else if c = '\t' then ['\\', 't'] else [c])

/-- model sessions for the C04 protocol: evaluator = echo (slot = line) -/
structure DState where
  sessions : List (Nat × Sess Unit) := []

def echoEv : Unit → List Char → Unit × List Char := fun _ l => ((), l)

def DState.getSess (st : DState) (id : Nat) : Sess Unit :=
  match st.sessions.find? (·.1 = id) with
  | some (_, s) => s
  | none => { vars := () }

def DState.setSess (st : DState) (id : Nat) (s : Sess Unit) : DState :=
  { st with sessions := (id, s) :: st.sessions.filter (·.1 ≠ id) }

def step (st : DState) (line : String) : DState × String :=
  match line.splitOn "\t" with
  | ["split", t] =>
    let ls := splitLines (unescape t)
    (st, s!"{ls.length}\t" ++ "\t".intercalate (ls.map escape))
  | ["exec_slots", t] =>
    let r := execute echoEv () (unescape t)
    (st, s!"{r.1}\t{r.2.length}")
  | ["sess_new", id] => (st.setSess id.toNat! { vars := () }, "ok")
  | ["sess_text", id, t] =>
    let s := st.getSess id.toNat!
    (st.setSess id.toNat! (s.setText (unescape t)), "ok")
  | ["sess_run", id] =>
    let s := st.getSess id.toNat!
    let (s', status, rs) := execSession echoEv s
    (st.setSess id.toNat! s', s!"{status}\t{rs.length}\t" ++ "\t".intercalate (rs.map escape))
  | _ => (st, "bad-op")

partial def loop (h : IO.FS.Stream) (out : IO.FS.Stream) (st : DState) : IO Unit := do
  let line ← h.getLine
  if line.isEmpty then return ()
  let line := if line.endsWith "\n" then (line.dropEnd 1).toString else line
  let (st', o) := step st line
  out.putStrLn o
  loop h out st'

def main : IO Unit := do
  let stdin ← IO.getStdin
  let stdout ← IO.getStdout
  loop stdin stdout {}
