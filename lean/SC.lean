import SC.Basic
import SC.Session
import SC.Types
import SC.Post
import SC.Parser
