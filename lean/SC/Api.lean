/-
  SC.Api — the registration calls of `SmartCalc` from the pattern TEXTS (src/smartcalc.rs `add_rule`,
  `add_dynamic_type_item`): the patterns are tokenised by `Tokinizer::token_infos` — the patterns of a rule in the
  language the rule is registered for, the parse patterns of a unit item always in "en" — and the tokenised
  registration is `SC.addRule` / `SC.addDynamicTypeItem`.
  `none` = a pattern the lexer model does not support (reported as unsupported, never defaulted).
-/
import SC.Calc
import SC.Lexer
namespace SC
variable {F : Type} [Num F]

/-- the patterns of one registration, tokenised in `lang` -/
def patternTokens (env : LexEnv) (c : Cfg F) (lang : String) (now : Now) (pats : List String) :
    Option (List (List (TokInfo F))) :=
  pats.mapM fun p => lexText env c lang now p.toList

/-- `SmartCalc::add_rule(language, patterns, rule)`: the patterns are patterns of `language` -/
def addRuleText (env : LexEnv) (c : Cfg F) (now : Now) (lang : String) (fn : RuleFn F) (pats : List String) :
    Option (Cfg F × Bool) :=
  match c.lang? lang with
  | none => some (c, false)
  | some _ => (patternTokens env c lang now pats).map fun ps => addRule c lang ⟨fn, ps⟩

/-- `SmartCalc::add_dynamic_type_item(..)`: the parse patterns are tokenised in "en" whatever languages exist -/
def addDynamicTypeItemText (env : LexEnv) (c : Cfg F) (now : Now) (it : UnitItem F) (parse : List String) :
    Option (Cfg F × Bool) :=
  match assoc? c.units it.group with
  | none => some (c, false)
  | some _ => (patternTokens env c "en" now parse).map fun ps => addDynamicTypeItem c { it with parse := ps }

/-- `SmartCalc::set_date_rule(language, patterns)` from the pattern texts, tokenised in `language` -/
def setDateRuleText (env : LexEnv) (c : Cfg F) (now : Now) (lang : String) (pats : List String) : Option (Cfg F) :=
  match c.lang? lang with
  | none => some c
  | some _ => (patternTokens env c lang now pats).map fun ps => setDateRule c lang ps

end SC
