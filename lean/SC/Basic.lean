/-
  SC.Basic — number class shared by the executable (Float) and the proof (Rat) instantiation
  of the model, and small enumerations.

  Model of: src/tools.rs (do_divition), the f64 operations used by src/compiler/*.rs.
-/
import SC.FloatFmt
namespace SC

/-- The arithmetic the calculator performs on `f64`.  `Float` instance: the hardware
    operations (bit-exact w.r.t. Rust).  `Rat` instance: exact arithmetic, used by the
    formula theorems (floating-point rounding is modelled, not verified). -/
class Num (F : Type) where
  add : F → F → F
  sub : F → F → F
  mul : F → F → F
  div : F → F → F
  neg : F → F
  ofInt : Int → F
  /-- `is_infinite() || is_nan()` -/
  isBad : F → Bool
  /-- `f64::round` (half away from zero) -/
  round : F → F
  /-- `as i64` (saturating, NaN ↦ 0) -/
  toInt : F → Int
  lt : F → F → Bool
  beq : F → F → Bool
  /-- `f64::trunc` -/
  trunc : F → F
  /-- `f64::abs` -/
  abs : F → F
  /-- the exact integer part (truncation toward zero, no saturation) of a finite value -/
  truncInt : F → Int
  /-- the value `num / den` (sign `neg`) nearest in `F`: decimal literals and constants -/
  ofRat : Bool → Nat → Nat → F
  /-- `str::parse::<f64>` on `sign? digits ('.' digits)?` strings -/
  parseDec : List Char → Option F
  /-- `f64::to_string` -/
  short : F → String
  /-- `format!("{:.N}", x)` -/
  fixed : F → Nat → String

def ratFixed (x : Rat) (n : Nat) : String :=
  let (ip, fp) := fixedParts x.num.natAbs x.den n
  String.ofList ((if x < 0 then ['-'] else []) ++ ip ++ (if n = 0 then [] else '.' :: fp))

/-- exact decimal expansion when it terminates within 40 digits, else `num/den` -/
def ratShort (x : Rat) : String :=
  match (List.range 41).find? (fun k => (10 ^ k) % x.den = 0) with
  | some k =>
    let s := ratFixed x k
    if k = 0 then s else
      let cs := (s.toList.reverse.dropWhile (· = '0')).reverse
      String.ofList (if cs.getLast? = some '.' then cs.dropLast else cs)
  | none => toString x.num ++ "/" ++ toString x.den

instance : Num Rat where
  add := (· + ·)
  sub := (· - ·)
  mul := (· * ·)
  div := (· / ·)
  neg := (- ·)
  ofInt := fun i => (i : Rat)
  isBad := fun _ => false
  round := fun x => if x < 0 then -((( -x) + 1/2).floor : Int) else ((x + 1/2).floor : Int)
  toInt := fun x => if x < 0 then -((-x).floor) else x.floor
  lt := fun a b => decide (a < b)
  beq := fun a b => decide (a = b)
  trunc := fun x => if x < 0 then -(((-x).floor : Int) : Rat) else ((x.floor : Int) : Rat)
  abs := fun x => if x < 0 then -x else x
  truncInt := fun x => if x < 0 then -((-x).floor) else x.floor
  ofRat := fun neg n d => if neg then -((n : Rat) / (d : Rat)) else (n : Rat) / (d : Rat)
  parseDec := fun cs => (parseDecimalRat cs).map fun (neg, n, d) =>
    if neg then -((n : Rat) / (d : Rat)) else (n : Rat) / (d : Rat)
  short := ratShort
  fixed := ratFixed

def floatTrunc (x : Float) : Float := if x < 0 then x.ceil else x.floor

def floatToInt (x : Float) : Int :=
  if x.isNaN then 0
  else if x >= 9223372036854775807.0 then 9223372036854775807
  else if x <= -9223372036854775808.0 then -9223372036854775808
  else x.toInt64.toInt

instance : Num Float where
  add := (· + ·)
  sub := (· - ·)
  mul := (· * ·)
  div := (· / ·)
  neg := (- ·)
  ofInt := Float.ofInt
  isBad := fun x => x.isInf || x.isNaN
  round := Float.round
  toInt := floatToInt
  lt := fun a b => a < b
  beq := fun a b => a == b
  trunc := floatTrunc
  abs := Float.abs
  truncInt := fun x =>
    if x.isNaN || x.isInf then 0 else
    let (neg, n, d) := floatToRat x
    if neg then -((n / d : Nat) : Int) else ((n / d : Nat) : Int)
  ofRat := ratToFloat
  parseDec := parseF64
  short := shortStr
  fixed := fixedStr

variable {F : Type} [Num F]

/-- `tools::do_divition`: a quotient that is infinite or NaN becomes 0. -/
def gdiv (l r : F) : F :=
  let c := Num.div l r
  if Num.isBad c then Num.ofInt 0 else c

/-- `NumberType` (src/types.rs) -/
inductive NumType | decimal | octal | hex | binary | raw
  deriving DecidableEq, Repr, Inhabited

/-- Operator characters.  The grammar only distinguishes the first eight; every other
    character the operator regex accepts is `other codepoint`. -/
inductive Op | plus | minus | mul | div | lparen | rparen | assign | pct | other (c : Nat)
  deriving DecidableEq, Repr, Inhabited

def Op.ofChar (c : Char) : Op :=
  if c = '+' then .plus else if c = '-' then .minus else if c = '*' then .mul
  else if c = '/' then .div else if c = '(' then .lparen else if c = ')' then .rparen
  else if c = '=' then .assign else if c = '%' then .pct else .other c.toNat

def Op.toChar : Op → Char
  | .plus => '+' | .minus => '-' | .mul => '*' | .div => '/' | .lparen => '(' | .rparen => ')'
  | .assign => '=' | .pct => '%' | .other c => Char.ofNat c

/-- `OperationType` (src/compiler/mod.rs) -/
inductive BinOp | add | sub | mul | div
  deriving DecidableEq, Repr

end SC
