/-
  SC.Calc — the public mutators of `SmartCalc` as pure functions on the configuration
  (src/smartcalc.rs): update_currency, add_rule / delete_rule, add_dynamic_type(_item),
  separators and format setters are plain field updates.
-/
import SC.Rules
namespace SC
variable {F : Type} [Num F]

/-- `BTreeMap::insert` on the rate table (ordered by currency code) -/
def setRate (rates : List (String × F)) (code : String) (v : F) : List (String × F) :=
  match rates with
  | [] => [(code, v)]
  | (k, w) :: rest =>
    if k = code then (k, v) :: rest
    else if code < k then (code, v) :: (k, w) :: rest
    else (k, w) :: setRate rest code v

/-- `SmartCalc::update_currency(name, rate)`: new configuration and the returned bool -/
def updateCurrency (c : Cfg F) (name : String) (v : F) : Cfg F × Bool :=
  match readCurrency c name with
  | some code => ({ c with rates := setRate c.rates code v }, true)
  | none => (c, false)

/-- is this rule an API rule with that name? -/
def Rule.isApiNamed (r : Rule F) (name : String) : Bool :=
  match r.fn with
  | .api n _ => n = name
  | _ => false

/-- remove the first element satisfying `p` -/
def removeFirst {α} (p : α → Bool) : List α → List α
  | [] => []
  | a :: as => if p a then as else a :: removeFirst p as

def Cfg.setLang (c : Cfg F) (l : Lang F) : Cfg F :=
  { c with langs := c.langs.map fun x => if x.name = l.name then l else x }

/-- `SmartCalc::add_rule(language, patterns, rule)`; the patterns arrive tokenised -/
def addRule (c : Cfg F) (lang : String) (r : Rule F) : Cfg F × Bool :=
  match c.lang? lang with
  | some l => (c.setLang { l with rules := l.rules ++ [r] }, true)
  | none => (c, false)

/-- `SmartCalc::delete_rule(language, name)` -/
def deleteRule (c : Cfg F) (lang : String) (name : String) : Cfg F × Bool :=
  match c.lang? lang with
  | some l =>
    if l.rules.any (·.isApiNamed name) then
      (c.setLang { l with rules := removeFirst (·.isApiNamed name) l.rules }, true)
    else (c, false)
  | none => (c, false)

/-! the configuration setters of `SmartCalc` (src/smartcalc.rs): each writes its own fields and nothing else -/

/-- `SmartCalc::set_decimal_seperator` -/
def setDecimalSeparator (c : Cfg F) (s : String) : Cfg F := { c with dec := s }
/-- `SmartCalc::set_thousand_separator` -/
def setThousandSeparator (c : Cfg F) (s : String) : Cfg F := { c with thou := s }
/-- `SmartCalc::set_number_configuration(decimal_digits, remove_fract_if_zero, use_fract_rounding)` -/
def setNumberConfiguration (c : Cfg F) (f : NumFmt) : Cfg F := { c with numFmt := f }
/-- `SmartCalc::set_percentage_configuration(..)` -/
def setPercentageConfiguration (c : Cfg F) (f : NumFmt) : Cfg F := { c with pctFmt := f }
/-- `SmartCalc::set_money_configuration(remove_fract_if_zero, use_fract_rounding)` -/
def setMoneyConfiguration (c : Cfg F) (removeZero rounding : Bool) : Cfg F := { c with moneyRemoveZero := removeZero, moneyRounding := rounding }

def RuleFn.isSmallDate : RuleFn F → Bool
  | .smallDate => true
  | _ => false

/-- `SmartCalc::set_date_rule(language, patterns)` (the patterns arrive tokenised): the old `small_date` rule is
    removed and the new one is put in front; every other rule — internal or registered through the API — keeps its
    place.  An unknown language changes nothing. -/
def setDateRule (c : Cfg F) (lang : String) (pats : List (List (TokInfo F))) : Cfg F :=
  match c.lang? lang with
  | some l => c.setLang { l with rules := ⟨.smallDate, pats⟩ :: l.rules.filter (fun r => !r.fn.isSmallDate) }
  | none => c

/-- insert a family keeping the families ordered by name -/
def insertFamily (fams : List (String × List (UnitItem F))) (name : String) : List (String × List (UnitItem F)) :=
  match fams with
  | [] => [(name, [])]
  | (k, v) :: rest => if name < k then (name, []) :: (k, v) :: rest else (k, v) :: insertFamily rest name

/-- `SmartCalc::add_dynamic_type(name)` -/
def addDynamicType (c : Cfg F) (name : String) : Cfg F × Bool :=
  match assoc? c.units name with
  | some _ => (c, false)
  | none => ({ c with units := insertFamily c.units name }, true)

def insertItem (items : List (UnitItem F)) (it : UnitItem F) : List (UnitItem F) :=
  match items with
  | [] => [it]
  | x :: rest => if it.index < x.index then it :: x :: rest else x :: insertItem rest it

/-- `SmartCalc::add_dynamic_type_item` -/
def addDynamicTypeItem (c : Cfg F) (it : UnitItem F) : Cfg F × Bool :=
  match assoc? c.units it.group with
  | none => (c, false)
  | some items =>
    if items.any (·.index = it.index) then (c, false)
    else ({ c with units := c.units.map fun (k, v) => if k = it.group then (k, insertItem v it) else (k, v) }, true)

end SC
