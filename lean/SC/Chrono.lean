/-
  SC.Chrono — the part of the `chrono` crate the calculator uses, as integer arithmetic:
  proleptic Gregorian calendar (validity, day number, civil-from-days), date ± whole days,
  seconds-of-day.  Partial constructors are explicit (`fromYmd?`), mirroring `from_ymd_opt`.
-/
import SC.Types
namespace SC

def isLeap (y : Int) : Bool := (y % 4 = 0 && y % 100 ≠ 0) || y % 400 = 0

def daysInMonth (y : Int) (m : Nat) : Nat :=
  if m = 2 then (if isLeap y then 29 else 28)
  else if m = 4 || m = 6 || m = 9 || m = 11 then 30
  else 31

/-- chrono's supported year range for `NaiveDate` -/
def minYear : Int := -262143
def maxYear : Int := 262142

def validYMD (y : Int) (m d : Nat) : Bool :=
  minYear ≤ y && y ≤ maxYear && 1 ≤ m && m ≤ 12 && 1 ≤ d && d ≤ daysInMonth y m

/-- `NaiveDate::from_ymd_opt` -/
def fromYmd? (y : Int) (m d : Nat) : Option YMD :=
  if validYMD y m d then some ⟨y, m, d⟩ else none

/-- days since 1970-01-01 of a civil date (H. Hinnant's `days_from_civil`) -/
def dayNumber (t : YMD) : Int :=
  let y : Int := if t.m ≤ 2 then t.y - 1 else t.y
  let era : Int := y / 400
  let yoe : Int := y - era * 400
  let mp : Int := ((t.m : Int) + 9) % 12
  let doy : Int := (153 * mp + 2) / 5 + (t.d : Int) - 1
  let doe : Int := yoe * 365 + yoe / 4 - yoe / 100 + doy
  era * 146097 + doe - 719468

/-- civil date of a day number (H. Hinnant's `civil_from_days`) -/
def civilFromDays (z : Int) : YMD :=
  let z := z + 719468
  let era : Int := z / 146097
  let doe : Int := z - era * 146097
  let yoe : Int := (doe - doe / 1460 + doe / 36524 - doe / 146096) / 365
  let y : Int := yoe + era * 400
  let doy : Int := doe - (365 * yoe + yoe / 4 - yoe / 100)
  let mp : Int := (5 * doy + 2) / 153
  let d : Int := doy - (153 * mp + 2) / 5 + 1
  let m : Int := if mp < 10 then mp + 3 else mp - 9
  ⟨if m ≤ 2 then y + 1 else y, m.toNat, d.toNat⟩

def minDay : Int := dayNumber ⟨minYear, 1, 1⟩
def maxDay : Int := dayNumber ⟨maxYear, 12, 31⟩

/-- `NaiveDate::checked_add_signed` with a duration of `secs` seconds: chrono adds the whole
    days of the duration (`num_days`, truncation toward zero) -/
def addDays? (t : YMD) (days : Int) : Option YMD :=
  let n := dayNumber t + days
  if minDay ≤ n && n ≤ maxDay then some (civilFromDays n) else none

/-- truncating division (Rust `/` on i64) -/
def tdiv (a b : Int) : Int := Int.tdiv a b
def tmod (a b : Int) : Int := Int.tmod a b

/-- seconds since the epoch of midnight UTC of a date -/
def dateSecs (t : YMD) : Int := dayNumber t * 86400

/-- seconds since midnight of an instant (`num_seconds_from_midnight`, instant in UTC secs) -/
def secsOfDay (secs : Int) : Int := secs % 86400

/-- civil date of an instant -/
def dateOfSecs (secs : Int) : YMD := civilFromDays (secs / 86400)

end SC
