/-
  SC.Engine — model of the rewrite layers that follow the lexer
  (src/variable/mod.rs update_token_variables, src/tokinizer/dynamic_type_tokinizer/mod.rs,
  src/tokinizer/rule_tokinizer/mod.rs, src/types.rs token equality / find_location), of the
  assignment parser (src/syntax/assignment.rs) and of `execute_text` from the lexed token
  infos onward.
-/
import SC.Rules
namespace SC
variable {F : Type} [Num F]

def lowerEq (a b : String) : Bool := lowerStr a = lowerStr b

def Item.typeName : Item F → String
  | .number _ _ => "NUMBER" | .percent _ => "PERCENT" | .money _ _ => "MONEY" | .time _ _ => "TIME"
  | .date _ _ => "DATE" | .dateTime _ _ => "DATE_TIME" | .duration _ => "DURATION" | .dyn _ _ => "DYNAMIC_TYPE"

def Tok.typeName : Tok F → String
  | .item i => i.typeName
  | .text _ => "TEXT" | .op _ => "OPERATOR" | .field _ => "FIELD" | .var _ => "VARIABLE"
  | .month _ => "MONTH" | .tz _ _ => "TIMEZONE"

/-- `TokenType::field_compare` -/
def tokFieldCompare (t : Tok F) (f : Field) : Bool :=
  match f, t with
  | .dyn _ expected, .item (.dyn _ u) => match expected with | none => true | some e => lowerEq e u.group
  | .percent _, .item (.percent _) => true
  | .timezone _, .tz _ _ => true
  | .number _, .item (.number _ _) => true
  | .text _ expected, .text s => match expected with | none => true | some e => lowerEq e s
  | .time _, .item (.time _ _) => true
  | .dateTime _, .item (.dateTime _ _) => true
  | .date _, .item (.date _ _) => true
  | .money _, .item (.money _ _) => true
  | .month _, .month _ => true
  | .duration _, .item (.duration _) => true
  | .group _ items, .text s => items.any (fun it => lowerEq it s)
  | .typeGroup types _, t => types.contains t.typeName
  | _, _ => false

/-- `SmartCalcAstType::field_compare` on the data of a variable -/
def dataFieldCompare (d : VarData F) (f : Field) : Bool :=
  match f, d with
  | .dyn _ expected, .item (.dyn _ u) => match expected with | none => true | some e => lowerEq e u.group
  | .percent _, .item (.percent _) => true
  | .number _, .item (.number _ _) => true
  | .time _, .item (.time _ _) => true
  | .money _, .item (.money _ _) => true
  | .month _, .month _ => true
  | .duration _, .item (.duration _) => true
  | .dateTime _, .item (.dateTime _ _) => true
  | .date _, .item (.date _ _) => true
  | .typeGroup types _, d =>
    types.contains (match d with | .item i => i.typeName | .month _ => "MONTH" | .none => "NONE")
  | _, _ => false

def zoneEq (a b : Zone) : Bool := a.name = b.name && a.off = b.off

/-- value equality of two tokens as `impl PartialEq for TokenInfo` defines it (both typed) -/
def tokEq (l r : Tok F) : Bool :=
  match l, r with
  | .text a, .text b => lowerEq a b
  | .item (.number a _), .item (.number b _) => Num.beq a b
  | .item (.percent a), .item (.percent b) => Num.beq a b
  | .op a, .op b => a = b
  | .item (.date a za), .item (.date b zb) => a = b && zoneEq za zb
  | .item (.duration a), .item (.duration b) => a = b
  | .item (.money a ca), .item (.money b cb) => Num.beq a b && ca = cb
  | .tz a oa, .tz b ob => a = b && oa = ob
  | .var a, .var b => a = b
  | .field f, r => tokFieldCompare r f
  | l, .field f => tokFieldCompare l f
  | _, _ => false

/-- `TokenInfo == TokenInfo`: typed on both sides, Active on both sides -/
def infoEq (l r : TokInfo F) : Bool :=
  match l.tok, r.tok with
  | some a, some b => l.active && r.active && tokEq a b
  | _, _ => false

/-- `TokenType::variable_compare(pattern, data)`: only field patterns are modelled (configured
    patterns consist of fields, words and operators; a word or operator never equals a value) -/
def variableCompare (pat : TokInfo F) (d : VarData F) : Bool :=
  match pat.tok with
  | some (.field f) => dataFieldCompare d f
  | _ => false

def fieldNameOf (pat : TokInfo F) : Option String :=
  match pat.tok with
  | some (.field f) => some f.name
  | _ => none

/-- does the line token info `tok` (whose token is `t`) match the pattern position `p`?  A variable
    is compared through the value it holds. -/
def sameTok (vs : Vars F) (p tok : TokInfo F) (t : Tok F) : Bool :=
  match t with
  | .var n => (match vs.get? n with | some info => variableCompare p info.data | none => variableCompare p .none)
  | _ => infoEq tok p

/-- result of `find_match`: did the pattern complete, start index, end index (exclusive), fields -/
structure Match (F : Type) where
  found : Bool
  start : Nat
  stop : Nat
  fields : Fields F

/-- `find_match` (also the scanning loop of `dynamic_type_tokinizer`): scan the token infos,
    skipping Removed ones; untyped infos neither match nor reset. -/
def findMatch (vs : Vars F) (pat : List (TokInfo F)) (infos : List (TokInfo F)) : Match F :=
  let total := pat.length
  let rec go (rest : List (TokInfo F)) (target ruleIdx start : Nat) (fields : Fields F) : Match F :=
    match rest with
    | [] => ⟨total = ruleIdx, start, target, fields⟩
    | tok :: rest' =>
      let target := target + 1
      if !tok.active then go rest' target ruleIdx start fields
      else
        match tok.tok with
        | none => if total = ruleIdx then ⟨true, start, target, fields⟩ else go rest' target ruleIdx start fields
        | some t =>
          match pat[ruleIdx]? with
          | none => ⟨false, start, target, fields⟩   -- empty pattern: the implementation indexes out of bounds
          | some p =>
            let same : Bool := sameTok vs p tok t
            if same then
              let fields := match fieldNameOf p with | some k => fields.insert k tok | none => fields
              let ruleIdx := ruleIdx + 1
              if total = ruleIdx then ⟨true, start, target, fields⟩ else go rest' target ruleIdx start fields
            else
              if total = 0 then ⟨true, target, target, fields⟩ else go rest' target 0 target fields
  go infos 0 0 0 []

/-- replace the matched range by one new token: mark `[start, stop)` Removed, insert at `start` -/
def replaceRange (infos : List (TokInfo F)) (m : Match F) (t : Tok F) : List (TokInfo F) :=
  let s := (infos[m.start]?).map (·.start) |>.getD 0
  let e := (infos[m.stop - 1]?).map (·.stop) |>.getD 0
  let marked := infos.mapIdx fun i ti => if m.start ≤ i && i < m.stop then { ti with active := false } else ti
  marked.take m.start ++ [{ start := s, stop := e, tok := some t, text := "", active := true }] ++ marked.drop m.start

/-- one pass of `rule_tokinizer` over all rules of the language; returns the new infos and
    whether any rule fired -/
def rulePass (c : Cfg F) (lang : String) (now : Now) (vs : Vars F) (rules : List (Rule F))
    (infos : List (TokInfo F)) : List (TokInfo F) × Bool :=
  rules.foldl (fun (acc : List (TokInfo F) × Bool) rule =>
    -- patterns of one rule are tried in order; the first that matches AND whose function succeeds wins
    let rec tryPats (pats : List (List (TokInfo F))) (infos : List (TokInfo F)) : Option (List (TokInfo F)) :=
      match pats with
      | [] => none
      | p :: ps =>
        let m := findMatch vs p infos
        if m.found then
          match applyRule c lang now vs rule.fn m.fields with
          | some t => some (replaceRange infos m t)
          | none => tryPats ps infos
        else tryPats ps infos
    match tryPats rule.patterns acc.1 with
    | some infos' => (infos', true)
    | none => acc) (infos, false)

/-- `rule_tokinizer`: repeat passes while something fired -/
def ruleLoop (c : Cfg F) (lang : String) (now : Now) (vs : Vars F) (rules : List (Rule F)) :
    Nat → List (TokInfo F) → List (TokInfo F)
  | 0, infos => infos
  | fuel + 1, infos =>
    let (infos', fired) := rulePass c lang now vs rules infos
    if fired then ruleLoop c lang now vs rules fuel infos' else infos'

/-- one pass of `dynamic_type_tokinizer` over all unit patterns -/
def unitPass (c : Cfg F) (vs : Vars F) (infos : List (TokInfo F)) : List (TokInfo F) × Bool :=
  c.units.foldl (fun acc fam =>
    fam.2.foldl (fun (acc : List (TokInfo F) × Bool) it =>
      let rec tryPats (pats : List (List (TokInfo F))) (infos : List (TokInfo F)) : Option (List (TokInfo F)) :=
        match pats with
        | [] => none
        | p :: ps =>
          let m := findMatch vs p infos
          match m.found, getNumber vs m.fields "value" with
          | true, some v => some (replaceRange infos m (.item (.dyn v ⟨it.group, it.index⟩)))
          | _, _ => tryPats ps infos
      match tryPats it.parse acc.1 with
      | some infos' => (infos', true)
      | none => acc) acc) (infos, false)

def unitLoop (c : Cfg F) (vs : Vars F) : Nat → List (TokInfo F) → List (TokInfo F)
  | 0, infos => infos
  | fuel + 1, infos =>
    let (infos', fired) := unitPass c vs infos
    if fired then unitLoop c vs fuel infos' else infos'

/-- `TokenInfo == TokenType` used by `find_location` (line info vs variable name token) -/
def infoEqTok (l : TokInfo F) (r : Tok F) : Bool :=
  match l.tok with
  | none => false
  | some a =>
    match a, r with
    | .text x, .text y => lowerEq x y
    | .item (.number x _), .item (.number y _) => Num.beq x y
    | .item (.percent x), .item (.percent y) => Num.beq x y
    | .op x, .op y => x = y
    | .item (.date x zx), .item (.date y zy) => x = y && zoneEq zx zy
    | .item (.duration x), .item (.duration y) => x = y
    | .month x, .month y => x = y
    | .item (.money x cx), .item (.money y cy) => Num.beq x y && cx = cy
    | .tz x ox, .tz y oy => x = y && ox = oy
    | .var x, .var y => x = y
    | .field f, r => tokFieldCompare r f
    | l, .field f => tokFieldCompare l f
    | _, _ => false

/-- does `name` match a prefix of `toks`? -/
def matchesAt (toks : List (TokInfo F)) (name : List (Tok F)) : Bool :=
  match name, toks with
  | [], _ => true
  | _ :: _, [] => false
  | r :: name', t :: toks' => infoEqTok t r && matchesAt toks' name'

/-- `types::find_location` (with the restart repaired in /repo): index of the first position at
    which the whole name matches -/
def findLocation (toks : List (TokInfo F)) (name : List (Tok F)) : Option Nat :=
  match toks with
  | [] => if name.isEmpty then some 0 else none
  | t :: rest =>
    if matchesAt (t :: rest) name then some 0
    else (findLocation rest name).map (· + 1)

/-- index after the first `=` at position ≥ 1 among the infos, else 0 (`update_token_variables`) -/
def varStartIndex (infos : List (TokInfo F)) : Nat :=
  match (infos.drop 1).findIdx? TokInfo.isAssign with
  | some i => i + 2
  | none => 0

/-- a candidate of one substitution round: (start index, variable key, number of name tokens) -/
abbrev Cand := Nat × String × Nat

/-- the selection of `update_token_variables`: a candidate replaces the current best when it
    starts at the same index and is longer, or starts earlier -/
def better (best : Cand) (c : Cand) : Bool := (c.1 = best.1 && best.2.2 < c.2.2) || c.1 < best.1

def pickBest : Option Cand → List Cand → Option Cand
  | best, [] => best
  | none, c :: cs => pickBest (some c) cs
  | some b, c :: cs => pickBest (if better b c then some c else some b) cs

/-- the leftmost occurrence of every variable name in `tail`, in key order -/
def candidates (vs : Vars F) (tail : List (TokInfo F)) : List Cand :=
  vs.filterMap fun kv => (findLocation tail kv.2.toks).map fun i => (i, kv.1, kv.2.toks.length)

/-- one substitution step of `update_token_variables`: closest, then longest variable -/
def varStep (vs : Vars F) (startIdx : Nat) (infos : List (TokInfo F)) : Option (List (TokInfo F)) :=
  let tail := infos.drop startIdx
  match pickBest none (candidates vs tail) with
  | none => none
  | some (idx, name, size) =>
    let rs := startIdx + idx
    let re := rs + size
    let seg := (infos.drop rs).take size
    let s := (seg.head?).map (·.start) |>.getD 0
    let e := (seg.getLast?).map (·.stop) |>.getD 0
    let text := String.join (seg.map (·.text))
    some (infos.take rs ++ [{ start := s, stop := e, tok := some (.var name), text := text, active := true }] ++ infos.drop re)

def varLoop (vs : Vars F) (startIdx : Nat) : Nat → List (TokInfo F) → List (TokInfo F)
  | 0, infos => infos
  | fuel + 1, infos =>
    match varStep vs startIdx infos with
    | some infos' => varLoop vs startIdx fuel infos'
    | none => infos

/-- `update_token_variables` -/
def updateTokenVariables (vs : Vars F) (infos : List (TokInfo F)) : List (TokInfo F) :=
  varLoop vs (varStartIndex infos) (2 * infos.length + 1) infos

/-- `TokenType::to_string` for the kinds a variable name can reasonably contain; other kinds are
    rendered with a marker (never produced by the generators) -/
def tokToString : Tok F → String
  | .item (.number v _) => Num.short v
  | .text s => s
  | .op o => String.singleton o.toChar
  | .item (.percent v) => "%" ++ Num.short v
  | .item (.money v c) => Num.short v ++ " " ++ c
  | .var n => n
  | .month m => toString m
  | .tz n o => n ++ " " ++ toString o
  | .field _ => "field"
  | _ => "<value>"

/-- the textual key `VariableInfo::to_string` -/
def varKey (toks : List (Tok F)) : String := " ".intercalate (toks.map fun t => lowerStr (tokToString t))

/-- the variable an assignment line binds: an existing one (looked up by key) or a new one
    registered at parse time with no value yet -/
def registerVar (vs : Vars F) (nameRange : List (Tok F)) (expr : Ast F) : Ast F × Vars F :=
  match vs.get? (varKey nameRange) with
  | some _ => (.assignment (varKey nameRange) expr, vs)
  | none => (.assignment (varKey nameRange) expr, vs.insert (varKey nameRange) { toks := nameRange, data := .none })

/-- name tokens and expression tokens of an assignment line: the scan for `=` starts at the
    second token (the first token always belongs to the name); `end = index - 1` -/
def assignParts (toks : List (Tok F)) : List (Tok F) × List (Tok F) :=
  let k := match (toks.drop 1).findIdx? (fun t => t.isOpOf .assign) with
    | some i => i + 1          -- index of that `=`
    | none => toks.length      -- no `=` behind the first token: the scan runs off the end
  (toks.take (if k < toks.length then k else toks.length - 1), toks.drop (k + 1))

/-- `AssignmentParser::parse` + `AddSubtractParser::parse` (`SyntaxParser::parse`), returning the
    AST and the session variables (a new variable is registered at parse time). -/
def parseLine (vs : Vars F) (toks : List (Tok F)) : Except Err (Ast F × Vars F) :=
  if toks.any (fun t => t.isOpOf .assign) then
    match parseExpr (assignParts toks).2 with
    | .error e => .error e
    | .ok (.none, rest') =>
      -- map_parser goes on with AddSubtractParser at the current index
      match parseExpr rest' with
      | .error e => .error e
      | .ok (ast, _) => .ok (ast, vs)
    | .ok (expr, _) => .ok (registerVar vs (assignParts toks).1 expr)
  else
    match parseExpr toks with
    | .error e => .error e
    | .ok (ast, _) => .ok (ast, vs)

/-- the name a line assigns to: the tokens in front of `=`, when the line has an `=` -/
def lineName (toks : List (Tok F)) : Option (List (Tok F)) :=
  if toks.any (fun t => t.isOpOf .assign) then some (assignParts toks).1 else none

/-- an admissible variable name: non-empty, no pattern-field token, not a single variable token
    (hypothesis of the termination theorem of the variable loop, see SCP/VarInvariant.lean) -/
def nameOKb (name : List (Tok F)) : Bool :=
  !name.isEmpty && name.all (fun r => match r with | .field _ => false | _ => true) &&
    (match name with | [.var _] => false | _ => true)

/-- outcome of one line, as `ExecuteLine.result` (the output text is produced separately) -/
inductive LineRes (F : Type)
  | ok (v : Val F)
  | err (e : Err)
  deriving Repr

/-- the three rewrite layers R1–R3: variables, units, rules -/
def rewriteInfos (c : Cfg F) (lang : String) (now : Now) (vs : Vars F) (infos : List (TokInfo F)) :
    List (TokInfo F) :=
  let infos := updateTokenVariables vs infos
  let infos := unitLoop c vs (infos.length + 1) infos
  let rules := match c.lang? lang with | some l => l.rules | none => []
  ruleLoop c lang now vs rules (infos.length + 1) infos

/-- post-processing, parser and interpreter on the rewritten token infos -/
def evalTokens (c : Cfg F) (vs : Vars F) (infos : List (TokInfo F)) :
    Vars F × Option (LineRes F × List (TokInfo F) × List (Tok F)) :=
  if infos.isEmpty then (vs, none) else
  match parseLine vs (postProcess infos) with
  | .error e => (vs, some (.err e, infos, postProcess infos))
  | .ok (ast, vs') =>
    match exec c vs' ast with
    | .error e => (vs', some (.err e, infos, postProcess infos))
    | .ok (v, vs'') => (vs'', some (.ok v, infos, postProcess infos))

/-- `execute_text` from the lexed token infos (after the language, regex and alias tokenizers)
    onward.  Returns `none` when the tokenizer yields no token info at all. -/
def evalInfos (c : Cfg F) (lang : String) (now : Now) (vs : Vars F) (infos : List (TokInfo F)) :
    Vars F × Option (LineRes F × List (TokInfo F) × List (Tok F)) :=
  evalTokens c vs (rewriteInfos c lang now vs infos)

/-- is the name the line assigns to admissible, in the session state the line meets? -/
def lineOKb (c : Cfg F) (lang : String) (now : Now) (vs : Vars F) (infos : List (TokInfo F)) : Bool :=
  match lineName (postProcess (rewriteInfos c lang now vs infos)) with
  | some n => nameOKb n
  | none => true

end SC
