/-
  SC.Eval — model of src/compiler/*.rs: `DataItem::calculate` / `unary` for the eight value
  kinds and the `Interpreter`.  Unit conversion (`DynamicTypeItem::convert`) is a parameter
  here (it re-enters the tokenizer / parser / interpreter through `basic_execute`); the knot
  is tied in SC.Units.
-/
import SC.Types
import SC.Chrono
import SC.Parser
namespace SC
variable {F : Type} [Num F]

def MINUTE : Int := 60
def HOUR : Int := 3600
def DAY : Int := 86400
def WEEK : Int := 604800
def MONTH : Int := 2592000
def YEAR : Int := 31536000

/-- range of `chrono::Duration` in whole seconds (`try_seconds`, `checked_add`) -/
def durMax : Int := 9223372036854775
def durOk (s : Int) : Bool := -durMax ≤ s && s ≤ durMax

def applyOp (op : BinOp) (l r : F) : F :=
  match op with
  | .add => Num.add l r
  | .sub => Num.sub l r
  | .mul => Num.mul l r
  | .div => gdiv l r

def hundred : F := Num.ofInt 100

/-- `PercentItem::get_number(other)` for a non-percent `other` with underlying number `x` -/
def percentOf (x p : F) : F := Num.mul (gdiv x hundred) p

/-- `DurationItem::get_high_duration_number` -/
def highDurationNumber (secs : Int) : Int :=
  let d := secs.natAbs
  if d ≥ 31536000 then d / 31536000
  else if d ≥ 2592000 then (d / 2592000) % 30
  else if d ≥ 86400 then d / 86400
  else if d ≥ 3600 then (d / 3600) % 24
  else if d ≥ 60 then (d / 60) % 60
  else d

def rate? (rates : List (String × F)) (code : String) : Option F := assoc? rates code

/-- `MoneyItem::convert_currency`: amount `v` of currency `src` expressed in currency `tgt` -/
def convertCurrency (rates : List (String × F)) (v : F) (src tgt : String) : F :=
  let asUsd : F := match rate? rates src with
    | some r => gdiv v r
    | none => Num.ofInt 0
  match rate? rates tgt with
  | some r => Num.mul asUsd r
  | none => Num.ofInt 0

/-- `DateItem::calculate`, first step: whole 365-day "years" of the duration move the year -/
def dateYears (t : YMD) (secs : Int) (add : Bool) : Option (YMD × Int) :=
  let ny : Int := (secs.natAbs : Int) / YEAR
  if ny = 0 then some (t, secs) else
    match fromYmd? (if add then t.y + ny else t.y - ny) t.m t.d with
    | none => none
    | some t' => if durOk (secs - YEAR * ny) then some (t', secs - YEAR * ny) else none

/-- second step: whole 30-day "months" of the rest move the month (after the repairs in /repo:
    months counted from zero when adding; subtraction wraps to December WITHOUT borrowing a year,
    as pinned by executer_test execute_21..23) -/
def dateMonths (t : YMD) (secs : Int) (add : Bool) : Option (YMD × Int) :=
  let nm : Int := (secs.natAbs : Int) / MONTH
  if nm = 0 then some (t, secs) else
    let target : Option YMD :=
      if add then
        let total : Int := (t.m : Int) - 1 + nm
        fromYmd? (t.y + total / 12) ((total % 12).toNat + 1) t.d
      else
        let months : Int := (t.m : Int) - nm % 12
        fromYmd? (t.y - nm / 12) (if months ≤ 0 then months + 12 else months).toNat t.d
    match target with
    | none => none
    | some t' => if durOk (secs - MONTH * nm) then some (t', secs - MONTH * nm) else none

/-- `DateItem::calculate` (after the repairs in /repo: checked constructors): years, months, then
    the remaining whole days -/
def dateCalc (t : YMD) (secs : Int) (add : Bool) : Option YMD :=
  match dateYears t secs add with
  | none => none
  | some (t1, s1) =>
    match dateMonths t1 s1 add with
    | none => none
    | some (t2, s2) => addDays? t2 (if add then Int.tdiv s2 86400 else -(Int.tdiv s2 86400))

/-- NaiveDateTime range check (the date part must be representable) -/
def dateTimeOk (secs : Int) : Bool := minDay ≤ secs / 86400 && secs / 86400 ≤ maxDay

/-- `DataItem::calculate(config, on_left = true, other, op)`; `conv v u name` is
    `DynamicTypeItem::convert` -/
def calcItem (rates : List (String × F))
    (conv : F → UnitRef → Option F)   -- other quantity converted into self's unit (by its first name)
    (self other : Item F) (op : BinOp) : Option (Item F) :=
  match self with
  | .number v t =>
    match other with
    | .number w _ => some (.number (applyOp op v w) t)
    | .percent p => some (.number (applyOp op v (percentOf v p)) t)
    | _ => none
  | .percent v =>
    match other with
    | .percent w => some (.percent (match op with
        | .add => Num.add v w | .sub => Num.sub v w | .mul => Num.mul v w | .div => Num.div v w))
    | _ => none
  | .money v cur =>
    match other with
    | .number w _ => some (.money (applyOp op v w) cur)
    | .money w cur2 =>
      let w' := convertCurrency rates w cur2 cur
      match op with
      | .div => some (.number (gdiv v w') .decimal)
      | _ => some (.money (applyOp op v w') cur)
    | .percent p => some (.money (applyOp op v (percentOf v p)) cur)
    | .duration s => some (.money (applyOp op v (Num.ofInt (highDurationNumber s))) cur)
    | _ => none
  | .duration s =>
    match other with
    | .duration s2 =>
      match op with
      | .add => if durOk (s + s2) then some (.duration (s + s2)) else none
      | .sub => if durOk (s - s2) then some (.duration (s - s2)) else none
      | _ => none
    | _ => none
  | .time secs tz =>
    let go (right : Int) (negative : Bool) : Option (Item F) :=
      if negative then some (.time (secs - right) tz)
      else match op with
        | .add => some (.time (secs + right) tz)
        | .sub => some (.time (secs - right) tz)
        | _ => none
    match other with
    | .duration s => go ((s.natAbs : Int) % 86400) (s < 0)
    | .time s2 _ => go (s2 % 86400) false
    | _ => none
  | .date d tz =>
    match other with
    | .duration s =>
      match op with
      | .add => (dateCalc d s true).map (.date · tz)
      | .sub => (dateCalc d s false).map (.date · tz)
      | _ => none
    | _ => none
  | .dateTime secs tz =>
    match other with
    | .duration s =>
      match op with
      | .add => if dateTimeOk (secs + s) then some (.dateTime (secs + s) tz) else none
      | .sub => if dateTimeOk (secs - s) then some (.dateTime (secs - s) tz) else none
      | _ => none
    | _ => none
  | .dyn v u =>
    let fin (w : F) (same : Bool) : Option (Item F) :=
      match op with
      | .div => if same then some (.number (gdiv v w) .decimal) else some (.dyn (gdiv v w) u)
      | _ => some (.dyn (applyOp op v w) u)
    match other with
    | .number w _ => fin w false
    | .dyn w u2 => (conv w u2).bind fun w' => fin w' true
    | .percent p => fin (percentOf v p) true
    | _ => none

/-- `DataItem::unary(Minus)` -/
def negItem : Item F → Item F
  | .number v t => .number (Num.mul (Num.ofInt (-1)) v) t
  | .percent v => .percent (Num.mul (Num.ofInt (-1)) v)
  | .money v c => .money (Num.mul (Num.ofInt (-1)) v) c
  | .dyn v u => .dyn (Num.mul (Num.ofInt (-1)) v) u
  | i => i

def binOpOf : Op → Option BinOp
  | .plus => some .add | .minus => some .sub | .mul => some .mul | .div => some .div
  | _ => none

/-- what `execute_ast` returns: `Item`, `Month`, or `None` -/
abbrev Val (F : Type) := VarData F

/-- `Interpreter::execute_ast`, threading the variables (assignments store). -/
def execAst (rates : List (String × F)) (conv : UnitRef → F → UnitRef → Option F) :
    Vars F → Ast F → Except Err (Val F × Vars F)
  | vs, .binary l op r => do
    let (lv, vs) ← execAst rates conv vs l
    let (rv, vs) ← execAst rates conv vs r
    match lv, rv with
    | .item a, .item b =>
      match binOpOf op with
      | none => .error .unknownOp
      | some bop =>
        match calcItem rates (fun w u2 => match a with | .dyn _ u => conv u w u2 | _ => none) a b bop with
        | some i => .ok (.item i, vs)
        | none => .error .unknownCalc
    | _, _ => .error .unknownCalc
  | vs, .assignment name e => do
    let (v, vs) ← execAst rates conv vs e
    match vs.get? name with
    | some info => .ok (v, vs.insert name { info with data := v })
    | none => .ok (v, vs)
  | vs, .var name =>
    match vs.get? name with
    | some info => .ok (info.data, vs)
    | none => .ok (.none, vs)
  | vs, .item i => .ok (.item i, vs)
  | vs, .month m => .ok (.month m, vs)
  | vs, .prefixUnary op a => do
    let (v, vs) ← execAst rates conv vs a
    if op = .plus then .ok (v, vs)
    else if op = .minus then
      match v with
      | .item i => .ok (.item (negItem i), vs)
      | _ => .error .syntax
    else .error .syntax
  | vs, .none => .ok (.none, vs)
  | vs, .field _ => .ok (.none, vs)

end SC
