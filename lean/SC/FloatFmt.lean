/-
  SC.FloatFmt — the "soft-float edge": exact decimal <-> binary64 conversions of Rust `core`
  that the calculator relies on, implemented with integer arithmetic so that the compiled model
  is bit-exact:
    * `str::parse::<f64>`  (correctly rounded, ties to even)      → `parseF64`
    * `format!("{:.N}")`   (exact value, ties to even)            → `fixedStr`
    * `f64::to_string`     (shortest digits that round-trip)      → `shortStr`
  Validated against Rust on every correspondence run (`f64` ops of the harness).
-/
namespace SC

/-- number of bits of `n` (0 for 0) -/
def bitLen (n : Nat) : Nat := if n = 0 then 0 else n.log2 + 1

/-- nearest binary64 to `num/den` (`den > 0`), ties to even; sign applied afterwards -/
def ratToFloat (neg : Bool) (num den : Nat) : Float :=
  if num = 0 || den = 0 then (if neg then -0.0 else 0.0) else
  -- choose e2 with 2^52 ≤ num / (den * 2^e2) < 2^53 (then fix up), e2 ≥ -1074
  let est : Int := (bitLen num : Int) - (bitLen den : Int) - 52
  let quot (e2 : Int) : Nat × Nat × Nat :=
    -- returns (q, r, d) with num/den/2^e2 = q + r/d
    if e2 ≥ 0 then
      let d := den * 2 ^ e2.toNat
      (num / d, num % d, d)
    else
      let n := num * 2 ^ (-e2).toNat
      (n / den, n % den, den)
  let e2 : Int :=
    let (q, _, _) := quot est
    if q ≥ 2 ^ 53 then est + 1 else if q < 2 ^ 52 then est - 1 else est
  let e2 : Int := if e2 < -1074 then -1074 else e2
  let (q, r, d) := quot e2
  let q' := if 2 * r > d || (2 * r = d && q % 2 = 1) then q + 1 else q
  let e2 : Int := if q' ≥ 2 ^ 53 then e2 + 1 else e2
  let q' : Nat := if q' ≥ 2 ^ 53 then q' / 2 else q'
  let bits : Nat :=
    if e2 + 52 > 1023 then 0x7FF0000000000000
    else if q' < 2 ^ 52 then q'
    else ((e2 + 52 + 1023).toNat) * 2 ^ 52 + (q' - 2 ^ 52)
  let bits := if neg then bits + 2 ^ 63 else bits
  Float.ofBits (UInt64.ofNat bits)

/-- exact value of a finite binary64 as (negative, num, den) -/
def floatToRat (x : Float) : Bool × Nat × Nat :=
  let b := x.toBits.toNat
  let neg := b ≥ 2 ^ 63
  let b := b % 2 ^ 63
  let ex : Nat := b / 2 ^ 52
  let man : Nat := b % 2 ^ 52
  if ex = 0 then (neg, man, 2 ^ 1074)
  else
    let m := man + 2 ^ 52
    let e : Int := (ex : Int) - 1075
    if e ≥ 0 then (neg, m * 2 ^ e.toNat, 1) else (neg, m, 2 ^ (-e).toNat)

def digitVal (c : Char) : Nat := c.toNat - '0'.toNat
def isDigit (c : Char) : Bool := '0'.toNat ≤ c.toNat && c.toNat ≤ '9'.toNat

def digitsToNat (cs : List Char) : Nat := cs.foldl (fun a c => a * 10 + digitVal c) 0

/-- `sign? digits* ('.' digits*)?` with at least one digit — the decimal strings the lexer can
    hand to `parse::<f64>` (no exponent, no inf/nan: the regexes only pass `[-+0-9.,]`).
    Returns (negative, numerator, denominator = 10^k). -/
def parseDecimalRat (cs : List Char) : Option (Bool × Nat × Nat) :=
  let (neg, cs) := match cs with
    | '-' :: r => (true, r)
    | '+' :: r => (false, r)
    | _ => (false, cs)
  let ip := cs.takeWhile isDigit
  let rest := cs.dropWhile isDigit
  match rest with
  | [] => if ip.isEmpty then none else some (neg, digitsToNat ip, 1)
  | c :: r =>
    if c = '.' then
      let fp := r.takeWhile isDigit
      if !(r.dropWhile isDigit).isEmpty then none
      else if ip.isEmpty && fp.isEmpty then none
      else some (neg, digitsToNat (ip ++ fp), 10 ^ fp.length)
    else none

/-- `str::parse::<f64>` on such strings -/
def parseF64 (cs : List Char) : Option Float :=
  (parseDecimalRat cs).map fun (neg, n, d) => ratToFloat neg n d

/-- digit character of a value < 16 (upper-case hex digits, as `{:X}` prints them) -/
def radixDigit (d : Nat) : Char := if d < 10 then Char.ofNat (48 + d) else Char.ofNat (55 + d)

/-- value of a digit character in any base up to 16, both letter cases -/
def digitOf (c : Char) : Nat :=
  if c.toNat < 58 then c.toNat - 48 else if c.toNat < 97 then c.toNat - 55 else c.toNat - 87

def natToRadix (radix : Nat) : Nat → Nat → List Char
  | 0, _ => []
  | fuel + 1, n => if n = 0 then [] else natToRadix radix fuel (n / radix) ++ [radixDigit (n % radix)]

/-- digits of `n` in base `radix` (at least one digit, no leading zeros) -/
def radixDigits (radix n : Nat) : List Char :=
  if n = 0 then ['0'] else natToRadix radix (n + 1) n

/-- value of a digit string in base `radix` -/
def radixValue (radix : Nat) (cs : List Char) : Nat := cs.foldl (fun a c => a * radix + digitOf c) 0

def natToDigits (n : Nat) : List Char := radixDigits 10 n

/-- left-pad with zeros to width w -/
def padZeros (w : Nat) (cs : List Char) : List Char := List.replicate (w - cs.length) '0' ++ cs

/-- `format!("{:.N}", |x|)` for the exact rational num/den: round half to even at N decimals.
    Returns (integer digits, fraction digits (exactly N of them)). -/
def fixedParts (num den n : Nat) : List Char × List Char :=
  let scaled := num * 10 ^ n
  let q := scaled / den
  let r := scaled % den
  let q := if 2 * r > den || (2 * r = den && q % 2 = 1) then q + 1 else q
  (natToDigits (q / 10 ^ n), if n = 0 then [] else padZeros n (natToDigits (q % 10 ^ n)))

/-- `format!("{:.N}", x)` (sign included, also for negative zero results as Rust prints them) -/
def fixedStr (x : Float) (n : Nat) : String :=
  if x.isNaN then "NaN" else if x.isInf then (if x < 0 then "-inf" else "inf") else
  let (neg, num, den) := floatToRat x
  let (ip, fp) := fixedParts num den n
  String.ofList ((if neg then ['-'] else []) ++ ip ++ (if n = 0 then [] else '.' :: fp))

/-- the `k` significant digits nearest to num/den (> 0) and the decimal exponent:
    value ≈ d.ddd × 10^e10, returned as (digits as Nat with exactly k digits, e10) -/
def sigDigits (num den k : Nat) : Nat × Int :=
  -- estimate e10 = floor(log10(num/den))
  let est : Int := ((((bitLen num : Int) - (bitLen den : Int)) * 30103) / 100000)
  let scale (e10 : Int) : Nat × Nat :=   -- value / 10^(e10 - k + 1) as (n, d)
    let s : Int := e10 - (k : Int) + 1
    if s ≥ 0 then (num, den * 10 ^ s.toNat) else (num * 10 ^ (-s).toNat, den)
  let fix (e10 : Int) : Int :=
    let (n, d) := scale e10
    let q := n / d
    if q ≥ 10 ^ k then e10 + 1 else if q < 10 ^ (k - 1) then e10 - 1 else e10
  let e10 := fix (fix est)
  let (n, d) := scale e10
  let q := n / d
  let r := n % d
  -- shortest mode of Rust's flt2dec rounds an exact tie up
  let q := if 2 * r ≥ d then q + 1 else q
  if q ≥ 10 ^ k then (q / 10, e10 + 1) else (q, e10)

/-- shortest digit string that parses back to the same double -/
def shortestDigits (x : Float) (num den : Nat) : Nat × Nat × Int :=
  let rec go (k : Nat) (fuel : Nat) : Nat × Nat × Int :=
    match fuel with
    | 0 => let (q, e) := sigDigits num den 17; (17, q, e)
    | fuel + 1 =>
      let (q, e) := sigDigits num den k
      let s : Int := e - (k : Int) + 1
      let back := if s ≥ 0 then ratToFloat false (q * 10 ^ s.toNat) 1 else ratToFloat false q (10 ^ (-s).toNat)
      if back == x.abs then (k, q, e) else go (k + 1) fuel
  go 1 17

/-- `f64::to_string` (Display): shortest round-trip digits, never scientific notation -/
def shortStr (x : Float) : String :=
  if x.isNaN then "NaN" else if x.isInf then (if x < 0 then "-inf" else "inf") else
  let (neg, num, den) := floatToRat x
  let sign := if neg then "-" else ""
  if num = 0 then sign ++ "0" else
  let (k, q, e) := shortestDigits x num den
  -- strip trailing zeros of q
  let ds := natToDigits q
  let ds := (ds.reverse.dropWhile (· = '0')).reverse
  let ds := if ds.isEmpty then ['0'] else ds
  let _ := k
  let body : List Char :=
    if e ≥ 0 then
      let ip := ds.take (e.toNat + 1)
      let ip := ip ++ List.replicate (e.toNat + 1 - ip.length) '0'
      let fp := ds.drop (e.toNat + 1)
      if fp.isEmpty then ip else ip ++ '.' :: fp
    else
      '0' :: '.' :: (List.replicate ((-e).toNat - 1) '0' ++ ds)
  sign ++ String.ofList body

end SC
