/-
  SC.Format — model of src/formatter/mod.rs (`format_number`) and of `DataItem::print` for every
  value kind (src/compiler/*.rs).
-/
import SC.Units
namespace SC
variable {F : Type} [Num F]

/-- split a digit string at its first '.' -/
def splitDot (cs : List Char) : List Char × List Char :=
  (cs.takeWhile (· ≠ '.'), (cs.dropWhile (· ≠ '.')).drop 1)

/-- the grouping loop of `format_number`: a separator after every character that is followed by
    a positive multiple of three characters -/
def groupThousands (sep : List Char) : List Char → List Char
  | [] => []
  | c :: cs =>
    if cs.length > 0 && cs.length % 3 = 0 then c :: sep ++ groupThousands sep cs
    else c :: groupThousands sep cs

/-- are all printed fraction digits zero? -/
def allZero (cs : List Char) : Bool := cs.all (· = '0')

/-- `format_number` (one digit string — fix in /repo): sign, grouped integer digits, and the
    fraction unless it is empty or (removal enabled and all of its digits are zero) -/
def formatNumber (x : F) (thou dec : String) (digits : Nat) (removeZero rounding : Bool) : String :=
  let formatted : List Char := (if rounding then Num.fixed (Num.abs x) digits else Num.short (Num.abs x)).toList
  let parts := splitDot formatted
  -- a negative number whose printed digits are all zero gets no sign (fix in /repo)
  let sign : List Char := if Num.lt x (Num.ofInt 0) && formatted.any (fun c => c != '0' && c != '.') then ['-'] else []
  let frac : List Char :=
    if !parts.2.isEmpty && !(removeZero && allZero parts.2) then dec.toList ++ parts.2 else []
  String.ofList (sign ++ groupThousands thou.toList parts.1 ++ frac)

/-- `as i32` of an integer value (saturating) then two's complement 32-bit pattern -/
def i32Pattern (v : Int) : Nat :=
  let s : Int := if v > 2147483647 then 2147483647 else if v < -2147483648 then -2147483648 else v
  (if s < 0 then s + 4294967296 else s).toNat

/-- `i64` `Display`: sign and decimal digits -/
def intDigits (n : Int) : List Char := (if n < 0 then ['-'] else []) ++ radixDigits 10 n.natAbs

/-- reading of an optionally signed decimal integer text -/
def readIntDigits (cs : List Char) : Int :=
  match cs with
  | '-' :: rest => -((radixValue 10 rest : Nat) : Int)
  | _ => ((radixValue 10 cs : Nat) : Int)

/-- `NumberItem::print` for the based kinds (fix 'every digit' in /repo) and `Raw` -/
def printBased (v : F) (t : NumType) : String :=
  let i : Int := Num.truncInt v   -- every digit (format_radix in /repo); negative values: 32-bit pattern
  let nonneg := !(Num.lt v (Num.ofInt 0))
  match t with
  | .binary => "0b" ++ String.ofList (radixDigits 2 (if nonneg then i.toNat else i32Pattern i))
  | .octal => "0o" ++ String.ofList (radixDigits 8 (if nonneg then i.toNat else i32Pattern i))
  | .hex => "0x" ++ String.ofList (radixDigits 16 (if nonneg then i.toNat else i32Pattern i))
  | _ => String.ofList (intDigits (Num.toInt v))      -- Raw: `as i64`

def replaceStr (s pat rep : String) : String := String.ofList (strReplaceL s.toList pat.toList rep.toList)
where
  strReplaceL (s pat rep : List Char) : List Char :=
    if pat.isEmpty then s else
    let rec go (fuel : Nat) (s : List Char) : List Char :=
      match fuel with
      | 0 => s
      | fuel + 1 =>
        match s with
        | [] => []
        | c :: rest =>
          if pat.isPrefixOf (c :: rest) then rep ++ go fuel ((c :: rest).drop pat.length)
          else c :: go fuel rest
    go (s.length + 1) s

def pad2 (n : Int) : String := if n < 10 then "0" ++ toString n else toString n

/-- `duration_formatter`: the format with `count` parsing to exactly `n`, else the first format
    whose count does not parse as an integer, else the bare number -/
def durationWord (fmts : List DurFmt) (kind : Nat) (placeholder : String) (n : Int) : String :=
  match fmts.find? (fun f => f.kind = kind && (f.count.trimAscii.toString.toInt? = some n)) with
  | some f => replaceStr f.format placeholder (toString n)
  | none =>
    match fmts.find? (fun f => f.kind = kind && f.count.trimAscii.toString.toInt?.isNone) with
    | some f => replaceStr f.format placeholder (toString n)
    | none => toString n

/-- greedy decomposition over a list of (kind, length) units, then the remaining seconds -/
def partsFrom : List (Nat × Int) → Int → List (Nat × Int)
  | [], d => if d > 0 then [(0, d)] else []
  | (k, len) :: us, d => if d ≥ len then (k, d / len) :: partsFrom us (d % len) else partsFrom us d

/-- greedy decomposition used by `DurationItem::print`: (kind, count) parts, kinds 6 … 0 -/
def durationParts (secs : Int) : List (Nat × Int) :=
  partsFrom [(6, YEAR), (5, MONTH), (4, WEEK), (3, DAY), (2, HOUR), (1, MINUTE)] (secs.natAbs : Int)

def durPlaceholder : Nat → String
  | 6 => "{year}" | 5 => "{month}" | 4 => "{week}" | 3 => "{day}" | 2 => "{hour}" | 1 => "{minute}"
  | _ => "{second}"

/-- `DurationItem::print` -/
def printDuration (fmts : List DurFmt) (secs : Int) : String :=
  let words := (durationParts secs).map fun (k, n) => durationWord fmts k (durPlaceholder k) n
  " ".intercalate words

/-- `uppercase_first_letter` for the letters that start month names in the configured
    languages (ASCII plus the Turkish letters) -/
def upperChar (c : Char) : List Char :=
  if 'a' ≤ c && c ≤ 'z' then [Char.ofNat (c.toNat - 32)]
  else if c = 'ş' then ['Ş'] else if c = 'ç' then ['Ç'] else if c = 'ö' then ['Ö']
  else if c = 'ü' then ['Ü'] else if c = 'ğ' then ['Ğ'] else if c = 'ı' then ['I'] else [c]

def upperFirst (s : String) : String :=
  match s.toList with
  | [] => ""
  | c :: rest => String.ofList (upperChar c ++ rest)

/-- local civil time of an instant in a zone -/
def localSecs (secs : Int) (tz : Zone) : Int := secs + tz.off * 60

/-- `TimeItem::print`: `%H:%M:%S ZONE` -/
def printTime (secs : Int) (tz : Zone) : String :=
  let s := (localSecs secs tz) % 86400
  pad2 (s / 3600) ++ ":" ++ pad2 ((s % 3600) / 60) ++ ":" ++ pad2 (s % 60) ++ " " ++ tz.name

/-- `DateItem::print` / `DateTimeItem::print`: substitution of the placeholders -/
def fillDate (fmt : String) (lang : Lang F) (t : YMD) (hms : Option (Int × Int × Int)) (tzName : String) : String :=
  match lang.months[t.m - 1]? with
  | none => "?"
  | some (short, long) =>
    let s := fmt
    let s := match hms with
      | some (h, mi, se) =>
        let s := replaceStr s "{second_pad}" (pad2 se)
        let s := replaceStr s "{minute_pad}" (pad2 mi)
        let s := replaceStr s "{hour_pad}" (pad2 h)
        let s := replaceStr s "{second}" (toString se)
        let s := replaceStr s "{minute}" (toString mi)
        replaceStr s "{hour}" (toString h)
      | none => s
    let s := replaceStr s "{day}" (toString t.d)
    let s := replaceStr s "{month}" (toString t.m)
    let s := replaceStr s "{day_pad}" (pad2 t.d)
    let s := replaceStr s "{month_pad}" (pad2 t.m)
    let s := replaceStr s "{month_long}" (upperFirst long)
    let s := replaceStr s "{month_short}" (upperFirst short)
    let s := replaceStr s "{year}" (toString t.y)
    replaceStr s "{timezone}" tzName

/-- the language whose formats are used for printing: the session language, else `en` -/
def printLang (c : Cfg F) (lang : String) : Option (Lang F) :=
  match c.lang? lang with
  | some l => some l
  | none => c.lang? "en"

/-- `DataItem::print` -/
def printItem (c : Cfg F) (lang : String) (now : Now) (i : Item F) : String :=
  match i with
  | .number v t =>
    match t with
    | .decimal => formatNumber v c.thou c.dec c.numFmt.digits c.numFmt.removeZero c.numFmt.rounding
    | _ => printBased v t
  | .percent v => "%" ++ formatNumber v c.thou c.dec c.pctFmt.digits c.pctFmt.removeZero c.pctFmt.rounding
  | .money v code =>
    match assoc? c.currencies (lowerStr code) with
    | none => "?"
    | some cur =>
      let p := formatNumber v c.thou c.dec cur.digits c.moneyRemoveZero c.moneyRounding
      match cur.symbolOnLeft, cur.space with
      | true, true => cur.symbol ++ " " ++ p
      | true, false => cur.symbol ++ p
      | false, true => p ++ " " ++ cur.symbol
      | false, false => p ++ cur.symbol
  | .duration s =>
    match printLang c lang with
    | some l => printDuration l.durFmts s
    | none => ""
  | .time s tz => printTime s tz
  | .date d tz =>
    match printLang c lang with
    | none => ""
    | some l =>
      let key := if d.y = (dateOfSecs now.secs).y then "current_year" else "full_date"
      match assoc? l.dateFmts key with
      | some fmt => fillDate fmt l d none tz.name
      | none => "?"
  | .dateTime s tz =>
    match printLang c lang with
    | none => ""
    | some l =>
      let ls := localSecs s tz
      let d := dateOfSecs ls
      let sod := ls % 86400
      let key := if d.y = (dateOfSecs now.secs).y then "current_year_with_time" else "full_date_time"
      match assoc? l.dateFmts key with
      | some fmt => fillDate fmt l d (some (sod / 3600, (sod % 3600) / 60, sod % 60)) tz.name
      | none => "?"
  | .dyn v u =>
    match (assoc? c.units u.group).bind (findItem? · u.index) with
    | none => "?"
    | some it =>
      replaceStr it.format "{value}"
        (formatNumber v c.thou c.dec (it.digits.getD 2) (it.removeZero.getD true) (it.rounding.getD true))

end SC
