/-
  SC.LexGen — the lexer environment assembled from the regenerated tables.
-/
import SC.Lexer
import SC.Gen.Regexes
import SC.Gen.Unicode
namespace SC.Gen
open SC

/-- the tokenizer data of `SmartCalcConfig::default()` -/
def lexEnv : LexEnv :=
  ⟨utables, parseRegexes, aliasRegexes, langAliasRegexes, monthRegexes, typeGroups, regexParserOrder⟩

end SC.Gen
