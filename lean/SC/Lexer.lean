/-
  SC.Lexer — model of the tokenizers that turn a line of text into token infos
  (src/tokinizer/mod.rs `Tokinizer::token_infos`: `language_tokinizer`, `regex_tokinizer`,
  `alias_tokinizer`; src/tokinizer/regex_tokinizer/*.rs; src/tools.rs `parse_timezone`).

  The regular expressions, alias words and month names are data (`LexEnv`), regenerated from
  config.json by the translator (`SC/Gen/Regexes.lean`); the Unicode tables come from the
  implementation's own regex crate (`SC/Gen/Unicode.lean`).

  `none` means "outside the model" (then no claim is made and the correspondence run counts the
  line as unsupported): the constant `now` (sub-second clock), atoms whose numbers use the
  exponent / inf / nan syntax of `f64::from_str`, and lower-casing of a capital sigma (the
  final-sigma rule of `str::to_lowercase`).
-/
import SC.Rules
import SC.Units
import SC.Regex
import SC.Ui
namespace SC
variable {F : Type} [Num F]

/-- the data the tokenizers work from -/
structure LexEnv where
  T : UTables
  parse : List (String × List NRe)
  alias : List (NRe × String)
  langAlias : List (String × List (NRe × String))
  months : List (String × List (NRe × Nat))
  typeGroups : List (String × List String)
  order : List String
  deriving Inhabited

/-- a line: its characters and the byte offset of every character index (one more entry for the end) -/
structure LineBuf where
  cs : Array Char
  boff : Array Nat
  deriving Inhabited

def LineBuf.ofChars (l : List Char) : LineBuf :=
  let offs := l.foldl (fun (acc : Array Nat × Nat) c => (acc.1.push acc.2, acc.2 + c.utf8Size)) (#[], 0)
  ⟨l.toArray, offs.1.push offs.2⟩

def LineBuf.byte (b : LineBuf) (i : Nat) : Nat := b.boff[i]!

def LineBuf.sub (b : LineBuf) (s e : Nat) : List Char := (b.cs.toList.drop s).take (e - s)

/-- `map_case`: the mapped copy and, for every character of the copy, the index of the character it comes from -/
def mapCase (t : Array (Nat × List Nat)) (cs : Array Char) : Array Char × Array Nat :=
  let r := cs.foldl (fun (acc : Array Char × Array Nat × Nat) c =>
    let m := UTables.mapChar t c
    (acc.1 ++ m.toArray, acc.2.1 ++ (m.map fun _ => acc.2.2).toArray, acc.2.2 + 1)) (#[], #[], 0)
  (r.1, r.2.1)

/-- `original_range` in character indices: span `[s, e)` of the copy ↦ span of the line -/
def originalRange (n : Nat) (src : Array Nat) (s e : Nat) : Nat × Nat :=
  let os := if h : s < src.size then src[s] else n
  let oe := if e = 0 then os else (if h : e - 1 < src.size then src[e - 1] + 1 else os)
  (os, oe)

/-- `str::to_lowercase` without the final-sigma rule; `none` if the text contains a capital sigma -/
def strLower (T : UTables) (s : List Char) : Option (List Char) :=
  if s.any (fun c => c.toNat = 931) then none else some (s.flatMap (UTables.mapChar T.lower))

/-- `add_token_location`: the overlap test is the implementation's (a new span that strictly
    contains an old one is not detected) -/
def addTokenLocation (toks : List (TokInfo F)) (s e : Nat) (tok : Option (Tok F)) (text : String) :
    List (TokInfo F) × Bool :=
  if toks.any (fun it => (it.start ≤ s && it.stop > s) || (it.start < e && it.stop ≥ e)) then (toks, false)
  else (toks ++ [⟨s, e, tok, text, true⟩], true)

def insertByStart (t : TokInfo F) : List (TokInfo F) → List (TokInfo F)
  | [] => [t]
  | x :: rest => if t.start < x.start then t :: x :: rest else x :: insertByStart t rest

/-- `cleanup_token_infos`: drop the infos without a token, stable sort by start -/
def cleanupInfos (toks : List (TokInfo F)) : List (TokInfo F) :=
  (toks.filter (·.tok.isSome)).foldl (fun acc t => insertByStart t acc) []

/-- `str::parse::<f64>`: `some none` = parse error, `none` = syntax outside the model (exponent, inf, nan) -/
def parseFloatText (s : List Char) : Option (Option F) :=
  if s.all (fun c => isDigit c || c = '.' || c = '+' || c = '-') then some (Num.parseDec s)
  else if s.any (fun c => c = 'e' || c = 'E' || c = 'i' || c = 'I' || c = 'n' || c = 'N') then none
  else some none

/-- multiplier of a magnitude suffix (`k K M G T P Z Y`), 1 for anything else -/
def notationFactor (s : List Char) : Nat :=
  match notationMul s with
  | some k => 1000 ^ k
  | none => 1

def applyNotation (v : F) (s : List Char) : F :=
  Num.mul v (Num.ofRat false (notationFactor s) 1)

def isHexDigit (c : Char) : Bool := isDigit c || ('a' ≤ c && c ≤ 'f') || ('A' ≤ c && c ≤ 'F')

/-- lexer state: token infos in the order they were claimed, and the highlight requests
    (`add_from_byte_range`: byte start, byte end, `UiTokenType`) in the order they were made -/
structure LexSt (F : Type) where
  toks : List (TokInfo F) := []
  ui : List (Nat × Nat × String) := []
  deriving Inhabited

/-- run `f` over all matches of all regexes of a parser, in order; `none` = outside the model -/
def overMatches (T : UTables) (cs : Array Char) (res : List NRe) (st : LexSt F)
    (f : LexSt F → NRe → RMatch → Option (LexSt F)) : Option (LexSt F) :=
  res.foldl (fun acc re => acc.bind fun st =>
    (Re.all T cs re.re).foldl (fun acc m => acc.bind fun st => f st re m) (some st)) (some st)

def capText (b : LineBuf) (re : NRe) (m : RMatch) (name : String) : Option (List Char) :=
  (re.cap m name).map fun (s, e) => b.sub s e

def addSpan (b : LineBuf) (st : LexSt F) (s e : Nat) (tok : Option (Tok F)) (text : List Char) : LexSt F × Bool :=
  let r := addTokenLocation st.toks (b.byte s) (b.byte e) tok (String.ofList text)
  ({ st with toks := r.1 }, r.2)

/-- `add_uitoken_from_match` on a character span -/
def LexSt.hl (st : LexSt F) (b : LineBuf) (s e : Nat) (kind : String) : LexSt F :=
  { st with ui := st.ui ++ [(b.byte s, b.byte e, kind)] }

/-- `add_uitoken_from_match(capture.name(..))`: nothing when the group took no part -/
def LexSt.hlCap (st : LexSt F) (b : LineBuf) (re : NRe) (m : RMatch) (name kind : String) : LexSt F :=
  match re.cap m name with
  | some (s, e) => st.hl b s e kind
  | none => st

/-- continue with `f` when the token was accepted -/
def onAdded (r : LexSt F × Bool) (f : LexSt F → LexSt F) : LexSt F := if r.2 then f r.1 else r.1

/-- `get_atom` on a text: the tokens of its `[KIND:data]` atoms -/
def getAtoms (env : LexEnv) (c : Cfg F) (now : Now) (text : List Char) : Option (List (Tok F)) :=
  let b := LineBuf.ofChars text
  let res := (assoc? env.parse "atom").getD []
  res.foldl (fun acc re => acc.bind fun out =>
    (Re.all env.T b.cs re.re).foldl (fun acc m => acc.bind fun out =>
      match capText b re m "ATOM", capText b re m "DATA" with
      | some kind, some data =>
        if kind = "TIME".toList then
          -- `parse::<u32>`: digits with an optional '+'
          let ds := match data with | '+' :: r => r | _ => data
          if ds.isEmpty || !ds.all isDigit then some out
          else
            let secs := digitsToNat ds
            if secs < 86400 && secs < 2 ^ 32 then
              some (out ++ [.item (.time (now.secs - now.secs % 86400 + secs) c.tz)])
            else some out
        else if kind = "MONEY".toList then
          match (String.ofList data).splitOn ";" with
          | [p, cur] =>
            match parseFloatText (F := F) p.toList with
            | none => none
            | some none => some out
            | some (some price) =>
              -- `config.get_currency`: exact key in the lower-cased table
              match assoc? c.currencies cur with
              | some ci => some (out ++ [.item (.money price ci.code)])
              | none => some out
          | _ => some out
        else if kind = "NUMBER".toList then
          match parseFloatText (F := F) data with
          | none => none
          | some none => some out
          | some (some v) => some (out ++ [.item (.number v .decimal)])
        else if kind = "PERCENT".toList then
          match parseFloatText (F := F) data with
          | none => none
          | some none => some out
          | some (some v) => some (out ++ [.item (.percent v)])
        else if kind = "OPERATOR".toList then
          match data with
          | ch :: _ => some (out ++ [.op (Op.ofChar ch)])
          | [] => some out
        else some out
      | _, _ => some out) (some out)) (some [])

/-- `get_atom` with positions, for `atom_regex_parser` -/
def atomParser (env : LexEnv) (c : Cfg F) (now : Now) (b : LineBuf) (res : List NRe) (st : LexSt F) : Option (LexSt F) :=
  overMatches env.T b.cs res st fun st _ m =>
    match getAtoms env c now (b.sub m.start m.stop) with
    | none => none
    | some [t] => some (addSpan b st m.start m.stop (some t) (b.sub m.start m.stop)).1
    | some _ => some st

def commentParser (env : LexEnv) (b : LineBuf) (res : List NRe) (st : LexSt F) : Option (LexSt F) :=
  overMatches env.T b.cs res st fun st _ m =>
    some (onAdded (addSpan b st m.start m.stop none (b.sub m.start m.stop)) fun st => st.hl b m.start m.stop "Comment")

def fieldType (env : LexEnv) (c : Cfg F) (lang : String) (kind name : String) (extra : Option String) : Option Field :=
  if kind = "DATE_TIME" then some (.dateTime name) else if kind = "DATE" then some (.date name)
  else if kind = "TIME" then some (.time name) else if kind = "NUMBER" then some (.number name)
  else if kind = "MONEY" then some (.money name) else if kind = "PERCENT" then some (.percent name)
  else if kind = "MONTH" then some (.month name) else if kind = "TIMEZONE" then some (.timezone name)
  else if kind = "DURATION" then some (.duration name)
  else if kind = "DYNAMIC_TYPE" then some (.dyn name extra)
  else if kind = "TEXT" then some (.text name extra)
  else if kind = "GROUP" then
    ((c.lang? lang).bind fun l => assoc? l.groups (extra.getD "")).map fun items => .group name items
  else (assoc? env.typeGroups kind).map fun ts => .typeGroup ts name

def fieldParser (env : LexEnv) (c : Cfg F) (lang : String) (b : LineBuf) (res : List NRe) (st : LexSt F) : Option (LexSt F) :=
  overMatches env.T b.cs res st fun st re m =>
    match capText b re m "FIELD", capText b re m "NAME" with
    | some k, some n =>
      match fieldType env c lang (String.ofList k) (String.ofList n) ((capText b re m "EXTRA").map String.ofList) with
      | some f => some (addSpan b st m.start m.stop (some (.field f)) (b.sub m.start m.stop)).1
      | none => some st
    | _, _ => some st

def moneyParser (env : LexEnv) (c : Cfg F) (b : LineBuf) (res : List NRe) (st : LexSt F) : Option (LexSt F) :=
  overMatches env.T b.cs res st fun st re m =>
    match capText b re m "PRICE", re.cap m "PRICE" with
    | some priceText, some (_, priceEnd) =>
      match readLiteral (F := F) c.dec c.thou priceText with
      | none => some st
      | some p0 =>
        let price := match capText b re m "NOTATION" with
          | some nt => applyNotation p0 nt
          | none => p0
        match capText b re m "CURRENCY", re.cap m "CURRENCY" with
        | some cur, some (curStart, curEnd) =>
          -- '0xCD' is a hexadecimal literal, not zero XCD
          let hexPrefix := priceText = ['0'] && curStart = priceEnd &&
            (match cur with | x :: rest => (x = 'x' || x = 'X') && rest.all isHexDigit | [] => false)
          -- digits and letters in the middle of a hexadecimal literal belong to that number
          let inHex := cur.all isHexDigit &&
            (let before := (b.sub 0 m.start).reverse.dropWhile isHexDigit
             match before with
             | x :: z :: _ => (x = 'x' || x = 'X') && z = '0'
             | _ => false)
          if hexPrefix || inHex then some st else
          match readCurrency c (String.ofList cur) with
          | none => some st
          | some code =>
            let stop := match re.cap m "NOTATION" with
              | some (_, e) => e
              | none => curEnd
            some (onAdded (addSpan b st m.start stop (some (.item (.money price code))) priceText) fun st =>
              ((st.hlCap b re m "PRICE" "Number").hlCap b re m "CURRENCY" "Symbol1").hlCap b re m "NOTATION" "Symbol2")
        | _, _ => some st
    | _, _ => some st

def percentParser (env : LexEnv) (c : Cfg F) (b : LineBuf) (res : List NRe) (st : LexSt F) : Option (LexSt F) :=
  overMatches env.T b.cs res st fun st re m =>
    match capText b re m "NUMBER" with
    | some t =>
      match readLiteral (F := F) c.dec c.thou t with
      | some v =>
        some (onAdded (addSpan b st m.start m.stop (some (.item (.percent v))) (b.sub m.start m.stop)) fun st =>
          (st.hlCap b re m "NUMBER" "Number").hlCap b re m "PERCENT" "Symbol2")
      | none => some st
    | none => some st

/-- `parse::<i32>` of a short digit string -/
def parseSmallInt (s : List Char) : Option Nat :=
  if s.isEmpty || !s.all isDigit then none else some (digitsToNat s)

/-- `tools::parse_timezone` on a match in the upper-cased copy -/
def parseTimezone (c : Cfg F) (mb : LineBuf) (re : NRe) (m : RMatch) : Option (String × Int) :=
  match capText mb re m "timezone_1" with
  | some tz => (assoc? c.zones (String.ofList tz)).map fun off => (String.ofList tz, off)
  | none =>
    match capText mb re m "timezone_2" with
    | some tz =>
      match (capText mb re m "timezone_hour").bind parseSmallInt with
      | none => none
      | some h =>
        let minute : Option Nat := match capText mb re m "timezone_minute" with
          | some mm => parseSmallInt mm
          | none => some 0
        match minute with
        | none => none
        | some mi =>
          let sign : Int := match capText mb re m "timezone_type" with
            | some t => if t = ['-'] then -1 else 1
            | none => 1
          some (String.ofList tz, ((h * 60 + mi : Nat) : Int) * sign)
    | none => none

def timezoneParser (env : LexEnv) (c : Cfg F) (b : LineBuf) (res : List NRe) (st : LexSt F) : Option (LexSt F) :=
  let (mapped, src) := mapCase env.T.upper b.cs
  let mb : LineBuf := ⟨mapped, #[]⟩
  overMatches env.T mapped res st fun st re m =>
    match parseTimezone c mb re m with
    | some (name, off) =>
      let (s, e) := originalRange b.cs.size src m.start m.stop
      some (onAdded (addSpan b st s e (some (.tz name off)) (mb.sub m.start m.stop)) fun st =>
        match re.cap m "timezone" with
        | some (gs, ge) => let (os, oe) := originalRange b.cs.size src gs ge; st.hl b os oe "Symbol1"
        | none => st)
    | none => some st

def timeParser (env : LexEnv) (c : Cfg F) (now : Now) (b : LineBuf) (res : List NRe) (st : LexSt F) : Option (LexSt F) :=
  overMatches env.T b.cs res st fun st re m =>
    match (capText b re m "hour").bind parseSmallInt with
    | none => some st
    | some h0 =>
      let (minute, e1) := match re.cap m "minute", (capText b re m "minute").bind parseSmallInt with
        | some (_, e), some v => (v, e)
        | _, _ => (0, 0)
      let (second, e2) := match re.cap m "second", (capText b re m "second").bind parseSmallInt with
        | some (_, e), some v => (v, e)
        | _, _ => (0, e1)
      let (hour, e3) := match re.cap m "meridiem", capText b re m "meridiem" with
        | some (_, e), some mer =>
          let pm := mer.map Char.toLower = ['p', 'm']
          (if pm && h0 < 12 then h0 + 12 else h0, e)
        | _, _ => (h0, e2)
      let secs : Int := now.secs - now.secs % 86400 + (hour * 3600 + minute * 60 + second : Nat) - c.tz.off * 60
      some (onAdded (addSpan b st m.start e3 (some (.item (.time secs c.tz))) (b.sub m.start m.stop)) fun st =>
        st.hl b m.start m.stop "DateTime")

/-- `parse_radix`: the nearest double of the integer the digits denote, whatever their number -/
def parseRadix (digits : List Char) (radix : Nat) : F :=
  Num.ofRat false (digits.foldl (fun a ch => a * radix + digitOf ch) 0) 1

def numberParser (env : LexEnv) (c : Cfg F) (b : LineBuf) (res : List NRe) (st : LexSt F) : Option (LexSt F) :=
  overMatches env.T b.cs res st fun st re m =>
    let whole := b.sub m.start m.stop
    let based (name : String) (radix : Nat) (t : NumType) : Option (LexSt F) :=
      match re.cap m name, capText b re m name with
      | some (_, e), some ds =>
        some (onAdded (addSpan b st m.start e (some (.item (.number (parseRadix ds radix) t))) whole) fun st =>
          st.hlCap b re m (name ++ "_FULL") "Number")
      | _, _ => none
    if (re.cap m "BINARY").isSome then (based "BINARY" 2 .binary).orElse fun _ => some st
    else if (re.cap m "HEX").isSome then (based "HEX" 16 .hex).orElse fun _ => some st
    else if (re.cap m "OCTAL").isSome then (based "OCTAL" 8 .octal).orElse fun _ => some st
    else
      match re.cap m "DECIMAL", capText b re m "DECIMAL" with
      | some (_, de), some dt =>
        match readLiteral (F := F) c.dec c.thou dt with
        | none =>
          -- a '.' or ',' at the end that makes the literal unreadable is punctuation behind the number ('apr 29, 2020' under
          -- decimal '.' without a thousands separator)
          let trimmed := (dt.reverse.dropWhile (fun ch => ch = '.' || ch = ',')).reverse
          if trimmed.length < dt.length && (re.cap m "NOTATION").isNone then
            match readLiteral (F := F) c.dec c.thou trimmed, re.cap m "DECIMAL" with
            | some v, some (ds, _) =>
              some (onAdded (addSpan b st m.start (ds + trimmed.length) (some (.item (.number v .decimal))) whole) fun st =>
                st.hl b ds (ds + trimmed.length) "Number")
            | _, _ => some st
          else some st
        | some v =>
          let (v, stop) := match re.cap m "NOTATION", capText b re m "NOTATION" with
            | some (_, ne), some nt => (applyNotation v nt, if notationFactor nt ≠ 1 then ne else de)
            | _, _ => (v, de)
          some (onAdded (addSpan b st m.start stop (some (.item (.number v .decimal))) whole) fun st =>
            (st.hlCap b re m "DECIMAL" "Number").hlCap b re m "NOTATION" "Symbol2")
      | _, _ =>
        -- no named group took part: `parse_end` stays 0 and the value 0
        some { st with toks := (addTokenLocation st.toks (b.byte m.start) 0 (some (.item (.number (Num.ofInt 0) .decimal))) (String.ofList whole)).1 }

def textParser (env : LexEnv) (c : Cfg F) (lang : String) (now : Now) (b : LineBuf) (res : List NRe) (st : LexSt F) : Option (LexSt F) :=
  overMatches env.T b.cs res st fun st re m =>
    match capText b re m "TEXT" with
    | none => some st
    | some t =>
      let word := String.ofList t
      let whole := b.sub m.start m.stop
      let st? : Option (LexSt F) :=
        match constantOf c lang word with
        | some k =>
          if k = 11 then none      -- `now`: the sub-second clock is outside the model
          else match constDate now k with
            | some d => some (onAdded (addSpan b st m.start m.stop (some (.item (.date d c.tz))) whole) fun st => st.hl b m.start m.stop "DateTime")
            | none => some st
        | none => some st
      st?.map fun st => onAdded (addSpan b st m.start m.stop (some (.text word)) whole) fun st =>
        st.hl b m.start m.stop (if (readCurrency c word).isSome then "Symbol1" else "Text")

def whitespaceParser (env : LexEnv) (b : LineBuf) (res : List NRe) (st : LexSt F) : Option (LexSt F) :=
  overMatches env.T b.cs res st fun st _ m => some (addSpan b st m.start m.stop none (b.sub m.start m.stop)).1

def operatorParser (env : LexEnv) (b : LineBuf) (res : List NRe) (st : LexSt F) : Option (LexSt F) :=
  overMatches env.T b.cs res st fun st _ m =>
    match b.sub m.start m.stop with
    | ch :: _ => some (onAdded (addSpan b st m.start m.stop (some (.op (Op.ofChar ch))) (b.sub m.start m.stop)) fun st =>
        st.hl b m.start m.stop "Operator")
    | [] => some st

def runParser (env : LexEnv) (c : Cfg F) (lang : String) (now : Now) (b : LineBuf) (key : String) (st : LexSt F) : Option (LexSt F) :=
  match assoc? env.parse key with
  | none => some st
  | some res =>
    if key = "comment" then commentParser env b res st
    else if key = "field" then fieldParser env c lang b res st
    else if key = "money" then moneyParser env c b res st
    else if key = "atom" then atomParser env c now b res st
    else if key = "percent" then percentParser env c b res st
    else if key = "timezone" then timezoneParser env c b res st
    else if key = "time" then timeParser env c now b res st
    else if key = "number" then numberParser env c b res st
    else if key = "text" then textParser env c lang now b res st
    else if key = "whitespace" then whitespaceParser env b res st
    else if key = "operator" then operatorParser env b res st
    else some st

/-- `regex_tokinizer` -/
def regexTokinizer (env : LexEnv) (c : Cfg F) (lang : String) (now : Now) (b : LineBuf) (st : LexSt F) : Option (LexSt F) :=
  (env.order.foldl (fun acc key => acc.bind (runParser env c lang now b key)) (some st)).map fun st =>
    { st with toks := cleanupInfos st.toks }

/-- `month_parser` on the lower-cased copy -/
def monthParser (env : LexEnv) (lang : String) (b : LineBuf) (st : LexSt F) : LexSt F :=
  match assoc? env.months lang with
  | none => st
  | some months =>
    let (mapped, src) := mapCase env.T.lower b.cs
    let mb : LineBuf := ⟨mapped, #[]⟩
    months.foldl (fun st (re, month) =>
      (Re.all env.T mapped re.re).foldl (fun st m =>
        let (s, e) := originalRange b.cs.size src m.start m.stop
        onAdded (addSpan b st s e (some (.month month)) (mb.sub m.start m.stop)) fun st => st.hl b s e "Month") st) st

/-- `language_tokinizer` -/
def languageTokinizer (env : LexEnv) (lang : String) (b : LineBuf) (st : LexSt F) : Option (LexSt F) :=
  let st? := match assoc? env.parse "comment" with
    | some res => commentParser env b res st
    | none => some st
  st?.map fun st => let st := monthParser env lang b st; { st with toks := cleanupInfos st.toks }

/-- one alias table applied to every token info -/
def aliasPass (env : LexEnv) (c : Cfg F) (now : Now) (table : List (NRe × String)) (st : List (TokInfo F)) : Option (List (TokInfo F)) :=
  st.mapM fun ti =>
    match strLower env.T ti.text.toList with
    | none => none
    | some low =>
      let lowArr := low.toArray
      let rec go : List (NRe × String) → Option (TokInfo F)
        | [] => some ti
        | (re, data) :: rest =>
          if Re.isMatch env.T lowArr re.re then
            match getAtoms env c now data.toList with
            | none => none
            | some [t] => some { ti with tok := some t }
            | some [] => some { ti with tok := some (.text data) }
            | some _ => go rest
          else go rest
      go table

/-- `alias_tokinizer` -/
def aliasTokinizer (env : LexEnv) (c : Cfg F) (lang : String) (now : Now) (st : List (TokInfo F)) : Option (List (TokInfo F)) :=
  (aliasPass env c now env.alias st).bind fun st =>
    match assoc? env.langAlias lang with
    | some table => aliasPass env c now table st
    | none => some st

/-- the three tokenizers; returns the token infos and the highlight requests made on the way -/
def lexFull (env : LexEnv) (c : Cfg F) (lang : String) (now : Now) (line : List Char) :
    Option (List (TokInfo F) × List (Nat × Nat × String)) :=
  let b := LineBuf.ofChars line
  (languageTokinizer env lang b {}).bind fun st =>
    (regexTokinizer env c lang now b st).bind fun st =>
      (aliasTokinizer env c lang now st.toks).map fun toks => (toks, st.ui)

/-- `Tokinizer::token_infos`: the token infos of a line -/
def lexText (env : LexEnv) (c : Cfg F) (lang : String) (now : Now) (line : List Char) : Option (List (TokInfo F)) :=
  (lexFull env c lang now line).map (·.1)

/-- the highlight collection of a line as the tokenizers leave it (before variables, units and rules merge spans) -/
def lexUi (env : LexEnv) (c : Cfg F) (lang : String) (now : Now) (line : List Char) : Option UiColl :=
  (lexFull env c lang now line).map fun r =>
    ((UiColl.new line).run (r.2.map fun a => .range a.1 a.2.1 a.2.2)).sort

end SC
