/-
  SC.Parser — model of src/syntax/*.rs.

  The Rust parser keeps an index into the token vector and saves / restores it; here the
  state is the remaining suffix of the token list ("not consuming" = returning the list
  unchanged).  All loops take one fuel argument (sufficiency: SCP.C01 / SCP.C02).
-/
import SC.Types
import SC.Post
namespace SC
variable {F : Type} [Num F]

abbrev PRes (F : Type) := Except Err (Ast F × List (Tok F))

/-- operators of the precedence levels: 0 AddSubtract, 1 Modulo, 2 MultiplyDivide -/
def levelOps : Nat → List Op
  | 0 => [.plus, .minus]
  | 1 => [.pct]
  | _ => [.mul, .div]

/-- `match_operator` -/
def matchOp (ops : List Op) : List (Tok F) → Option (Op × List (Tok F))
  | .op o :: rest => if ops.contains o then some (o, rest) else none
  | _ => none

def signOf (o : Op) : Int := if o = .minus then -1 else 1

/-- `PrimativeParser::parse_basic_primatives` -/
def parseBasic : List (Tok F) → PRes F
  | [] => .error .noMoreToken
  | t :: rest =>
    match t with
    | .tz _ _ | .text _ => .ok (.none, rest)
    | .item i => .ok (.item i, rest)
    | .field f => .ok (.field f, rest)
    | .var n => .ok (.var n, rest)
    | .op _ | .month _ => .error .noMoreToken

/-- the operand part of `UnaryParser::parse_prefix_unary` for operand tokens that are not `(`
    (the operand token is consumed — fix 4ea052a in /repo) -/
def prefixOperand (o : Op) (t : Tok F) : Option (Ast F) :=
  match t with
  | .item (.number v nt) => some (.item (.number (Num.mul v (Num.ofInt (signOf o))) nt))
  | .var n => some (.prefixUnary o (.var n))
  | .item (.percent p) => some (.prefixUnary o (.item (.percent p)))
  | .item (.money v c) => some (.prefixUnary o (.item (.money v c)))
  | _ => none

def Op.isSign (o : Op) : Bool := o = .minus || o = .plus

mutual
/-- `parse_binary::<T>` for level `lvl` (0,1,2), `UnaryParser::parse` for level 3 -/
def parseLevel : Nat → Nat → List (Tok F) → PRes F
  | 0, _, _ => .error .other
  | fuel + 1, lvl, ts =>
    if lvl ≥ 3 then parseUnary fuel ts
    else
      match parseLevel fuel (lvl + 1) ts with
      | .error e => .error e
      | .ok (.none, ts') => .ok (.none, ts')
      | .ok (left, ts') => binLoop fuel lvl left ts'

/-- the outer `loop` of `parse_binary` -/
def binLoop : Nat → Nat → Ast F → List (Tok F) → PRes F
  | 0, _, _, _ => .error .other
  | fuel + 1, lvl, left, ts =>
    match matchOp (levelOps lvl) ts with
    | none => .ok (left, ts)
    | some (o, ts1) =>
      match rightLoop fuel lvl ts1 with
      | .error e => .error e
      | .ok (right, ts2) => binLoop fuel lvl (.binary left o right) ts2

/-- the inner `loop` of `parse_binary`: parse operands until one is not `None` -/
def rightLoop : Nat → Nat → List (Tok F) → PRes F
  | 0, _, _ => .error .other
  | fuel + 1, lvl, ts =>
    match parseLevel fuel (lvl + 1) ts with
    | .error e => .error e
    | .ok (.none, ts') => rightLoop fuel lvl ts'
    | .ok (ast, ts') => .ok (ast, ts')

/-- `PrimativeParser::parse_parenthesis` after the `(` has been consumed -/
def parseParenBody : Nat → List (Tok F) → PRes F
  | 0, _ => .error .other
  | fuel + 1, ts =>
    match parseLevel fuel 0 ts with
    | .error e => .error e
    | .ok (.none, _) => .error .invalidExpr
    | .ok (ast, ts3) =>
      match matchOp [.rparen] ts3 with
      | none => .error .parenNotClosed
      | some (_, ts4) => .ok (ast, ts4)

/-- `UnaryParser::parse` = prefix unary, else `PrimativeParser::parse` = parenthesis, else basic -/
def parseUnary : Nat → List (Tok F) → PRes F
  | 0, _ => .error .other
  | fuel + 1, ts =>
    match ts with
    | .op o :: rest =>
      if o.isSign then
        -- parse_prefix_unary matched a sign
        match rest with
        | [] => parseBasic rest      -- Ok(None) with the sign consumed, then Primative on nothing
        | t :: rest' =>
          if t.isOpOf .lparen then
            -- sign in front of a parenthesis (fix 837003e in /repo)
            match parseParenBody fuel rest' with
            | .error e => .error e
            | .ok (ast, ts4) => .ok (.prefixUnary o ast, ts4)
          else
            match prefixOperand o t with
            | some ast => .ok (ast, rest')
            | none => .error .unaryNumber
      else if o = .lparen then parseParenBody fuel rest
      else parseBasic ts
    | _ => parseBasic ts
end

/-- enough fuel for every loop of the parser on `ts` (see SCP.C01.parser_fuel) -/
def parseFuel (ts : List (Tok F)) : Nat := 8 * (ts.length + 2)

/-- `AddSubtractParser::parse` -/
def parseExpr (ts : List (Tok F)) : PRes F := parseLevel (parseFuel ts) 0 ts

end SC
