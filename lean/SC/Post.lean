/-
  SC.Post — model of the post-processing in src/tokinizer/mod.rs:182-263:
  token_generator, token_cleaner, missing_token_adder.
-/
import SC.Types
namespace SC
variable {F : Type}

def Tok.isOp : Tok F → Bool
  | .op _ => true
  | _ => false

def Tok.isOpOf (o : Op) : Tok F → Bool
  | .op o' => o' = o
  | _ => false

def Tok.isText : Tok F → Bool
  | .text _ => true
  | _ => false

/-- `token_generator`: the types of the Active, typed token infos, in order. -/
def tokenGenerator (infos : List (TokInfo F)) : List (Tok F) :=
  infos.filterMap fun ti => if ti.active then ti.tok else none

def TokInfo.isAssign (ti : TokInfo F) : Bool :=
  match ti.tok with
  | some (.op .assign) => true
  | _ => false

/-- index after the first `=` among the token *infos* (Removed ones included), else 0 -/
def cleanerIndex (infos : List (TokInfo F)) : Nat :=
  match infos.findIdx? TokInfo.isAssign with
  | some i => i + 1
  | none => 0

/-- `token_cleaner`: drop every `Text` token at position ≥ `cleanerIndex infos` of `toks`. -/
def tokenCleaner (infos : List (TokInfo F)) (toks : List (Tok F)) : List (Tok F) :=
  let i := cleanerIndex infos
  toks.take i ++ (toks.drop i).filter (fun t => !t.isText)

/-- the `while` loop of `missing_token_adder`: insert `+` between two adjacent operands; a
    closing parenthesis ends an operand (fix 'literal behind a parenthesis' in /repo) -/
def insertPlus : Bool → List (Tok F) → List (Tok F)
  | _, [] => []
  | req, t :: ts =>
    if t.isOpOf .rparen then t :: insertPlus true ts
    else if t.isOp then t :: insertPlus false ts
    else if req then .op .plus :: t :: insertPlus true ts
    else t :: insertPlus true ts

/-- The index at which `missing_token_adder` starts working: behind the first `=`, else 0
    (a parenthesis does not move the start — fix 'operands in front of the first parenthesis'
    in /repo); `none` when it returns early. -/
def adderStart (toks : List (Tok F)) : Option Nat :=
  if toks.isEmpty then none else
  let i := match toks.findIdx? (fun t => t.isOpOf .assign) with
    | some i => i + 1
    | none => 0
  if i + 1 ≥ toks.length then none else some i

/-- `missing_token_adder` (the implicit 0 only in front of a sign at the start position) -/
def missingTokenAdder [Num F] (toks : List (Tok F)) : List (Tok F) :=
  match adderStart toks with
  | none => toks
  | some i =>
    let pre := toks.take i
    let rest := toks.drop i
    let rest := match rest with
      | t :: _ => if t.isOpOf .plus || t.isOpOf .minus then .item (.number (Num.ofInt 0) .decimal) :: rest else rest
      | [] => rest
    pre ++ insertPlus false rest

/-- the three post-processing steps of `Tokinizer::tokinize` -/
def postProcess [Num F] (infos : List (TokInfo F)) : List (Tok F) :=
  missingTokenAdder (tokenCleaner infos (tokenGenerator infos))

end SC
