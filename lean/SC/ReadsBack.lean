/-
  SC.ReadsBack — the decidable form of the hypothesis of `SCP.C12Exec.gen_codes_multiply` /
  `executeCode_mul`: the amount, printed by `f64::to_string` and translated to the configured
  decimal separator, is a literal text that the reader of the configured convention reads as the
  same amount.  The driver evaluates it on every amount of every conversion of the C12 runs.
-/
import SC.Units
namespace SC
variable {F : Type} [Num F]

/-- a literal text: optional sign, a digit, then digits and separators -/
def litTextB : List Char → Bool
  | [] => false
  | c :: rest =>
    if c = '-' || c = '+' then
      (match rest with
       | d :: more => isDigit d && more.all isNumBody
       | [] => false)
    else isDigit c && rest.all isNumBody

/-- the text `execute_code` substitutes for the amount -/
def amountChars (dec : String) (v : F) : List Char := strReplace (Num.short v).toList ['.'] dec.toList

def readsBackB (dec thou : String) (v : F) : Bool :=
  litTextB (amountChars dec v) &&
    (match (readLiteral dec thou (amountChars dec v) : Option F) with
     | some w => Num.beq w v
     | none => false)

end SC
