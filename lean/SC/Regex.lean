/-
  SC.Regex — the regular expressions of `config.json` as data, and the matching discipline of the
  `regex` crate that the tokenizer relies on: leftmost-first matches with capture groups, Unicode
  classes `\p{L}`, `\p{Currency_Symbol}`, the Unicode word boundary `\b`, and the iteration of
  `captures_iter` (non-overlapping matches; an empty match directly behind the previous match is
  skipped by restarting one character later).

  Positions are character indices into the line; the lexer converts them into byte offsets.
  The Unicode range tables are parameters (`UTables`): they are extracted from the
  implementation's own `regex` crate and `core` case mapping by the harness and regenerated
  into `SC/Gen/Unicode.lean`.
-/
namespace SC

/-- sorted, disjoint code point ranges and the two case mappings -/
structure UTables where
  letter : Array (Nat × Nat)
  word : Array (Nat × Nat)
  currency : Array (Nat × Nat)
  lower : Array (Nat × List Nat)
  upper : Array (Nat × List Nat)
  deriving Inhabited

/-- binary search in sorted disjoint ranges -/
def inRanges (t : Array (Nat × Nat)) (n : Nat) : Bool :=
  let rec go (fuel lo hi : Nat) : Bool :=
    match fuel with
    | 0 => false
    | fuel + 1 =>
      if lo < hi then
        let mid := (lo + hi) / 2
        let r := t[mid]!
        if n < r.1 then go fuel lo mid
        else if r.2 < n then go fuel (mid + 1) hi
        else true
      else false
  go (t.size + 1) 0 t.size

/-- binary search in a sorted map -/
def lookupMap (t : Array (Nat × List Nat)) (n : Nat) : Option (List Nat) :=
  let rec go (fuel lo hi : Nat) : Option (List Nat) :=
    match fuel with
    | 0 => none
    | fuel + 1 =>
      if lo < hi then
        let mid := (lo + hi) / 2
        let r := t[mid]!
        if n < r.1 then go fuel lo mid
        else if r.1 < n then go fuel (mid + 1) hi
        else some r.2
      else none
  go (t.size + 1) 0 t.size

def UTables.mapChar (t : Array (Nat × List Nat)) (c : Char) : List Char :=
  match lookupMap t c.toNat with
  | some l => l.map Char.ofNat
  | none => [c]

/-- one item of a bracket class -/
inductive CItem
  | ch (c : Nat)
  | range (lo hi : Nat)
  | letter
  | currency
  | word
  deriving Repr, Inhabited, DecidableEq

structure CSet where
  neg : Bool
  items : List CItem
  deriving Repr, Inhabited, DecidableEq

def CItem.has (T : UTables) (c : Nat) : CItem → Bool
  | .ch x => x = c
  | .range lo hi => lo ≤ c && c ≤ hi
  | .letter => inRanges T.letter c
  | .currency => inRanges T.currency c
  | .word => inRanges T.word c

def CSet.has (T : UTables) (s : CSet) (c : Char) : Bool :=
  (s.items.any (·.has T c.toNat)) != s.neg

/-- regular expressions (the subset `config.json` uses) -/
inductive Re
  | eps
  | set (s : CSet)
  | seq (a b : Re)
  | alt (a b : Re)
  /-- greedy repetition `{min,max}` -/
  | rep (r : Re) (min : Nat) (max : Option Nat)
  /-- capture group number `i` -/
  | grp (i : Nat) (r : Re)
  | wordb
  deriving Repr, Inhabited

/-! ### matching: a priority-ordered simulation of the compiled program (Pike VM)

The program is the usual Thompson construction with relative jumps; threads are kept in priority
order (left alternative first, one more repetition first) and de-duplicated per position, so a
search is linear in line length × program size, and the first thread to reach `done` — with all
lower-priority threads cut off — is the leftmost-first match of the `regex` crate. -/

inductive Inst
  | chr (s : CSet)
  /-- continue at `pc + x`, then (lower priority) at `pc + y` -/
  | split (x y : Int)
  | jmp (x : Int)
  | save (slot : Nat)
  | wordb
  | done
  deriving Repr, Inhabited

/-- `r{mn,mx}` unfolded into copies -/
def repCopies (c : Array Inst) (star opt : Array Inst → Array Inst) (mn : Nat) (mx : Option Nat) : Array Inst :=
  let req := (List.range mn).foldl (fun acc _ => acc ++ c) #[]
  match mx with
  | none => req ++ star c
  | some m => req ++ (List.range (m - mn)).foldl (fun acc _ => opt (c ++ acc)) #[]

def Re.code : Re → Array Inst
  | .eps => #[]
  | .set s => #[.chr s]
  | .seq a b => a.code ++ b.code
  | .alt a b =>
    let ca := a.code
    let cb := b.code
    #[.split 1 (ca.size + 2)] ++ ca ++ #[.jmp (cb.size + 1)] ++ cb
  | .rep r mn mx =>
    repCopies r.code
      (fun c => #[.split 1 (c.size + 2)] ++ c ++ #[.jmp (-(c.size + 1 : Int))])
      (fun c => #[.split 1 (c.size + 1)] ++ c) mn mx
  | .grp g r => #[.save (2 * g)] ++ r.code ++ #[.save (2 * g + 1)]
  | .wordb => #[.wordb]

def Re.maxGroup : Re → Nat
  | .eps | .set _ | .wordb => 0
  | .seq a b | .alt a b => max a.maxGroup b.maxGroup
  | .rep r _ _ => r.maxGroup
  | .grp g r => max g r.maxGroup

/-- the whole program: group 0 around the expression -/
def Re.program (r : Re) : Array Inst := #[.save 0] ++ r.code ++ #[.save 1, .done]

abbrev Slots := Array (Option Nat)

structure Thread where
  pc : Nat
  slots : Slots
  deriving Inhabited

def isWordAt (T : UTables) (cs : Array Char) (i : Nat) : Bool :=
  if h : i < cs.size then inRanges T.word cs[i].toNat else false

/-- follow the instructions that consume no character from the stacked program counters (top =
    highest priority), appending the threads that wait at `chr` / `done` in priority order -/
def addThreads (T : UTables) (cs : Array Char) (prog : Array Inst) (pos : Nat) :
    Nat → List (Nat × Slots) → Array Bool → Array Thread → Array Bool × Array Thread
  | 0, _, seen, acc => (seen, acc)
  | _, [], seen, acc => (seen, acc)
  | fuel + 1, (pc, sl) :: stack, seen, acc =>
    if pc ≥ prog.size || seen[pc]! then addThreads T cs prog pos fuel stack seen acc
    else
      let seen := seen.set! pc true
      match prog[pc]! with
      | .jmp x => addThreads T cs prog pos fuel ((((pc : Int) + x).toNat, sl) :: stack) seen acc
      | .split x y =>
        addThreads T cs prog pos fuel ((((pc : Int) + x).toNat, sl) :: (((pc : Int) + y).toNat, sl) :: stack) seen acc
      | .save n => addThreads T cs prog pos fuel ((pc + 1, sl.set! n (some pos)) :: stack) seen acc
      | .wordb =>
        let before := pos > 0 && isWordAt T cs (pos - 1)
        let after := isWordAt T cs pos
        if before != after then addThreads T cs prog pos fuel ((pc + 1, sl) :: stack) seen acc
        else addThreads T cs prog pos fuel stack seen acc
      | _ => addThreads T cs prog pos fuel stack seen (acc.push ⟨pc, sl⟩)

/-- advance the threads of position `pos` over its character; returns the threads of `pos + 1`
    and the match found at `pos` (which cuts off the lower-priority threads) -/
def stepThreads (T : UTables) (cs : Array Char) (prog : Array Inst) (pos : Nat) (clist : Array Thread) :
    Array Thread × Option Slots :=
  let fuel := 4 * prog.size + 8
  let r := clist.foldl (fun (st : Array Bool × Array Thread × Option Slots × Bool) th =>
    let (seen, nlist, found, cut) := st
    if cut then st else
    match prog[th.pc]! with
    | .chr s =>
      if h : pos < cs.size then
        if s.has T cs[pos] then
          let (seen, nlist) := addThreads T cs prog (pos + 1) fuel [(th.pc + 1, th.slots)] seen nlist
          (seen, nlist, found, false)
        else st
      else st
    | .done => (seen, nlist, some th.slots, true)
    | _ => st) (Array.replicate prog.size false, #[], none, false)
  (r.2.1, r.2.2.1)

/-- a match: start, end, capture slots -/
structure RMatch where
  start : Nat
  stop : Nat
  slots : Slots
  deriving Inhabited

/-- the search loop: `pending` are the threads at `pos` that were advanced from `pos - 1`; the
    start thread of `pos` has the lowest priority and is only added while nothing has matched -/
def findLoop (T : UTables) (cs : Array Char) (prog : Array Inst) (empty : Slots) :
    Nat → Nat → Array Thread → Option Slots → Option Slots
  | 0, _, _, found => found
  | n + 1, pos, pending, found =>
    if pos > cs.size then found else
    let clist :=
      if found.isNone then
        let seen := pending.foldl (fun s th => s.set! th.pc true) (Array.replicate prog.size false)
        (addThreads T cs prog pos (4 * prog.size + 8) [(0, empty)] seen pending).2
      else pending
    if clist.isEmpty then (if found.isSome then found else findLoop T cs prog empty n (pos + 1) #[] none) else
    let (nlist, m) := stepThreads T cs prog pos clist
    findLoop T cs prog empty n (pos + 1) nlist (match m with | some sl => some sl | none => found)

/-- leftmost-first match starting at or behind `start` -/
def Re.find (T : UTables) (cs : Array Char) (r : Re) (start : Nat) : Option RMatch :=
  let prog := r.program
  let empty : Slots := Array.replicate (2 * (r.maxGroup + 1)) none
  match findLoop T cs prog empty (cs.size + 2 - start) start #[] none with
  | some sl =>
    match sl[0]!, sl[1]! with
    | some s, some e => some ⟨s, e, sl⟩
    | _, _ => none
  | none => none

/-- `Regex::captures_iter` -/
def Re.all (T : UTables) (cs : Array Char) (r : Re) : List RMatch :=
  let rec go (fuel start : Nat) (last : Option Nat) : List RMatch :=
    match fuel with
    | 0 => []
    | fuel + 1 =>
      match Re.find T cs r start with
      | none => []
      | some m =>
        let m? : Option RMatch :=
          if m.start = m.stop && last = some m.stop then Re.find T cs r (start + 1) else some m
        match m? with
        | none => []
        | some m => m :: go fuel m.stop (some m.stop)
  go (cs.size + 2) 0 none

/-- `Regex::is_match` -/
def Re.isMatch (T : UTables) (cs : Array Char) (r : Re) : Bool := (Re.find T cs r 0).isSome

/-- does the class accept U+0020? (a blank is not a letter, a currency sign or a word character) -/
def CSet.hasBlank (s : CSet) : Bool :=
  (s.items.any fun it => match it with
    | .ch c => c = 32
    | .range lo hi => lo ≤ 32 && 32 ≤ hi
    | _ => false) != s.neg

/-- every class that accepts a blank stands under a repetition without upper bound: the expression never limits the
    length of a run of blanks (`[ ]*`, `[ ]{1,}`, `[^}]+` … but not ` ?` or a single `[ ]`) -/
def Re.blankRunsUnbounded : Bool → Re → Bool
  | u, .set s => !s.hasBlank || u
  | u, .seq a b => a.blankRunsUnbounded u && b.blankRunsUnbounded u
  | u, .alt a b => a.blankRunsUnbounded u && b.blankRunsUnbounded u
  | u, .rep r _ mx => r.blankRunsUnbounded (u || mx.isNone)
  | u, .grp _ r => r.blankRunsUnbounded u
  | _, .eps => true
  | _, .wordb => true

/-- the sub-expression of capture group `g` -/
def Re.group? (g : Nat) : Re → Option Re
  | .grp i r => if i = g then some r else r.group? g
  | .seq a b => (a.group? g).orElse fun _ => b.group? g
  | .alt a b => (a.group? g).orElse fun _ => b.group? g
  | .rep r _ _ => r.group? g
  | _ => none

/-- the code points a class accepts, when it is a positive class of characters and small ranges -/
def CSet.points? (s : CSet) : Option (List Nat) :=
  if s.neg then none else
  s.items.foldl (fun acc it => acc.bind fun l => match it with
    | .ch c => some (l ++ [c])
    | .range lo hi => if hi - lo < 64 then some (l ++ (List.range (hi - lo + 1)).map (· + lo)) else none
    | _ => none) (some [])

/-- the language of an expression when it is finite and small (classes of characters, bounded repetition); assertions
    are ignored (they only remove words) -/
def Re.finiteLang : Re → Option (List (List Nat))
  | .eps => some [[]]
  | .wordb => some [[]]
  | .set s => s.points?.map fun ps => ps.map fun p => [p]
  | .seq a b => a.finiteLang.bind fun la => b.finiteLang.map fun lb => la.flatMap fun x => lb.map fun y => x ++ y
  | .alt a b => a.finiteLang.bind fun la => b.finiteLang.map fun lb => la ++ lb
  | .grp _ r => r.finiteLang
  | .rep r mn mx =>
    match mx with
    | none => none
    | some m =>
      if m > 4 then none else
      r.finiteLang.map fun l =>
        let pow : Nat → List (List Nat) := fun k => (List.range k).foldl (fun acc _ => acc.flatMap fun x => l.map fun y => x ++ y) [[]]
        ((List.range (m + 1)).filter (fun k => mn ≤ k)).flatMap pow

/-- value of a word of ASCII digits -/
def digitsValue (w : List Nat) : Option Nat :=
  if w.isEmpty then none else w.foldl (fun acc c => acc.bind fun n => if 48 ≤ c && c ≤ 57 then some (n * 10 + (c - 48)) else none) (some 0)

/-- a regex with its named groups -/
structure NRe where
  re : Re
  names : List (String × Nat)
  deriving Repr, Inhabited

def NRe.cap (n : NRe) (m : RMatch) (name : String) : Option (Nat × Nat) :=
  match n.names.find? (·.1 = name) with
  | some (_, i) =>
    match m.slots[2 * i]?, m.slots[2 * i + 1]? with
    | some (some s), some (some e) => some (s, e)
    | _, _ => none
  | none => none

/-- every word the named group can capture is a number of at most `bound` (true when the group does not occur) -/
def NRe.groupAtMost (r : NRe) (name : String) (bound : Nat) : Bool :=
  match r.names.find? (·.1 = name) with
  | none => true
  | some (_, g) =>
    match (r.re.group? g).bind Re.finiteLang with
    | none => false
    | some l => l.all fun w => match digitsValue w with | some n => n ≤ bound | none => false

end SC
