/-
  SC.Rules — model of src/tokinizer/tools.rs (field readers) and of the rule functions in
  src/tokinizer/rule_tokinizer/rules/*.rs.  A rule function returns `some token` (Ok) or `none`
  (Err; the message is not modelled).
-/
import SC.Units
import SC.Format
namespace SC
variable {F : Type} [Num F]

/-- `BTreeMap<String, Rc<TokenInfo>>` of the fields bound by a match -/
abbrev Fields (F : Type) := List (String × TokInfo F)

def Fields.get? (fs : Fields F) (k : String) : Option (TokInfo F) := assoc? fs k

def Fields.insert (fs : Fields F) (k : String) (v : TokInfo F) : Fields F :=
  match fs with
  | [] => [(k, v)]
  | (k', v') :: rest =>
    if k' = k then (k, v) :: rest
    else if k < k' then (k, v) :: (k', v') :: rest
    else (k', v') :: Fields.insert rest k v

/-- the item a field denotes: the token's own value, or the value of the variable it names -/
def fieldItem (vs : Vars F) (fs : Fields F) (k : String) : Option (Item F) :=
  match fs.get? k with
  | some ti =>
    match ti.tok with
    | some (.item i) => some i
    | some (.var n) =>
      match vs.get? n with
      | some info => match info.data with | .item i => some i | _ => none
      | none => none
    | _ => none
  | none => none

def getNumber (vs : Vars F) (fs : Fields F) (k : String) : Option F :=
  match fieldItem vs fs k with | some (.number v _) => some v | _ => none
def getPercent (vs : Vars F) (fs : Fields F) (k : String) : Option F :=
  match fieldItem vs fs k with | some (.percent v) => some v | _ => none
def getMoney (vs : Vars F) (fs : Fields F) (k : String) : Option (F × String) :=
  match fieldItem vs fs k with | some (.money v c) => some (v, c) | _ => none
def getDuration (vs : Vars F) (fs : Fields F) (k : String) : Option Int :=
  match fieldItem vs fs k with | some (.duration s) => some s | _ => none
def getTime (vs : Vars F) (fs : Fields F) (k : String) : Option (Int × Zone) :=
  match fieldItem vs fs k with | some (.time s tz) => some (s, tz) | _ => none
def getDate (vs : Vars F) (fs : Fields F) (k : String) : Option (YMD × Zone) :=
  match fieldItem vs fs k with | some (.date d tz) => some (d, tz) | _ => none
def getDateTime (vs : Vars F) (fs : Fields F) (k : String) : Option (Int × Zone) :=
  match fieldItem vs fs k with | some (.dateTime s tz) => some (s, tz) | _ => none
def getDyn (vs : Vars F) (fs : Fields F) (k : String) : Option (F × UnitRef) :=
  match fieldItem vs fs k with | some (.dyn v u) => some (v, u) | _ => none
def getText (fs : Fields F) (k : String) : Option String :=
  match fs.get? k with | some ti => (match ti.tok with | some (.text s) => some s | _ => none) | none => none
def getTimezone (fs : Fields F) (k : String) : Option (String × Int) :=
  match fs.get? k with | some ti => (match ti.tok with | some (.tz n o) => some (n, o) | _ => none) | none => none
def getMonth (vs : Vars F) (fs : Fields F) (k : String) : Option Nat :=
  match fs.get? k with
  | some ti =>
    match ti.tok with
    | some (.month m) => some m
    | some (.var n) => (match vs.get? n with | some info => (match info.data with | .month m => some m | _ => none) | none => none)
    | _ => none
  | none => none

/-- `tools::read_currency`: alias first, then code (lower-cased); returns the currency code -/
def readCurrency (c : Cfg F) (name : String) : Option String :=
  let key := lowerStr name
  match assoc? c.currencyAlias key with
  | some code => (assoc? c.currencies code).map (·.code)
  | none => (assoc? c.currencies key).map (·.code)

def getCurrency (c : Cfg F) (vs : Vars F) (fs : Fields F) (k : String) : Option String :=
  match fs.get? k with
  | some ti =>
    match ti.tok with
    | some (.text s) => readCurrency c s
    | some (.item (.money _ cur)) => some cur
    | some (.var n) =>
      (match vs.get? n with | some info => (match info.data with | .item (.money _ cur) => some cur | _ => none) | none => none)
    | _ => none
  | none => none

def getNumberOrPrice (vs : Vars F) (fs : Fields F) (k : String) : Option F :=
  match getNumber vs fs k with
  | some v => some v
  | none => (getMoney vs fs k).map (·.1)

/-- `as u32` / `as i32` (saturating) of a number -/
def toU32 (v : F) : Int := let i := Num.toInt v; if i < 0 then 0 else if i > 4294967295 then 4294967295 else i
def toI32 (v : F) : Int := let i := Num.toInt v; if i < -2147483648 then -2147483648 else if i > 2147483647 then 2147483647 else i

def uppercaseAscii (s : String) : String := s.toUpper

/-- seconds-of-day (h, m, s) carried by `get_number_or_time` -/
def getNumberOrTimeSod (vs : Vars F) (fs : Fields F) (k : String) : Option Int :=
  match getNumber vs fs k with
  | some v => let h := toU32 v; if h < 24 then some (h * 3600) else none
  | none => (getTime vs fs k).map (fun (s, _) => s % 86400)

def hundredF : F := Num.ofInt 100

/-- number_on / number_of / number_off; `mode` 0 on, 1 of, 2 off -/
def ruleNumberPct (c : Cfg F) (vs : Vars F) (fs : Fields F) (mode : Nat) : Option (Tok F) :=
  if (fs.get? "number").isSome && (fs.get? "p").isSome then
    match getNumberOrPrice vs fs "number", getPercent vs fs "p" with
    | some number, some pct =>
      let share := gdiv (Num.mul number pct) hundredF
      let v := if mode = 0 then Num.add number share else if mode = 1 then share else Num.sub number share
      match getCurrency c vs fs "number" with
      | some cur => some (.item (.money v cur))
      | none => some (.item (.number v .decimal))
    | _, _ => none
  else none

def durationOfUnit (kind : Nat) (n : Int) : Option Int :=
  -- kinds as in constant_pair: 1 day 2 week 3 month 4 year 5 second 6 minute 7 hour
  let secs : Int :=
    if kind = 4 then 365 * n * 86400
    else if kind = 3 then (365 * (Int.tdiv n 12) + 30 * (Int.tmod n 12)) * 86400
    else if kind = 1 then (365 * (Int.tdiv n 365) + 30 * (Int.tdiv (Int.tmod n 365) 30) + Int.tmod (Int.tmod n 365) 30) * 86400
    else if kind = 2 then n * 604800
    else if kind = 7 then n * 3600
    else if kind = 6 then n * 60
    else n
  if durOk secs then some secs else none

/-- the date constants of the text lexer (src/tokinizer/regex_tokinizer/text.rs:23-37):
    constant kinds 8 `today`, 9 `tomorrow`, 10 `yesterday` -/
def constDate (now : Now) (kind : Nat) : Option YMD :=
  if kind = 8 then some (dateOfSecs now.secs)
  else if kind = 9 then addDays? (dateOfSecs now.secs) 1
  else if kind = 10 then addDays? (dateOfSecs now.secs) (-1)
  else none

def constantOf (c : Cfg F) (lang : String) (word : String) : Option Nat :=
  (c.lang? lang).bind fun l => assoc? l.constants word

/-- one rule function applied to the bound fields -/
def applyRule (c : Cfg F) (lang : String) (now : Now) (vs : Vars F) (fn : RuleFn F) (fs : Fields F) :
    Option (Tok F) :=
  let has (k : String) := (fs.get? k).isSome
  match fn with
  | .percentCalculator =>
    if has "p" && has "number" then
      match getNumber vs fs "number", getPercent vs fs "p" with
      | some n, some p => some (.item (.number (gdiv (Num.mul p n) hundredF) .decimal))
      | _, _ => none
    else none
  | .convertTimezone =>
    if has "time" && has "timezone" then
      match getTimezone fs "timezone" with
      | none => none
      | some (n, off) =>
        let z : Zone := ⟨uppercaseAscii n, off⟩
        match getTime vs fs "time" with
        | some (s, _) => some (.item (.time s z))
        | none =>
          match getDate vs fs "time" with
          | some (d, _) => some (.item (.date d z))
          | none =>
            match getDateTime vs fs "time" with
            | some (s, _) => some (.item (.dateTime s z))
            | none => none
    else none
  | .timeWithTimezone =>
    if has "time" && has "timezone" then
      match getTime vs fs "time", getTimezone fs "timezone" with
      | some (s, cur), some (n, off) => some (.item (.time (s + cur.off * 60 - off * 60) ⟨uppercaseAscii n, off⟩))
      | _, _ => none
    else none
  | .toUnixtime =>
    if has "data" then
      let ts : Int :=
        match getTime vs fs "data" with
        | some (s, _) => s
        | none =>
          match getDate vs fs "data" with
          | some (d, _) => dateSecs d
          | none => match getDateTime vs fs "data" with | some (s, _) => s | none => 0
      some (.item (.number (Num.ofInt ts) .raw))
    else none
  | .fromUnixtime =>
    if has "number" then
      match getNumber vs fs "number" with
      | none => none
      | some v =>
        let ts := Num.toInt v
        if dateTimeOk ts then
          match getTimezone fs "timezone" with
          | some (n, off) => some (.item (.dateTime ts ⟨uppercaseAscii n, off⟩))
          | none => some (.item (.dateTime ts c.tz))
        else none
    else none
  | .convertMoney =>
    if has "money" && has "currency" then
      match getMoney vs fs "money", getCurrency c vs fs "currency" with
      | some (v, cur), some to =>
        match rate? c.rates cur, rate? c.rates to with
        | some l, some r => some (.item (.money (Num.mul (gdiv v l) r) to))
        | _, _ => none
      | _, _ => none
    else none
  | .numberOn => ruleNumberPct c vs fs 0
  | .numberOf => ruleNumberPct c vs fs 1
  | .numberOff => ruleNumberPct c vs fs 2
  | .divisionCleanup =>
    if has "data" && has "text" then
      match fieldItem vs fs "data" with
      | some (.number v t) => some (.item (.number v t))
      | some (.percent v) => some (.item (.percent v))
      | some (.money v cur) => some (.item (.money v cur))
      | some i => (match (fs.get? "data").bind (·.tok) with | some (.var _) => some (.item i) | _ => none)
      | none => none
    else none
  | .durationParse =>
    if has "duration" && has "type" then
      match getNumber vs fs "duration", getText fs "type" with
      | some v, some w =>
        match constantOf c lang w with
        | some kind => if 1 ≤ kind && kind ≤ 7 then (durationOfUnit kind (Num.toInt v)).map (fun s => .item (.duration s)) else none
        | none => none
      | _, _ => none
    else none
  | .combineDurations =>
    if has "1" && has "2" then
      fs.foldl (fun acc kv => acc.bind fun sum =>
        match getDuration vs fs kv.1 with
        | some d => if durOk (sum + d) then some (sum + d) else none
        | none => none) (some 0) |>.map (fun s => .item (.duration s))
    else none
  | .asDuration =>
    if has "source" && has "type" then
      match getText fs "type" with
      | none => none
      | some w =>
        match constantOf c lang w with
        | none => none
        | some kind =>
          match (fs.get? "source").bind (·.tok) with
          | some (.item (.duration d)) =>
            let s : Int := d.natAbs
            if kind = 1 then some (.item (.duration (s / 86400 * 86400)))
            else if kind = 5 then some (.item (.duration s))
            else if kind = 6 then some (.item (.duration (s / 60 * 60)))
            else if kind = 7 then some (.item (.duration (s / 3600 * 3600)))
            else if kind = 2 then some (.item (.duration (s / 604800 * 604800)))
            else none
          | some (.item (.time t _)) =>
            let s : Int := t % 86400
            if kind = 3 then some (.item (.duration (s / MONTH * 86400)))
            else if kind = 4 then some (.item (.duration (s / YEAR * 86400)))
            else if kind = 1 then some (.item (.duration (s / 86400 * 86400)))
            else if kind = 5 then some (.item (.duration s))
            else if kind = 6 then some (.item (.duration (s / 60 * 60)))
            else if kind = 7 then some (.item (.duration (s / 3600 * 3600)))
            else if kind = 2 then some (.item (.duration (s / 604800 * 604800)))
            else none
          | _ => none     -- the third block needs a field "duration" that no configured pattern binds
    else none
  | .toDuration =>
    if has "source" && has "target" then
      match getTime vs fs "source", getTime vs fs "target" with
      | some (s, _), some (t, _) => some (.item (.duration (if t > s then t - s else s - t)))
      | _, _ =>
        match getDate vs fs "source", getDate vs fs "target" with
        | some (s, _), some (t, _) =>
          let a := dayNumber s; let b := dayNumber t
          some (.item (.duration ((if b > a then b - a else a - b) * 86400)))
        | _, _ => none
    else none
  | .atDate =>
    if has "source" && has "time" then
      match getDate vs fs "source", getNumberOrTimeSod vs fs "time" with
      | some (d, tz), some sod => some (.item (.dateTime (dateSecs d + sod) tz))
      | _, _ => none
    else none
  | .findNumbersPercent =>
    if has "part" && has "total" then
      match getNumberOrPrice vs fs "total", getNumberOrPrice vs fs "part" with
      | some total, some part => some (.item (.percent (gdiv (Num.mul part hundredF) total)))
      | _, _ => none
    else none
  | .findTotalFromPercent =>
    if has "number_part" && has "percent_part" then
      match getNumberOrPrice vs fs "number_part", getPercent vs fs "percent_part" with
      | some n, some p =>
        let v := gdiv (Num.mul n hundredF) p
        match getCurrency c vs fs "number_part" with
        | some cur => some (.item (.money v cur))
        | none => some (.item (.number v .decimal))
      | _, _ => none
    else none
  | .numberTypeConvert =>
    if has "number" && has "type" then
      match getNumber vs fs "number", getText fs "type" with
      | some v, some w =>
        let v := Num.round v
        if w = "hex" || w = "hexadecimal" then some (.item (.number v .hex))
        else if w = "octal" then some (.item (.number v .octal))
        else if w = "binary" then some (.item (.number v .binary))
        else if w = "decimal" then some (.item (.number v .decimal))
        else none
      | _, _ => none
    else none
  | .dynamicTypeConvert =>
    if has "source" && has "type" then
      match getText fs "type", getDyn vs fs "source" with
      | some target, some (v, u) => (convertUnit c v u target).map (fun (w, u') => .item (.dyn w u'))
      | _, _ => none
    else none
  | .smallDate =>
    if has "day" && has "month" then
      match getNumber vs fs "day" with
      | none => none
      | some day =>
        let month : Option Int := match getNumber vs fs "month" with
          | some m => some (toU32 m)
          | none => (getMonth vs fs "month").map (fun m => (m : Int))
        match month with
        | none => none
        | some month =>
          let year : Int := match getNumber vs fs "year" with
            | some y => toI32 y
            | none => (dateOfSecs now.secs).y
          (fromYmd? year month.toNat (toU32 day).toNat).map (fun d => .item (.date d c.tz))
    else none
  | .api _ kind =>
    match kind with
    | .const v => some (.item (.number v .decimal))
    | .decline => none
    | .echo f => (fs.get? f).bind (·.tok)
    | .sum =>
      some (.item (.number (fs.foldl (fun acc kv => match kv.2.tok with
        | some (.item (.number v _)) => Num.add acc v | _ => acc) (Num.ofInt 0)) .decimal))
    | .coin v cur => (assoc? c.currencies cur).map (fun ci => .item (.money v ci.code))
    | .when f w v =>
      match (fs.get? f).bind (·.tok) with
      | some (.text s) => if s = w then some (.item (.number v .decimal)) else none
      | _ => none

end SC
