/-
  SC.Session — model of src/session.rs (set_text, has_value, next_line) and of the line loop of
  SmartCalc::execute_session / SmartCalc::execute (src/smartcalc.rs:327-333, 385-401).

  The line evaluator is a parameter `ev : V → List Char → V × R` (variables in, variables and
  slot out), so everything here holds for every evaluator — in particular for one whose lines
  fail.
-/
namespace SC

/-- `Regex::new(r"\r\n|\n").split(text)`: split at every LF, dropping one CR directly before it.
    `acc` holds the current piece reversed. -/
def splitLinesAux : List Char → List Char → List (List Char)
  | acc, [] => [acc.reverse]
  | acc, [c] => if c = '\n' then [acc.reverse, []] else [(c :: acc).reverse]
  | acc, c :: d :: rest =>
    if c = '\n' then acc.reverse :: splitLinesAux [] (d :: rest)
    else if c = '\r' ∧ d = '\n' then acc.reverse :: splitLinesAux [] rest
    else splitLinesAux (c :: acc) (d :: rest)

def splitLines (text : List Char) : List (List Char) := splitLinesAux [] text

/-- `Session` (text parts, cursor, variables). -/
structure Sess (V : Type) where
  parts : List (List Char) := []
  pos : Nat := 0
  vars : V

/-- `Session::set_text` (with the cursor reset of fix 6d1aef0). -/
def Sess.setText {V} (s : Sess V) (t : List Char) : Sess V :=
  { s with parts := splitLines t, pos := 0 }

/-- `Session::set_text` as it was before the fix: the cursor is kept. -/
def Sess.setTextOld {V} (s : Sess V) (t : List Char) : Sess V :=
  { s with parts := splitLines t }

/-- The body of the `loop` in `execute_session`, unrolled over the remaining lines. -/
def runLines {V R} (ev : V → List Char → V × R) : V → List (List Char) → V × List R
  | v, [] => (v, [])
  | v, l :: ls =>
    let (v', r) := ev v l
    let (v'', rs) := runLines ev v' ls
    (v'', r :: rs)

/-- `SmartCalc::execute_session`: status, slots, and the session afterwards (cursor on the last
    line, variables updated). -/
def execSession {V R} (ev : V → List Char → V × R) (s : Sess V) : Sess V × Bool × List R :=
  if s.pos < s.parts.length then
    let (v, rs) := runLines ev s.vars (s.parts.drop s.pos)
    ({ s with vars := v, pos := s.parts.length - 1 }, true, rs)
  else (s, false, [])

/-- `SmartCalc::execute`: fresh session, set text, run. -/
def execute {V R} (ev : V → List Char → V × R) (v0 : V) (text : List Char) : Bool × List R :=
  let s : Sess V := ({ vars := v0 } : Sess V).setText text
  let (_, st, rs) := execSession ev s
  (st, rs)

end SC
