/-
  SC.Spec.Arith — reference semantics for C02: concrete-syntax trees of arithmetic lines
  (stratified: Sum ∋ Prod ∋ Unary ∋ Prim, left association built into the constructors), their
  textbook value, and the token sequence the lexer yields for any rendering of the tree.
-/
import SC.Types
namespace SC.Spec
open SC

mutual
/-- a literal (sign attached to the literal is part of its value) or a parenthesised sum -/
inductive Prim (F : Type) : Type
  | lit (v : F)
  | paren (s : Sum F)
/-- optional detached sign prefix -/
inductive Unary (F : Type) : Type
  | prim (p : Prim F)
  | neg (p : Prim F)
  | pos (p : Prim F)
/-- `*` and `/`, left associative -/
inductive Prod (F : Type) : Type
  | one (u : Unary F)
  | mul (p : Prod F) (u : Unary F)
  | div (p : Prod F) (u : Unary F)
/-- `+` and `-`, left associative -/
inductive Sum (F : Type) : Type
  | one (p : Prod F)
  | add (s : Sum F) (p : Prod F)
  | sub (s : Sum F) (p : Prod F)
end

variable {F : Type} [Num F]

mutual
/-- the value given by the usual rules (division by zero yields 0 through `gdiv`) -/
def Prim.value : Prim F → F
  | .lit v => v
  | .paren s => s.value
def Unary.value : Unary F → F
  | .prim p => p.value
  | .neg (.lit v) => Num.mul v (Num.ofInt (-1))          -- `double * -1.0` in the parser
  | .neg (.paren s) => Num.mul (Num.ofInt (-1)) s.value  -- `-1.0 * self.0` in `unary`
  | .pos (.lit v) => Num.mul v (Num.ofInt 1)
  | .pos (.paren s) => s.value
def Prod.value : Prod F → F
  | .one u => u.value
  | .mul p u => Num.mul p.value u.value
  | .div p u => gdiv p.value u.value
def Sum.value : Sum F → F
  | .one p => p.value
  | .add s p => Num.add s.value p.value
  | .sub s p => Num.sub s.value p.value
end

def litTok (v : F) : Tok F := .item (.number v .decimal)

mutual
/-- the token sequence of a tree (blanks produce no token, so this is the same for every
    spacing) -/
def Prim.toks : Prim F → List (Tok F)
  | .lit v => [litTok v]
  | .paren s => .op .lparen :: (s.toks ++ [.op .rparen])
def Unary.toks : Unary F → List (Tok F)
  | .prim p => p.toks
  | .neg p => .op .minus :: p.toks
  | .pos p => .op .plus :: p.toks
def Prod.toks : Prod F → List (Tok F)
  | .one u => u.toks
  | .mul p u => p.toks ++ .op .mul :: u.toks
  | .div p u => p.toks ++ .op .div :: u.toks
def Sum.toks : Sum F → List (Tok F)
  | .one p => p.toks
  | .add s p => s.toks ++ .op .plus :: p.toks
  | .sub s p => s.toks ++ .op .minus :: p.toks
end

end SC.Spec
