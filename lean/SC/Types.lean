/-
  SC.Types — tokens, values, ASTs, configuration (model of src/types.rs, src/config.rs,
  src/tokinizer/mod.rs TokenInfo, src/variable/mod.rs VariableInfo).
-/
import SC.Basic
namespace SC

/-- `TimeOffset { name, offset }` (offset in minutes east of UTC). -/
structure Zone where
  name : String
  off : Int
  deriving DecidableEq, Repr, Inhabited

/-- A calendar date `NaiveDate` as year / month / day. -/
structure YMD where
  y : Int
  m : Nat
  d : Nat
  deriving DecidableEq, Repr, Inhabited

/-- `Rc<DynamicType>` is identified by family name and item index. -/
structure UnitRef where
  group : String
  index : Nat
  deriving DecidableEq, Repr, Inhabited

/-- The values a line can evaluate to (`dyn DataItem`), which are also the value-carrying
    token kinds of `TokenType`. Times / date-times are UTC seconds since the epoch, durations
    whole seconds (sub-second parts only arise from the constant `now`, which is outside the
    model). -/
inductive Item (F : Type)
  | number (v : F) (t : NumType)
  | percent (v : F)
  | money (v : F) (cur : String)
  | time (secs : Int) (tz : Zone)
  | date (d : YMD) (tz : Zone)
  | dateTime (secs : Int) (tz : Zone)
  | duration (secs : Int)
  | dyn (v : F) (u : UnitRef)
  deriving Repr, Inhabited

/-- `FieldType` -/
inductive Field
  | text (name : String) (expected : Option String)
  | dateTime (name : String)
  | date (name : String)
  | time (name : String)
  | money (name : String)
  | percent (name : String)
  | number (name : String)
  | group (name : String) (items : List String)
  | typeGroup (types : List String) (name : String)
  | month (name : String)
  | duration (name : String)
  | timezone (name : String)
  | dyn (name : String) (expected : Option String)
  deriving DecidableEq, Repr, Inhabited

def Field.name : Field → String
  | .text n _ | .dateTime n | .date n | .time n | .money n | .percent n | .number n
  | .group n _ | .typeGroup _ n | .month n | .duration n | .timezone n | .dyn n _ => n

/-- `TokenType` -/
inductive Tok (F : Type)
  | item (i : Item F)
  | text (s : String)
  | op (o : Op)
  | field (f : Field)
  | var (name : String)
  | month (m : Nat)
  | tz (name : String) (off : Int)
  deriving Repr, Inhabited

/-- `TokenInfo` -/
structure TokInfo (F : Type) where
  start : Nat
  stop : Nat
  tok : Option (Tok F)
  text : String := ""
  active : Bool := true
  deriving Repr, Inhabited

/-- What a variable currently holds: `VariableInfo.data` (`Rc<SmartCalcAstType>`); only the
    shapes evaluation can produce. -/
inductive VarData (F : Type)
  | none
  | item (i : Item F)
  | month (m : Nat)
  deriving Repr, Inhabited

/-- `VariableInfo { tokens, data }` -/
structure VarInfo (F : Type) where
  toks : List (Tok F)
  data : VarData F
  deriving Repr, Inhabited

/-- `Session.variables`: `BTreeMap<String, Rc<VariableInfo>>` as a key-sorted association list. -/
abbrev Vars (F : Type) := List (String × VarInfo F)

def Vars.get? {F} (vs : Vars F) (k : String) : Option (VarInfo F) :=
  match vs with
  | [] => none
  | (k', v) :: rest => if k' = k then some v else Vars.get? rest k

/-- insert-or-replace keeping the keys sorted (BTreeMap order = byte order = code point order) -/
def Vars.insert {F} (vs : Vars F) (k : String) (v : VarInfo F) : Vars F :=
  match vs with
  | [] => [(k, v)]
  | (k', v') :: rest =>
    if k' = k then (k, v) :: rest
    else if k < k' then (k, v) :: (k', v') :: rest
    else (k', v') :: Vars.insert rest k v

/-- `SmartCalcAstType` (the constructors the parser produces). -/
inductive Ast (F : Type)
  | none
  | item (i : Item F)
  | field (f : Field)
  | month (m : Nat)
  | binary (l : Ast F) (op : Op) (r : Ast F)
  | prefixUnary (op : Op) (a : Ast F)
  | assignment (name : String) (e : Ast F)
  | var (name : String)
  deriving Repr, Inhabited

/-- Parser / interpreter error kinds (messages are not compared). -/
inductive Err
  | noMoreToken | unaryNumber | invalidExpr | parenNotClosed | unknownCalc | unknownOp | syntax
  | other
  deriving DecidableEq, Repr, Inhabited

/-- `CurrencyInfo` -/
structure Currency where
  code : String
  symbol : String
  symbolOnLeft : Bool
  space : Bool
  digits : Nat
  deriving Repr, Inhabited

/-- `NumberConfig` / `MoneyConfig` -/
structure NumFmt where
  digits : Nat := 2
  removeZero : Bool := true
  rounding : Bool := true
  deriving Repr, Inhabited

/-- One item of a unit family (`DynamicType`): conversion codes are kept as text, exactly as
    the implementation keeps them. -/
structure UnitItem (F : Type) where
  group : String
  index : Nat
  format : String
  parse : List (List (TokInfo F))
  up : String
  down : String
  names : List String
  digits : Option Nat := none
  rounding : Option Bool := none
  removeZero : Option Bool := none
  deriving Repr, Inhabited

/-- `JsonTypeConversion` -/
structure Bridge where
  srcName : String
  srcIndex : Nat
  tgtName : String
  tgtIndex : Nat
  toSource : String
  toTarget : String
  deriving Repr, Inhabited

/-- behaviour of a rule registered through `add_rule` (the canned `RuleTrait` implementations
    the harness registers) -/
inductive ApiKind (F : Type)
  | const (v : F)
  | decline
  | echo (field : String)
  | sum
  | coin (v : F) (cur : String)
  | when (field : String) (word : String) (v : F)
  deriving Repr, Inhabited

/-- the rule functions of `RULE_FUNCTIONS` plus `small_date` and API rules -/
inductive RuleFn (F : Type)
  | percentCalculator | convertTimezone | timeWithTimezone | toUnixtime | fromUnixtime
  | convertMoney | numberOn | numberOf | numberOff | divisionCleanup | durationParse
  | asDuration | toDuration | atDate | combineDurations | findNumbersPercent
  | findTotalFromPercent | numberTypeConvert | dynamicTypeConvert | smallDate
  | api (name : String) (kind : ApiKind F)
  deriving Repr, Inhabited

/-- `RuleType`: function + tokenised patterns -/
structure Rule (F : Type) where
  fn : RuleFn F
  patterns : List (List (TokInfo F))
  deriving Repr, Inhabited

/-- `DurationFormat`: `kind` 0 second … 6 year -/
structure DurFmt where
  count : String
  format : String
  kind : Nat
  deriving Repr, Inhabited

/-- the per-language tables of `SmartCalcConfig` -/
structure Lang (F : Type) where
  name : String
  constants : List (String × Nat) := []
  groups : List (String × List String) := []
  rules : List (Rule F) := []
  durFmts : List DurFmt := []
  dateFmts : List (String × String) := []
  /-- entry m-1 = (short, long) names of month m as `config.month_regex` keeps them -/
  months : List (String × String) := []
  deriving Repr, Inhabited

/-- `SmartCalcConfig` -/
structure Cfg (F : Type) where
  dec : String := ","
  thou : String := "."
  numFmt : NumFmt := {}
  pctFmt : NumFmt := {}
  moneyRemoveZero : Bool := false
  moneyRounding : Bool := true
  tz : Zone := ⟨"UTC", 0⟩
  /-- lower-cased code ↦ currency -/
  currencies : List (String × Currency) := []
  /-- alias ↦ lower-cased code -/
  currencyAlias : List (String × String) := []
  /-- currency code (as in `CurrencyInfo.code`) ↦ rate, ordered by code -/
  rates : List (String × F) := []
  zones : List (String × Int) := []
  /-- families ordered by name, items ordered by index -/
  units : List (String × List (UnitItem F)) := []
  bridges : List Bridge := []
  langs : List (Lang F) := []
  deriving Inhabited

def Cfg.lang? {F} (c : Cfg F) (name : String) : Option (Lang F) := c.langs.find? (·.name = name)

/-- `char::to_lowercase` for the scripts the configured languages and the generators use: ASCII,
    Latin-1, Latin Extended-A (incl. `İ` ↦ `i` + combining dot), Greek and Cyrillic capitals, and
    the compatibility letters `ẞ`, Kelvin `K`, Ohm `Ω`, Ångström `Å`.  Every other character is
    left unchanged (outside these blocks the model makes no claim; the correspondence run flags it). -/
def lowerChar (c : Char) : List Char :=
  let n := c.toNat
  if 65 ≤ n && n ≤ 90 then [Char.ofNat (n + 32)]
  else if n < 192 then [c]
  else if n ≤ 222 then (if n = 215 then [c] else [Char.ofNat (n + 32)])
  else if n < 256 then [c]
  else if n ≤ 303 then (if n % 2 = 0 then [Char.ofNat (n + 1)] else [c])
  else if n = 304 then ['i', Char.ofNat 775]
  else if n = 305 then [c]
  else if n ≤ 311 then (if n % 2 = 0 then [Char.ofNat (n + 1)] else [c])
  else if n = 312 then [c]
  else if n ≤ 328 then (if n % 2 = 1 then [Char.ofNat (n + 1)] else [c])
  else if n = 329 then [c]
  else if n ≤ 375 then (if n % 2 = 0 then [Char.ofNat (n + 1)] else [c])
  else if n = 376 then [Char.ofNat 255]
  else if n ≤ 382 then (if n % 2 = 1 then [Char.ofNat (n + 1)] else [c])
  else if n = 902 then [Char.ofNat 940]
  else if 904 ≤ n && n ≤ 906 then [Char.ofNat (n + 37)]
  else if n = 908 then [Char.ofNat 972]
  else if n = 910 || n = 911 then [Char.ofNat (n + 63)]
  else if 913 ≤ n && n ≤ 939 then (if n = 930 then [c] else [Char.ofNat (n + 32)])
  else if 1024 ≤ n && n ≤ 1039 then [Char.ofNat (n + 80)]
  else if 1040 ≤ n && n ≤ 1071 then [Char.ofNat (n + 32)]
  else if n = 7838 then [Char.ofNat 223]
  else if n = 8490 then ['k']
  else if n = 8486 then [Char.ofNat 969]
  else if n = 8491 then [Char.ofNat 229]
  else [c]

/-- `str::to_lowercase` (without the final-sigma rule) -/
def lowerStr (s : String) : String := String.ofList (s.toList.flatMap lowerChar)

def assoc? {α} (l : List (String × α)) (k : String) : Option α :=
  match l with
  | [] => none
  | (k', v) :: rest => if k' = k then some v else assoc? rest k

/-- ambient inputs of an evaluation: the current UTC time (seconds since the epoch) -/
structure Now where
  secs : Int
  deriving Repr, Inhabited

end SC
