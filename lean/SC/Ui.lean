/-
  SC.Ui — model of src/token/ui_token.rs (`UiTokenCollection`, after the repairs in /repo):
  the byte→character map of the line, `add` / `add_from_byte_range` with the collision test in
  character positions, `sort` (stable, by start) and `update_tokens` (merge of a token range).
-/
namespace SC

/-- `UiToken`; `kind` is the name of the `UiTokenType` variant -/
structure UiTok where
  start : Nat
  stop : Nat
  kind : String
  deriving Repr, DecidableEq, Inhabited

/-- `UiTokenCollection` -/
structure UiColl where
  toks : List UiTok := []
  /-- byte index ↦ character index -/
  charSizes : List Nat := []
  deriving Repr, Inhabited

/-- `generate_char_map`: every byte of the k-th character maps to k -/
def charMapFrom : Nat → List Char → List Nat
  | _, [] => []
  | k, c :: cs => List.replicate c.utf8Size k ++ charMapFrom (k + 1) cs

/-- `UiTokenCollection::new(line)` -/
def UiColl.new (line : List Char) : UiColl := { charSizes := charMapFrom 0 line }

/-- number of characters of the line as the code computes it: last entry + 1 -/
def UiColl.nchars (c : UiColl) : Nat :=
  match c.charSizes.getLast? with
  | some p => p + 1
  | none => 0

/-- `get_position`: byte offset ↦ character position; the end of the line maps to the number
    of characters; anything else (logged as an error by the code) to 0 -/
def UiColl.pos (c : UiColl) (i : Nat) : Nat :=
  match c.charSizes[i]? with
  | some p => p
  | none => if c.charSizes.length = i then c.nchars else 0

/-- `check_collision` (true = no collision): no stored token overlaps `[s, e)` -/
def UiColl.free (c : UiColl) (s e : Nat) : Bool := c.toks.all fun t => !(decide (t.start < e) && decide (s < t.stop))

/-- `add` (character positions) -/
def UiColl.add (c : UiColl) (s e : Nat) (k : String) : UiColl :=
  if s < e ∧ c.free s e = true then { c with toks := c.toks ++ [⟨s, e, k⟩] } else c

/-- `add_from_byte_range` / `add_from_regex_match` (byte offsets) -/
def UiColl.addRange (c : UiColl) (bs be : Nat) (k : String) : UiColl := c.add (c.pos bs) (c.pos be) k

/-- `sort`: stable sort by start -/
def UiColl.sort (c : UiColl) : UiColl := { c with toks := c.toks.mergeSort (fun a b => decide (a.start ≤ b.start)) }

/-- `update_tokens(position_start, position_end, new_type)` (byte offsets): the tokens from the
    first one starting at the start position up to the first one (from there on) ending at the
    end position are replaced by one token -/
def UiColl.update (c : UiColl) (ps pe : Nat) (k : String) : UiColl :=
  let us := c.pos ps
  let ue := c.pos pe
  if us ≥ ue then c else
  match c.toks.findIdx? (fun t => t.start = us) with
  | none => c
  | some i =>
    match (c.toks.drop i).findIdx? (fun t => t.stop = ue) with
    | none => c
    | some off => { c with toks := c.toks.take i ++ [⟨us, ue, k⟩] ++ c.toks.drop (i + off + 1) }

/-- the operations the pipeline performs on a collection -/
inductive UiOp
  | add (s e : Nat) (k : String)
  | range (bs be : Nat) (k : String)
  | sort
  | update (ps pe : Nat) (k : String)
  deriving Repr

def UiColl.step (c : UiColl) : UiOp → UiColl
  | .add s e k => c.add s e k
  | .range bs be k => c.addRange bs be k
  | .sort => c.sort
  | .update ps pe k => c.update ps pe k

def UiColl.run (c : UiColl) (ops : List UiOp) : UiColl := ops.foldl UiColl.step c

end SC
