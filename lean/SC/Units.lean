/-
  SC.Units — model of src/compiler/dynamic_type.rs: `execute_code` (the conversion code text is
  tokenised, parsed and evaluated through `SmartCalc::basic_execute`), `calculate_unit` (walk of
  the index chain) and `convert` (in-family, else through a configured bridge).

  `basic_execute` runs the regex tokenizer on the code text.  Conversion codes only contain
  decimal literals, blanks, operator characters and (after substituting a non-finite value)
  ASCII letters; `codeLex` is the tokenizer restricted to that alphabet and returns `none` on any
  other character (then the model makes no claim and the correspondence check flags the case).
-/
import SC.Eval
namespace SC
variable {F : Type} [Num F]

/-- does `pat` start `s`? -/
def startsWith (s pat : List Char) : Bool := pat.isPrefixOf s

/-- `str::replace(pat, rep)` (an empty pattern matches between all characters) -/
def strReplace (s pat rep : List Char) : List Char :=
  if pat.isEmpty then
    rep ++ s.flatMap (fun c => c :: rep)
  else
    let rec go (fuel : Nat) (s : List Char) : List Char :=
      match fuel with
      | 0 => s
      | fuel + 1 =>
        match s with
        | [] => []
        | c :: rest =>
          if startsWith (c :: rest) pat then rep ++ go fuel ((c :: rest).drop pat.length)
          else c :: go fuel rest
    go (s.length + 1) s

/-- reading of a decimal literal: thousands separator removed, decimal separator ↦ '.' -/
def readLiteral (dec thou : String) (txt : List Char) : Option F :=
  Num.parseDec (strReplace (strReplace txt thou.toList []) dec.toList ['.'])

def isAsciiLetter (c : Char) : Bool := ('a' ≤ c && c ≤ 'z') || ('A' ≤ c && c ≤ 'Z')
def isNumBody (c : Char) : Bool := isDigit c || c = '.' || c = ','

/-- magnitude suffix of the number regex (`NOTATION`) -/
def notationMul (s : List Char) : Option Nat :=
  if s = ['k'] || s = ['K'] then some 1 else if s = ['M'] then some 2 else if s = ['G'] then some 3
  else if s = ['T'] then some 4 else if s = ['P'] then some 5 else if s = ['Z'] then some 6
  else if s = ['Y'] then some 7 else none

/-- the tokenizer of `basic_execute` on the alphabet of conversion codes -/
def codeLex (dec thou : String) : Nat → List Char → Option (List (Tok F))
  | 0, _ => none
  | fuel + 1, cs =>
    match cs with
    | [] => some []
    | c :: rest =>
      if c = ' ' then codeLex dec thou fuel rest
      else
        let signed := (c = '-' || c = '+') && (match rest with | d :: _ => isDigit d | [] => false)
        if isDigit c || signed then
          -- DECIMAL = [-+]?[0-9]+[0-9.,]*  NOTATION = [a-zA-Z]+ (optional)
          let body := if signed then rest else cs
          let num := body.takeWhile isNumBody
          let after := body.dropWhile isNumBody
          let txt := (if signed then [c] else []) ++ num
          let suffix := after.takeWhile isAsciiLetter
          match (readLiteral dec thou txt : Option F) with
          | none => none   -- the implementation skips the token and re-lexes its characters; outside the modelled alphabet
          | some v =>
            match notationMul suffix with
            | some k =>
              (codeLex dec thou fuel (after.drop suffix.length)).map
                (fun ts => .item (.number (Num.mul v (Num.ofRat false (1000 ^ k) 1)) .decimal) :: ts)
            | none => (codeLex dec thou fuel after).map (fun ts => .item (.number v .decimal) :: ts)
        else if isAsciiLetter c then
          let w := cs.takeWhile isAsciiLetter
          (codeLex dec thou fuel (cs.dropWhile isAsciiLetter)).map (fun ts => .text (String.ofList w) :: ts)
        else if c.toNat < 128 && c ≠ '[' && c ≠ '{' && c ≠ '#' && c ≠ '%' && c ≠ ':' && c ≠ '$' then
          (codeLex dec thou fuel rest).map (fun ts => .op (Op.ofChar c) :: ts)
        else none

/-- the lexer on a whole line of that alphabet: a comment (`#` to the end of the line) is claimed
    first and dropped, the rest is scanned by `codeLex` -/
def lexLine (dec thou : String) (line : List Char) : Option (List (Tok F)) :=
  let body := line.takeWhile (· ≠ '#')
  codeLex dec thou (body.length + 1) body

/-- `SmartCalc::basic_execute` on a code text: tokens (no post-processing), parse, interpret;
    the result must be an item, whose underlying number is returned -/
def basicExecute (dec thou : String) (code : List Char) : Option F :=
  match (codeLex dec thou (code.length + 1) code : Option (List (Tok F))) with
  | none => none
  | some [] => none
  | some ts =>
    match parseExpr ts with
    | .error _ => none
    | .ok (ast, _) =>
      match execAst ([] : List (String × F)) (fun _ _ _ => none) [] ast with
      | .ok (.item (.number v _), _) => some v
      | _ => none

/-- `DynamicTypeItem::execute_code` (fix 'separators' in /repo): substitute the value, translate
    '.' into the configured decimal separator, run `basic_execute` -/
def executeCode (dec thou : String) (code : String) (v : F) : Option F :=
  let s := strReplace code.toList "{value}".toList (Num.short v).toList
  basicExecute dec thou (strReplace s ['.'] dec.toList)

/-- the text `execute_code` hands to the tokenizer: the code with the amount substituted -/
def codeText (code : String) (v : F) : List Char := strReplace code.toList "{value}".toList (Num.short v).toList

/-- every '.' of a text follows a digit or a '.' that does (it stands inside a number body) -/
def dotsOK : Bool → List Char → Bool
  | _, [] => true
  | prev, c :: rest => if c = '.' then prev && dotsOK true rest else dotsOK (isDigit c) rest

/-- hypothesis of `SCP.C08Code.executeCode_comma` on one code and amount (evaluated by the checks) -/
def codeTextOK (code : String) (v : F) : Bool := !(codeText code v).contains ',' && dotsOK false (codeText code v)

def findItem? (items : List (UnitItem F)) (idx : Nat) : Option (UnitItem F) := items.find? (·.index = idx)

/-- `calculate_unit`: apply the up/down code of each item from `src` towards `tgt`; `ex` is the
    code executor (`execute_code`), a parameter so that theorems can be stated for every executor
    with a given behaviour -/
def calculateUnitWith (ex : String → F → Option F) (items : List (UnitItem F)) (v : F) (src tgt : Nat) : Option F :=
  if src = tgt then some v else
  match findItem? items src with
  | none => none
  | some first =>
    let up := !(src > tgt)
    let rec loop (fuel : Nat) (v : F) (cur : UnitItem F) (search : Nat) : Option F :=
      match fuel with
      | 0 => none
      | fuel + 1 =>
        match ex (if up then cur.up else cur.down) v with
        | none => none
        | some v' =>
          match findItem? items search with
          | none => none
          | some next =>
            if next.index = tgt then some v'
            else if up then loop fuel v' next (search + 1)
            else if search = 0 then none else loop fuel v' next (search - 1)
    if up then loop (items.length + 1) v first (src + 1)
    else if src = 0 then none else loop (items.length + 1) v first (src - 1)

def calculateUnit (dec thou : String) (items : List (UnitItem F)) (v : F) (src tgt : Nat) : Option F :=
  calculateUnitWith (executeCode dec thou) items v src tgt

/-- `DynamicTypeItem::convert(config, number, source_type, target_name)` for a code executor `ex` -/
def convertUnitWith (ex : String → F → Option F) (c : Cfg F) (v : F) (src : UnitRef) (target : String) : Option (F × UnitRef) :=
  match assoc? c.units src.group with
  | none => none
  | some group =>
    match group.find? (fun it => it.names.contains target) with
    | some tgt =>
      if src.index = tgt.index then some (v, src)
      else (calculateUnitWith ex group v src.index tgt.index).map (fun w => (w, ⟨src.group, tgt.index⟩))
    | none =>
      match c.bridges.find? (fun b => b.srcName = src.group || b.tgtName = src.group) with
      | none => none
      | some b =>
        let fromSource := b.srcName = src.group
        let (sIdx, tIdx) := if fromSource then (b.srcIndex, b.tgtIndex) else (b.tgtIndex, b.srcIndex)
        match findItem? group sIdx with
        | none => none
        | some _ =>
          match calculateUnitWith ex group v src.index sIdx with
          | none => none
          | some v1 =>
            match ex (if fromSource then b.toSource else b.toTarget) v1 with
            | none => none
            | some v2 =>
              let otherName := if fromSource then b.tgtName else b.srcName
              match assoc? c.units otherName with
              | none => none
              | some og =>
                match og.find? (fun it => it.names.contains target) with
                | none => none
                | some tgt =>
                  match findItem? og tIdx with
                  | none => none
                  | some _ => (calculateUnitWith ex og v2 tIdx tgt.index).map (fun w => (w, ⟨otherName, tgt.index⟩))

def convertUnit (c : Cfg F) (v : F) (src : UnitRef) (target : String) : Option (F × UnitRef) :=
  convertUnitWith (executeCode c.dec c.thou) c v src target

/-- the conversion used by `DynamicTypeItem::calculate`: the other quantity into self's unit,
    addressed by self's first name -/
def convForCalc (c : Cfg F) (self : UnitRef) (w : F) (other : UnitRef) : Option F :=
  match assoc? c.units self.group with
  | none => none
  | some group =>
    match findItem? group self.index with
    | none => none
    | some it =>
      match it.names with
      | [] => none
      | n :: _ => (convertUnit c w other n).map (·.1)

/-- the interpreter with unit conversion wired in -/
def exec (c : Cfg F) (vs : Vars F) (ast : Ast F) : Except Err (Val F × Vars F) :=
  execAst c.rates (convForCalc c) vs ast

end SC
