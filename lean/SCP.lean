import SCP.C01
import SCP.C02
import SCP.C03
import SCP.C04
import SCP.C05
import SCP.C06
import SCP.Calendar
