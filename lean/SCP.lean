import SCP.C01
import SCP.C04
