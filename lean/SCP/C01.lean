/-
  SCP.C01 — Evaluation is total: one result slot per input line.

  Theorems of this file (all for EVERY line evaluator `ev`, i.e. whatever a single line does,
  including failing):
    * `splitLines_length`      : the number of lines is (number of LF) + 1
    * `splitLines_no_lf`       : no line contains LF
    * `splitLines_no_crlf_tail`: a line that was terminated by CRLF does not keep the CR … stated
                                 as `splitLines_join` (re-joining with LF gives the text with
                                 every CRLF replaced by LF)
    * `execute_total`          : status true, exactly one slot per line
    * `slot_spec`              : slot i is the result of evaluating line i in the variables
                                 produced by lines < i (input order; a failing line only
                                 contributes its own slot — `runLines_append`)
  Termination of the rewrite and parser loops: SCP.C01Term.  Panic freedom is not a theorem of
  the model yet; it is decided by the byte-level generator + watchdog (DESIGN.md §C01).
-/
import SC.Session
import SCP.C04
namespace SCP.C01
open SC

variable {V R : Type}

theorem splitLinesAux_length (acc t : List Char) :
    (splitLinesAux acc t).length = t.count '\n' + 1 := by
  fun_induction splitLinesAux acc t <;> simp_all [List.count_cons]
  all_goals (try omega)
  all_goals (rename_i h1 h2; have : ¬ ('\r' = '\n') := by decide
             obtain ⟨rfl, rfl⟩ := h2; simp_all)

/-- one line per LF, plus one -/
theorem splitLines_length (t : List Char) : (splitLines t).length = t.count '\n' + 1 :=
  splitLinesAux_length [] t

theorem splitLinesAux_no_lf (acc t : List Char) (hacc : '\n' ∉ acc) :
    ∀ l ∈ splitLinesAux acc t, '\n' ∉ l := by
  fun_induction splitLinesAux acc t <;> simp_all
  · rename_i h; exact fun e => h e.symm
  · rename_i h _ ih; exact ih (fun e => h e.symm)

/-- no line contains a line feed -/
theorem splitLines_no_lf (t : List Char) : ∀ l ∈ splitLines t, '\n' ∉ l :=
  splitLinesAux_no_lf [] t (by simp)

/-- CRLF ↦ LF -/
def normalize : List Char → List Char
  | [] => []
  | [c] => [c]
  | c :: d :: rest =>
    if c = '\r' ∧ d = '\n' then '\n' :: normalize rest else c :: normalize (d :: rest)

/-- re-joining the lines with LF gives the text with every CRLF replaced by LF -/
def joinLF : List (List Char) → List Char
  | [] => []
  | [l] => l
  | l :: ls => l ++ '\n' :: joinLF ls

theorem joinLF_cons (l : List Char) (ls : List (List Char)) (h : ls ≠ []) :
    joinLF (l :: ls) = l ++ '\n' :: joinLF ls := by
  cases ls with
  | nil => exact absurd rfl h
  | cons a b => rfl

theorem splitLinesAux_ne_nil (acc t : List Char) : splitLinesAux acc t ≠ [] := by
  have := SCP.C04.splitLinesAux_length_pos acc t
  intro h; simp [h] at this

theorem splitLinesAux_join (acc t : List Char) :
    joinLF (splitLinesAux acc t) = acc.reverse ++ normalize t := by
  fun_induction splitLinesAux acc t
  case case1 => simp [joinLF, normalize]
  case case2 => simp_all [joinLF, normalize]
  case case3 => simp_all [joinLF, normalize]
  case case4 acc d rest ih =>
    rw [joinLF_cons _ _ (splitLinesAux_ne_nil _ _), ih]
    simp [normalize]
  case case5 acc c d rest h1 h2 ih =>
    obtain ⟨rfl, rfl⟩ := h2
    rw [joinLF_cons _ _ (splitLinesAux_ne_nil _ _), ih]
    simp [normalize]
  case case6 acc c d rest h1 h2 ih =>
    rw [ih]
    simp [normalize, h2]

/-- re-joining the lines with LF gives the text with every CRLF replaced by LF -/
theorem splitLines_join (t : List Char) : joinLF (splitLines t) = normalize t := by
  have := splitLinesAux_join [] t
  simpa [splitLines] using this

theorem execute_total (ev : V → List Char → V × R) (v0 : V) (t : List Char) :
    (execute ev v0 t).1 = true ∧ (execute ev v0 t).2.length = t.count '\n' + 1 := by
  rw [SCP.C04.execute_eq]
  simp [SCP.C04.runLines_length, splitLines_length]

theorem runLines_append (ev : V → List Char → V × R) (v : V) (a b : List (List Char)) :
    runLines ev v (a ++ b) =
      ((runLines ev (runLines ev v a).1 b).1, (runLines ev v a).2 ++ (runLines ev (runLines ev v a).1 b).2) := by
  induction a generalizing v with
  | nil => simp [runLines]
  | cons l a ih => simp [runLines, ih]

/-- Slot `i` is the result of evaluating line `i` in the variables left by the lines before it,
    in input order; whatever the other lines evaluate to. -/
theorem slot_spec (ev : V → List Char → V × R) (v : V) (pre : List (List Char)) (l : List Char)
    (post : List (List Char)) :
    (runLines ev v (pre ++ l :: post)).2[pre.length]? =
      some (ev (runLines ev v pre).1 l).2 := by
  rw [runLines_append]
  simp [runLines, SCP.C04.runLines_length]

/-- non-vacuity / shape example: LF, CRLF, trailing separator -/
example : splitLines ['a', '\r', '\n', 'b', '\n', '\n', 'c', '\n'] = [['a'], ['b'], [], ['c'], []] := by
  decide
example : splitLines [] = [[]] := by decide
/-- a lone CR is not a separator -/
example : splitLines ['a', '\r', 'b'] = [['a', '\r', 'b']] := by decide

end SCP.C01
