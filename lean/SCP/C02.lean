/-
  SCP.C02 — Arithmetic obeys precedence, associativity and parentheses for every expression.

  Specification: SC.Spec.Arith (stratified trees, textbook `value`, token sequence `toks`).
  Theorems (for every number type `F`, i.e. also for IEEE doubles, and every tree — no bound
  on size or nesting):
    * `parse_eval`     : parsing the token sequence of a tree consumes all of it and the
                         interpreter returns the number `value s`
    * `post_stable`    : `missing_token_adder` leaves the token sequence of a tree unchanged
                         unless a sign stands at its start position (line start / right after
                         the first parenthesis) — that remaining case is `…_partial`: decided
                         by correspondence + oracle only
    * `line_eval_partial` : both together, through `parseLine` (no `=` in the line)
    * `adjacent_add`   : literals written side by side are added
    * `neg_value_rat`, `pos_value_rat`, `div_zero_rat` : over exact arithmetic the spec value is
                         the textbook one (a sign prefix negates, division by zero yields 0)

  Helper definitions and lemmas (the AST of a tree, the parsing lemmas with explicit fuel
  bounds, the invariants of `missing_token_adder`): SCP.Lemmas.C02.
-/
import SC.Spec.Arith
import SC.Parser
import SC.Eval
import SC.Engine
import SCP.Lemmas.C02
namespace SCP.C02
open SC SC.Spec

variable {F : Type} [Num F]

/-- Parsing the tokens of any tree consumes them all, and evaluating the result gives the
    textbook value, whatever the variables, rates and unit conversion are. -/
theorem parse_eval (s : Sum F) (rates : List (String × F))
    (conv : UnitRef → F → UnitRef → Option F) (vs : Vars F) :
    ∃ ast, parseExpr s.toks = .ok (ast, []) ∧
      execAst rates conv vs ast = .ok (.item (.number s.value .decimal), vs) :=
  ⟨s.ast, Sum.parseExpr_toks s, Sum.exec_ast rates conv vs s⟩

/-- a sign token -/
def isSignTok (t : Tok F) : Bool := t.isOpOf .plus || t.isOpOf .minus

/-- `missing_token_adder` does not change the tokens of a tree, provided no sign stands at the
    position where it starts working. -/
theorem post_stable (s : Sum F)
    (h : ∀ i t, adderStart s.toks = some i → s.toks[i]? = some t → isSignTok t = false) :
    missingTokenAdder s.toks = s.toks :=
  missingTokenAdder_stable s.toks (Sum.insertPlus_toks s) h

/-- the whole line (no assignment): post-processing, `SyntaxParser::parse`, interpreter -/
theorem line_eval_partial (s : Sum F) (c : Cfg F) (vs : Vars F)
    (h : ∀ i t, adderStart s.toks = some i → s.toks[i]? = some t → isSignTok t = false) :
    ∃ ast, parseLine vs (missingTokenAdder s.toks) = .ok (ast, vs) ∧
      exec c vs ast = .ok (.item (.number s.value .decimal), vs) := by
  refine ⟨s.ast, ?_, Sum.exec_ast c.rates (convForCalc c) vs s⟩
  have hna : s.toks.any (fun t => t.isOpOf .assign) = false := by
    rw [List.any_eq_false]
    intro t ht
    simp [Sum.not_assign s t ht]
  rw [post_stable s h]
  unfold parseLine
  rw [hna]
  simp only [Sum.parseExpr_toks s]
  simp

/-- operands written side by side without an operator are added (left to right) -/
theorem adjacent_add (v : F) (rest : List F) (rates : List (String × F))
    (conv : UnitRef → F → UnitRef → Option F) (vs : Vars F) :
    ∃ ast, parseExpr (missingTokenAdder ((v :: rest).map litTok)) = .ok (ast, []) ∧
      execAst rates conv vs ast = .ok (.item (.number (rest.foldl Num.add v) .decimal), vs) := by
  have ht : missingTokenAdder ((v :: rest).map litTok) =
      (sumOfLits (.one (litProd v)) rest).toks := by
    rw [adder_lits, sumOfLits_toks]
    simp [Sum.toks, Prod.toks, Unary.toks, Prim.toks, litProd]
  have hv : (sumOfLits (.one (litProd v)) rest).value = rest.foldl Num.add v := by
    rw [sumOfLits_value]
    simp [Sum.value, Prod.value, Unary.value, Prim.value, litProd]
  rw [ht, ← hv]
  exact parse_eval _ rates conv vs

/-- over exact arithmetic a detached minus negates its operand -/
theorem neg_value_rat (p : Prim Rat) : (Unary.neg p).value = - p.value := by
  cases p with
  | lit v => simp [Unary.value, Prim.value, Num.mul, Num.ofInt]; grind
  | paren s => simp [Unary.value, Prim.value, Num.mul, Num.ofInt]; grind

theorem pos_value_rat (p : Prim Rat) : (Unary.pos p).value = p.value := by
  cases p with
  | lit v => simp [Unary.value, Prim.value, Num.mul, Num.ofInt]
  | paren s => simp [Unary.value, Prim.value]

/-- over exact arithmetic division by zero yields 0 and any other quotient is exact -/
theorem div_value_rat (p : Prod Rat) (u : Unary Rat) :
    (Prod.div p u).value = if u.value = 0 then 0 else p.value / u.value := by
  simp only [Prod.value, gdiv, Num.isBad, Num.div, Num.ofInt]
  by_cases h : u.value = 0 <;> simp [h, Rat.div_def]

/-! non-vacuity -/
example : (Sum.sub (.one (.mul (.one (.prim (.lit (3 : Rat)))) (.neg (.lit 5)))) (.one (.neg (.paren (.add (.one (.one (.prim (.lit 2)))) (.one (.prim (.lit 3)))))))).value = -10 := by
  simp [Sum.value, Prod.value, Unary.value, Prim.value, Num.mul, Num.sub, Num.add, Num.ofInt]
  grind

end SCP.C02
