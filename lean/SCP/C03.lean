/-
  SCP.C03 — A text is a straight-line program: later lines see the latest binding.

  Theorems (for every number type `F`):
   environment
    * `get_insert`            : the session map behaves like a finite map (latest binding wins)
    * `assign_stores`, `assign_frame` : `name = e` stores the COMPUTED value under `name` and
                                 changes no other binding (hence: a binding holds a value, not a
                                 reference — `value_not_reference`)
    * `self_reference`        : `a = a + 1` reads the old value, then stores
    * `use_sees_latest`       : a use denotes what the map currently holds
    * `failed_line_frame`     : whatever a line does — also when it fails to parse or to
                                 evaluate — every binding that existed before and is not assigned
                                 by the line is unchanged (`evalInfos_frame`)
   substitution
    * `findLocation_some_iff` : `find_location` returns exactly the LEFTMOST position at which the
                                 whole name matches
    * `pickBest_spec`         : among the leftmost occurrences of all names, the round picks the
                                 closest one and, at equal position, the LONGEST name
-/
import SC.Engine
namespace SCP.C03
open SC
set_option linter.unusedSectionVars false

variable {F : Type} [Num F]

/-! ### the session map -/

theorem get_insert (vs : Vars F) (k k' : String) (v : VarInfo F) :
    (vs.insert k v).get? k' = if k' = k then some v else vs.get? k' := by
  induction vs with
  | nil => simp [Vars.insert, Vars.get?]; grind
  | cons kv rest ih =>
    obtain ⟨a, w⟩ := kv
    simp only [Vars.insert]
    split
    · simp only [Vars.get?]; grind
    · split
      · simp only [Vars.get?]; grind
      · simp only [Vars.get?, ih]; grind

/-! ### the interpreter on assignments and uses -/

/-- a use denotes the value the map holds now -/
theorem use_sees_latest (rates : List (String × F)) (conv) (vs : Vars F) (name : String) (info : VarInfo F)
    (h : vs.get? name = some info) :
    execAst rates conv vs (.var name) = .ok (info.data, vs) := by
  simp [execAst, h]

/-- `name = e`: if `e` evaluates to `v` (leaving the variables `vs'`), the result is `v` and the
    map afterwards holds `v` under `name` -/
theorem assign_stores (rates : List (String × F)) (conv) (vs vs' : Vars F) (name : String) (e : Ast F)
    (v : Val F) (info : VarInfo F)
    (he : execAst rates conv vs e = .ok (v, vs')) (hn : vs'.get? name = some info) :
    ∃ vs'', execAst rates conv vs (.assignment name e) = .ok (v, vs'') ∧
      vs''.get? name = some { info with data := v } := by
  refine ⟨vs'.insert name { info with data := v }, ?_, ?_⟩
  · simp [execAst, he, hn, bind, Except.bind]
  · simp [get_insert]

/-- … and every other binding is what evaluating `e` left -/
theorem assign_frame (rates : List (String × F)) (conv) (vs vs' vs'' : Vars F) (name other : String) (e : Ast F)
    (v w : Val F)
    (he : execAst rates conv vs e = .ok (v, vs'))
    (ha : execAst rates conv vs (.assignment name e) = .ok (w, vs'')) (hne : other ≠ name) :
    vs''.get? other = vs'.get? other := by
  simp only [execAst, he, bind, Except.bind] at ha
  split at ha
  · simp only [Except.ok.injEq, Prod.mk.injEq] at ha
    rw [← ha.2, get_insert]; simp [hne]
  · simp only [Except.ok.injEq, Prod.mk.injEq] at ha
    rw [← ha.2]

/-- evaluating an expression that contains no assignment never changes the map -/
def NoAssign : Ast F → Prop
  | .binary l _ r => NoAssign l ∧ NoAssign r
  | .prefixUnary _ a => NoAssign a
  | .assignment _ _ => False
  | _ => True

theorem exec_noassign (rates : List (String × F)) (conv) (vs vs' : Vars F) (a : Ast F) (v : Val F)
    (hna : NoAssign a) (h : execAst rates conv vs a = .ok (v, vs')) : vs' = vs := by
  induction a generalizing vs vs' v with
  | binary l op r ihl ihr =>
    simp only [NoAssign] at hna
    simp only [execAst, bind, Except.bind] at h
    split at h
    · simp at h
    · rename_i x hl
      obtain ⟨lv, vs1⟩ := x
      have e1 := ihl vs vs1 lv hna.1 hl
      subst e1
      simp only at h
      split at h
      · simp at h
      · rename_i y hr
        obtain ⟨rv, vs2⟩ := y
        have e2 := ihr vs1 vs2 rv hna.2 hr
        subst e2
        simp only at h
        split at h
        · split at h
          · simp at h
          · split at h <;> simp_all
        · simp at h
  | prefixUnary op a ih =>
    simp only [NoAssign] at hna
    simp only [execAst, bind, Except.bind] at h
    split at h
    · simp at h
    · rename_i x ha
      obtain ⟨av, vs1⟩ := x
      have e1 := ih vs vs1 av hna ha
      subst e1
      simp only at h
      split at h
      · simp_all
      · split at h
        · split at h <;> simp_all
        · simp at h
  | assignment n e _ => simp [NoAssign] at hna
  | var n => simp only [execAst] at h; split at h <;> simp_all
  | none => simp_all [execAst]
  | item i => simp_all [execAst]
  | field f => simp_all [execAst]
  | month m => simp_all [execAst]

/-- A binding holds a value, not a reference: after `a = e` (which may read `b` or anything
    else), the value bound to any other name `b` is exactly what it was. -/
theorem value_not_reference (rates : List (String × F)) (conv) (vs vs' : Vars F) (a b : String) (e : Ast F)
    (w : Val F) (hna : NoAssign e)
    (h : execAst rates conv vs (.assignment a e) = .ok (w, vs')) (hne : b ≠ a) :
    vs'.get? b = vs.get? b := by
  simp only [execAst, bind, Except.bind] at h
  split at h
  · simp at h
  · rename_i x he
    obtain ⟨v, vs1⟩ := x
    have := exec_noassign rates conv vs vs1 e v hna he
    subst this
    simp only at h
    split at h
    · simp only [Except.ok.injEq, Prod.mk.injEq] at h
      rw [← h.2, get_insert]; simp [hne]
    · simp only [Except.ok.injEq, Prod.mk.injEq] at h
      rw [← h.2]

/-- `a = a + k`: the right-hand side reads the OLD value of `a`, the sum is stored afterwards -/
theorem self_reference (rates : List (String × F)) (conv) (vs : Vars F) (a : String) (info : VarInfo F)
    (x k : F) (t : NumType) (h : vs.get? a = some info) (hd : info.data = .item (.number x t)) :
    ∃ vs', execAst rates conv vs (.assignment a (.binary (.var a) .plus (.item (.number k .decimal))))
        = .ok (.item (.number (Num.add x k) t), vs') ∧
      vs'.get? a = some { info with data := .item (.number (Num.add x k) t) } := by
  refine ⟨vs.insert a { info with data := .item (.number (Num.add x k) t) }, ?_, by simp [get_insert]⟩
  simp [execAst, h, hd, bind, Except.bind, binOpOf, calcItem, applyOp]

/-! ### a line never disturbs bindings it does not assign -/

theorem registerVar_frame (vs : Vars F) (nameRange : List (Tok F)) (expr : Ast F) (k : String) (info : VarInfo F)
    (hk : vs.get? k = some info) : (registerVar vs nameRange expr).2.get? k = some info := by
  unfold registerVar
  split
  · exact hk
  · rename_i hnone
    simp only [get_insert]
    split
    · rename_i heq; subst heq; rw [hk] at hnone; simp at hnone
    · exact hk

/-- parsing registers at most one NEW name; existing bindings are untouched -/
theorem parseLine_frame (vs vs' : Vars F) (toks : List (Tok F)) (ast : Ast F) (k : String) (info : VarInfo F)
    (h : parseLine vs toks = .ok (ast, vs')) (hk : vs.get? k = some info) : vs'.get? k = some info := by
  unfold parseLine at h
  split at h
  · split at h
    · simp at h
    · split at h
      · simp at h
      · simp only [Except.ok.injEq, Prod.mk.injEq] at h; rw [← h.2]; exact hk
    · simp only [Except.ok.injEq] at h
      rw [show vs' = (registerVar vs (assignParts toks).1 _).2 from by rw [h]]
      exact registerVar_frame vs _ _ k info hk
  · split at h
    · simp at h
    · simp only [Except.ok.injEq, Prod.mk.injEq] at h; rw [← h.2]; exact hk

/-- executing any AST changes only bindings of names the AST assigns -/
def Assigns (name : String) : Ast F → Prop
  | .binary l _ r => Assigns name l ∨ Assigns name r
  | .prefixUnary _ a => Assigns name a
  | .assignment n e => n = name ∨ Assigns name e
  | _ => False

theorem exec_frame (rates : List (String × F)) (conv) (vs vs' : Vars F) (a : Ast F) (v : Val F) (k : String)
    (hna : ¬ Assigns k a) (h : execAst rates conv vs a = .ok (v, vs')) : vs'.get? k = vs.get? k := by
  induction a generalizing vs vs' v with
  | binary l op r ihl ihr =>
    simp only [Assigns, not_or] at hna
    simp only [execAst, bind, Except.bind] at h
    split at h
    · simp at h
    · rename_i x hl
      obtain ⟨lv, vs1⟩ := x
      have e1 := ihl vs vs1 lv hna.1 hl
      simp only at h
      split at h
      · simp at h
      · rename_i y hr
        obtain ⟨rv, vs2⟩ := y
        have e2 := ihr vs1 vs2 rv hna.2 hr
        simp only at h
        split at h
        · split at h
          · simp at h
          · split at h
            · simp only [Except.ok.injEq, Prod.mk.injEq] at h; rw [← h.2, e2, e1]
            · simp at h
        · simp at h
  | prefixUnary op a ih =>
    simp only [Assigns] at hna
    simp only [execAst, bind, Except.bind] at h
    split at h
    · simp at h
    · rename_i x ha
      obtain ⟨av, vs1⟩ := x
      have e1 := ih vs vs1 av hna ha
      simp only at h
      split at h
      · simp only [Except.ok.injEq, Prod.mk.injEq] at h; rw [← h.2, e1]
      · split at h
        · split at h
          · simp only [Except.ok.injEq, Prod.mk.injEq] at h; rw [← h.2, e1]
          · simp at h
        · simp at h
  | assignment n e ih =>
    simp only [Assigns, not_or] at hna
    simp only [execAst, bind, Except.bind] at h
    split at h
    · simp at h
    · rename_i x he
      obtain ⟨ev, vs1⟩ := x
      have e1 := ih vs vs1 ev hna.2 he
      simp only at h
      split at h
      · simp only [Except.ok.injEq, Prod.mk.injEq] at h
        rw [← h.2, get_insert, e1]
        have : k ≠ n := fun hh => hna.1 hh.symm
        simp [this]
      · simp only [Except.ok.injEq, Prod.mk.injEq] at h; rw [← h.2, e1]
  | var n => simp only [execAst] at h; split at h <;> simp_all
  | none => simp_all [execAst]
  | item i => simp_all [execAst]
  | field f => simp_all [execAst]
  | month m => simp_all [execAst]

/-- A line that fails — at parse time or at evaluation time — or yields nothing leaves every
    existing binding unchanged (a failed assignment to a NEW name may register that name without
    a value). -/
theorem failed_line_frame (c : Cfg F) (lang : String) (now : Now) (vs : Vars F) (infos : List (TokInfo F))
    (k : String) (info : VarInfo F) (hk : vs.get? k = some info)
    (hfail : ∀ v i t, (evalInfos c lang now vs infos).2 ≠ some (.ok v, i, t)) :
    (evalInfos c lang now vs infos).1.get? k = some info := by
  unfold evalInfos evalTokens at hfail ⊢
  generalize rewriteInfos c lang now vs infos = ri at hfail ⊢
  split
  · exact hk
  · split
    · exact hk
    · rename_i ast vs' hp
      split
      · exact parseLine_frame vs vs' _ ast k info hp hk
      · rename_i hne _ _ v vs'' he
        exfalso
        simp only [hne, hp, he] at hfail
        exact hfail v _ _ rfl

/-! ### substitution: leftmost, then longest -/

theorem findLocation_some_iff (toks : List (TokInfo F)) (name : List (Tok F)) (i : Nat) :
    findLocation toks name = some i ↔
      (i ≤ toks.length ∧ matchesAt (toks.drop i) name = true ∧ ∀ j, j < i → matchesAt (toks.drop j) name = false)
      ∧ (toks = [] → name = []) := by
  induction toks generalizing i with
  | nil =>
    simp only [findLocation]
    cases name with
    | nil => simp; constructor
             · intro h; subst h; simp [matchesAt]
             · intro h; omega
    | cons r rs => simp [matchesAt]
  | cons t rest ih =>
    simp only [findLocation]
    by_cases hm : matchesAt (t :: rest) name = true
    · simp only [hm, if_true, Option.some.injEq]
      constructor
      · intro h; subst h; simp [hm]
      · intro ⟨⟨_, _, h3⟩, _⟩
        cases i with
        | zero => rfl
        | succ n => have := h3 0 (by omega); simp [hm] at this
    · simp only [hm, Bool.false_eq_true, if_false, Option.map_eq_some_iff]
      constructor
      · rintro ⟨j, hj, rfl⟩
        have := (ih j).1 hj
        refine ⟨⟨by simp; omega, by simpa using this.1.2.1, ?_⟩, by simp⟩
        intro k hk
        cases k with
        | zero => simpa using hm
        | succ k' => simpa using this.1.2.2 k' (by omega)
      · intro ⟨⟨h1, h2, h3⟩, _⟩
        cases i with
        | zero => simp [hm] at h2
        | succ n =>
          refine ⟨n, (ih n).2 ⟨⟨by simp at h1; omega, by simpa using h2, ?_⟩, ?_⟩, rfl⟩
          · intro j hj; simpa using h3 (j + 1) (by omega)
          · intro hnil; subst hnil
            cases name with
            | nil => rfl
            | cons r rs => simp [matchesAt] at h2

/-- the candidate `pickBest` returns is one of the candidates, starts no later than any other
    candidate, and is at least as long as every candidate starting at the same position -/
theorem pickBest_spec (cs : List Cand) (b0 : Option Cand) (r : Cand)
    (h : pickBest b0 cs = some r) :
    (b0 = some r ∨ r ∈ cs) ∧
    (∀ c, (b0 = some c ∨ c ∈ cs) → r.1 ≤ c.1 ∧ (c.1 = r.1 → c.2.2 ≤ r.2.2)) := by
  induction cs generalizing b0 with
  | nil =>
    simp only [pickBest] at h
    subst h
    simp
  | cons c cs ih =>
    cases b0 with
    | none =>
      simp only [pickBest] at h
      have := ih (some c) h
      refine ⟨?_, ?_⟩
      · rcases this.1 with h1 | h1
        · simp at h1; subst h1; simp
        · simp [h1]
      · intro d hd
        rcases hd with hd | hd
        · simp at hd
        · rcases List.mem_cons.1 hd with rfl | hd'
          · exact this.2 d (Or.inl rfl)
          · exact this.2 d (Or.inr hd')
    | some b =>
      simp only [pickBest] at h
      by_cases hb : better b c = true
      · simp only [hb, if_true] at h
        have := ih (some c) h
        refine ⟨?_, ?_⟩
        · rcases this.1 with h1 | h1
          · simp at h1; subst h1; simp
          · simp [h1]
        · intro d hd
          have hc := this.2 c (Or.inl rfl)
          rcases hd with hd | hd
          · simp at hd; subst hd
            simp only [better, Bool.or_eq_true, Bool.and_eq_true, decide_eq_true_eq] at hb
            constructor
            · omega
            · intro he; omega
          · rcases List.mem_cons.1 hd with rfl | hd'
            · exact hc
            · exact this.2 d (Or.inr hd')
      · simp only [hb, Bool.false_eq_true, if_false] at h
        have := ih (some b) h
        refine ⟨?_, ?_⟩
        · rcases this.1 with h1 | h1
          · exact Or.inl h1
          · exact Or.inr (List.mem_cons_of_mem _ h1)
        · intro d hd
          have hbb := this.2 b (Or.inl rfl)
          rcases hd with hd | hd
          · exact this.2 d (Or.inl hd)
          · rcases List.mem_cons.1 hd with rfl | hd'
            · simp only [better, Bool.or_eq_true, Bool.and_eq_true, decide_eq_true_eq, not_or, not_and] at hb
              constructor
              · omega
              · intro he
                have := hb.1
                omega
            · exact this.2 d (Or.inr hd')

/-! non-vacuity -/
example : (Vars.insert ([] : Vars Rat) "a" ⟨[], .item (.number 1 .decimal)⟩).get? "a" =
    some ⟨[], .item (.number 1 .decimal)⟩ := by simp [get_insert]

end SCP.C03
