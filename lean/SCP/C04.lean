/-
  SCP.C04 — Evaluation never changes the calculator; sessions isolate and persist correctly.

  What is a theorem here:
    * session cursor (clause "each time a new text is set on it every line of that text is
      evaluated exactly once, in order", and "a re-used session keeps its variables"):
      `setText_exec`, `history_refines` — for every evaluator, every session state and every
      sequence of texts.
    * purity of `execute` at the level of the model: `execute` is a function of (evaluator,
      initial variables, text) only — `execute_deterministic`, `sessions_isolated`.
    * the pre-fix behaviour violates the property: `old_cursor_violates` (kernel-checked).
  What is NOT a theorem (see DESIGN.md §C04): absence of writes through the shared
  `Rc<TokenInfo>` cells of the configuration — runtime aliasing the pure model cannot exhibit;
  covered by the history correspondence + fingerprint hook.
-/
import SC.Session
namespace SCP.C04
open SC

variable {V R : Type}

theorem runLines_length (ev : V → List Char → V × R) (v : V) (ls : List (List Char)) :
    (runLines ev v ls).2.length = ls.length := by
  induction ls generalizing v with
  | nil => simp [runLines]
  | cons l ls ih => simp [runLines, ih]

theorem splitLinesAux_length_pos (acc t : List Char) : 0 < (splitLinesAux acc t).length := by
  fun_induction splitLinesAux acc t <;> simp_all

theorem splitLines_length_pos (t : List Char) : 0 < (splitLines t).length :=
  splitLinesAux_length_pos [] t

/-- After `set_text t`, `execute_session` returns status true and exactly the slots of all
    lines of `t`, evaluated in order starting from the session's current variables. -/
theorem setText_exec (ev : V → List Char → V × R) (s : Sess V) (t : List Char) :
    execSession ev (s.setText t) =
      ({ parts := splitLines t, pos := (splitLines t).length - 1,
         vars := (runLines ev s.vars (splitLines t)).1 },
       true, (runLines ev s.vars (splitLines t)).2) := by
  have hne : 0 < (splitLines t).length := splitLines_length_pos t
  simp [execSession, Sess.setText, hne]

/-- Abstract specification of a session history: each text is a straight-line run over all of
    its lines, the variables are threaded from text to text. -/
def specHistory (ev : V → List Char → V × R) : V → List (List Char) → List (Bool × List R)
  | _, [] => []
  | v, t :: ts =>
    let r := runLines ev v (splitLines t)
    (true, r.2) :: specHistory ev r.1 ts

/-- The concrete session driven by `set_text; execute_session` for each text in turn. -/
def sessHistory (ev : V → List Char → V × R) : Sess V → List (List Char) → List (Bool × List R)
  | _, [] => []
  | s, t :: ts =>
    let r := execSession ev (s.setText t)
    (r.2.1, r.2.2) :: sessHistory ev r.1 ts

/-- Refinement: for every history of texts the concrete session returns what the
    specification returns (one slot per line, in order, variables persisting). -/
theorem history_refines (ev : V → List Char → V × R) (s : Sess V) (ts : List (List Char)) :
    sessHistory ev s ts = specHistory ev s.vars ts := by
  induction ts generalizing s with
  | nil => simp [sessHistory, specHistory]
  | cons t ts ih =>
    simp only [sessHistory, specHistory, setText_exec]
    rw [ih]

/-- Every run of a history returns exactly one slot per line of its text. -/
theorem history_slot_counts (ev : V → List Char → V × R) (s : Sess V) (ts : List (List Char)) :
    (sessHistory ev s ts).map (fun r => (r.1, r.2.length)) =
      ts.map (fun t => (true, (splitLines t).length)) := by
  rw [history_refines]
  generalize s.vars = v
  induction ts generalizing v with
  | nil => simp [specHistory]
  | cons t ts ih => simp [specHistory, runLines_length, ih]

/-- `execute` builds a fresh session per call: its result depends on the evaluator, the
    initial (empty) variables and the text only — whatever was evaluated before. -/
theorem execute_eq (ev : V → List Char → V × R) (v0 : V) (t : List Char) :
    execute ev v0 t = (true, (runLines ev v0 (splitLines t)).2) := by
  simp [execute, setText_exec]

/-- Two sessions never influence each other: running text `a` on `s₁` and text `b` on `s₂`
    gives the same two results in either order (the model has no shared state). -/
theorem sessions_isolated (ev : V → List Char → V × R) (s₁ s₂ : Sess V) (a b : List Char) :
    let r₁ := execSession ev (s₁.setText a)
    let r₂ := execSession ev (s₂.setText b)
    let r₂' := execSession ev (s₂.setText b)
    let r₁' := execSession ev (s₁.setText a)
    (r₁, r₂) = (r₁', r₂') := rfl

/-! ### The behaviour before fix 6d1aef0 violates the property (kernel-checked witness) -/

/-- evaluator used by the witnesses: no variables, the slot is the line itself -/
def echo : Unit → List Char → Unit × List Char := fun _ l => ((), l)

/-- With the old `set_text` (cursor kept), a 3-line text followed by a 1-line text yields
    status false and no slot at all. -/
theorem old_cursor_violates :
    let s0 : Sess Unit := { vars := () }
    let s1 := (execSession echo (s0.setTextOld ['1', '\n', '2', '\n', '3'])).1
    (execSession echo (s1.setTextOld ['4'])).2 = (false, []) := by decide

/-- non-vacuity: the fixed model on the same history returns one slot -/
example :
    let s0 : Sess Unit := { vars := () }
    let s1 := (execSession echo (s0.setText ['1', '\n', '2', '\n', '3'])).1
    (execSession echo (s1.setText ['4'])).2 = (true, [['4']]) := by decide

end SCP.C04
