/-
  SCP.C05 — Percentage phrases compute the textbook formulas for numbers and money.

  All formula theorems are over exact arithmetic (`F := Rat`): floating-point rounding is
  modelled (the compiled model is bit-exact with the implementation) but not verified.
  `x`, `a`, `b`, `p` range over ALL rationals (negative, zero, fractional).
-/
import SC.Rules
import SC.Engine
import SC.Gen.Config
namespace SCP.C05
open SC
set_option linter.unusedSimpArgs false

/-- token info carrying a value (spans are irrelevant for the rule functions) -/
def ti (t : Tok Rat) : TokInfo Rat := { start := 0, stop := 0, tok := some t }

def num (x : Rat) : Tok Rat := .item (.number x .decimal)
def pct (p : Rat) : Tok Rat := .item (.percent p)
def mon (x : Rat) (cur : String) : Tok Rat := .item (.money x cur)

theorem gdiv_rat (a b : Rat) : gdiv a b = a / b := by
  simp [gdiv, Num.div, Num.isBad]

/-! ### `X + p%`, `X - p%` (the interpreter: a percent operand is that share of the other one) -/

theorem plus_percent (x p : Rat) (t : NumType) (rates) (conv) :
    calcItem rates conv (.number x t) (.percent p) .add = some (.number (x * (1 + p / 100)) t) := by
  simp [calcItem, applyOp, percentOf, gdiv_rat, hundred, Num.add, Num.mul, Num.ofInt]
  grind

theorem minus_percent (x p : Rat) (t : NumType) (rates) (conv) :
    calcItem rates conv (.number x t) (.percent p) .sub = some (.number (x * (1 - p / 100)) t) := by
  simp [calcItem, applyOp, percentOf, gdiv_rat, hundred, Num.sub, Num.mul, Num.ofInt]
  grind

theorem money_plus_percent (x p : Rat) (cur : String) (rates) (conv) :
    calcItem rates conv (.money x cur) (.percent p) .add = some (.money (x * (1 + p / 100)) cur) := by
  simp [calcItem, applyOp, percentOf, gdiv_rat, hundred, Num.add, Num.mul, Num.ofInt]
  grind

theorem money_minus_percent (x p : Rat) (cur : String) (rates) (conv) :
    calcItem rates conv (.money x cur) (.percent p) .sub = some (.money (x * (1 - p / 100)) cur) := by
  simp [calcItem, applyOp, percentOf, gdiv_rat, hundred, Num.sub, Num.mul, Num.ofInt]
  grind

/-! ### `p% of X`, `p% on X`, `p% off X` (rule functions number_of / number_on / number_off) -/

/-- the fields a match of `{PERCENT:p} of {NUMBER_OR_MONEY:number}` (either order) binds -/
def fieldsNP (number p : Tok Rat) : Fields Rat := [("number", ti number), ("p", ti p)]

theorem of_number (c : Cfg Rat) (lang : String) (now : Now) (vs : Vars Rat) (x p : Rat) :
    applyRule c lang now vs .numberOf (fieldsNP (num x) (pct p)) = some (num (x * p / 100)) := by
  simp [applyRule, ruleNumberPct, fieldsNP, Fields.get?, assoc?, ti, num, pct, getNumberOrPrice, getNumber,
    getPercent, getMoney, getCurrency, fieldItem, gdiv_rat, hundredF, Num.mul, Num.ofInt]

theorem on_number (c : Cfg Rat) (lang : String) (now : Now) (vs : Vars Rat) (x p : Rat) :
    applyRule c lang now vs .numberOn (fieldsNP (num x) (pct p)) = some (num (x * (1 + p / 100))) := by
  simp [applyRule, ruleNumberPct, fieldsNP, Fields.get?, assoc?, ti, num, pct, getNumberOrPrice, getNumber,
    getPercent, getMoney, getCurrency, fieldItem, gdiv_rat, hundredF, Num.mul, Num.add, Num.ofInt]
  grind

theorem off_number (c : Cfg Rat) (lang : String) (now : Now) (vs : Vars Rat) (x p : Rat) :
    applyRule c lang now vs .numberOff (fieldsNP (num x) (pct p)) = some (num (x * (1 - p / 100))) := by
  simp [applyRule, ruleNumberPct, fieldsNP, Fields.get?, assoc?, ti, num, pct, getNumberOrPrice, getNumber,
    getPercent, getMoney, getCurrency, fieldItem, gdiv_rat, hundredF, Num.mul, Num.sub, Num.ofInt]
  grind

theorem of_money (c : Cfg Rat) (lang : String) (now : Now) (vs : Vars Rat) (x p : Rat) (cur : String) :
    applyRule c lang now vs .numberOf (fieldsNP (mon x cur) (pct p)) = some (mon (x * p / 100) cur) := by
  simp [applyRule, ruleNumberPct, fieldsNP, Fields.get?, assoc?, ti, mon, pct, getNumberOrPrice, getNumber,
    getPercent, getMoney, getCurrency, fieldItem, gdiv_rat, hundredF, Num.mul, Num.ofInt]

theorem on_money (c : Cfg Rat) (lang : String) (now : Now) (vs : Vars Rat) (x p : Rat) (cur : String) :
    applyRule c lang now vs .numberOn (fieldsNP (mon x cur) (pct p)) = some (mon (x * (1 + p / 100)) cur) := by
  simp [applyRule, ruleNumberPct, fieldsNP, Fields.get?, assoc?, ti, mon, pct, getNumberOrPrice, getNumber,
    getPercent, getMoney, getCurrency, fieldItem, gdiv_rat, hundredF, Num.mul, Num.add, Num.ofInt]
  grind

theorem off_money (c : Cfg Rat) (lang : String) (now : Now) (vs : Vars Rat) (x p : Rat) (cur : String) :
    applyRule c lang now vs .numberOff (fieldsNP (mon x cur) (pct p)) = some (mon (x * (1 - p / 100)) cur) := by
  simp [applyRule, ruleNumberPct, fieldsNP, Fields.get?, assoc?, ti, mon, pct, getNumberOrPrice, getNumber,
    getPercent, getMoney, getCurrency, fieldItem, gdiv_rat, hundredF, Num.mul, Num.sub, Num.ofInt]
  grind

/-! ### `A is what % of B`, `A is p% of what` -/

theorem what_percent (c : Cfg Rat) (lang : String) (now : Now) (vs : Vars Rat) (a b : Rat) :
    applyRule c lang now vs .findNumbersPercent [("part", ti (num a)), ("total", ti (num b))] =
      some (pct (100 * a / b)) := by
  simp [applyRule, Fields.get?, assoc?, ti, num, pct, getNumberOrPrice, getNumber, getMoney, fieldItem,
    gdiv_rat, hundredF, Num.mul, Num.ofInt]
  grind

/-- a zero total yields 0 % (Lean's `x / 0 = 0` coincides with the guarded division here) -/
theorem what_percent_zero (c : Cfg Rat) (lang : String) (now : Now) (vs : Vars Rat) (a : Rat) :
    applyRule c lang now vs .findNumbersPercent [("part", ti (num a)), ("total", ti (num 0))] =
      some (pct 0) := by
  rw [what_percent]; simp [pct, Rat.div_def]

theorem what_percent_money (c : Cfg Rat) (lang : String) (now : Now) (vs : Vars Rat) (a b : Rat) (ca cb : String) :
    applyRule c lang now vs .findNumbersPercent [("part", ti (mon a ca)), ("total", ti (mon b cb))] =
      some (pct (100 * a / b)) := by
  simp [applyRule, Fields.get?, assoc?, ti, mon, pct, getNumberOrPrice, getNumber, getMoney, fieldItem,
    gdiv_rat, hundredF, Num.mul, Num.ofInt]
  grind

theorem total_from_percent (c : Cfg Rat) (lang : String) (now : Now) (vs : Vars Rat) (a p : Rat) :
    applyRule c lang now vs .findTotalFromPercent [("number_part", ti (num a)), ("percent_part", ti (pct p))] =
      some (num (100 * a / p)) := by
  simp [applyRule, Fields.get?, assoc?, ti, num, pct, getNumberOrPrice, getNumber, getMoney, getPercent,
    getCurrency, fieldItem, gdiv_rat, hundredF, Num.mul, Num.ofInt]
  grind

theorem total_from_percent_money (c : Cfg Rat) (lang : String) (now : Now) (vs : Vars Rat) (a p : Rat) (cur : String) :
    applyRule c lang now vs .findTotalFromPercent [("number_part", ti (mon a cur)), ("percent_part", ti (pct p))] =
      some (mon (100 * a / p) cur) := by
  simp [applyRule, Fields.get?, assoc?, ti, mon, pct, getNumberOrPrice, getNumber, getMoney, getPercent,
    getCurrency, fieldItem, gdiv_rat, hundredF, Num.mul, Num.ofInt]
  grind


/-! ### token level: the GENERATED rule patterns (regenerated from config.json on every run)
    match the phrases' token sequences in both operand orders and bind the fields the rule
    functions read.  `v` is any number or money token. -/

def tiText (s : String) : TokInfo Rat := { start := 0, stop := 0, tok := some (.text s) }
def tiOp (o : Op) : TokInfo Rat := { start := 0, stop := 0, tok := some (.op o) }

/-- a token that is a number or an amount of money -/
inductive NumOrMoney : Tok Rat → Prop
  | number (x : Rat) : NumOrMoney (num x)
  | money (x : Rat) (cur : String) : NumOrMoney (mon x cur)

macro "match_phrase" : tactic => `(tactic|
  (refine ⟨_, rfl, ?_, ?_⟩ <;>
   simp [findMatch, findMatch.go, sameTok, ti, tiText, tiOp, pct, num, mon, infoEq, tokEq, tokFieldCompare, fieldNameOf,
     Field.name, Fields.insert, Tok.typeName, Item.typeName, lowerEq, fieldsNP, Op.ofChar]))

theorem phrase_of_1 (v : Tok Rat) (hv : NumOrMoney v) (p : Rat) :
    ∃ pat, (Gen.rule_en_number_of Rat).patterns[0]? = some pat ∧
      (findMatch ([] : Vars Rat) pat [ti (pct p), tiText "of", ti v]).found = true ∧
      (findMatch ([] : Vars Rat) pat [ti (pct p), tiText "of", ti v]).fields = fieldsNP v (pct p) := by
  cases hv <;> match_phrase

theorem phrase_of_2 (v : Tok Rat) (hv : NumOrMoney v) (p : Rat) :
    ∃ pat, (Gen.rule_en_number_of Rat).patterns[1]? = some pat ∧
      (findMatch ([] : Vars Rat) pat [ti v, tiText "of", ti (pct p)]).found = true ∧
      (findMatch ([] : Vars Rat) pat [ti v, tiText "of", ti (pct p)]).fields = fieldsNP v (pct p) := by
  cases hv <;> match_phrase

theorem phrase_on_1 (v : Tok Rat) (hv : NumOrMoney v) (p : Rat) :
    ∃ pat, (Gen.rule_en_number_on Rat).patterns[0]? = some pat ∧
      (findMatch ([] : Vars Rat) pat [ti (pct p), tiText "on", ti v]).found = true ∧
      (findMatch ([] : Vars Rat) pat [ti (pct p), tiText "on", ti v]).fields = fieldsNP v (pct p) := by
  cases hv <;> match_phrase

theorem phrase_on_2 (v : Tok Rat) (hv : NumOrMoney v) (p : Rat) :
    ∃ pat, (Gen.rule_en_number_on Rat).patterns[1]? = some pat ∧
      (findMatch ([] : Vars Rat) pat [ti v, tiText "on", ti (pct p)]).found = true ∧
      (findMatch ([] : Vars Rat) pat [ti v, tiText "on", ti (pct p)]).fields = fieldsNP v (pct p) := by
  cases hv <;> match_phrase

theorem phrase_off_1 (v : Tok Rat) (hv : NumOrMoney v) (p : Rat) :
    ∃ pat, (Gen.rule_en_number_off Rat).patterns[0]? = some pat ∧
      (findMatch ([] : Vars Rat) pat [ti (pct p), tiText "off", ti v]).found = true ∧
      (findMatch ([] : Vars Rat) pat [ti (pct p), tiText "off", ti v]).fields = fieldsNP v (pct p) := by
  cases hv <;> match_phrase

theorem phrase_off_2 (v : Tok Rat) (hv : NumOrMoney v) (p : Rat) :
    ∃ pat, (Gen.rule_en_number_off Rat).patterns[1]? = some pat ∧
      (findMatch ([] : Vars Rat) pat [ti v, tiText "off", ti (pct p)]).found = true ∧
      (findMatch ([] : Vars Rat) pat [ti v, tiText "off", ti (pct p)]).fields = fieldsNP v (pct p) := by
  cases hv <;> match_phrase

/-- `A is what % of B` -/
theorem phrase_what_percent (a b : Tok Rat) (ha : NumOrMoney a) (hb : NumOrMoney b) :
    ∃ pat, (Gen.rule_en_find_numbers_percent Rat).patterns[0]? = some pat ∧
      (findMatch ([] : Vars Rat) pat [ti a, tiText "is", tiText "what", tiOp .pct, tiText "of", ti b]).found = true ∧
      (findMatch ([] : Vars Rat) pat [ti a, tiText "is", tiText "what", tiOp .pct, tiText "of", ti b]).fields =
        [("part", ti a), ("total", ti b)] := by
  cases ha <;> cases hb <;> match_phrase

/-- `A is p% of what` -/
theorem phrase_total_from_percent (a : Tok Rat) (ha : NumOrMoney a) (p : Rat) :
    ∃ pat, (Gen.rule_en_find_total_from_percent Rat).patterns[0]? = some pat ∧
      (findMatch ([] : Vars Rat) pat [ti a, tiText "is", ti (pct p), tiText "of", tiText "what"]).found = true ∧
      (findMatch ([] : Vars Rat) pat [ti a, tiText "is", ti (pct p), tiText "of", tiText "what"]).fields =
        [("number_part", ti a), ("percent_part", ti (pct p))] := by
  cases ha <;> match_phrase

/-! non-vacuity: concrete instances -/
example : calcItem ([] : List (String × Rat)) (fun _ _ => none) (.number 200 .decimal) (.percent 10) .add
    = some (.number 220 .decimal) := by
  rw [plus_percent]; congr 2; grind

end SCP.C05
