/-
  SCP.C06 — Money literals, currency conversion and money arithmetic follow the rate table.

  Formula theorems over exact arithmetic (`F := Rat`), for ALL amounts, ALL rate tables and ALL
  pairs of currencies that have a rate; history theorem for ALL sequences of rate updates;
  data obligations (`decide`, kernel-evaluated) over the rate / alias / currency tables
  REGENERATED from config.json on every run.
-/
import SC.Calc
import SC.Engine
import SC.Gen.Config
import SCP.C05
namespace SCP.C06
open SC SCP.C05
set_option linter.unusedSimpArgs false

/-! ### conversion -/

/-- `convert_currency`: with both rates present the amount is `a / rate A * rate B` -/
theorem convertCurrency_formula (rates : List (String × Rat)) (a ra rb : Rat) (A B : String)
    (hA : rate? rates A = some ra) (hB : rate? rates B = some rb) :
    convertCurrency rates a A B = a * (rb / ra) := by
  simp [convertCurrency, hA, hB, gdiv_rat, Num.mul]
  grind

/-- converting into the same currency is the identity (rate ≠ 0) -/
theorem convertCurrency_self (rates : List (String × Rat)) (a ra : Rat) (A : String)
    (hA : rate? rates A = some ra) (h0 : ra ≠ 0) : convertCurrency rates a A A = a := by
  rw [convertCurrency_formula rates a ra ra A A hA hA]
  have : ra / ra = 1 := by grind
  rw [this]; grind

/-- the `convert_money` rule (`<amount A> to <B>`): result is money in the currency the word
    names, amount `a * rate B / rate A` -/
theorem convert_rule (c : Cfg Rat) (lang : String) (now : Now) (vs : Vars Rat) (a ra rb : Rat) (A B word : String)
    (hw : readCurrency c word = some B)
    (hA : rate? c.rates A = some ra) (hB : rate? c.rates B = some rb) :
    applyRule c lang now vs .convertMoney [("currency", tiText word), ("money", ti (mon a A))] =
      some (mon (a * (rb / ra)) B) := by
  simp [applyRule, Fields.get?, assoc?, ti, tiText, mon, getMoney, getCurrency, fieldItem, hw, hA, hB, gdiv_rat, Num.mul]
  grind

/-! ### arithmetic -/

theorem add_money (rates : List (String × Rat)) (conv) (a b ra rb : Rat) (A B : String)
    (hA : rate? rates A = some ra) (hB : rate? rates B = some rb) :
    calcItem rates conv (.money a A) (.money b B) .add = some (.money (a + b * (ra / rb)) A) := by
  simp [calcItem, applyOp, convertCurrency_formula rates b rb ra B A hB hA, Num.add]

theorem sub_money (rates : List (String × Rat)) (conv) (a b ra rb : Rat) (A B : String)
    (hA : rate? rates A = some ra) (hB : rate? rates B = some rb) :
    calcItem rates conv (.money a A) (.money b B) .sub = some (.money (a - b * (ra / rb)) A) := by
  simp [calcItem, applyOp, convertCurrency_formula rates b rb ra B A hB hA, Num.sub]

/-- money divided by money is the plain ratio of the two amounts in the left currency -/
theorem div_money (rates : List (String × Rat)) (conv) (a b ra rb : Rat) (A B : String)
    (hA : rate? rates A = some ra) (hB : rate? rates B = some rb) :
    calcItem rates conv (.money a A) (.money b B) .div = some (.number (a / (b * (ra / rb))) .decimal) := by
  simp [calcItem, convertCurrency_formula rates b rb ra B A hB hA, gdiv_rat]

theorem mul_number (rates : List (String × Rat)) (conv) (a k : Rat) (A : String) (t : NumType) :
    calcItem rates conv (.money a A) (.number k t) .mul = some (.money (a * k) A) := by
  simp [calcItem, applyOp, Num.mul]

theorem div_number (rates : List (String × Rat)) (conv) (a k : Rat) (A : String) (t : NumType) :
    calcItem rates conv (.money a A) (.number k t) .div = some (.money (a / k) A) := by
  simp [calcItem, applyOp, gdiv_rat]

/-! ### histories of `update_currency` -/

theorem rate_setRate (rates : List (String × Rat)) (code k : String) (v : Rat) :
    rate? (setRate rates code v) k = if k = code then some v else rate? rates k := by
  induction rates with
  | nil => simp [setRate, rate?, assoc?]; grind
  | cons kv rest ih =>
    obtain ⟨k', w⟩ := kv
    simp only [rate?] at ih ⊢
    simp only [setRate]
    split
    · simp only [assoc?]; grind
    · split
      · simp only [assoc?]; grind
      · simp only [assoc?, ih]; grind

/-- a rate update: name as typed by the caller, new rate -/
abbrev Update := String × Rat

/-- the configuration after a history of `update_currency` calls -/
def applyUpdates (c : Cfg Rat) : List Update → Cfg Rat
  | [] => c
  | (name, v) :: rest => applyUpdates (updateCurrency c name v).1 rest

/-- `update_currency` changes nothing but the rate table -/
theorem updateCurrency_frame (c : Cfg Rat) (name : String) (v : Rat) :
    (updateCurrency c name v).1.currencies = c.currencies ∧
    (updateCurrency c name v).1.currencyAlias = c.currencyAlias := by
  unfold updateCurrency; split <;> simp

theorem readCurrency_update (c : Cfg Rat) (name : String) (v : Rat) (w : String) :
    readCurrency (updateCurrency c name v).1 w = readCurrency c w := by
  have h := updateCurrency_frame c name v
  simp [readCurrency, h.1, h.2]

/-- it returns false exactly when the name is not a known currency, and then changes nothing -/
theorem updateCurrency_false_iff (c : Cfg Rat) (name : String) (v : Rat) :
    (updateCurrency c name v).2 = false ↔ readCurrency c name = none := by
  unfold updateCurrency; split <;> simp_all

theorem updateCurrency_false_noop (c : Cfg Rat) (name : String) (v : Rat)
    (h : (updateCurrency c name v).2 = false) : (updateCurrency c name v).1 = c := by
  unfold updateCurrency at *; split <;> simp_all

/-- one update sets exactly the rate of the currency the name denotes -/
theorem rate_updateCurrency (c : Cfg Rat) (name : String) (v : Rat) (k : String) :
    rate? (updateCurrency c name v).1.rates k =
      if readCurrency c name = some k then some v else rate? c.rates k := by
  unfold updateCurrency
  split
  · rename_i code h
    simp [rate_setRate, h]
    by_cases hk : k = code <;> simp [hk]
    · intro h'; exact absurd h'.symm hk
  · rename_i h; simp [h]

/-- the last rate written for currency `k` in a history (by any name that denotes it) -/
def lastWritten (c : Cfg Rat) (k : String) : List Update → Option Rat
  | [] => none
  | (name, v) :: rest =>
    match lastWritten c k rest with
    | some w => some w
    | none => if readCurrency c name = some k then some v else none

/-- After ANY history of rate updates the rate of every currency is the last value written for
    it, else the configured one: a changed rate takes effect for exactly that currency. -/
theorem rate_frame (c : Cfg Rat) (us : List Update) (k : String) :
    rate? (applyUpdates c us).rates k = (match lastWritten c k us with | some w => some w | none => rate? c.rates k) := by
  induction us generalizing c with
  | nil => simp [applyUpdates, lastWritten]
  | cons u rest ih =>
    obtain ⟨name, v⟩ := u
    simp only [applyUpdates, lastWritten]
    rw [ih]
    have hl : lastWritten (updateCurrency c name v).1 k rest = lastWritten c k rest := by
      clear ih
      induction rest with
      | nil => rfl
      | cons u' r ih' => obtain ⟨n', v'⟩ := u'; simp [lastWritten, ih', readCurrency_update]
    rw [hl]
    cases lastWritten c k rest with
    | some w => simp
    | none => simp [rate_updateCurrency]; split <;> simp_all

/-! ### data obligations over the regenerated tables -/

/-- every rate belongs to a configured currency -/
theorem rates_have_currency :
    (Gen.rateTable.all (fun r => Gen.currencies.any (fun c => c.2.code == r.1))) = true := by decide

/-- every currency alias resolves to a configured currency -/
theorem aliases_resolve :
    (Gen.currencyAlias.all (fun a => Gen.currencies.any (fun c => c.1 == a.2))) = true := by decide

/-- no configured rate is zero (so every configured conversion is invertible) -/
theorem no_zero_rate : (Gen.rateTable.all (fun r => r.2.1 != 0 && r.2.2 != 0)) = true := by decide

/-! non-vacuity -/
example : convertCurrency [("EUR", (2 : Rat)), ("USD", 1)] 10 "USD" "EUR" = 20 := by
  rw [convertCurrency_formula _ 10 1 2 "USD" "EUR" (by decide) (by decide)]; grind

end SCP.C06
