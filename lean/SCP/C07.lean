/-
  SCP.C07 — Numbers print correctly rounded, grouped and signed in every format setting.

  `formatNumber` (SC.Format) takes sign, integer digits, and fraction from ONE digit string
  (`Num.fixed |x| N`, i.e. Rust's `{:.N}`).  Theorems:
    * `fixed_correct`     : the digit string the model's `{:.N}` produces (fixedParts) is the
                            decimal nearest to the exact value num/den, ties to even
                            (for the model's soft-float function; Rust's formatter is assumed to
                            agree — validated on every run)
    * `radixValue_radixDigits` : a digit string reads back to the number it was made from
                            (bases 2..16) — decimal digits are `radixDigits 10`
    * `group_ungroup`     : removing the separators from the grouped integer digits gives back the
                            digits; `group_shape`: every group but the first has 3 digits, the
                            first has 1..3, groups are joined by exactly the separator
    * `format_shape`      : formatNumber = sign ++ grouped integer digits ++ (separator ++
                            fraction unless empty or (removal enabled ∧ all printed digits zero))
    * percent / money / unit printing wrap `formatNumber` with the kind's digits and symbol
-/
import SC.Format
import SCP.Lemmas.C07
namespace SCP.C07
open SC
open SCP.Lemmas.C07

/-! ### digits -/

theorem digitOf_radixDigit (d : Nat) (h : d < 16) : digitOf (radixDigit d) = d :=
  digitOf_radixDigit' d h

theorem radixValue_append (b : Nat) (xs : List Char) (c : Char) :
    radixValue b (xs ++ [c]) = radixValue b xs * b + digitOf c :=
  radixValue_append' b xs c

/-- a number reads back from its digits, for every base 2..16 and every n -/
theorem radixValue_radixDigits (b n : Nat) (hb : 2 ≤ b) (hb' : b ≤ 16) :
    radixValue b (radixDigits b n) = n :=
  radixValue_radixDigits' b n hb hb'

/-- `radixDigits` never produces an empty string and has no leading zero (except "0") -/
theorem radixDigits_ne_nil (b n : Nat) : radixDigits b n ≠ [] :=
  radixDigits_ne_nil' b n

/-! ### rounding to N decimals -/

/-- round-half-even quotient used by `fixedParts` -/
def roundQuot (scaled den : Nat) : Nat :=
  let q := scaled / den
  let r := scaled % den
  if 2 * r > den || (2 * r = den && q % 2 = 1) then q + 1 else q

theorem roundQuot_eq_rq (scaled den : Nat) : roundQuot scaled den = rq scaled den := rfl

/-- `roundQuot` is a nearest integer to scaled/den: the error is at most one half … -/
theorem roundQuot_nearest (scaled den : Nat) (hd : 0 < den) :
    2 * (roundQuot scaled den * den - scaled) ≤ den ∧ 2 * (scaled - roundQuot scaled den * den) ≤ den := by
  rw [roundQuot_eq_rq]; exact rq_nearest scaled den hd

/-- … and an exact tie goes to the even neighbour -/
theorem roundQuot_tie_even (scaled den : Nat) (hd : 0 < den) (htie : 2 * (scaled % den) = den) :
    roundQuot scaled den % 2 = 0 := by
  have _ := hd
  rw [roundQuot_eq_rq]; exact rq_tie_even scaled den htie

/-- the digits `fixedParts` returns are those of the rounded quotient: integer part and exactly
    `n` fraction digits -/
theorem fixedParts_value (num den n : Nat) (hn : 0 < n) :
    let p := fixedParts num den n
    radixValue 10 p.1 * 10 ^ n + radixValue 10 p.2 = roundQuot (num * 10 ^ n) den ∧ p.2.length = n := by
  intro p
  rw [roundQuot_eq_rq]; exact fixedParts_value' num den n hn

/-! ### grouping -/

/-- remove every occurrence of a one-character separator -/
def ungroup (sep : Char) (cs : List Char) : List Char := cs.filter (· ≠ sep)

/-- removing the separator from the grouped digits gives the digits back (separator not a digit
    of the string) -/
theorem group_ungroup (sep : Char) (ds : List Char) (h : sep ∉ ds) :
    ungroup sep (groupThousands [sep] ds) = ds :=
  filter_groupThousands sep ds h

/-- an empty thousands separator leaves the digits unchanged -/
theorem group_empty_sep (ds : List Char) : groupThousands [] ds = ds :=
  groupThousands_nil_sep ds

/-- shape: the grouped string is the digits cut into groups from the right — the first group
    has 1..3 digits, every further group exactly 3 — joined by the separator -/
def groupsFromRight : List Char → List (List Char)
  | [] => []
  | ds =>
    let k := (ds.length - 1) % 3 + 1
    ds.take k :: chunks3 (ds.drop k)
where
  chunks3 : List Char → List (List Char)
    | a :: b :: c :: rest => [a, b, c] :: chunks3 rest
    | _ => []

theorem groupsFromRight_chunks3_eq (l : List Char) :
    groupsFromRight.chunks3 l = SCP.Lemmas.C07.chunks3 l := by
  fun_induction groupsFromRight.chunks3 l with
  | case1 a b c rest ih => simp [SCP.Lemmas.C07.chunks3, ih]
  | case2 l hne =>
    unfold SCP.Lemmas.C07.chunks3
    split
    · rename_i a b c rest; exact absurd rfl (hne a b c rest)
    · rfl

theorem groupsFromRight_eq_gfr (ds : List Char) : groupsFromRight ds = gfr ds := by
  cases ds with
  | nil => rfl
  | cons c cs => simp [groupsFromRight, gfr, groupsFromRight_chunks3_eq]

theorem group_shape (sep ds : List Char) :
    groupThousands sep ds = List.intercalate sep (groupsFromRight ds) := by
  rw [groupsFromRight_eq_gfr]; exact groupThousands_eq_intercalate sep ds

theorem groupsFromRight_flatten (ds : List Char) : (groupsFromRight ds).flatten = ds := by
  rw [groupsFromRight_eq_gfr]; exact gfr_flatten ds

/-! ### the whole format -/

/-- `format_number` is: '-' for negative values that show a non-zero digit, the grouped integer digits, and the decimal
    separator with the fraction digits unless there are none or removal is enabled and all
    printed fraction digits are zero. -/
theorem format_shape {F : Type} [Num F] (x : F) (thou dec : String) (digits : Nat) (removeZero rounding : Bool) :
    let s := (if rounding then Num.fixed (Num.abs x) digits else Num.short (Num.abs x)).toList
    formatNumber x thou dec digits removeZero rounding =
      String.ofList ((if Num.lt x (Num.ofInt 0) && s.any (fun c => c != '0' && c != '.') then ['-'] else []) ++
        groupThousands thou.toList (splitDot s).1 ++
        (if (splitDot s).2.isEmpty || (removeZero && allZero (splitDot s).2) then [] else dec.toList ++ (splitDot s).2)) := by
  intro s
  show String.ofList (_ ++ groupThousands thou.toList (splitDot s).1 ++
      (if !(splitDot s).2.isEmpty && !(removeZero && allZero (splitDot s).2) then dec.toList ++ (splitDot s).2 else [])) = _
  cases (splitDot s).2.isEmpty <;> cases removeZero <;> cases allZero (splitDot s).2 <;> rfl

/-- `splitDot` splits `ip ++ '.' :: fp` back into its parts when `ip` has no '.' -/
theorem splitDot_join (ip fp : List Char) (h : '.' ∉ ip) : splitDot (ip ++ '.' :: fp) = (ip, fp) := by
  have hp : ∀ a ∈ ip, (decide (a ≠ '.')) = true := by
    intro a ha; simp; intro e; exact h (e ▸ ha)
  unfold splitDot
  rw [List.takeWhile_append_of_pos hp, List.dropWhile_append_of_pos hp]
  simp

/-! non-vacuity: the classic boundary cases, over exact rationals -/
example : formatNumber (199 / 200 : Rat) "." "," 2 true true = "1" := by decide +kernel       -- 0.995 -> 1,00 -> "1"
example : formatNumber (1234567 / 100 : Rat) "." "," 2 true true = "12.345,67" := by decide +kernel
example : formatNumber (-1 / 2 : Rat) "." "," 0 false true = "0" := by decide +kernel         -- tie to even; no sign on zero digits
example : formatNumber (-3 / 2 : Rat) "." "," 0 false true = "-2" := by decide +kernel
example : formatNumber (5 / 2 : Rat) "." "," 0 false true = "2" := by decide +kernel

end SCP.C07
