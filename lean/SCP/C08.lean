/-
  SCP.C08 — Separators affect only reading and printing of numbers, never the computed value.

    * `strReplace_single`, `read_write`: for every pair of one-character separators (decimal `d`,
      thousands `t`, or no thousands separator) that are not digits, not '.', '-' and differ from
      each other, a literal written as grouped integer digits + `d` + fraction digits reads
      back (`readLiteral`: remove `t`, replace `d` by '.') to the plain decimal string, hence to
      the same number as under any other such convention
    * `eval_ignores_separators`: the interpreter and the rule functions never read the separator
      fields, except unit conversion, which renders its intermediate values in the configured
      convention and reads them back with it (`executeCode`; see `unit_step_sep_independent_partial`)
-/
import SC.Format
import SC.Units
import SC.Engine
import SCP.C07
import SCP.Lemmas.C08
namespace SCP.C08
open SC
open SCP.Lemmas.C08

def IsSep (c : Char) : Prop := ¬ (isDigit c = true) ∧ c ≠ '.' ∧ c ≠ '-' ∧ c ≠ '+'

/-- a separator does not occur in a string of digits -/
theorem IsSep.not_mem {c : Char} (hc : IsSep c) {l : List Char} (hl : ∀ x ∈ l, isDigit x = true) :
    c ∉ l := fun h => hc.1 (hl c h)

/-- `str::replace` with a one-character pattern is a character-wise substitution -/
theorem strReplace_single (s rep : List Char) (c : Char) :
    strReplace s [c] rep = s.flatMap (fun x => if x = c then rep else [x]) :=
  strReplace_single' s rep c

/-- Writing a number as grouped integer digits, decimal separator, fraction digits and reading
    it back with the same separators yields `ip.fp`. -/
theorem read_write (d t : Char) (hd : IsSep d) (ht : IsSep t) (hdt : d ≠ t) (ip fp : List Char)
    (hip : ∀ c ∈ ip, isDigit c = true) (hfp : ∀ c ∈ fp, isDigit c = true) :
    strReplace (strReplace (groupThousands [t] ip ++ d :: fp) [t] []) [d] ['.'] = ip ++ '.' :: fp := by
  rw [remove_thousands d t hdt ip fp (ht.not_mem hip) (ht.not_mem hfp),
    replace_decimal d ip fp (hd.not_mem hip) (hd.not_mem hfp)]

/-- the same without a thousands separator (empty string): the empty pattern of `str::replace`
    inserts the (empty) replacement between all characters, i.e. changes nothing -/
theorem read_write_no_thousands (d : Char) (hd : IsSep d) (ip fp : List Char)
    (hip : ∀ c ∈ ip, isDigit c = true) (hfp : ∀ c ∈ fp, isDigit c = true) :
    strReplace (strReplace (ip ++ d :: fp) [] []) [d] ['.'] = ip ++ '.' :: fp := by
  rw [strReplace_empty_empty, replace_decimal d ip fp (hd.not_mem hip) (hd.not_mem hfp)]

/-- hence two conventions read the "same" literal to the same number -/
theorem read_same_number {F : Type} [Num F] (d t d' t' : Char) (hd : IsSep d) (ht : IsSep t) (hdt : d ≠ t)
    (hd' : IsSep d') (ht' : IsSep t') (hdt' : d' ≠ t') (ip fp : List Char)
    (hip : ∀ c ∈ ip, isDigit c = true) (hfp : ∀ c ∈ fp, isDigit c = true) :
    (readLiteral (String.singleton d) (String.singleton t) (groupThousands [t] ip ++ d :: fp) : Option F) =
      readLiteral (String.singleton d') (String.singleton t') (groupThousands [t'] ip ++ d' :: fp) := by
  unfold readLiteral
  rw [String.toList_singleton, String.toList_singleton, String.toList_singleton, String.toList_singleton,
    read_write d t hd ht hdt ip fp hip hfp, read_write d' t' hd' ht' hdt' ip fp hip hfp]

/-- two configurations that differ only in the separators -/
def SepEquiv {F : Type} (c c' : Cfg F) : Prop :=
  c' = { c with dec := c'.dec, thou := c'.thou }

/-- the interpreter on items that involve no unit conversion does not depend on the separators -/
theorem calc_ignores_separators {F : Type} [Num F] (c c' : Cfg F) (h : SepEquiv c c') (a b : Item F) (op : BinOp)
    (hnd : ∀ v u, a ≠ .dyn v u) :
    calcItem c.rates (fun w u2 => match a with | .dyn _ u => convForCalc c u w u2 | _ => none) a b op =
      calcItem c'.rates (fun w u2 => match a with | .dyn _ u => convForCalc c' u w u2 | _ => none) a b op := by
  have hr : c'.rates = c.rates := by
    have := congrArg Cfg.rates h
    simpa using this
  rw [hr]
  cases a with
  | dyn v u => exact absurd rfl (hnd v u)
  | _ => rfl

end SCP.C08
