/-
  SCP.C08Code — unit conversion does not depend on the separator configuration.

  `execute_code` substitutes the value into the conversion code, rewrites every '.' of that text
  into the configured decimal separator and hands the text to the tokenizer, which reads literals
  with the configured separators.  Theorem `codeLex_comma`: for every text without ',' in which
  every '.' stands inside a number (`dotsOK`), tokenizing the rewritten text under decimal ','
  (thousands '.' or none) gives exactly the tokens of the original text under decimal '.'
  (thousands ',' or none).  Hence `executeCode_sep`: the four conventions compute the same value
  from the same code and amount.
-/
import SC.Units
import SCP.C08
namespace SCP.C08Code
open SC SCP.C08
variable {F : Type} [Num F]

/-- '.' ↦ ',' -/
def swapDot (c : Char) : Char := if c = '.' then ',' else c
def toComma (s : List Char) : List Char := s.map swapDot

theorem isNumBody_swap (c : Char) : isNumBody (swapDot c) = isNumBody c := by
  unfold swapDot isNumBody
  by_cases h : c = '.'
  · subst h; decide
  · simp [h]

theorem isDigit_swap (c : Char) : isDigit (swapDot c) = isDigit c := by
  unfold swapDot
  by_cases h : c = '.'
  · subst h; decide
  · simp [h]

theorem isAsciiLetter_swap (c : Char) : isAsciiLetter (swapDot c) = isAsciiLetter c := by
  unfold swapDot
  by_cases h : c = '.'
  · subst h; decide
  · simp [h]

theorem takeWhile_toComma (p : Char → Bool) (hp : ∀ c, p (swapDot c) = p c) (s : List Char) :
    (toComma s).takeWhile p = toComma (s.takeWhile p) := by
  induction s with
  | nil => rfl
  | cons c rest ih =>
    simp only [toComma, List.map_cons, List.takeWhile_cons, hp]
    cases p c <;> simp [toComma] at ih ⊢
    exact ih

theorem dropWhile_toComma (p : Char → Bool) (hp : ∀ c, p (swapDot c) = p c) (s : List Char) :
    (toComma s).dropWhile p = toComma (s.dropWhile p) := by
  induction s with
  | nil => rfl
  | cons c rest ih =>
    simp only [toComma, List.map_cons, List.dropWhile_cons, hp]
    cases p c <;> simp [toComma] at ih ⊢
    exact ih

theorem flatMap_remove_absent (s : List Char) (c : Char) (h : c ∉ s) :
    s.flatMap (fun x => if x = c then [] else [x]) = s := by
  induction s with
  | nil => rfl
  | cons x rest ih =>
    have hx : x ≠ c := fun e => h (by simp [e])
    have hr : c ∉ rest := fun e => h (by simp [e])
    simp [List.flatMap_cons, hx, ih hr]

theorem flatMap_same (s : List Char) (c : Char) :
    s.flatMap (fun x => if x = c then [c] else [x]) = s := by
  induction s with
  | nil => rfl
  | cons x rest ih =>
    by_cases hx : x = c
    · simp [List.flatMap_cons, hx, ih]
    · simp [List.flatMap_cons, hx, ih]

theorem flatMap_swapBack (s : List Char) (hs : ',' ∉ s) :
    (toComma s).flatMap (fun x => if x = ',' then ['.'] else [x]) = s := by
  induction s with
  | nil => rfl
  | cons x rest ih =>
    have hx : x ≠ ',' := fun e => hs (by simp [e])
    have hr : ',' ∉ rest := fun e => hs (by simp [e])
    have ih := ih hr
    simp only [toComma, List.map_cons, List.flatMap_cons] at ih ⊢
    rw [ih]
    unfold swapDot
    by_cases hd : x = '.'
    · subst hd; simp
    · simp [hd, hx]

theorem dot_not_mem_toComma (s : List Char) : '.' ∉ toComma s := by
  intro h
  simp only [toComma, List.mem_map] at h
  obtain ⟨c, _, hc⟩ := h
  unfold swapDot at hc
  by_cases hd : c = '.'
  · simp [hd] at hc
  · simp [hd] at hc

/-- a literal written with ',' reads under decimal ',' what the '.' spelling reads under decimal '.' -/
theorem readLiteral_comma (thou thou' : String) (ht : thou = "." ∨ thou = "") (ht' : thou' = "," ∨ thou' = "")
    (txt : List Char) (h : ',' ∉ txt) :
    (readLiteral "," thou (toComma txt) : Option F) = readLiteral "." thou' txt := by
  unfold readLiteral
  have e1 : (",":String).toList = [','] := rfl
  have e2 : (".":String).toList = ['.'] := rfl
  have e3 : ("":String).toList = [] := rfl
  have lhs : strReplace (strReplace (toComma txt) thou.toList []) [','] ['.'] = txt := by
    rcases ht with rfl | rfl
    · rw [e2, strReplace_single (toComma txt) [] '.', flatMap_remove_absent _ _ (dot_not_mem_toComma txt), strReplace_single, flatMap_swapBack txt h]
    · rw [e3, SCP.Lemmas.C08.strReplace_empty_empty, strReplace_single, flatMap_swapBack txt h]
  have rhs : strReplace (strReplace txt thou'.toList []) ['.'] ['.'] = txt := by
    rcases ht' with rfl | rfl
    · rw [e1, strReplace_single txt [] ',', flatMap_remove_absent _ _ h, strReplace_single, flatMap_same]
    · rw [e3, SCP.Lemmas.C08.strReplace_empty_empty, strReplace_single, flatMap_same]
  rw [e1, e2, lhs, rhs]

theorem letter_not_digit (c : Char) (hb : isAsciiLetter c = true) : isDigit c = false := by
  unfold isAsciiLetter at hb; unfold isDigit
  have e0 : ('0' : Char).toNat = 48 := rfl
  have e9 : ('9' : Char).toNat = 57 := rfl
  have ea : ('a' : Char).val.toNat = 97 := rfl
  have eA : ('A' : Char).val.toNat = 65 := rfl
  have ec : c.val.toNat = c.toNat := rfl
  simp only [Bool.or_eq_true, Bool.and_eq_true, decide_eq_true_eq, Char.le_def, UInt32.le_iff_toNat_le, ea, eA, ec] at hb
  rw [e0, e9]
  simp only [Bool.and_eq_false_imp, decide_eq_true_eq, decide_eq_false_iff_not]
  omega

theorem dotsOK_head (p q : Bool) (c : Char) (r : List Char) (h : c ≠ '.') : dotsOK p (c :: r) = dotsOK q (c :: r) := by
  simp [dotsOK, h]

theorem dotsOK_dropWhile_numBody : ∀ (s : List Char) (p : Bool), dotsOK p s = true → dotsOK false (s.dropWhile isNumBody) = true := by
  intro s
  induction s with
  | nil => intro p _; rfl
  | cons c rest ih =>
    intro p h
    by_cases hb : isNumBody c = true
    · rw [List.dropWhile_cons_of_pos hb]
      by_cases hd : c = '.'
      · simp only [dotsOK, hd, if_true, Bool.and_eq_true] at h
        exact ih true h.2
      · simp only [dotsOK, hd, if_false] at h
        exact ih _ h
    · rw [List.dropWhile_cons_of_neg hb]
      have hd : c ≠ '.' := by intro e; subst e; exact hb (by decide)
      rw [dotsOK_head false p c rest hd]; exact h

theorem dotsOK_dropWhile_letters : ∀ (s : List Char), dotsOK false s = true → dotsOK false (s.dropWhile isAsciiLetter) = true := by
  intro s
  induction s with
  | nil => intro _; rfl
  | cons c rest ih =>
    intro h
    by_cases hb : isAsciiLetter c = true
    · rw [List.dropWhile_cons_of_pos hb]
      have hd : c ≠ '.' := by intro e; subst e; exact absurd hb (by decide)
      have hdig : isDigit c = false := letter_not_digit c hb
      simp only [dotsOK, hd, if_false, hdig] at h
      exact ih h
    · rw [List.dropWhile_cons_of_neg hb]; exact h

theorem mem_takeWhile_p (p : Char → Bool) (s : List Char) (x : Char) (h : x ∈ s.takeWhile p) : p x = true := by
  induction s with
  | nil => simp at h
  | cons c rest ih =>
    by_cases hp : p c = true
    · rw [List.takeWhile_cons_of_pos hp] at h
      rcases List.mem_cons.mp h with rfl | h
      · exact hp
      · exact ih h
    · rw [List.takeWhile_cons_of_neg hp] at h; simp at h

theorem drop_takeWhile_length (p : Char → Bool) (s : List Char) : s.drop (s.takeWhile p).length = s.dropWhile p := by
  induction s with
  | nil => rfl
  | cons c rest ih =>
    by_cases hp : p c = true
    · rw [List.takeWhile_cons_of_pos hp, List.dropWhile_cons_of_pos hp]; simpa using ih
    · rw [List.takeWhile_cons_of_neg hp, List.dropWhile_cons_of_neg hp]; rfl

theorem toComma_id (s : List Char) (h : '.' ∉ s) : toComma s = s := by
  induction s with
  | nil => rfl
  | cons c rest ih =>
    have hc : c ≠ '.' := fun e => h (by simp [e])
    have hr : '.' ∉ rest := fun e => h (by simp [e])
    simp [toComma, swapDot, hc] at ih ⊢
    exact ih hr

theorem head_digit_toComma (rest : List Char) :
    SC.codeLex.match_1 (fun _ => Bool) (List.map swapDot rest) (fun d _ => isDigit d) (fun _ => false) =
      SC.codeLex.match_1 (fun _ => Bool) rest (fun d _ => isDigit d) (fun _ => false) := by
  cases rest with
  | nil => rfl
  | cons d r => simp [isDigit_swap]

theorem codeLex_comma (thou thou' : String) (ht : thou = "." ∨ thou = "") (ht' : thou' = "," ∨ thou' = "") :
    ∀ (fuel : Nat) (s : List Char), ',' ∉ s → dotsOK false s = true →
      (codeLex "," thou fuel (toComma s) : Option (List (Tok F))) = codeLex "." thou' fuel s := by
  intro fuel
  induction fuel with
  | zero => intro s _ _; rfl
  | succ n ih =>
    intro s hc hd
    cases s with
    | nil => rfl
    | cons c rest =>
      have hcd : c ≠ '.' := by intro e; subst e; simp [dotsOK] at hd
      have hsw : swapDot c = c := by simp [swapDot, hcd]
      have hrc : ',' ∉ rest := fun e => hc (by simp [e])
      have hdr : dotsOK (isDigit c) rest = true := by simpa [dotsOK, hcd] using hd
      simp only [toComma, List.map_cons, hsw]
      simp only [codeLex]
      have hm := head_digit_toComma rest
      simp only [hm]
      generalize ((decide (c = '-') || decide (c = '+')) && _) = sg
      by_cases hsp : c = ' '
      · simp only [hsp, if_true]
        subst hsp
        have e : isDigit ' ' = false := by decide
        rw [e] at hdr
        exact ih rest hrc hdr
      · simp only [hsp, if_false]
        by_cases hnum : (isDigit c || sg) = true
        · simp only [hnum, if_true]
          -- the number body on both sides
          have hbody : (if sg = true then List.map swapDot rest else c :: List.map swapDot rest) =
              toComma (if sg = true then rest else c :: rest) := by
            cases sg <;> simp [toComma, hsw]
          rw [hbody]
          generalize hB : (if sg = true then rest else c :: rest) = B
          have hBc : ',' ∉ B := by
            rw [← hB]; cases sg
            · simpa using hc
            · simpa using hrc
          have hBd : ∃ p, dotsOK p B = true := by
            rw [← hB]; cases sg
            · exact ⟨false, by simpa using hd⟩
            · exact ⟨isDigit c, by simpa using hdr⟩
          obtain ⟨p, hBd⟩ := hBd
          rw [takeWhile_toComma isNumBody isNumBody_swap, dropWhile_toComma isNumBody isNumBody_swap,
            takeWhile_toComma isAsciiLetter isAsciiLetter_swap]
          have htxt : ((if sg = true then [c] else []) ++ toComma (List.takeWhile isNumBody B)) =
              toComma ((if sg = true then [c] else []) ++ List.takeWhile isNumBody B) := by
            cases sg <;> simp [toComma, hsw]
          rw [htxt]
          have htc : ',' ∉ ((if sg = true then [c] else []) ++ List.takeWhile isNumBody B) := by
            intro hmem
            rw [List.mem_append] at hmem
            rcases hmem with h1 | h1
            · cases sg
              · simp at h1
              · simp at h1; exact hc (List.mem_cons.mpr (Or.inl h1))
            · exact hBc ((List.takeWhile_sublist _).subset h1)
          rw [readLiteral_comma thou thou' ht ht' _ htc]
          have hafter_c : ',' ∉ List.dropWhile isNumBody B := fun h => hBc ((List.dropWhile_sublist _).subset h)
          have hafter_d : dotsOK false (List.dropWhile isNumBody B) = true := dotsOK_dropWhile_numBody B p hBd
          have hsuf : toComma (List.takeWhile isAsciiLetter (List.dropWhile isNumBody B)) = List.takeWhile isAsciiLetter (List.dropWhile isNumBody B) := by
            apply toComma_id
            intro hmem
            have := mem_takeWhile_p _ _ _ hmem
            revert this; decide
          rw [hsuf]
          cases (readLiteral "." thou' ((if sg = true then [c] else []) ++ List.takeWhile isNumBody B) : Option F) with
          | none => rfl
          | some v =>
            simp only
            cases notationMul (List.takeWhile isAsciiLetter (List.dropWhile isNumBody B)) with
            | none =>
              simp only
              rw [ih _ hafter_c hafter_d]
            | some k =>
              simp only
              have hdrop : List.drop (List.takeWhile isAsciiLetter (List.dropWhile isNumBody B)).length (toComma (List.dropWhile isNumBody B)) =
                  toComma (List.dropWhile isAsciiLetter (List.dropWhile isNumBody B)) := by
                rw [toComma, ← List.map_drop, drop_takeWhile_length]; rfl
              rw [hdrop, drop_takeWhile_length,
                ih _ (fun h => hafter_c ((List.dropWhile_sublist _).subset h)) (dotsOK_dropWhile_letters _ hafter_d)]
        · simp only [hnum, Bool.false_eq_true, if_false]
          have hnd : isDigit c = false := by
            cases hdc : isDigit c
            · rfl
            · simp [hdc] at hnum
          rw [hnd] at hdr
          by_cases hlet : isAsciiLetter c = true
          · simp only [hlet, if_true]
            have e1 : (c :: List.map swapDot rest) = toComma (c :: rest) := by simp [toComma, hsw]
            rw [e1, takeWhile_toComma isAsciiLetter isAsciiLetter_swap, dropWhile_toComma isAsciiLetter isAsciiLetter_swap]
            have hw : toComma (List.takeWhile isAsciiLetter (c :: rest)) = List.takeWhile isAsciiLetter (c :: rest) := by
              apply toComma_id
              intro hmem
              have := mem_takeWhile_p _ _ _ hmem
              revert this; decide
            rw [hw, ih _ (fun h => hc ((List.dropWhile_sublist _).subset h)) (dotsOK_dropWhile_letters _ hd)]
          · have hlf : isAsciiLetter c = false := by simpa using hlet
            simp only [hlf, Bool.false_eq_true, if_false]
            rw [show List.map swapDot rest = toComma rest from rfl, ih rest hrc hdr]

theorem flatMap_swap_eq (s : List Char) : s.flatMap (fun x => if x = '.' then [','] else [x]) = toComma s := by
  induction s with
  | nil => rfl
  | cons c rest ih =>
    simp only [List.flatMap_cons, ih, toComma, List.map_cons, swapDot]
    by_cases h : c = '.' <;> simp [h]

theorem toComma_length (s : List Char) : (toComma s).length = s.length := by simp [toComma]

/-- `execute_code` under decimal ',' (thousands '.' or none) computes what it computes under decimal '.'
    (thousands ',' or none), for every code and amount whose text has its dots inside numbers -/
theorem executeCode_comma (thou thou' : String) (ht : thou = "." ∨ thou = "") (ht' : thou' = "," ∨ thou' = "")
    (code : String) (v : F) (hc : ',' ∉ codeText code v) (hd : dotsOK false (codeText code v) = true) :
    (executeCode "," thou code v : Option F) = executeCode "." thou' code v := by
  unfold executeCode basicExecute
  have e1 : (",":String).toList = [','] := rfl
  have e2 : (".":String).toList = ['.'] := rfl
  simp only [e1, e2]
  change (match (codeLex "," thou ((strReplace (codeText code v) ['.'] [',']).length + 1) (strReplace (codeText code v) ['.'] [',']) : Option (List (Tok F))) with
      | none => none | some [] => none | some ts => _) = _
  rw [strReplace_single, flatMap_swap_eq, toComma_length, codeLex_comma thou thou' ht ht' _ _ hc hd]
  change _ = (match (codeLex "." thou' ((strReplace (codeText code v) ['.'] ['.']).length + 1) (strReplace (codeText code v) ['.'] ['.']) : Option (List (Tok F))) with
      | none => none | some [] => none | some ts => _)
  rw [strReplace_single (codeText code v) ['.'] '.', flatMap_same]

/-- all four separator conventions of the property compute the same conversion step -/
theorem executeCode_sep (code : String) (v : F) (hc : ',' ∉ codeText code v) (hd : dotsOK false (codeText code v) = true) :
    (executeCode "," "." code v : Option F) = executeCode "." "" code v ∧
    (executeCode "," "" code v : Option F) = executeCode "." "" code v ∧
    (executeCode "." "," code v : Option F) = executeCode "." "" code v :=
  ⟨executeCode_comma "." "" (Or.inl rfl) (Or.inr rfl) code v hc hd,
   executeCode_comma "" "" (Or.inr rfl) (Or.inr rfl) code v hc hd,
   (executeCode_comma "." "," (Or.inl rfl) (Or.inl rfl) code v hc hd).symm.trans
     (executeCode_comma "." "" (Or.inl rfl) (Or.inr rfl) code v hc hd)⟩

/-- the walk over the unit chain only ever runs the codes of the family's own items -/
theorem calculateUnitWith_congr (ex ex' : String → F → Option F) (items : List (UnitItem F))
    (h : ∀ it ∈ items, ∀ w, ex it.up w = ex' it.up w ∧ ex it.down w = ex' it.down w) (v : F) (src tgt : Nat) :
    calculateUnitWith ex items v src tgt = calculateUnitWith ex' items v src tgt := by
  unfold calculateUnitWith
  by_cases hst : src = tgt
  · simp [hst]
  · simp only [hst, if_false]
    cases hf : findItem? items src with
    | none => rfl
    | some first =>
      simp only
      have hmem : ∀ i it, findItem? items i = some it → it ∈ items := by
        intro i it hi
        unfold findItem? at hi
        exact List.mem_of_find?_eq_some hi
      have hloop : ∀ (fuel : Nat) (v : F) (cur : UnitItem F) (search : Nat), cur ∈ items →
          calculateUnitWith.loop ex items tgt (!decide (src > tgt)) fuel v cur search =
            calculateUnitWith.loop ex' items tgt (!decide (src > tgt)) fuel v cur search := by
        intro fuel
        induction fuel with
        | zero => intro v cur search _; rfl
        | succ n ih =>
          intro v cur search hcur
          simp only [calculateUnitWith.loop]
          have hcode : ex (if (!decide (src > tgt)) = true then cur.up else cur.down) v =
              ex' (if (!decide (src > tgt)) = true then cur.up else cur.down) v := by
            cases (!decide (src > tgt))
            · simpa using (h cur hcur v).2
            · simpa using (h cur hcur v).1
          rw [hcode]
          cases ex' (if (!decide (src > tgt)) = true then cur.up else cur.down) v with
          | none => rfl
          | some v' =>
            simp only
            cases hn : findItem? items search with
            | none => rfl
            | some next =>
              simp only
              rw [ih v' next (search + 1) (hmem _ _ hn), ih v' next (search - 1) (hmem _ _ hn)]
      rw [hloop _ v first _ (hmem _ _ hf), hloop _ v first _ (hmem _ _ hf)]

/-- a conversion inside a family gives the same amount under all four separator conventions, provided the
    texts its steps build (code with the intermediate amount substituted) have their dots inside numbers -/
theorem calculateUnit_sep (thou thou' : String) (ht : thou = "." ∨ thou = "") (ht' : thou' = "," ∨ thou' = "")
    (items : List (UnitItem F))
    (hText : ∀ it ∈ items, ∀ w : F, (',' ∉ codeText it.up w ∧ dotsOK false (codeText it.up w) = true) ∧
      (',' ∉ codeText it.down w ∧ dotsOK false (codeText it.down w) = true))
    (v : F) (src tgt : Nat) :
    calculateUnit "," thou items v src tgt = calculateUnit "." thou' items v src tgt := by
  unfold calculateUnit
  apply calculateUnitWith_congr
  intro it hit w
  exact ⟨executeCode_comma thou thou' ht ht' it.up w (hText it hit w).1.1 (hText it hit w).1.2,
    executeCode_comma thou thou' ht ht' it.down w (hText it hit w).2.1 (hText it hit w).2.2⟩

theorem assoc?_mem {α : Type} (l : List (String × α)) (k : String) (v : α) (h : assoc? l k = some v) : (k, v) ∈ l := by
  induction l with
  | nil => simp [assoc?] at h
  | cons x rest ih =>
    obtain ⟨k', v'⟩ := x
    unfold assoc? at h
    by_cases hk : k' = k
    · simp only [hk, if_true, Option.some.injEq] at h; subst h; subst hk; exact List.mem_cons_self
    · simp only [hk, if_false] at h; exact List.mem_cons_of_mem _ (ih h)

/-- all conversion texts of a configuration are of the shape the theorems need -/
def CodesOK (c : Cfg F) : Prop :=
  (∀ g ∈ c.units, ∀ it ∈ g.2, ∀ w : F, (',' ∉ codeText it.up w ∧ dotsOK false (codeText it.up w) = true) ∧
      (',' ∉ codeText it.down w ∧ dotsOK false (codeText it.down w) = true)) ∧
  (∀ b ∈ c.bridges, ∀ w : F, (',' ∉ codeText b.toSource w ∧ dotsOK false (codeText b.toSource w) = true) ∧
      (',' ∉ codeText b.toTarget w ∧ dotsOK false (codeText b.toTarget w) = true))

/-- conversion between any two units (inside a family or across a bridge) only runs configured codes -/
theorem convertUnitWith_congr (ex ex' : String → F → Option F) (c : Cfg F)
    (hi : ∀ g ∈ c.units, ∀ it ∈ g.2, ∀ w, ex it.up w = ex' it.up w ∧ ex it.down w = ex' it.down w)
    (hb : ∀ b ∈ c.bridges, ∀ w, ex b.toSource w = ex' b.toSource w ∧ ex b.toTarget w = ex' b.toTarget w)
    (v : F) (src : UnitRef) (target : String) :
    convertUnitWith ex c v src target = convertUnitWith ex' c v src target := by
  unfold convertUnitWith
  cases hg : assoc? c.units src.group with
  | none => rfl
  | some group =>
    simp only
    have hgm := assoc?_mem _ _ _ hg
    have hcg : ∀ v a b, calculateUnitWith ex group v a b = calculateUnitWith ex' group v a b :=
      fun v a b => calculateUnitWith_congr ex ex' group (hi _ hgm) v a b
    cases group.find? (fun it => it.names.contains target) with
    | some tgt => simp only [hcg]
    | none =>
      simp only
      cases hbf : c.bridges.find? (fun b => b.srcName = src.group || b.tgtName = src.group) with
      | none => rfl
      | some b =>
        simp only
        have hbm : b ∈ c.bridges := List.mem_of_find?_eq_some hbf
        cases findItem? group (if b.srcName = src.group then (b.srcIndex, b.tgtIndex) else (b.tgtIndex, b.srcIndex)).1 with
        | none => rfl
        | some _ =>
          simp only [hcg]
          cases calculateUnitWith ex' group v src.index (if b.srcName = src.group then (b.srcIndex, b.tgtIndex) else (b.tgtIndex, b.srcIndex)).1 with
          | none => rfl
          | some v1 =>
            simp only
            have hcode : ex (if b.srcName = src.group then b.toSource else b.toTarget) v1 =
                ex' (if b.srcName = src.group then b.toSource else b.toTarget) v1 := by
              by_cases hs : b.srcName = src.group
              · simp only [hs, if_true]; exact (hb b hbm v1).1
              · simp only [hs, if_false]; exact (hb b hbm v1).2
            rw [hcode]
            cases ex' (if b.srcName = src.group then b.toSource else b.toTarget) v1 with
            | none => rfl
            | some v2 =>
              simp only
              cases hog : assoc? c.units (if b.srcName = src.group then b.tgtName else b.srcName) with
              | none => rfl
              | some og =>
                simp only
                have hogm := assoc?_mem _ _ _ hog
                cases og.find? (fun it => it.names.contains target) with
                | none => rfl
                | some tgt =>
                  simp only
                  cases findItem? og (if b.srcName = src.group then (b.srcIndex, b.tgtIndex) else (b.tgtIndex, b.srcIndex)).2 with
                  | none => rfl
                  | some _ =>
                    simp only
                    rw [calculateUnitWith_congr ex ex' og (hi _ hogm)]

theorem convertUnitWith_sepfields (ex : String → F → Option F) (c : Cfg F) (d t : String) (v : F) (src : UnitRef) (target : String) :
    convertUnitWith ex { c with dec := d, thou := t } v src target = convertUnitWith ex c v src target := rfl

/-- conversion between any two units gives the same amount and unit under the four separator conventions -/
theorem convertUnit_sep (c : Cfg F) (thou thou' : String) (ht : thou = "." ∨ thou = "") (ht' : thou' = "," ∨ thou' = "")
    (hok : CodesOK c) (v : F) (src : UnitRef) (target : String) :
    convertUnit { c with dec := ",", thou := thou } v src target = convertUnit { c with dec := ".", thou := thou' } v src target := by
  unfold convertUnit
  rw [convertUnitWith_sepfields, convertUnitWith_sepfields]
  apply convertUnitWith_congr
  · intro g hg it hit w
    exact ⟨executeCode_comma thou thou' ht ht' it.up w (hok.1 g hg it hit w).1.1 (hok.1 g hg it hit w).1.2,
      executeCode_comma thou thou' ht ht' it.down w (hok.1 g hg it hit w).2.1 (hok.1 g hg it hit w).2.2⟩
  · intro b hb w
    exact ⟨executeCode_comma thou thou' ht ht' b.toSource w (hok.2 b hb w).1.1 (hok.2 b hb w).1.2,
      executeCode_comma thou thou' ht ht' b.toTarget w (hok.2 b hb w).2.1 (hok.2 b hb w).2.2⟩

/-- THE INTERPRETER, unit conversions included, computes the same value under the four conventions -/
theorem exec_sep (c : Cfg F) (thou thou' : String) (ht : thou = "." ∨ thou = "") (ht' : thou' = "," ∨ thou' = "")
    (hok : CodesOK c) (vs : Vars F) (ast : Ast F) :
    exec { c with dec := ",", thou := thou } vs ast = exec { c with dec := ".", thou := thou' } vs ast := by
  unfold exec
  have hconv : convForCalc { c with dec := ",", thou := thou } = convForCalc { c with dec := ".", thou := thou' } := by
    funext self w other
    unfold convForCalc
    simp only [convertUnit_sep c thou thou' ht ht' hok]
  rw [hconv]

/-! non-vacuity: a conversion text as `execute_code` builds it -/
example : ',' ∉ "2.5 * 25.4".toList ∧ dotsOK false "2.5 * 25.4".toList = true := by decide
example : dotsOK false "2 * .5".toList = false := by decide

end SCP.C08Code
