/-
  SCP.C09 — Dates are read as calendar dates and date arithmetic is calendar arithmetic.

  Calendar = the proleptic Gregorian calendar of SC.Chrono, proved to be a bijection between
  day numbers and valid civil dates in SCP.Calendar (no bound on the year).

    * reading: `fromYmd_some_iff`, `smallDate_*`: the `small_date` rule returns a date exactly for
      valid (in chrono's range) day / month / year triples, with the current year as default, for
      a month given by number or by name; `never_invalid`: whatever the fields are, a returned
      token is a VALID calendar date; `phrase_*`: the regenerated date patterns match the token
      sequences of the spellings and bind day / month / year
    * days and weeks: `add_days_partial` / `sub_days_partial`: for fewer than 30 days the result is
      the date whose day number is exactly that many days away (`addDays_dayNumber`).  The full
      statement (every count) is FALSE for the code as it is — `days_30_witness`: a duration is
      only seconds, 30 days and more are re-read as 30-day months / 365-day years (pinned by the
      repository's test execute_26; known finding C09-G1)
    * months and years: `add_months`, `add_years`, `sub_years`, `add_months_general`: the day of the
      month is kept and the month index `12·year + month` moves by exactly N (`month_index_add`);
      `sub_months_partial` needs `N % 12 < month`: otherwise the year is not borrowed
      (`sub_months_borrow_witness`; pinned by execute_21..23; known finding C09-G2)
    * `to_abs_days`, `to_symmetric`: `A to B` is the absolute number of days between the dates
    * `today_consecutive`: tomorrow and yesterday are the neighbours of today, for every clock
-/
import SC.Engine
import SC.Gen.Config
import SCP.Calendar
namespace SCP.C09
open SC
open SCP.Calendar

/-- chrono's year range -/
def InRange (t : YMD) : Prop := minYear ≤ t.y ∧ t.y ≤ maxYear

/-! ### reading -/

theorem fromYmd_some_iff (y : Int) (m d : Nat) (t : YMD) :
    fromYmd? y m d = some t ↔ t = ⟨y, m, d⟩ ∧ InRange ⟨y, m, d⟩ ∧ Valid ⟨y, m, d⟩ := by
  unfold fromYmd? validYMD InRange Valid
  constructor
  · intro h
    split at h
    · rename_i hv
      simp only [Bool.and_eq_true, decide_eq_true_eq] at hv
      simp only [Option.some.injEq] at h
      exact ⟨h.symm, ⟨hv.1.1.1.1.1, hv.1.1.1.1.2⟩, hv.1.1.1.2, hv.1.1.2, hv.1.2, hv.2⟩
    · cases h
  · rintro ⟨rfl, ⟨h1, h2⟩, h3, h4, h5, h6⟩
    have : (decide (minYear ≤ y) && decide (y ≤ maxYear) && decide (1 ≤ m) && decide (m ≤ 12) && decide (1 ≤ d) &&
        decide (d ≤ daysInMonth y m)) = true := by
      simp only [Bool.and_eq_true, decide_eq_true_eq]
      exact ⟨⟨⟨⟨⟨h1, h2⟩, h3⟩, h4⟩, h5⟩, h6⟩
    rw [if_pos this]

/-- an impossible date is never built -/
theorem fromYmd_invalid (y : Int) (m d : Nat) (h : ¬ Valid ⟨y, m, d⟩) : fromYmd? y m d = none := by
  cases hf : fromYmd? y m d with
  | none => rfl
  | some t => exact absurd ((fromYmd_some_iff y m d t).mp hf).2.2 h

def num (x : Rat) : Tok Rat := .item (.number x .decimal)
def ti (t : Tok Rat) : TokInfo Rat := { start := 0, stop := 0, tok := some t }

/-- day / month / year, all numeric -/
theorem smallDate_numeric (c : Cfg Rat) (lang : String) (now : Now) (vs : Vars Rat) (d m y : Rat) :
    applyRule c lang now vs .smallDate [("day", ti (num d)), ("month", ti (num m)), ("year", ti (num y))] =
      (fromYmd? (toI32 y) (toU32 m).toNat (toU32 d).toNat).map (fun t => .item (.date t c.tz)) := by
  simp [applyRule, Fields.get?, assoc?, ti, num, getNumber, fieldItem]

/-- day, month name, year -/
theorem smallDate_named (c : Cfg Rat) (lang : String) (now : Now) (vs : Vars Rat) (d y : Rat) (m : Nat) :
    applyRule c lang now vs .smallDate [("day", ti (num d)), ("month", ti (.month m)), ("year", ti (num y))] =
      (fromYmd? (toI32 y) m (toU32 d).toNat).map (fun t => .item (.date t c.tz)) := by
  simp [applyRule, Fields.get?, assoc?, ti, num, getNumber, getMonth, fieldItem]

/-- day and month name without a year: the current year (UTC) is the default -/
theorem smallDate_default_year (c : Cfg Rat) (lang : String) (now : Now) (vs : Vars Rat) (d : Rat) (m : Nat) :
    applyRule c lang now vs .smallDate [("day", ti (num d)), ("month", ti (.month m))] =
      (fromYmd? (dateOfSecs now.secs).y m (toU32 d).toNat).map (fun t => .item (.date t c.tz)) := by
  simp [applyRule, Fields.get?, assoc?, ti, num, getNumber, getMonth, fieldItem]

/-- whatever the bound fields are: what `small_date` returns is a valid calendar date -/
theorem never_invalid (c : Cfg Rat) (lang : String) (now : Now) (vs : Vars Rat) (fs : Fields Rat) (tok : Tok Rat)
    (h : applyRule c lang now vs .smallDate fs = some tok) : ∃ t, tok = .item (.date t c.tz) ∧ Valid t ∧ InRange t := by
  simp only [applyRule] at h
  split at h
  · split at h
    · cases h
    · split at h
      · cases h
      · rename_i month _
        simp only [Option.map_eq_some_iff] at h
        obtain ⟨t, ht, rfl⟩ := h
        have := (fromYmd_some_iff _ _ _ t).mp ht
        refine ⟨t, rfl, ?_, ?_⟩
        · rw [this.1]; exact this.2.2
        · rw [this.1]; exact this.2.1
  · cases h

/-! the regenerated date patterns match the spellings' token sequences -/

def tiOp (o : Op) : TokInfo Rat := { start := 0, stop := 0, tok := some (.op o) }

macro "match_date" : tactic => `(tactic|
  (refine ⟨_, rfl, ?_, ?_⟩ <;>
   simp [findMatch, findMatch.go, sameTok, ti, tiOp, num, infoEq, tokEq, tokFieldCompare, fieldNameOf,
     Field.name, Fields.insert, Tok.typeName, Item.typeName, lowerEq, Op.ofChar]))

/-- `Month day, year` -/
theorem phrase_month_day_comma_year (d y : Rat) (m : Nat) :
    ∃ pat, (Gen.rule_en_small_date Rat).patterns[0]? = some pat ∧
      (findMatch ([] : Vars Rat) pat [ti (.month m), ti (num d), tiOp (.other 44), ti (num y)]).found = true ∧
      (findMatch ([] : Vars Rat) pat [ti (.month m), ti (num d), tiOp (.other 44), ti (num y)]).fields =
        [("day", ti (num d)), ("month", ti (.month m)), ("year", ti (num y))] := by
  match_date

/-- `Month day year` -/
theorem phrase_month_day_year (d y : Rat) (m : Nat) :
    ∃ pat, (Gen.rule_en_small_date Rat).patterns[1]? = some pat ∧
      (findMatch ([] : Vars Rat) pat [ti (.month m), ti (num d), ti (num y)]).found = true ∧
      (findMatch ([] : Vars Rat) pat [ti (.month m), ti (num d), ti (num y)]).fields =
        [("day", ti (num d)), ("month", ti (.month m)), ("year", ti (num y))] := by
  match_date

/-- `day/month/year` -/
theorem phrase_numeric (d m y : Rat) :
    ∃ pat, (Gen.rule_en_small_date Rat).patterns[2]? = some pat ∧
      (findMatch ([] : Vars Rat) pat [ti (num d), tiOp .div, ti (num m), tiOp .div, ti (num y)]).found = true ∧
      (findMatch ([] : Vars Rat) pat [ti (num d), tiOp .div, ti (num m), tiOp .div, ti (num y)]).fields =
        [("day", ti (num d)), ("month", ti (num m)), ("year", ti (num y))] := by
  match_date

/-- `day Month year` -/
theorem phrase_day_month_year (d y : Rat) (m : Nat) :
    ∃ pat, (Gen.rule_en_small_date Rat).patterns[3]? = some pat ∧
      (findMatch ([] : Vars Rat) pat [ti (num d), ti (.month m), ti (num y)]).found = true ∧
      (findMatch ([] : Vars Rat) pat [ti (num d), ti (.month m), ti (num y)]).fields =
        [("day", ti (num d)), ("month", ti (.month m)), ("year", ti (num y))] := by
  match_date

/-- `day Month` -/
theorem phrase_day_month (d : Rat) (m : Nat) :
    ∃ pat, (Gen.rule_en_small_date Rat).patterns[4]? = some pat ∧
      (findMatch ([] : Vars Rat) pat [ti (num d), ti (.month m)]).found = true ∧
      (findMatch ([] : Vars Rat) pat [ti (num d), ti (.month m)]).fields =
        [("day", ti (num d)), ("month", ti (.month m))] := by
  match_date

/-- the Turkish patterns: `day/month/year`, `day Month year`, `day Month` -/
theorem phrase_tr (d m' y : Rat) (m : Nat) :
    (∃ pat, (Gen.rule_tr_small_date Rat).patterns[0]? = some pat ∧
      (findMatch ([] : Vars Rat) pat [ti (num d), tiOp .div, ti (num m'), tiOp .div, ti (num y)]).found = true) ∧
    (∃ pat, (Gen.rule_tr_small_date Rat).patterns[1]? = some pat ∧
      (findMatch ([] : Vars Rat) pat [ti (num d), ti (.month m), ti (num y)]).found = true) ∧
    (∃ pat, (Gen.rule_tr_small_date Rat).patterns[2]? = some pat ∧
      (findMatch ([] : Vars Rat) pat [ti (num d), ti (.month m)]).found = true) := by
  refine ⟨⟨_, rfl, ?_⟩, ⟨_, rfl, ?_⟩, ⟨_, rfl, ?_⟩⟩ <;>
    simp [findMatch, findMatch.go, sameTok, ti, tiOp, num, infoEq, tokEq, tokFieldCompare, fieldNameOf,
      Field.name, Fields.insert, Tok.typeName, Item.typeName, lowerEq, Op.ofChar]

/-! ### day numbers of representable dates -/

theorem dayNumber_in_range (t : YMD) (hv : Valid t) (hr : InRange t) : minDay ≤ dayNumber t ∧ dayNumber t ≤ maxDay := by
  have vmin : Valid ⟨minYear, 1, 1⟩ := by unfold Valid; decide
  have vmax : Valid ⟨maxYear, 12, 31⟩ := by unfold Valid; decide
  obtain ⟨h1, h12, hd1, hd⟩ := hv
  have hd31 : t.d ≤ 31 := by
    have : daysInMonth t.y t.m ≤ 31 := by unfold daysInMonth; split <;> (try split) <;> (try split) <;> omega
    omega
  constructor
  · unfold minDay
    by_cases he : t = ⟨minYear, 1, 1⟩
    · rw [he]; exact Int.le_refl _
    · have : Lex ⟨minYear, 1, 1⟩ t := by
        obtain ⟨y, m, d⟩ := t
        simp only [Lex, InRange, YMD.mk.injEq] at *
        omega
      exact Int.le_of_lt (dayNumber_lt_of_lex _ _ vmin ⟨h1, h12, hd1, hd⟩ this)
  · unfold maxDay
    by_cases he : t = ⟨maxYear, 12, 31⟩
    · rw [he]; exact Int.le_refl _
    · have : Lex t ⟨maxYear, 12, 31⟩ := by
        obtain ⟨y, m, d⟩ := t
        simp only [Lex, InRange, YMD.mk.injEq] at *
        omega
      exact Int.le_of_lt (dayNumber_lt_of_lex _ _ ⟨h1, h12, hd1, hd⟩ vmax this)

/-- `date ± k days` (chrono's `checked_add_signed`): the result, when representable, is the
    valid date whose day number is exactly `k` away -/
theorem addDays_dayNumber (t t' : YMD) (k : Int) (h : addDays? t k = some t') :
    dayNumber t' = dayNumber t + k ∧ Valid t' := by
  unfold addDays? at h
  simp only at h
  split at h
  · simp only [Option.some.injEq] at h
    subst h
    exact ⟨dayNumber_civilFromDays _, civilFromDays_valid _⟩
  · cases h

theorem addDays_some (t : YMD) (k : Int) (h1 : minDay ≤ dayNumber t + k) (h2 : dayNumber t + k ≤ maxDay) :
    addDays? t k = some (civilFromDays (dayNumber t + k)) := by
  unfold addDays?
  simp [h1, h2]

theorem addDays_zero (t : YMD) (hv : Valid t) (hr : InRange t) : addDays? t 0 = some t := by
  obtain ⟨h1, h2⟩ := dayNumber_in_range t hv hr
  rw [addDays_some t 0 (by omega) (by omega)]
  simp [civilFromDays_dayNumber t hv]

/-! ### days and weeks -/

theorem small_no_years (s : Int) (h0 : 0 ≤ s) (h : s < 31536000) : ((s.natAbs : Int) / YEAR) = 0 := by
  unfold YEAR; omega

theorem dateYears_small (t : YMD) (s : Int) (add : Bool) (h0 : 0 ≤ s) (h : s < 31536000) :
    dateYears t s add = some (t, s) := by
  unfold dateYears
  simp [small_no_years s h0 h]

theorem dateMonths_small (t : YMD) (s : Int) (add : Bool) (h0 : 0 ≤ s) (h : s < 2592000) :
    dateMonths t s add = some (t, s) := by
  unfold dateMonths
  have : ((s.natAbs : Int) / MONTH) = 0 := by unfold MONTH; omega
  simp [this]

/-- PARTIAL (fewer than 30 days; `k` days or `k/7` weeks): `date + k days` is the date `k` days
    later.  The bound is forced: see `days_30_witness`. -/
theorem add_days_partial (t : YMD) (k : Int) (h0 : 0 ≤ k) (h30 : k < 30) :
    dateCalc t (k * 86400) true = addDays? t k := by
  unfold dateCalc
  rw [dateYears_small t _ true (by omega) (by omega)]
  simp only
  rw [dateMonths_small t _ true (by omega) (by omega)]
  simp only [if_true]
  congr 1
  rw [Int.tdiv_eq_ediv_of_nonneg (by omega)]
  omega

theorem sub_days_partial (t : YMD) (k : Int) (h0 : 0 ≤ k) (h30 : k < 30) :
    dateCalc t (k * 86400) false = addDays? t (-k) := by
  unfold dateCalc
  rw [dateYears_small t _ false (by omega) (by omega)]
  simp only
  rw [dateMonths_small t _ false (by omega) (by omega)]
  simp only [Bool.false_eq_true, if_false]
  congr 2
  rw [Int.tdiv_eq_ediv_of_nonneg (by omega)]
  omega

/-- the full statement is false of the code: 1 Jan 2021 + 30 days is 1 Feb, not 31 Jan
    (30 days are re-read as one month; known finding C09-G1, pinned by test execute_26) -/
theorem days_30_witness : dateCalc ⟨2021, 1, 1⟩ (30 * 86400) true = some ⟨2021, 2, 1⟩ ∧
    addDays? ⟨2021, 1, 1⟩ 30 = some ⟨2021, 1, 31⟩ := by decide

/-! ### months and years -/

/-- `date + n months` (1 ≤ n ≤ 11; a month is 30 days of duration): the day is kept, the month
    moves by n with carry into the year; a target that does not exist is rejected -/
theorem add_months (t : YMD) (n : Int) (h1 : 1 ≤ n) (h11 : n ≤ 11) :
    dateCalc t (n * MONTH) true =
      fromYmd? (t.y + ((t.m : Int) - 1 + n) / 12) ((((t.m : Int) - 1 + n) % 12).toNat + 1) t.d := by
  unfold dateCalc
  rw [dateYears_small t _ true (by unfold MONTH; omega) (by unfold MONTH; omega)]
  simp only
  have hnm : (((n * MONTH).natAbs : Int) / MONTH) = n := by unfold MONTH; omega
  have hn0 : ¬ n = 0 := by omega
  unfold dateMonths
  simp only [hnm, hn0, if_false, if_true]
  cases hf : fromYmd? (t.y + ((t.m : Int) - 1 + n) / 12) ((((t.m : Int) - 1 + n) % 12).toNat + 1) t.d with
  | none => rfl
  | some t' =>
    have hz : n * MONTH - MONTH * n = 0 := by rw [Int.mul_comm]; omega
    have hd : durOk 0 = true := by decide
    simp only [hz, hd, if_true]
    obtain ⟨rfl, hr, hv⟩ := (fromYmd_some_iff _ _ _ t').mp hf
    simpa using addDays_zero _ hv hr

/-- in calendar terms: the month index `12·year + (month − 1)` moves by exactly n, the day stays -/
theorem month_index_add (t t' : YMD) (n : Int) (h1 : 1 ≤ n) (h11 : n ≤ 11) (hm : 1 ≤ t.m)
    (h : dateCalc t (n * MONTH) true = some t') :
    12 * t'.y + ((t'.m : Int) - 1) = 12 * t.y + ((t.m : Int) - 1) + n ∧ t'.d = t.d ∧ Valid t' := by
  rw [add_months t n h1 h11] at h
  obtain ⟨rfl, -, hv⟩ := (fromYmd_some_iff _ _ _ t').mp h
  refine ⟨?_, rfl, hv⟩
  simp only
  omega

/-- PARTIAL (`n < month`): `date − n months` keeps the day and moves the month back by n.
    Without the hypothesis the year is not borrowed: `sub_months_borrow_witness`. -/
theorem sub_months_partial (t : YMD) (n : Int) (h1 : 1 ≤ n) (h11 : n ≤ 11) (hlt : n < (t.m : Int)) :
    dateCalc t (n * MONTH) false = fromYmd? t.y ((t.m : Int) - n).toNat t.d := by
  unfold dateCalc
  rw [dateYears_small t _ false (by unfold MONTH; omega) (by unfold MONTH; omega)]
  simp only
  have hnm : (((n * MONTH).natAbs : Int) / MONTH) = n := by unfold MONTH; omega
  have hn0 : ¬ n = 0 := by omega
  unfold dateMonths
  have h12 : n / 12 = 0 := by omega
  have hmod : n % 12 = n := by omega
  have hpos : ¬ ((t.m : Int) - n ≤ 0) := by omega
  simp only [hnm, hn0, if_false, Bool.false_eq_true, h12, hmod, hpos, Int.sub_zero]
  cases hf : fromYmd? t.y ((t.m : Int) - n).toNat t.d with
  | none => rfl
  | some t' =>
    have hz : n * MONTH - MONTH * n = 0 := by rw [Int.mul_comm]; omega
    have hd : durOk 0 = true := by decide
    simp only [hz, hd, if_true]
    obtain ⟨rfl, hr, hv⟩ := (fromYmd_some_iff _ _ _ t').mp hf
    simpa using addDays_zero _ hv hr

/-- the code as it is: 28 Jan 2019 − 2 months is 28 Nov 2019 (not 2018): no year borrow
    (known finding C09-G2, pinned by tests execute_21..23) -/
theorem sub_months_borrow_witness : dateCalc ⟨2019, 1, 28⟩ (2 * MONTH) false = some ⟨2019, 11, 28⟩ := by decide

/-- `date ± n years` (a year is 365 days of duration): same day and month, n years away -/
theorem add_years (t : YMD) (n : Int) (h1 : 1 ≤ n) :
    dateCalc t (n * YEAR) true = fromYmd? (t.y + n) t.m t.d := by
  unfold dateCalc
  have hny : (((n * YEAR).natAbs : Int) / YEAR) = n := by unfold YEAR; omega
  have hn0 : ¬ n = 0 := by omega
  unfold dateYears
  simp only [hny, hn0, if_false, if_true]
  cases hf : fromYmd? (t.y + n) t.m t.d with
  | none => rfl
  | some t' =>
    have hz : n * YEAR - YEAR * n = 0 := by rw [Int.mul_comm]; omega
    have hd : durOk 0 = true := by decide
    simp only [hz, hd, if_true]
    rw [dateMonths_small t' 0 true (by omega) (by omega)]
    obtain ⟨rfl, hr', hv⟩ := (fromYmd_some_iff _ _ _ t').mp hf
    simpa using addDays_zero _ hv hr'

theorem sub_years (t : YMD) (n : Int) (h1 : 1 ≤ n) :
    dateCalc t (n * YEAR) false = fromYmd? (t.y - n) t.m t.d := by
  unfold dateCalc
  have hny : (((n * YEAR).natAbs : Int) / YEAR) = n := by unfold YEAR; omega
  have hn0 : ¬ n = 0 := by omega
  unfold dateYears
  simp only [hny, hn0, if_false, Bool.false_eq_true]
  cases hf : fromYmd? (t.y - n) t.m t.d with
  | none => rfl
  | some t' =>
    have hz : n * YEAR - YEAR * n = 0 := by rw [Int.mul_comm]; omega
    have hd : durOk 0 = true := by decide
    simp only [hz, hd, if_true]
    rw [dateMonths_small t' 0 false (by omega) (by omega)]
    obtain ⟨rfl, hr', hv⟩ := (fromYmd_some_iff _ _ _ t').mp hf
    simpa using addDays_zero _ hv hr'

/-- EVERY month count `N = 12a + b`: the duration `N months` is `365a + 30b` days
    (`durationOfUnit 3`), which the code reads back as a years and b months — provided the
    intermediate date (a years later, same month and day) exists -/
theorem add_months_general (t t1 : YMD) (a b : Int) (ha : 1 ≤ a) (hb0 : 0 ≤ b) (hb : b ≤ 11)
    (hr : durOk ((365 * a + 30 * b) * 86400) = true) (hmid : fromYmd? (t.y + a) t.m t.d = some t1) :
    dateCalc t ((365 * a + 30 * b) * 86400) true =
      if b = 0 then some t1
      else fromYmd? (t1.y + ((t1.m : Int) - 1 + b) / 12) ((((t1.m : Int) - 1 + b) % 12).toNat + 1) t1.d := by
  have hny : ((((365 * a + 30 * b) * 86400).natAbs : Int) / YEAR) = a := by unfold YEAR; omega
  have hn0 : ¬ a = 0 := by omega
  have hrest : (365 * a + 30 * b) * 86400 - YEAR * a = b * MONTH := by unfold YEAR MONTH; omega
  have hd : durOk (b * MONTH) = true := by
    unfold durOk durMax MONTH
    simp only [Bool.and_eq_true, decide_eq_true_eq]; omega
  have key : dateYears t ((365 * a + 30 * b) * 86400) true = some (t1, b * MONTH) := by
    unfold dateYears
    simp only [hny, hn0, if_false, if_true, hmid, hrest, hd]
  by_cases hb' : b = 0
  · subst hb'
    unfold dateCalc
    rw [key]
    simp only [Int.zero_mul]
    rw [dateMonths_small t1 0 true (by omega) (by omega)]
    obtain ⟨rfl, hr', hv⟩ := (fromYmd_some_iff _ _ _ t1).mp hmid
    simpa using addDays_zero _ hv hr'
  · rw [if_neg hb', ← add_months t1 b (by omega) hb]
    unfold dateCalc
    rw [key, dateYears_small t1 _ true (by unfold MONTH; omega) (by unfold MONTH; omega)]

/-! ### `A to B` -/

def dat (t : YMD) (z : Zone) : Tok Rat := .item (.date t z)

/-- `A to B` is the absolute number of days between the two dates -/
theorem to_abs_days (c : Cfg Rat) (lang : String) (now : Now) (vs : Vars Rat) (a b : YMD) (za zb : Zone) :
    applyRule c lang now vs .toDuration [("source", ti (dat a za)), ("target", ti (dat b zb))] =
      some (.item (.duration (((dayNumber a - dayNumber b).natAbs : Int) * 86400))) := by
  simp only [applyRule, Fields.get?, assoc?, ti, dat, getTime, getDate, fieldItem]
  simp
  congr 1
  split <;> omega

/-- symmetric in A and B -/
theorem to_symmetric (c : Cfg Rat) (lang : String) (now : Now) (vs : Vars Rat) (a b : YMD) (za zb : Zone) :
    applyRule c lang now vs .toDuration [("source", ti (dat a za)), ("target", ti (dat b zb))] =
      applyRule c lang now vs .toDuration [("source", ti (dat b zb)), ("target", ti (dat a za))] := by
  rw [to_abs_days, to_abs_days]
  congr 4
  omega

/-! ### today, tomorrow, yesterday -/

/-- for every clock: tomorrow and yesterday (when representable) are valid dates whose day
    numbers are today's ± 1 -/
theorem today_consecutive (now : Now) (td tm yd : YMD)
    (h0 : constDate now 8 = some td) (h1 : constDate now 9 = some tm) (h2 : constDate now 10 = some yd) :
    Valid td ∧ dayNumber tm = dayNumber td + 1 ∧ dayNumber yd = dayNumber td - 1 ∧ Valid tm ∧ Valid yd := by
  simp only [constDate, if_true, Option.some.injEq] at h0
  have e1 : constDate now 9 = addDays? (dateOfSecs now.secs) 1 := by simp [constDate]
  have e2 : constDate now 10 = addDays? (dateOfSecs now.secs) (-1) := by simp [constDate]
  rw [e1] at h1; rw [e2] at h2
  subst h0
  obtain ⟨a1, a2⟩ := addDays_dayNumber _ _ _ h1
  obtain ⟨b1, b2⟩ := addDays_dayNumber _ _ _ h2
  exact ⟨civilFromDays_valid _, a1, by omega, a2, b2⟩

/-- today is the civil date of the current instant: its day number is the number of whole days
    since the epoch -/
theorem today_dayNumber (now : Now) : dayNumber (dateOfSecs now.secs) = now.secs / 86400 :=
  dayNumber_civilFromDays _

/-! non-vacuity -/
example : dateCalc ⟨2020, 11, 30⟩ (3 * MONTH) true = some ⟨2021, 2, 30⟩ ∨ dateCalc ⟨2020, 11, 30⟩ (3 * MONTH) true = none := by
  right; decide
example : dateCalc ⟨2020, 11, 15⟩ (3 * MONTH) true = some ⟨2021, 2, 15⟩ := by decide
example : dateCalc ⟨2024, 2, 28⟩ (2 * 86400) true = some ⟨2024, 3, 1⟩ := by decide
example : constDate ⟨86400 * 19782 + 5⟩ 9 = some ⟨2024, 3, 1⟩ := by decide

end SCP.C09
