/-
  SCP.C10 — Durations: unit lengths, additivity, greedy printing and 'as' flooring.
  All statements are over integers (exact), for ALL counts / durations (no 10^6 bound).
-/
import SC.Rules
import SC.Format
import SC.Engine
import SC.Gen.Config
import SC.Gen.Tables
import SCP.C05
namespace SCP.C10
open SC
set_option linter.unusedSimpArgs false

/-! ### `N unit` (duration_parse) -/

/-- seconds in one unit of each kind (constant_pair numbering: 1 day 2 week 3 month 4 year
    5 second 6 minute 7 hour) -/
def unitLen : Nat → Int
  | 1 => 86400 | 2 => 604800 | 3 => 2592000 | 4 => 31536000 | 5 => 1 | 6 => 60 | 7 => 3600 | _ => 0

/-- second, minute, hour, week, year: `N unit` is `N` times the unit's length -/
theorem parse_len (kind : Nat) (n : Int) (hk : kind = 2 ∨ kind = 4 ∨ kind = 5 ∨ kind = 6 ∨ kind = 7)
    (hr : durOk (n * unitLen kind) = true) :
    durationOfUnit kind n = some (n * unitLen kind) := by
  rcases hk with rfl | rfl | rfl | rfl | rfl <;>
    simp [durationOfUnit, unitLen] at hr ⊢ <;>
    (try (constructor <;> omega)) <;> (try simp_all [durOk]) <;> (try omega)

/-- days: the code's split into 365-day years, 30-day months and a rest is the identity -/
theorem parse_days (n : Int) (hn : 0 ≤ n) (hr : durOk (n * 86400) = true) :
    durationOfUnit 1 n = some (n * 86400) := by
  have h : 365 * (Int.tdiv n 365) + 30 * (Int.tdiv (Int.tmod n 365) 30) + Int.tmod (Int.tmod n 365) 30 = n := by
    have h1 : Int.tdiv n 365 = n / 365 := Int.tdiv_eq_ediv_of_nonneg hn
    have h2 : Int.tmod n 365 = n % 365 := Int.tmod_eq_emod_of_nonneg hn
    have h3 : 0 ≤ n % 365 := by omega
    rw [h1, h2, Int.tdiv_eq_ediv_of_nonneg h3, Int.tmod_eq_emod_of_nonneg h3]
    omega
  simp [durationOfUnit, h, hr]

/-- months: twelve months make one (365-day) year, a single month has 30 days -/
theorem parse_months (n : Int) (hn : 0 ≤ n) (hr : durOk ((365 * (n / 12) + 30 * (n % 12)) * 86400) = true) :
    durationOfUnit 3 n = some ((365 * (n / 12) + 30 * (n % 12)) * 86400) := by
  simp [durationOfUnit, Int.tdiv_eq_ediv_of_nonneg hn, Int.tmod_eq_emod_of_nonneg hn, hr]

theorem twelve_months_one_year : durationOfUnit 3 12 = durationOfUnit 4 1 := by decide

/-! ### additivity -/

def dur (s : Int) : Tok Rat := .item (.duration s)

theorem add_durations (rates) (conv) (a b : Int) (h : durOk (a + b) = true) :
    calcItem (F := Rat) rates conv (.duration a) (.duration b) .add = some (.duration (a + b)) := by
  simp [calcItem, h]

theorem sub_durations (rates) (conv) (a b : Int) (h : durOk (a - b) = true) :
    calcItem (F := Rat) rates conv (.duration a) (.duration b) .sub = some (.duration (a - b)) := by
  simp [calcItem, h]

/-- two durations written next to each other are rewritten to their sum -/
theorem combine_2 (c : Cfg Rat) (lang) (now) (vs : Vars Rat) (a b : Int)
    (h1 : durOk a = true) (h2 : durOk (a + b) = true) :
    applyRule c lang now vs .combineDurations [("1", SCP.C05.ti (dur a)), ("2", SCP.C05.ti (dur b))] =
      some (dur (a + b)) := by
  simp [applyRule, Fields.get?, assoc?, SCP.C05.ti, dur, getDuration, fieldItem, List.foldl, h1, h2]

theorem combine_3 (c : Cfg Rat) (lang) (now) (vs : Vars Rat) (a b d : Int)
    (h1 : durOk a = true) (h2 : durOk (a + b) = true) (h3 : durOk (a + b + d) = true) :
    applyRule c lang now vs .combineDurations
      [("1", SCP.C05.ti (dur a)), ("2", SCP.C05.ti (dur b)), ("3", SCP.C05.ti (dur d))] = some (dur (a + b + d)) := by
  simp [applyRule, Fields.get?, assoc?, SCP.C05.ti, dur, getDuration, fieldItem, List.foldl, h1, h2, h3]

/-- the generated `combine_durations` patterns match runs of 2 … 6 durations (English: longest
    pattern first) -/
theorem phrase_combine_2 (a b : Int) :
    ∃ pat, (Gen.rule_en_combine_durations Rat).patterns[4]? = some pat ∧
      (findMatch ([] : Vars Rat) pat [SCP.C05.ti (dur a), SCP.C05.ti (dur b)]).found = true ∧
      (findMatch ([] : Vars Rat) pat [SCP.C05.ti (dur a), SCP.C05.ti (dur b)]).fields =
        [("1", SCP.C05.ti (dur a)), ("2", SCP.C05.ti (dur b))] := by
  refine ⟨_, rfl, ?_, ?_⟩ <;>
    simp [findMatch, findMatch.go, sameTok, SCP.C05.ti, dur, infoEq, tokEq, tokFieldCompare, fieldNameOf, Field.name, Fields.insert]

theorem phrase_combine_6 (a b d e f g : Int) :
    ∃ pat, (Gen.rule_en_combine_durations Rat).patterns[0]? = some pat ∧
      (findMatch ([] : Vars Rat) pat [SCP.C05.ti (dur a), SCP.C05.ti (dur b), SCP.C05.ti (dur d), SCP.C05.ti (dur e),
        SCP.C05.ti (dur f), SCP.C05.ti (dur g)]).found = true := by
  refine ⟨_, rfl, ?_⟩
  simp [findMatch, findMatch.go, sameTok, SCP.C05.ti, dur, infoEq, tokEq, tokFieldCompare, fieldNameOf, Field.name, Fields.insert]

/-! ### greedy printing -/

/-- seconds of the printing units (kinds 0 second … 6 year) -/
def printLen : Nat → Int
  | 0 => 1 | 1 => 60 | 2 => 3600 | 3 => 86400 | 4 => 604800 | 5 => 2592000 | 6 => 31536000 | _ => 0

def partsValue (ps : List (Nat × Int)) : Int := (ps.map (fun p => p.2 * printLen p.1)).sum

theorem partsFrom_sum (us : List (Nat × Int)) (d : Int) (hd : 0 ≤ d)
    (hu : ∀ u ∈ us, 0 < u.2 ∧ printLen u.1 = u.2) : partsValue (partsFrom us d) = d := by
  induction us generalizing d with
  | nil =>
    simp only [partsFrom]
    split
    · simp [partsValue, printLen]
    · simp [partsValue]; omega
  | cons u us ih =>
    obtain ⟨k, len⟩ := u
    have hk := hu (k, len) (by simp)
    simp only [partsFrom]
    split
    · have h0 : 0 ≤ d % len := Int.emod_nonneg d (by omega)
      have := ih (d % len) h0 (fun u hu' => hu u (by simp [hu']))
      simp only [partsValue, List.map_cons, List.sum_cons] at this ⊢
      rw [this, hk.2]
      have h1 := Int.mul_ediv_add_emod d len
      rw [Int.mul_comm] at h1
      omega
    · exact ih d hd (fun u hu' => hu u (by simp [hu']))

theorem partsFrom_pos (us : List (Nat × Int)) (d : Int) (hd : 0 ≤ d)
    (hu : ∀ u ∈ us, 0 < u.2) : ∀ p ∈ partsFrom us d, 1 ≤ p.2 := by
  induction us generalizing d with
  | nil =>
    simp only [partsFrom]
    split <;> simp; omega
  | cons u us ih =>
    obtain ⟨k, len⟩ := u
    have hk := hu (k, len) (by simp)
    simp only [partsFrom]
    split
    · intro p hp
      rcases List.mem_cons.1 hp with rfl | hp'
      · simp only
        exact (Int.le_ediv_iff_mul_le hk).2 (by omega)
      · exact ih (d % len) (Int.emod_nonneg d (by omega)) (fun u hu' => hu u (by simp [hu'])) p hp'
    · exact ih d hd (fun u hu' => hu u (by simp [hu']))

theorem partsFrom_kinds (us : List (Nat × Int)) (d : Int) :
    ∀ p ∈ partsFrom us d, p.1 = 0 ∨ ∃ u ∈ us, u.1 = p.1 := by
  induction us generalizing d with
  | nil => simp only [partsFrom]; split <;> simp
  | cons u us ih =>
    obtain ⟨k, len⟩ := u
    simp only [partsFrom]
    split
    · intro p hp
      rcases List.mem_cons.1 hp with rfl | hp'
      · right; exact ⟨(k, len), by simp, rfl⟩
      · rcases ih _ p hp' with h | ⟨u, hu, he⟩
        · exact Or.inl h
        · exact Or.inr ⟨u, by simp [hu], he⟩
    · intro p hp
      rcases ih _ p hp with h | ⟨u, hu, he⟩
      · exact Or.inl h
      · exact Or.inr ⟨u, by simp [hu], he⟩

theorem partsFrom_desc (us : List (Nat × Int)) (d : Int)
    (hs : us.Pairwise (fun a b => a.1 > b.1)) (hp : ∀ u ∈ us, 0 < u.1) :
    (partsFrom us d).Pairwise (fun a b => a.1 > b.1) := by
  induction us generalizing d with
  | nil => simp only [partsFrom]; split <;> simp
  | cons u us ih =>
    obtain ⟨k, len⟩ := u
    rw [List.pairwise_cons] at hs
    simp only [partsFrom]
    split
    · rw [List.pairwise_cons]
      refine ⟨?_, ih _ hs.2 (fun u hu => hp u (by simp [hu]))⟩
      intro p hp'
      rcases partsFrom_kinds us _ p hp' with h | ⟨u, hu, he⟩
      · rw [h]; exact hp (k, len) (by simp)
      · rw [← he]; exact hs.1 u hu
    · exact ih _ hs.2 (fun u hu => hp u (by simp [hu]))

theorem partsFrom_leading (us : List (Nat × Int)) (d : Int) (hd : 0 ≤ d)
    (hu : ∀ u ∈ us, 0 < u.2 ∧ printLen u.1 = u.2) (k : Nat) (n : Int) (rest : List (Nat × Int))
    (h : partsFrom us d = (k, n) :: rest) : n * printLen k ≤ d ∧ d < (n + 1) * printLen k := by
  induction us generalizing d with
  | nil =>
    simp only [partsFrom] at h
    split at h
    · simp only [List.cons.injEq, Prod.mk.injEq] at h
      obtain ⟨⟨rfl, rfl⟩, _⟩ := h
      simp [printLen]; omega
    · simp at h
  | cons u us ih =>
    obtain ⟨k', len⟩ := u
    have hk := hu (k', len) (by simp)
    simp only at hk
    simp only [partsFrom] at h
    split at h
    · simp only [List.cons.injEq, Prod.mk.injEq] at h
      obtain ⟨⟨rfl, rfl⟩, _⟩ := h
      rw [hk.2]
      have h1 := Int.mul_ediv_add_emod d len
      have h2 := Int.emod_nonneg d (show len ≠ 0 by omega)
      have h3 := Int.emod_lt_of_pos d hk.1
      rw [Int.mul_comm] at h1
      rw [Int.add_mul]
      generalize d / len * len = q at *
      constructor <;> omega
    · exact ih d hd (fun u hu' => hu u (by simp [hu'])) h

/-- the printing units: positive lengths, matching `printLen`, strictly descending kinds -/
theorem units_ok : ∀ u ∈ [((6 : Nat), YEAR), (5, MONTH), (4, WEEK), (3, DAY), (2, HOUR), (1, MINUTE)],
    0 < u.2 ∧ printLen u.1 = u.2 := by
  intro u hu
  simp only [List.mem_cons, List.mem_nil_iff, or_false] at hu
  rcases hu with rfl | rfl | rfl | rfl | rfl | rfl <;> simp [printLen, YEAR, MONTH, WEEK, DAY, HOUR, MINUTE]

/-- the printed parts always sum to the magnitude of the duration -/
theorem greedy_sum (secs : Int) : partsValue (durationParts secs) = (secs.natAbs : Int) :=
  partsFrom_sum _ _ (by omega) units_ok

/-- every printed count is at least 1 -/
theorem greedy_counts_pos (secs : Int) : ∀ p ∈ durationParts secs, 1 ≤ p.2 :=
  partsFrom_pos _ _ (by omega) (fun u hu => (units_ok u hu).1)

/-- the units strictly descend (years, months, weeks, days, hours, minutes, seconds) -/
theorem greedy_descending (secs : Int) : (durationParts secs).Pairwise (fun a b => a.1 > b.1) := by
  apply partsFrom_desc
  · simp
  · intro u hu
    simp only [List.mem_cons, List.mem_nil_iff, or_false] at hu
    rcases hu with rfl | rfl | rfl | rfl | rfl | rfl <;> simp

/-- a zero duration prints no part -/
theorem greedy_zero : durationParts 0 = [] := by decide

/-- the leading part is the greedy one: the largest unit that fits, taken as often as it fits;
    the same holds for every later part w.r.t. the remainder (`partsFrom_leading` is stated for
    every suffix of the unit list) -/
theorem greedy_leading (secs : Int) (k : Nat) (n : Int) (rest : List (Nat × Int))
    (h : durationParts secs = (k, n) :: rest) :
    n * printLen k ≤ (secs.natAbs : Int) ∧ (secs.natAbs : Int) < (n + 1) * printLen k :=
  partsFrom_leading _ _ (by omega) units_ok k n rest h

/-! ### `D as unit` floors -/

theorem as_floor (c : Cfg Rat) (now) (vs : Vars Rat) (d : Int) (kind : Nat) (word : String)
    (hk : kind = 1 ∨ kind = 2 ∨ kind = 5 ∨ kind = 6 ∨ kind = 7)
    (hw : constantOf c "en" word = some kind) :
    ∃ k : Int, applyRule c "en" now vs .asDuration
        [("source", SCP.C05.ti (dur d)), ("type", SCP.C05.tiText word)] = some (dur (k * unitLen kind)) ∧
      k * unitLen kind ≤ (d.natAbs : Int) ∧ (d.natAbs : Int) < (k + 1) * unitLen kind := by
  refine ⟨(d.natAbs : Int) / unitLen kind, ?_, ?_, ?_⟩
  · rcases hk with rfl | rfl | rfl | rfl | rfl <;>
      simp [applyRule, Fields.get?, assoc?, SCP.C05.ti, SCP.C05.tiText, dur, getText, hw, unitLen]
  · rcases hk with rfl | rfl | rfl | rfl | rfl <;> simp [unitLen] <;> omega
  · rcases hk with rfl | rfl | rfl | rfl | rfl <;> simp [unitLen] <;> omega

/-! ### data obligations (regenerated tables) -/

/-- every configured rule / unit / date pattern has at least two tokens (termination measure of
    the rewrite loops, C01) -/
theorem patterns_at_least_two : Gen.patternLengths.all (fun n => decide (2 ≤ n)) = true := by decide

example : durationParts 90061 = [(3, 1), (2, 1), (1, 1), (0, 1)] := by decide
example : durationOfUnit 7 2 = some 7200 := by decide

end SCP.C10
