/-
  SCP.C11 — Clock times and zones: conversion keeps the instant, arithmetic is modulo 24 h.
  Integer arithmetic over ALL instants, ALL offsets (minutes), ALL durations.
-/
import SC.Rules
import SC.Format
import SC.Engine
import SC.Gen.Config
import SC.Gen.Tables
import SCP.C05
namespace SCP.C11
open SC
set_option linter.unusedSimpArgs false

/-- seconds after local midnight that `TimeItem::print` shows for an instant in a zone -/
def shown (secs : Int) (off : Int) : Int := (secs + off * 60) % 86400

def tim (s : Int) (z : Zone) : Tok Rat := .item (.time s z)

/-- `H:MM Z` (rule time_with_timezone): a wall time that was anchored in the default zone `dflt`
    (instant = midnight + wall − 60·dflt) is re-anchored in `Z`: the instant becomes
    midnight + wall − 60·off(Z), whatever the default zone was. -/
theorem with_zone (c : Cfg Rat) (lang) (now) (vs : Vars Rat) (midnight wall dflt off : Int) (dname zname : String) :
    applyRule c lang now vs .timeWithTimezone
        [("time", SCP.C05.ti (tim (midnight + wall - dflt * 60) ⟨dname, dflt⟩)),
         ("timezone", ⟨0, 0, some (.tz zname off), "", true⟩)] =
      some (tim (midnight + wall - off * 60) ⟨zname.toUpper, off⟩) := by
  simp [applyRule, Fields.get?, assoc?, SCP.C05.ti, tim, getTime, getTimezone, fieldItem, uppercaseAscii]

/-- the shown time of `H:MM Z` is the wall time that was written (mod 24 h) -/
theorem with_zone_shows_wall (midnight wall off : Int) (hm : midnight % 86400 = 0) :
    shown (midnight + wall - off * 60) off = wall % 86400 := by
  unfold shown; omega

/-- `T to Z₂` (rule convert_timezone) keeps the instant and only swaps the display zone -/
theorem convert_keeps_instant (c : Cfg Rat) (lang) (now) (vs : Vars Rat) (s off2 : Int) (z1 : Zone) (zname : String) :
    applyRule c lang now vs .convertTimezone
        [("time", SCP.C05.ti (tim s z1)), ("timezone", ⟨0, 0, some (.tz zname off2), "", true⟩)] =
      some (tim s ⟨zname.toUpper, off2⟩) := by
  simp [applyRule, Fields.get?, assoc?, SCP.C05.ti, tim, getTime, getTimezone, fieldItem, uppercaseAscii]

/-- … hence the shown time is the source wall time minus the source offset plus the target
    offset, modulo 24 hours -/
theorem convert_shown (midnight wall off1 off2 : Int) (hm : midnight % 86400 = 0) :
    shown (midnight + wall - off1 * 60) off2 = (wall - off1 * 60 + off2 * 60) % 86400 := by
  unfold shown; omega

/-- adding a duration moves the clock by that amount modulo 24 hours -/
theorem add_duration (rates) (conv) (s d : Int) (z : Zone) (hd : 0 ≤ d) :
    ∃ s', calcItem (F := Rat) rates conv (.time s z) (.duration d) .add = some (.time s' z) ∧
      shown s' z.off = (shown s z.off + d) % 86400 := by
  refine ⟨s + (d.natAbs : Int) % 86400, ?_, ?_⟩
  · have : ¬ d < 0 := by omega
    simp [calcItem, this]
  · unfold shown; omega

theorem sub_duration (rates) (conv) (s d : Int) (z : Zone) (hd : 0 ≤ d) :
    ∃ s', calcItem (F := Rat) rates conv (.time s z) (.duration d) .sub = some (.time s' z) ∧
      shown s' z.off = (shown s z.off - d) % 86400 := by
  refine ⟨s - (d.natAbs : Int) % 86400, ?_, ?_⟩
  · have : ¬ d < 0 := by omega
    simp [calcItem, this]
  · unfold shown; omega

/-- `T1 to T2` is the absolute difference of the two instants, symmetric in T1 and T2 -/
theorem to_abs (c : Cfg Rat) (lang) (now) (vs : Vars Rat) (s t : Int) (z1 z2 : Zone) :
    applyRule c lang now vs .toDuration [("source", SCP.C05.ti (tim s z1)), ("target", SCP.C05.ti (tim t z2))] =
      some (.item (.duration (if t > s then t - s else s - t))) := by
  simp [applyRule, Fields.get?, assoc?, SCP.C05.ti, tim, getTime, fieldItem]

theorem to_symmetric (s t : Int) : (if t > s then t - s else s - t) = (if s > t then s - t else t - s) := by
  split <;> split <;> omega

/-- printing: `HH:MM:SS` are the digits of `shown` -/
theorem print_fields (s : Int) (z : Zone) :
    printTime s z = pad2 (shown s z.off / 3600) ++ ":" ++ pad2 (shown s z.off % 3600 / 60) ++ ":" ++
      pad2 (shown s z.off % 60) ++ " " ++ z.name := by
  simp [printTime, shown, localSecs]

/-! ### data obligations -/

/-- every configured zone offset is within ±14 h (so `FixedOffset::east` is always in its domain) -/
theorem zone_offsets_in_range : Gen.zoneOffsets.all (fun o => decide (-840 ≤ o ∧ o ≤ 840)) = true := by decide

/-- the generated `time_with_timezone` and `convert_timezone` patterns match `<time> <zone>` and
    `<time> to <zone>` -/
theorem phrase_with_zone (s off : Int) (z : Zone) (zname : String) :
    ∃ pat, (Gen.rule_en_time_with_timezone Rat).patterns[0]? = some pat ∧
      (findMatch ([] : Vars Rat) pat [SCP.C05.ti (tim s z), ⟨0, 0, some (.tz zname off), "", true⟩]).found = true := by
  refine ⟨_, rfl, ?_⟩
  simp [findMatch, findMatch.go, sameTok, SCP.C05.ti, tim, infoEq, tokEq, tokFieldCompare, fieldNameOf, Field.name, Fields.insert]

example : shown (11 * 3600 + 30 * 60 + 5 * 3600) (-300) = 11 * 3600 + 30 * 60 := by decide

end SCP.C11
