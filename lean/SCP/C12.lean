/-
  SCP.C12 — Unit conversion matches the unit definitions; linear, invertible, transitive.

  The theorems are about the model functions `calculateUnitWith` / `convertUnitWith`
  (SC/Units.lean: `calculate_unit`, `convert` of src/compiler/dynamic_type.rs) for EVERY code
  executor `ex` that multiplies by the factor its code text denotes (`ExecIsMult`; the factor
  table `Gen.codeFactors` is regenerated from config.json on every run).  That the real executor
  (`execute_code`: substitute the number's text, tokenise, parse, interpret) has this behaviour
  is the one step that is not a theorem: it is decided bit-for-bit by the correspondence run
  (model `executeCode` over doubles vs the implementation) and by the exact-rational oracle.

    * `calc_factor`, `factor_inverse`, `factor_trans`, `round_trip`, `via_third`: along a
      contiguous index chain whose neighbouring codes are mutually inverse, conversion is
      multiplication by `weight p / weight q`: linear, invertible, transitive
    * `convert_in_family`, `convert_across_bridge`, `convert_across_bridge_rev`: `convert` inside a
      family and through a configured bridge
    * `cross_kind_none`, `gen_kinds_separate`: quantities of different kinds are never converted
    * data obligations, re-checked by the kernel on the regenerated tables: every configured family
      is a contiguous chain with mutually inverse neighbours (`gen_chains`), the weights ARE the
      standard definitions (`gen_weights_*`), the bridges are 1 in = 25.4 mm and
      1 oz = 28349.5231 mg with mutually inverse codes (`gen_bridges`)
    * `add_converts_right`, `scale_keeps_unit`, `ratio_is_number`: arithmetic on quantities
-/
import SC.Units
import SC.Gen.Config
import SC.Gen.Tables
import SCP.Lemmas.C12
namespace SCP.C12
open SC
open SCP.Lemmas.C12

/-- the multiplier a conversion code text denotes, from the regenerated table -/
def mult (code : String) : Rat :=
  match assoc? Gen.codeFactors code with
  | some (n, d) => (n : Rat) / (d : Rat)
  | none => 0

/-- conversion factor from position `p` to position `q` of a family -/
def factor (m : String → Rat) (items : List UI) (p q : Nat) : Rat := weight m items p / weight m items q

/-! ### linear, invertible, transitive -/

/-- LINEAR: converting amount `v` from the unit at position `p` to the unit at position `q`
    multiplies it by a factor that does not depend on `v` -/
theorem calc_factor (ex : String → Rat → Option Rat) (m : String → Rat) (items : List UI) (lo : Nat)
    (hch : Chain items lo) (hex : ExecIsMult ex m items) (hinv : InversePairs m items)
    (p q : Nat) (hp : p < items.length) (hq : q < items.length) (v : Rat) :
    calculateUnitWith ex items v (lo + p) (lo + q) = some (v * factor m items p q) :=
  calculateUnit_weights ex m items lo hch hex hinv p q hp hq v

theorem factor_self (m : String → Rat) (items : List UI) (hinv : InversePairs m items) (p : Nat) (hp : p < items.length) :
    factor m items p p = 1 := by
  have := weight_ne_zero m items hinv p hp
  unfold factor; grind

/-- INVERTIBLE -/
theorem factor_inverse (m : String → Rat) (items : List UI) (hinv : InversePairs m items)
    (p q : Nat) (hp : p < items.length) (hq : q < items.length) :
    factor m items p q * factor m items q p = 1 := by
  have h1 := weight_ne_zero m items hinv p hp
  have h2 := weight_ne_zero m items hinv q hq
  unfold factor; grind

/-- TRANSITIVE -/
theorem factor_trans (m : String → Rat) (items : List UI) (hinv : InversePairs m items)
    (p q r : Nat) (hq : q < items.length) :
    factor m items p q * factor m items q r = factor m items p r := by
  have h2 := weight_ne_zero m items hinv q hq
  unfold factor; grind

/-- A to B and back returns the original amount -/
theorem round_trip (ex : String → Rat → Option Rat) (m : String → Rat) (items : List UI) (lo : Nat)
    (hch : Chain items lo) (hex : ExecIsMult ex m items) (hinv : InversePairs m items)
    (p q : Nat) (hp : p < items.length) (hq : q < items.length) (v : Rat) :
    (calculateUnitWith ex items v (lo + p) (lo + q)).bind (fun w => calculateUnitWith ex items w (lo + q) (lo + p)) = some v := by
  rw [calc_factor ex m items lo hch hex hinv p q hp hq]
  simp only [Option.bind_some]
  rw [calc_factor ex m items lo hch hex hinv q p hq hp]
  have := factor_inverse m items hinv p q hp hq
  congr 1; grind

/-- A to B to C equals A to C -/
theorem via_third (ex : String → Rat → Option Rat) (m : String → Rat) (items : List UI) (lo : Nat)
    (hch : Chain items lo) (hex : ExecIsMult ex m items) (hinv : InversePairs m items)
    (p q r : Nat) (hp : p < items.length) (hq : q < items.length) (hr : r < items.length) (v : Rat) :
    (calculateUnitWith ex items v (lo + p) (lo + q)).bind (fun w => calculateUnitWith ex items w (lo + q) (lo + r)) =
      calculateUnitWith ex items v (lo + p) (lo + r) := by
  rw [calc_factor ex m items lo hch hex hinv p q hp hq, calc_factor ex m items lo hch hex hinv p r hp hr]
  simp only [Option.bind_some]
  rw [calc_factor ex m items lo hch hex hinv q r hq hr]
  have := factor_trans m items hinv p q r hq
  congr 1; grind

/-! ### `convert` -/

/-- conversion inside a family: amount times the factor, tagged with the target unit -/
theorem convert_in_family (ex : String → Rat → Option Rat) (m : String → Rat) (c : Cfg Rat) (g target : String)
    (items : List UI) (lo p q : Nat) (t : UI) (v : Rat)
    (hg : assoc? c.units g = some items) (ht : items.find? (fun it => it.names.contains target) = some t)
    (hch : Chain items lo) (hex : ExecIsMult ex m items) (hinv : InversePairs m items)
    (hp : p < items.length) (hq : q < items.length) (hti : t.index = lo + q) :
    convertUnitWith ex c v ⟨g, lo + p⟩ target = some (v * factor m items p q, ⟨g, lo + q⟩) := by
  unfold convertUnitWith
  simp only [hg, ht, hti]
  by_cases hpq : p = q
  · subst hpq
    simp only [if_true]
    rw [factor_self m items hinv p hp]; simp
  · have : ¬ (lo + p = lo + q) := by omega
    simp only [this, if_false, calc_factor ex m items lo hch hex hinv p q hp hq, Option.map_some]

/-- conversion through a bridge, from the family on the bridge's source side:
    to the bridge's own unit, across, and on to the target unit -/
theorem convert_across_bridge (ex : String → Rat → Option Rat) (m : String → Rat) (c : Cfg Rat) (target : String)
    (b : Bridge) (items items' : List UI) (lo lo' p bp bq q : Nat) (t : UI) (v : Rat)
    (hg : assoc? c.units b.srcName = some items)
    (hnot : items.find? (fun it => it.names.contains target) = none)
    (hb : c.bridges.find? (fun x => x.srcName = b.srcName || x.tgtName = b.srcName) = some b)
    (hg' : assoc? c.units b.tgtName = some items')
    (ht : items'.find? (fun it => it.names.contains target) = some t)
    (hch : Chain items lo) (hex : ExecIsMult ex m items) (hinv : InversePairs m items)
    (hch' : Chain items' lo') (hex' : ExecIsMult ex m items') (hinv' : InversePairs m items')
    (hbx : ∀ w, ex b.toSource w = some (w * m b.toSource))
    (hp : p < items.length) (hbp : bp < items.length) (hbq : bq < items'.length) (hq : q < items'.length)
    (hbs : b.srcIndex = lo + bp) (hbt : b.tgtIndex = lo' + bq) (hti : t.index = lo' + q) :
    convertUnitWith ex c v ⟨b.srcName, lo + p⟩ target =
      some (v * factor m items p bp * m b.toSource * factor m items' bq q, ⟨b.tgtName, lo' + q⟩) := by
  have hf1 : findItem? items (lo + bp) = some items[bp] := by
    rw [findItem_chain items lo hch]; exact List.getElem?_eq_getElem hbp
  have hf2 : findItem? items' (lo' + bq) = some items'[bq] := by
    rw [findItem_chain items' lo' hch']; exact List.getElem?_eq_getElem hbq
  unfold convertUnitWith
  simp only [hg, hnot, hb, if_true, hbs, hbt, hf1, hf2,
    calc_factor ex m items lo hch hex hinv p bp hp hbp, hbx, hg', ht, hti,
    calc_factor ex m items' lo' hch' hex' hinv' bq q hbq hq, Option.map_some]

/-- the same from the family on the bridge's target side -/
theorem convert_across_bridge_rev (ex : String → Rat → Option Rat) (m : String → Rat) (c : Cfg Rat) (target : String)
    (b : Bridge) (items items' : List UI) (lo lo' p bp bq q : Nat) (t : UI) (v : Rat)
    (hne : b.srcName ≠ b.tgtName)
    (hg : assoc? c.units b.tgtName = some items)
    (hnot : items.find? (fun it => it.names.contains target) = none)
    (hb : c.bridges.find? (fun x => x.srcName = b.tgtName || x.tgtName = b.tgtName) = some b)
    (hg' : assoc? c.units b.srcName = some items')
    (ht : items'.find? (fun it => it.names.contains target) = some t)
    (hch : Chain items lo) (hex : ExecIsMult ex m items) (hinv : InversePairs m items)
    (hch' : Chain items' lo') (hex' : ExecIsMult ex m items') (hinv' : InversePairs m items')
    (hbx : ∀ w, ex b.toTarget w = some (w * m b.toTarget))
    (hp : p < items.length) (hbp : bp < items.length) (hbq : bq < items'.length) (hq : q < items'.length)
    (hbs : b.tgtIndex = lo + bp) (hbt : b.srcIndex = lo' + bq) (hti : t.index = lo' + q) :
    convertUnitWith ex c v ⟨b.tgtName, lo + p⟩ target =
      some (v * factor m items p bp * m b.toTarget * factor m items' bq q, ⟨b.srcName, lo' + q⟩) := by
  have hf1 : findItem? items (lo + bp) = some items[bp] := by
    rw [findItem_chain items lo hch]; exact List.getElem?_eq_getElem hbp
  have hf2 : findItem? items' (lo' + bq) = some items'[bq] := by
    rw [findItem_chain items' lo' hch']; exact List.getElem?_eq_getElem hbq
  unfold convertUnitWith
  simp only [hg, hnot, hb, hne, if_false, hbs, hbt, hf1, hf2,
    calc_factor ex m items lo hch hex hinv p bp hp hbp, hbx, hg', ht, hti,
    calc_factor ex m items' lo' hch' hex' hinv' bq q hbq hq, Option.map_some]

/-! ### different kinds are never converted into each other -/

/-- is `target` the name of one of these items? -/
def targetIn (items : List UI) (target : String) : Bool := items.any (fun it => it.names.contains target)

theorem find_none_of_targetIn (items : List UI) (target : String) (h : targetIn items target = false) :
    items.find? (fun it => it.names.contains target) = none := by
  rw [List.find?_eq_none]
  intro x hx hc
  have : targetIn items target = true := List.any_eq_true.mpr ⟨x, hx, hc⟩
  rw [h] at this; cases this

/-- `convert` yields nothing when the target name belongs neither to the quantity's own family
    nor to the family on the other side of the (first) bridge that mentions its family -/
theorem cross_kind_none (ex : String → Rat → Option Rat) (c : Cfg Rat) (v : Rat) (src : UnitRef) (target : String)
    (h1 : ∀ items, assoc? c.units src.group = some items → targetIn items target = false)
    (h2 : ∀ b og, c.bridges.find? (fun x => x.srcName = src.group || x.tgtName = src.group) = some b →
      assoc? c.units (if b.srcName = src.group then b.tgtName else b.srcName) = some og → targetIn og target = false) :
    convertUnitWith ex c v src target = none := by
  unfold convertUnitWith
  cases hg : assoc? c.units src.group with
  | none => rfl
  | some items =>
    simp only [find_none_of_targetIn items target (h1 items hg)]
    cases hb : c.bridges.find? (fun x => x.srcName = src.group || x.tgtName = src.group) with
    | none => rfl
    | some b =>
      simp only
      split
      · rfl
      · split
        · rfl
        · split
          · rfl
          · split
            · rfl
            · rename_i og hog
              have hog' : assoc? c.units (if b.srcName = src.group then b.tgtName else b.srcName) = some og := by
                by_cases hs : b.srcName = src.group <;> simp [hs] at hog ⊢ <;> exact hog
              simp only [find_none_of_targetIn og target (h2 b og hb hog')]

/-! ### data obligations on the regenerated tables -/

def chainB : List UI → Nat → Bool
  | [], _ => true
  | it :: rest, lo => it.index == lo && chainB rest (lo + 1)

theorem chain_of_chainB (items : List UI) (lo : Nat) (h : chainB items lo = true) : Chain items lo := by
  induction items generalizing lo with
  | nil => trivial
  | cons it rest ih =>
    simp only [chainB, Bool.and_eq_true, beq_iff_eq] at h
    exact ⟨h.1, ih (lo + 1) h.2⟩

def invB (m : String → Rat) : List UI → Bool
  | [] => true
  | [_] => true
  | a :: b :: rest => (m a.up * m b.down == 1) && invB m (b :: rest)

theorem inverse_of_invB (m : String → Rat) (items : List UI) (h : invB m items = true) : InversePairs m items := by
  induction items with
  | nil => intro p a b ha; simp at ha
  | cons x rest ih =>
    cases rest with
    | nil => intro p a b _ hb; simp at hb
    | cons y rest =>
      simp only [invB, Bool.and_eq_true, beq_iff_eq] at h
      intro p a b ha hb
      cases p with
      | zero =>
        simp at ha hb; subst ha; subst hb; exact h.1
      | succ p =>
        simp only [List.getElem?_cons_succ] at ha hb
        exact ih h.2 p a b ha hb

/-- lowest index, number of items, and the weights of a configured family -/
def familySummary (g : String) : Option (Nat × List Rat) :=
  (assoc? (Gen.units Rat) g).map fun items =>
    ((items.head?.map (·.index)).getD 0, (List.range items.length).map (weight mult items))

/-- every configured family is a contiguous chain whose neighbouring codes are mutually inverse -/
theorem gen_chains :
    (Gen.units Rat).all (fun fam => chainB fam.2 ((fam.2.head?.map (·.index)).getD 0) && invB mult fam.2) = true := by
  decide +kernel

/-- the standard definitions: 12 in = 1 ft, 3 ft = 1 yd, 220 yd = 1 furlong, 8 furlong = 1 mile
    (1760 yd = 63360 in = 1 mile) -/
theorem gen_weights_imperial_length :
    familySummary "imperial-unit-length" = some (1, [1, 12, 36, 7920, 63360]) := by decide +kernel

/-- 16 oz = 1 lb, 14 lb = 1 stone -/
theorem gen_weights_imperial_weight :
    familySummary "imperial-unit-weight" = some (1, [1, 16, 224]) := by decide +kernel

/-- decimal metric prefixes: mm cm dm m dam hm km -/
theorem gen_weights_metric_length :
    familySummary "metric-length" = some (1, [1, 10, 100, 1000, 10000, 100000, 1000000]) := by decide +kernel

/-- mg cg dg g dag hg kg tonne -/
theorem gen_weights_metric_weight :
    familySummary "metric-weight" = some (1, [1, 10, 100, 1000, 10000, 100000, 1000000, 1000000000]) := by decide +kernel

/-- 8 bit = 1 byte, then 1024-based multiples up to YB -/
theorem gen_weights_memory :
    familySummary "memory" = some (1, ([1, 8, 8 * 1024, 8 * 1024 ^ 2, 8 * 1024 ^ 3, 8 * 1024 ^ 4, 8 * 1024 ^ 5,
      8 * 1024 ^ 6, 8 * 1024 ^ 7, 8 * 1024 ^ 8] : List Nat).map (fun (n : Nat) => (n : Rat))) := by decide +kernel

/-- the bridges: 1 inch = 25.4 mm and 1 oz = 28349.5231 mg (= 28.3495231 g), each between the
    lowest units of two families of the same kind, with mutually inverse codes -/
theorem gen_bridges :
    Gen.bridges.map (fun b => (b.srcName, b.srcIndex, b.tgtName, b.tgtIndex, mult b.toSource, mult b.toSource * mult b.toTarget)) =
      [("imperial-unit-length", 1, "metric-length", 1, (254 : Rat) / 10, 1),
       ("imperial-unit-weight", 1, "metric-weight", 1, (283495231 : Rat) / 10000, 1)] := by decide +kernel

/-- the kind of a family, as the property names them -/
def kindOf (g : String) : Option Nat :=
  if g = "imperial-unit-length" ∨ g = "metric-length" then some 0
  else if g = "imperial-unit-weight" ∨ g = "metric-weight" then some 1
  else if g = "memory" then some 2 else none

/-- for every pair of configured families of different kinds and every unit name of the second:
    the name is neither in the first family nor in the family bridged to it -/
def kindsSeparateB : Bool :=
  (Gen.units Rat).all fun fam =>
    (Gen.units Rat).all fun fam' =>
      if kindOf fam.1 = kindOf fam'.1 then true else
        (fam'.2.flatMap (·.names)).all fun target =>
          !targetIn fam.2 target &&
            (match Gen.bridges.find? (fun x => x.srcName = fam.1 || x.tgtName = fam.1) with
             | none => true
             | some b =>
               match assoc? (Gen.units Rat) (if b.srcName = fam.1 then b.tgtName else b.srcName) with
               | none => true
               | some og => !targetIn og target)

theorem gen_kinds_separate : kindsSeparateB = true := by decide +kernel

/-! ### arithmetic on quantities -/

/-- `+` and `-` convert the right operand into the left operand's unit -/
theorem add_converts_right (rates : List (String × Rat)) (conv : Rat → UnitRef → Option Rat) (v w w' : Rat) (u u2 : UnitRef)
    (h : conv w u2 = some w') :
    calcItem rates conv (.dyn v u) (.dyn w u2) .add = some (.dyn (v + w') u) ∧
    calcItem rates conv (.dyn v u) (.dyn w u2) .sub = some (.dyn (v - w') u) := by
  simp [calcItem, h, applyOp, Num.add, Num.sub]

/-- no conversion, no result -/
theorem add_needs_conversion (rates : List (String × Rat)) (conv : Rat → UnitRef → Option Rat) (v w : Rat) (u u2 : UnitRef) (op : BinOp)
    (h : conv w u2 = none) : calcItem rates conv (.dyn v u) (.dyn w u2) op = none := by
  simp [calcItem, h]

/-- scaling by a plain number keeps the unit -/
theorem scale_keeps_unit (rates : List (String × Rat)) (conv : Rat → UnitRef → Option Rat) (v k : Rat) (u : UnitRef) (t : NumType) :
    calcItem rates conv (.dyn v u) (.number k t) .mul = some (.dyn (v * k) u) ∧
    calcItem rates conv (.dyn v u) (.number k t) .div = some (.dyn (v / k) u) := by
  simp [calcItem, applyOp, gdiv, Num.mul, Num.div, Num.isBad]

/-- the ratio of two quantities is a plain number -/
theorem ratio_is_number (rates : List (String × Rat)) (conv : Rat → UnitRef → Option Rat) (v w w' : Rat) (u u2 : UnitRef)
    (h : conv w u2 = some w') :
    calcItem rates conv (.dyn v u) (.dyn w u2) .div = some (.number (v / w') .decimal) := by
  simp [calcItem, h, gdiv, Num.div, Num.isBad]

/-- non-vacuity: the inch family satisfies the hypotheses of the general theorems, and the walk
    inch → mile on it (with the multiplying executor) gives 1/63360 -/
example : calculateUnitWith (fun code v => some (v * mult code))
    ((assoc? (Gen.units Rat) "imperial-unit-length").getD []) 63360 1 5 = some 1 := by decide +kernel

end SCP.C12
