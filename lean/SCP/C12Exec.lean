/-
  SCP.C12Exec — the step of C12 that used to be a hypothesis: `execute_code` multiplies by the factor of its code.

  `DynamicTypeItem::execute_code` substitutes the amount's text (`f64::to_string`) for `{value}` in the code text,
  translates '.' into the configured decimal separator and hands the text to `SmartCalc::basic_execute` — the regex
  tokenizer, the parser and the interpreter.  The theorems of SCP.C12 took the result of that step as a hypothesis
  (`ExecIsMult`), decided by the correspondence run only.  Here it is derived on the model, by composing the string
  lemmas of SCP.Lex (`lex_render`: every spacing of literal / operator pieces lexes to the pieces' tokens) with
  `SCP.C02.parse_eval` (the parser and the interpreter give a tree's textbook value):

    * `codeLex_mono`       : more fuel never changes a result of the code tokenizer (needed because `basic_execute`
                             runs with the text's length as fuel, the string lemmas with the exact number of steps)
    * `strReplace_prefix`  : `str::replace` of the `{value}` placeholder at the start of a code whose rest has no '{'
    * `executeCode_mul/_div/_id` (every number type, every separator convention): for a code `{value} * K`,
      `{value} / K`, `{value}` the model returns amount × K, amount / K (through `gdiv`), the amount — provided the
      amount's text and the constant's text are literals that read as the amount and the constant (`LitOK`)
    * `gen_codes_ok` (data obligation, kernel-decided on the regenerated table): every configured code has one of the
      three shapes, its constant is a literal, and the factor the TRANSLATOR computed for the code (`Gen.codeFactors`,
      used by `SCP.C12.mult`) is the value the MODEL's reader gives the constant — the translator's reading of the codes
      is no longer trusted
    * `gen_codes_multiply` : for every configured code and every exact amount whose printed text reads back as itself,
      `executeCode "." "" code v = some (v * mult code)`
    * `basicExecute_render`, `lexLine_render` : C02 at string level through the real entry point — `basic_execute` with the text's
      length as fuel returns the textbook value of ANY tree on ANY admissible spacing of its pieces (`SCP.Lex.tree_line_eval` was
      stated for the exact step count); a trailing comment changes nothing
    * `step_up`, `step_down` : one step of `calculate_unit` with the REAL executor (`calculateUnit "." ""`, not an abstract `ex`):
      the amount times the factor of the item's up / down code
    * `readsBack_rat`, `litOK_of_text` : the hypothesis in the decidable form the driver evaluates (`SC.readsBackB`)

  What stays a hypothesis: that the amount's printed text reads back as the amount (`f64::to_string` / `str::parse`
  round trip of the doubles — a guarantee of Rust's `core`, and false for exact rationals without a finite decimal
  text: `1/3`).  The driver evaluates it on every amount of every conversion of the C12 runs (evidence counter
  `amount-reads-back`).
-/
import SC.Units
import SC.ReadsBack
import SCP.Lex
import SCP.Lemmas.C08
import SCP.C08Code
import SCP.C12
namespace SCP.C12Exec
open SC SC.Spec SCP.Lex
variable {F : Type} [Num F]
set_option linter.unusedSectionVars false

/-- more fuel never changes a result of the code tokenizer -/
theorem codeLex_mono (dec thou : String) : ∀ (f : Nat) (s : List Char) (ts : List (Tok F)),
    codeLex dec thou f s = some ts → ∀ k, codeLex dec thou (f + k) s = some ts := by
  intro f
  induction f with
  | zero => intro s ts h; simp [codeLex] at h
  | succ f ih =>
    intro s ts h k
    have hm : ∀ (g : List (Tok F) → List (Tok F)) X ts, Option.map g (codeLex dec thou f X) = some ts →
        Option.map g (codeLex dec thou (f + k) X) = some ts := by
      intro g X ts h
      cases hx : (codeLex dec thou f X : Option (List (Tok F))) with
      | none => simp [hx] at h
      | some us => rw [ih _ _ hx k]; simpa [hx] using h
    rw [show f + 1 + k = (f + k) + 1 by omega]
    cases s with
    | nil => simpa [codeLex] using h
    | cons c rest =>
      cases rest
      all_goals
        simp only [codeLex] at h ⊢
        split at h
        · rename_i h1; simp only [h1, if_true]; exact ih _ _ h k
        · rename_i h1
          simp only [h1, if_false]
          split at h
          · rename_i h2
            rw [if_pos h2]
            split at h
            · simp at h
            · rename_i v hv
              try simp only [hv]
              split at h
              · rename_i k' hk'
                try simp only [hk']
                exact hm _ _ _ h
              · rename_i hk'
                try simp only [hk']
                exact hm _ _ _ h
          · rename_i h2
            rw [if_neg h2]
            split at h
            · rename_i h3; rw [if_pos h3]; exact hm _ _ _ h
            · rename_i h3
              rw [if_neg h3]
              split at h
              · rename_i h4; rw [if_pos h4]; exact hm _ _ _ h
              · simp at h

/-! ### `str::replace` of the `{value}` placeholder -/

theorem go_absent (p : Char) (ps rep : List Char) : ∀ (fuel : Nat) (s : List Char), p ∉ s →
    strReplace.go (p :: ps) rep fuel s = s := by
  intro fuel
  induction fuel with
  | zero => intro s _; simp [strReplace.go]
  | succ fuel ih =>
    intro s h
    cases s with
    | nil => simp [strReplace.go]
    | cons c r =>
      have hc : ¬ p = c := by intro e; exact h (by simp [e])
      have hr : p ∉ r := by intro e; exact h (by simp [e])
      simp [strReplace.go, startsWith, hc, ih r hr]

/-- a pattern that starts the text and whose first character occurs nowhere behind it is replaced once -/
theorem strReplace_prefix (p : Char) (ps rep rest : List Char) (h : p ∉ rest) :
    strReplace ((p :: ps) ++ rest) (p :: ps) rep = rep ++ rest := by
  unfold strReplace
  simp only [List.isEmpty_cons, Bool.false_eq_true, if_false]
  have hpre : startsWith (p :: (ps ++ rest)) (p :: ps) = true := by
    simp [startsWith]
  simp only [List.cons_append, strReplace.go, hpre, if_true]
  have hdrop : (p :: (ps ++ rest)).drop (p :: ps).length = rest := by simp
  rw [hdrop, go_absent p ps rep _ rest h]

/-- the text of an amount as `execute_code` hands it to the tokenizer ('.' ↦ decimal separator) -/
def amountText (dec : String) (v : F) : List Char := strReplace (Num.short v).toList ['.'] dec.toList
/-- the same translation on the constant of a code -/
def constText (dec : String) (k : List Char) : List Char := strReplace k ['.'] dec.toList

theorem dots_append (a b rep : List Char) : strReplace (a ++ b) ['.'] rep = strReplace a ['.'] rep ++ strReplace b ['.'] rep := by
  simp [SCP.Lemmas.C08.strReplace_single']

theorem placeholder : "{value}".toList = '{' :: ['v', 'a', 'l', 'u', 'e', '}'] := by decide

/-- the text the tokenizer sees for a code `{value} o K` -/
theorem executeCode_text (dec thou : String) (code : String) (o : Char) (ktxt : List Char) (v : F)
    (hcode : code.toList = "{value}".toList ++ ' ' :: o :: ' ' :: ktxt) (ho : o ≠ '.') (ho' : o ≠ '{') (hbr : '{' ∉ ktxt) :
    executeCode dec thou code v = basicExecute dec thou (amountText dec v ++ ' ' :: o :: ' ' :: constText dec ktxt) := by
  unfold executeCode
  have hne : '{' ∉ ' ' :: o :: ' ' :: ktxt := by
    simp only [List.mem_cons, not_or]
    exact ⟨by decide, fun e => ho' e.symm, by decide, hbr⟩
  rw [hcode, placeholder, strReplace_prefix '{' _ _ _ hne]
  show basicExecute dec thou (strReplace ((Num.short v).toList ++ ' ' :: o :: ' ' :: ktxt) ['.'] dec.toList) = _
  rw [dots_append]
  congr 1
  simp only [amountText, constText, SCP.Lemmas.C08.strReplace_single']
  have hsp : ¬ (' ' = '.') := by decide
  simp [hsp, ho]

/-- the text for the code `{value}` alone -/
theorem executeCode_text_id (dec thou : String) (code : String) (v : F) (hcode : code.toList = "{value}".toList) :
    executeCode dec thou code v = basicExecute dec thou (amountText dec v) := by
  unfold executeCode
  have := strReplace_prefix '{' ['v', 'a', 'l', 'u', 'e', '}'] (Num.short v).toList [] (by simp)
  rw [hcode, placeholder]
  simp only [List.append_nil] at this
  rw [this]
  rfl


/-! ### what `basic_execute` returns on `A o K` and on `A` -/

theorem litOK_ne_nil (dec thou : String) (txt : List Char) (v : F) (h : LitOK dec thou txt v) : 1 ≤ txt.length := by
  obtain ⟨sign, d, more, rfl, _, _, _, _⟩ := h
  simp only [List.length_append, List.length_cons]
  omega

/-- the tokens of `A o K` -/
theorem lex_binary (dec thou : String) (A K : List Char) (a k : F) (o : Char) (hA : LitOK dec thou A a) (hK : LitOK dec thou K k)
    (ho : o = '*' ∨ o = '/') :
    (codeLex dec thou ((A ++ ' ' :: o :: ' ' :: K).length + 1) (A ++ ' ' :: o :: ' ' :: K) : Option (List (Tok F))) =
      some [litTok a, .op (Op.ofChar o), litTok k] := by
  let ps : List (Nat × Piece F) := [(0, .lit A a), (1, .op o), (1, .lit K k)]
  have hr : render ps 0 = A ++ ' ' :: o :: ' ' :: K := by
    simp [ps, render, Piece.text, List.replicate]
  have hok : ∀ gp ∈ ps, PieceOK dec thou gp.2 := by
    intro gp hgp
    simp only [ps, List.mem_cons, List.not_mem_nil, or_false] at hgp
    rcases hgp with rfl | rfl | rfl
    · exact hA
    · rcases ho with rfl | rfl <;> simp [PieceOK, isOpChar]
    · exact hK
  have hsep : Separated ps 0 := by
    refine ⟨?_, ?_, ?_, trivial⟩
    · intro c hc
      simp only [render, Piece.text, List.replicate, List.nil_append, List.cons_append, List.head?_cons, Option.some.injEq] at hc
      subst hc; decide
    · intro hs
      rcases ho with rfl | rfl <;> simp [isSignChar] at hs
    · intro c hc
      simp [render, List.replicate] at hc
  have h6 := lex_render (F := F) dec thou ps 0 hok hsep
  have hf : fuelFor ps 0 = 6 := by simp [ps, fuelFor]
  rw [hf, hr] at h6
  have hlenA := litOK_ne_nil dec thou A a hA
  have hlenK := litOK_ne_nil dec thou K k hK
  have hlen : (A ++ ' ' :: o :: ' ' :: K).length + 1 = 6 + ((A ++ ' ' :: o :: ' ' :: K).length + 1 - 6) := by
    simp only [List.length_append, List.length_cons]; omega
  rw [hlen, codeLex_mono dec thou 6 _ _ h6]
  simp [ps, Piece.tok]

/-- the tokens of `A` alone -/
theorem lex_single (dec thou : String) (A : List Char) (a : F) (hA : LitOK dec thou A a) :
    (codeLex dec thou (A.length + 1) A : Option (List (Tok F))) = some [litTok a] := by
  let ps : List (Nat × Piece F) := [(0, .lit A a)]
  have hr : render ps 0 = A := by simp [ps, render, Piece.text, List.replicate]
  have hok : ∀ gp ∈ ps, PieceOK dec thou gp.2 := by
    intro gp hgp
    simp only [ps, List.mem_cons, List.not_mem_nil, or_false] at hgp
    subst hgp; exact hA
  have hsep : Separated ps 0 := by
    refine ⟨?_, trivial⟩
    intro c hc
    simp [render, List.replicate] at hc
  have h2 := lex_render (F := F) dec thou ps 0 hok hsep
  have hf : fuelFor ps 0 = 2 := by simp [ps, fuelFor]
  rw [hf, hr] at h2
  have hlenA := litOK_ne_nil dec thou A a hA
  have hlen : A.length + 1 = 2 + (A.length + 1 - 2) := by omega
  rw [hlen, codeLex_mono dec thou 2 _ _ h2]
  simp [ps, Piece.tok]

/-- `basic_execute` on tokens of a tree returns the tree's value -/
theorem basicExecute_tree (dec thou : String) (txt : List Char) (s : Sum F)
    (hlex : (codeLex dec thou (txt.length + 1) txt : Option (List (Tok F))) = some s.toks) (hne : s.toks ≠ []) :
    basicExecute dec thou txt = some s.value := by
  obtain ⟨ast, h1, h2⟩ := SCP.C02.parse_eval s ([] : List (String × F)) (fun _ _ _ => none) []
  unfold basicExecute
  rw [hlex]
  cases hts : s.toks with
  | nil => exact absurd hts hne
  | cons t ts =>
    simp only
    rw [← hts, h1]
    simp only
    rw [h2]

/-- MULTIPLICATION: the code `{value} * K` evaluates to the amount times the constant, whenever the amount's
    text and the constant's text are literals of the configured convention -/
theorem basicExecute_mul (dec thou : String) (A K : List Char) (a k : F) (hA : LitOK dec thou A a) (hK : LitOK dec thou K k) :
    basicExecute dec thou (A ++ ' ' :: '*' :: ' ' :: K) = some (Num.mul a k) := by
  have := basicExecute_tree dec thou (A ++ ' ' :: '*' :: ' ' :: K)
    (Sum.one (Prod.mul (Prod.one (Unary.prim (Prim.lit a))) (Unary.prim (Prim.lit k))))
    (by rw [lex_binary dec thou A K a k '*' hA hK (Or.inl rfl)]; simp [Sum.toks, Prod.toks, Unary.toks, Prim.toks, Op.ofChar])
    (by simp [Sum.toks, Prod.toks, Unary.toks, Prim.toks])
  simpa [Sum.value, Prod.value, Unary.value, Prim.value] using this

theorem basicExecute_div (dec thou : String) (A K : List Char) (a k : F) (hA : LitOK dec thou A a) (hK : LitOK dec thou K k) :
    basicExecute dec thou (A ++ ' ' :: '/' :: ' ' :: K) = some (gdiv a k) := by
  have := basicExecute_tree dec thou (A ++ ' ' :: '/' :: ' ' :: K)
    (Sum.one (Prod.div (Prod.one (Unary.prim (Prim.lit a))) (Unary.prim (Prim.lit k))))
    (by rw [lex_binary dec thou A K a k '/' hA hK (Or.inr rfl)]; simp [Sum.toks, Prod.toks, Unary.toks, Prim.toks, Op.ofChar])
    (by simp [Sum.toks, Prod.toks, Unary.toks, Prim.toks])
  simpa [Sum.value, Prod.value, Unary.value, Prim.value] using this

theorem basicExecute_lit (dec thou : String) (A : List Char) (a : F) (hA : LitOK dec thou A a) :
    basicExecute dec thou A = some a := by
  have := basicExecute_tree dec thou A (Sum.one (Prod.one (Unary.prim (Prim.lit a))))
    (by rw [lex_single dec thou A a hA]; simp [Sum.toks, Prod.toks, Unary.toks, Prim.toks])
    (by simp [Sum.toks, Prod.toks, Unary.toks, Prim.toks])
  simpa [Sum.value, Prod.value, Unary.value, Prim.value] using this


/-! ### `execute_code` on the three shapes of configured codes -/

/-- `{value} * K`: the amount times the constant -/
theorem executeCode_mul (dec thou : String) (code : String) (ktxt : List Char) (k v : F)
    (hcode : code.toList = "{value}".toList ++ ' ' :: '*' :: ' ' :: ktxt) (hbr : '{' ∉ ktxt)
    (hK : LitOK dec thou (constText dec ktxt) k) (hV : LitOK dec thou (amountText dec v) v) :
    executeCode dec thou code v = some (Num.mul v k) := by
  rw [executeCode_text dec thou code '*' ktxt v hcode (by decide) (by decide) hbr]
  exact basicExecute_mul dec thou _ _ v k hV hK

/-- `{value} / K`: the amount divided by the constant -/
theorem executeCode_div (dec thou : String) (code : String) (ktxt : List Char) (k v : F)
    (hcode : code.toList = "{value}".toList ++ ' ' :: '/' :: ' ' :: ktxt) (hbr : '{' ∉ ktxt)
    (hK : LitOK dec thou (constText dec ktxt) k) (hV : LitOK dec thou (amountText dec v) v) :
    executeCode dec thou code v = some (gdiv v k) := by
  rw [executeCode_text dec thou code '/' ktxt v hcode (by decide) (by decide) hbr]
  exact basicExecute_div dec thou _ _ v k hV hK

/-- `{value}`: the amount itself -/
theorem executeCode_id (dec thou : String) (code : String) (v : F)
    (hcode : code.toList = "{value}".toList) (hV : LitOK dec thou (amountText dec v) v) :
    executeCode dec thou code v = some v := by
  rw [executeCode_text_id dec thou code v hcode]
  exact basicExecute_lit dec thou _ v hV

/-! ### the configured codes (regenerated table `Gen.codeFactors`), exact arithmetic, convention ('.', '') -/

/-- an unsigned literal text: a digit, then digits and separators -/
def litShapeB : List Char → Bool
  | d :: more => isDigit d && more.all isNumBody
  | [] => false

theorem litOK_of_shape (dec thou : String) (txt : List Char) (v : F) (h : litShapeB txt = true)
    (hr : readLiteral dec thou txt = some v) : LitOK dec thou txt v := by
  cases txt with
  | nil => simp [litShapeB] at h
  | cons d more =>
    simp only [litShapeB, Bool.and_eq_true, List.all_eq_true] at h
    exact ⟨[], d, more, by simp, Or.inl rfl, h.1, h.2, hr⟩

theorem constText_dot (k : List Char) : constText "." k = k := by
  unfold constText
  rw [SCP.Lemmas.C08.strReplace_single']
  have : ".".toList = ['.'] := by decide
  rw [this]
  exact SCP.C08Code.flatMap_same k '.'

/-- one row of the table: the code text has one of the three shapes, its constant is a literal, and the factor the
    translator computed for it is the one the constant denotes -/
def codeRowOK (e : String × Nat × Nat) : Bool :=
  let cs := e.1.toList
  let tail := cs.drop 7
  let k := tail.drop 3
  let q : Rat := (e.2.1 : Rat) / (e.2.2 : Rat)
  decide (cs = "{value}".toList ++ tail) &&
    ((decide (tail = []) && decide (q = 1)) ||
     (decide (tail = ' ' :: '*' :: ' ' :: k) && litShapeB k && !k.contains '{' &&
        (match (readLiteral "." "" k : Option Rat) with | some kv => decide (kv = q) | none => false)) ||
     (decide (tail = ' ' :: '/' :: ' ' :: k) && litShapeB k && !k.contains '{' &&
        (match (readLiteral "." "" k : Option Rat) with | some kv => decide (q * kv = 1) | none => false)))

/-- DATA OBLIGATION on the regenerated table: every configured conversion code is `{value}`, `{value} * K` or
    `{value} / K` with a literal `K`, and the factor table of the translator agrees with the literal -/
theorem gen_codes_ok : Gen.codeFactors.all codeRowOK = true := by decide +kernel

theorem gdiv_rat (a b : Rat) : gdiv a b = a / b := by
  simp [gdiv, Num.isBad, Num.div]

/-- THE STEP THAT WAS A HYPOTHESIS (`ExecIsMult`): for every configured code and every amount whose printed text
    reads back as itself, the model of `execute_code` — substitute, tokenise, parse, interpret — returns the amount
    times the factor of the code -/
theorem gen_codes_multiply (code : String) (n d : Nat) (h : assoc? Gen.codeFactors code = some (n, d)) (v : Rat)
    (hv : LitOK "." "" (amountText "." v) v) :
    executeCode "." "" code v = some (v * SCP.C12.mult code) := by
  have hmem : (code, (n, d)) ∈ Gen.codeFactors := SCP.C08Code.assoc?_mem _ _ _ h
  have hrow := List.all_eq_true.mp gen_codes_ok _ hmem
  have hm : SCP.C12.mult code = (n : Rat) / (d : Rat) := by simp [SCP.C12.mult, h]
  rw [hm]
  simp only [codeRowOK, Bool.and_eq_true, Bool.or_eq_true, decide_eq_true_eq, Bool.not_eq_true'] at hrow
  obtain ⟨hpre, hshape⟩ := hrow
  rcases hshape with (⟨ht, hq⟩ | ⟨⟨⟨ht, hs⟩, hb⟩, hk⟩) | ⟨⟨⟨ht, hs⟩, hb⟩, hk⟩
  · rw [ht, List.append_nil] at hpre
    rw [executeCode_id "." "" code v hpre hv, hq, Rat.mul_one]
  · rw [ht] at hpre
    have hb' : '{' ∉ (List.drop 3 (List.drop 7 code.toList)) := by simpa using hb
    cases hr : (readLiteral "." "" (List.drop 3 (List.drop 7 code.toList)) : Option Rat) with
    | none => rw [hr] at hk; simp at hk
    | some kv =>
      rw [hr] at hk
      simp only [decide_eq_true_eq] at hk
      have hK : LitOK "." "" (constText "." (List.drop 3 (List.drop 7 code.toList))) kv := by
        rw [constText_dot]; exact litOK_of_shape _ _ _ _ hs hr
      rw [executeCode_mul "." "" code _ kv v hpre hb' hK hv, hk]
      rfl
  · rw [ht] at hpre
    have hb' : '{' ∉ (List.drop 3 (List.drop 7 code.toList)) := by simpa using hb
    cases hr : (readLiteral "." "" (List.drop 3 (List.drop 7 code.toList)) : Option Rat) with
    | none => rw [hr] at hk; simp at hk
    | some kv =>
      rw [hr] at hk
      simp only [decide_eq_true_eq] at hk
      have hK : LitOK "." "" (constText "." (List.drop 3 (List.drop 7 code.toList))) kv := by
        rw [constText_dot]; exact litOK_of_shape _ _ _ _ hs hr
      rw [executeCode_div "." "" code _ kv v hpre hb' hK hv, gdiv_rat]
      have hkv : kv ≠ 0 := by intro e; rw [e] at hk; simp at hk
      congr 1
      generalize (n : Rat) / (d : Rat) = q at hk
      have h1 : v / kv = v * (q * kv) / kv := by rw [hk, Rat.mul_one]
      rw [h1, ← Rat.mul_assoc, Rat.mul_div_cancel hkv]


/-! ### the hypothesis in decidable form, and non-vacuity -/

theorem litOK_of_text (dec thou : String) (txt : List Char) (v : F) (h : litTextB txt = true)
    (hr : readLiteral dec thou txt = some v) : LitOK dec thou txt v := by
  cases txt with
  | nil => simp [litTextB] at h
  | cons c rest =>
    simp only [litTextB] at h
    split at h
    · rename_i hc
      cases rest with
      | nil => simp at h
      | cons d more =>
        simp only [Bool.and_eq_true, List.all_eq_true] at h
        simp only [Bool.or_eq_true, decide_eq_true_eq] at hc
        refine ⟨[c], d, more, by simp, ?_, h.1, h.2, hr⟩
        rcases hc with rfl | rfl <;> simp
    · simp only [Bool.and_eq_true, List.all_eq_true] at h
      exact ⟨[], c, rest, by simp, Or.inl rfl, h.1, h.2, hr⟩

theorem amountChars_eq (dec : String) (v : F) : amountChars dec v = amountText dec v := rfl

/-- over exact arithmetic the evaluated hypothesis is the hypothesis -/
theorem readsBack_rat (v : Rat) (h : readsBackB "." "" v = true) : LitOK "." "" (amountText "." v) v := by
  simp only [readsBackB, Bool.and_eq_true] at h
  obtain ⟨h1, h2⟩ := h
  rw [amountChars_eq] at h1 h2
  cases hr : (readLiteral "." "" (amountText "." v) : Option Rat) with
  | none => rw [hr] at h2; simp at h2
  | some w =>
    rw [hr] at h2
    have : w = v := by simpa [Num.beq] using h2
    exact litOK_of_text _ _ _ _ h1 (this ▸ hr)

/-- non-vacuity: amounts with a sign and a fraction satisfy the hypothesis, and the theorem's conclusion is what the
    model computes on them -/
example : readsBackB "." "" (-5 / 2 : Rat) = true ∧ readsBackB "." "" (1234.5678 : Rat) = true := by decide +kernel
example : executeCode "." "" "{value} * 25.4" (-5 / 2 : Rat) = some (-127 / 2) := by decide +kernel
example : executeCode "." "" "{value} / 28349.5231" (283495231 / 100 : Rat) = some 100 := by decide +kernel
/-- and an amount that does NOT satisfy it (a third has no finite decimal text) -/
example : readsBackB "." "" (1 / 3 : Rat) = false := by decide +kernel

/-! ### every rendering of every tree, through `basic_execute` with its real fuel -/

theorem pieceOK_text_ne_nil (dec thou : String) (p : Piece F) (h : PieceOK dec thou p) : 1 ≤ p.text.length := by
  cases p with
  | lit txt v => exact litOK_ne_nil dec thou txt v h
  | op c => simp [Piece.text]

/-- the exact number of scanner steps of a line never exceeds the fuel `basic_execute` runs with -/
theorem fuelFor_le (dec thou : String) (ps : List (Nat × Piece F)) (t : Nat) (hok : ∀ gp ∈ ps, PieceOK dec thou gp.2) :
    fuelFor ps t ≤ (render ps t).length + 1 := by
  induction ps with
  | nil => simp [fuelFor, render]
  | cons gp rest ih =>
    obtain ⟨g, p⟩ := gp
    have h1 := pieceOK_text_ne_nil dec thou p (hok (g, p) (by simp))
    have h2 := ih (fun x hx => hok x (by simp [hx]))
    simp only [fuelFor, render, List.length_append, List.length_replicate]
    omega

/-- C02 AT STRING LEVEL THROUGH THE REAL ENTRY POINT: `basic_execute` — tokenizer with the text's length as fuel, parser,
    interpreter — on ANY spacing of the pieces of ANY expression tree returns the tree's textbook value -/
theorem basicExecute_render (dec thou : String) (s : Sum F) (ps : List (Nat × Piece F)) (t : Nat)
    (htoks : ps.map (·.2.tok) = s.toks) (hok : ∀ gp ∈ ps, PieceOK dec thou gp.2) (hsep : Separated ps t) (hne : s.toks ≠ []) :
    basicExecute dec thou (render ps t) = some s.value := by
  apply basicExecute_tree dec thou (render ps t) s _ hne
  have h := lex_render (F := F) dec thou ps t hok hsep
  have hle := fuelFor_le dec thou ps t hok
  have : (render ps t).length + 1 = fuelFor ps t + ((render ps t).length + 1 - fuelFor ps t) := by omega
  rw [this, codeLex_mono dec thou _ _ _ h, htoks]

/-- the same for whole lines with a trailing comment (`lexLine`): whatever follows the first '#' is irrelevant -/
theorem lexLine_render (dec thou : String) (ps : List (Nat × Piece F)) (t : Nat) (c : List Char)
    (hok : ∀ gp ∈ ps, PieceOK dec thou gp.2) (hsep : Separated ps t) (hno : '#' ∉ render ps t) :
    (lexLine dec thou (render ps t ++ '#' :: c) : Option (List (Tok F))) = some (ps.map (·.2.tok)) := by
  rw [(comment_irrelevant (F := F) dec thou (render ps t) c [] hno).2]
  unfold lexLine
  have hp : ∀ a ∈ render ps t, (decide (a ≠ '#')) = true := by
    intro a ha; simp only [decide_eq_true_eq]; intro e; exact hno (e ▸ ha)
  have h2 : (render ps t).takeWhile (· ≠ '#') = render ps t := by
    have := List.takeWhile_append_of_pos (p := fun x => decide (x ≠ '#')) (l₁ := render ps t) (l₂ := []) hp
    simpa using this
  simp only [h2]
  have h := lex_render (F := F) dec thou ps t hok hsep
  have hle := fuelFor_le dec thou ps t hok
  have : (render ps t).length + 1 = fuelFor ps t + ((render ps t).length + 1 - fuelFor ps t) := by omega
  rw [this, codeLex_mono dec thou _ _ _ h]

/-- non-vacuity: a line with uneven gaps, a parenthesis and a sign glued to a literal -/
example : basicExecute "," "." "12 *( 3,5+-4)".toList = some (-6 : Rat) := by decide +kernel

/-! ### one step of the walk with the real executor -/

/-- ONE STEP OF THE WALK WITH THE REAL EXECUTOR: converting to the next higher unit of a configured family runs the
    item's up code through `execute_code`, and yields the amount times the factor of that code -/
theorem step_up (items : List (UnitItem Rat)) (p : Nat) (a b : UnitItem Rat) (n d : Nat)
    (ha : findItem? items p = some a) (hb : findItem? items (p + 1) = some b) (hbi : b.index = p + 1)
    (hcode : assoc? Gen.codeFactors a.up = some (n, d)) (v : Rat) (hv : LitOK "." "" (amountText "." v) v) :
    calculateUnit "." "" items v p (p + 1) = some (v * SCP.C12.mult a.up) := by
  unfold calculateUnit calculateUnitWith
  have hne : ¬ (p = p + 1) := by omega
  have hgt : ¬ (p > p + 1) := by omega
  simp only [hne, if_false, ha, hgt, decide_false, Bool.not_false, if_true]
  rw [calculateUnitWith.loop]
  simp only [if_true, gen_codes_multiply a.up n d hcode v hv, hb, hbi]

/-- … and to the next lower unit its down code -/
theorem step_down (items : List (UnitItem Rat)) (p : Nat) (a b : UnitItem Rat) (n d : Nat)
    (ha : findItem? items (p + 1) = some a) (hb : findItem? items p = some b) (hbi : b.index = p)
    (hcode : assoc? Gen.codeFactors a.down = some (n, d)) (v : Rat) (hv : LitOK "." "" (amountText "." v) v) :
    calculateUnit "." "" items v (p + 1) p = some (v * SCP.C12.mult a.down) := by
  unfold calculateUnit calculateUnitWith
  have hne : ¬ (p + 1 = p) := by omega
  have hgt : p + 1 > p := by omega
  simp only [hne, if_false, ha, hgt, decide_true, Bool.not_true, Bool.false_eq_true, Nat.add_one_ne_zero, Nat.add_sub_cancel]
  rw [calculateUnitWith.loop]
  simp only [Bool.false_eq_true, if_false, gen_codes_multiply a.down n d hcode v hv, hb, hbi, if_true]

/-- non-vacuity on the configured inch family: 5/2 ft is 30 in, through the real executor -/
example : calculateUnit "." "" ((assoc? (Gen.units Rat) "imperial-unit-length").getD []) (5 / 2 : Rat) 2 1 = some 30 := by decide +kernel

end SCP.C12Exec
