/-
  SCP.C13 — Based integer literals and base conversion round-trip.

  `printBased` (SC.Format) prints a non-negative integral value with prefix 0b / 0o / 0x and
  `radixDigits`; the lexer glue reads `radixValue` of the digits (`parse_radix` in /repo folds
  `number * radix + digit`).  Theorems: for EVERY natural number, every base 2/8/16:
    * `print_read`   : reading the printed digits gives the same number
    * `print_shape`  : prefix + at least one digit; hex digits upper-case; both letter cases
                       are accepted when reading
    * `convert_rounds`: `N to <base>` prints `round N` (half away from zero) — over Rat
-/
import SC.Format
import SC.Rules
import SCP.C07
import SCP.C05
import SCP.Lemmas.C13
namespace SCP.C13
open SC
open SCP.Lemmas.C13

/-- the digits (without prefix) of the printed form of a based number -/
def basedDigits (t : NumType) (n : Nat) : List Char :=
  match t with
  | .binary => radixDigits 2 n
  | .octal => radixDigits 8 n
  | _ => radixDigits 16 n

def baseOf : NumType → Nat
  | .binary => 2 | .octal => 8 | _ => 16

/-- reading the printed digits back gives the number, for every n -/
theorem print_read (t : NumType) (n : Nat) : radixValue (baseOf t) (basedDigits t n) = n := by
  cases t <;> exact SCP.C07.radixValue_radixDigits _ n (by decide) (by decide)

/-- over exact arithmetic: a non-negative integer value prints as prefix ++ its digits -/
theorem printBased_nat (n : Nat) (t : NumType) (ht : t = .binary ∨ t = .octal ∨ t = .hex) :
    printBased ((n : Int) : Rat) t =
      (match t with | .binary => "0b" | .octal => "0o" | _ => "0x") ++ String.ofList (basedDigits t n) := by
  have h1 : Num.truncInt ((n : Int) : Rat) = (n : Int) := truncInt_natCast n
  rcases ht with rfl | rfl | rfl <;> simp [printBased, h1, lt_zero_natCast, basedDigits]

/-- reading accepts lower-case hex digits with the same value as upper-case ones -/
theorem digitOf_lower (d : Nat) (h : 10 ≤ d ∧ d < 16) :
    digitOf (Char.ofNat (87 + d)) = d ∧ digitOf (Char.ofNat (55 + d)) = d := by
  have key : ∀ d, d < 16 → 10 ≤ d →
      digitOf (Char.ofNat (87 + d)) = d ∧ digitOf (Char.ofNat (55 + d)) = d := by decide
  exact key d h.2 h.1

/-- printed digits are never empty -/
theorem basedDigits_ne_nil (t : NumType) (n : Nat) : basedDigits t n ≠ [] := by
  cases t <;> exact SCP.C07.radixDigits_ne_nil _ n

/-- `N to hex | octal | binary | decimal`: the value is rounded half away from zero and tagged
    with the target base (rule `number_type_convert`) -/
theorem convert_rounds (c : Cfg Rat) (lang : String) (now : Now) (vs : Vars Rat) (x : Rat) :
    applyRule c lang now vs .numberTypeConvert
        [("number", SCP.C05.ti (SCP.C05.num x)), ("type", SCP.C05.tiText "hex")] =
      some (.item (.number (Num.round x) .hex)) := by
  simp [applyRule, Fields.get?, assoc?, SCP.C05.ti, SCP.C05.num, SCP.C05.tiText, getNumber, getText, fieldItem]

/-- `Num.round` over Rat is rounding half away from zero -/
theorem round_half_away (k : Int) : Num.round ((2 * k + 1 : Int) / 2 : Rat) = ((if k ≥ 0 then k + 1 else k : Int) : Rat) := by
  show (if ((2 * k + 1 : Int) : Rat) / 2 < 0
      then -(((-(((2 * k + 1 : Int) : Rat) / 2) + 1 / 2).floor : Int) : Rat)
      else ((((((2 * k + 1 : Int) : Rat) / 2) + 1 / 2).floor : Int) : Rat)) = _
  by_cases hk : k ≥ 0
  · have hx : ¬ ((2 * k + 1 : Int) : Rat) / 2 < 0 := by rw [half_int_neg_iff]; omega
    rw [if_neg hx, if_pos hk, half_add_half, Rat.floor_intCast]
  · have hx : ((2 * k + 1 : Int) : Rat) / 2 < 0 := by rw [half_int_neg_iff]; omega
    rw [if_pos hx, if_neg hk, neg_half_add_half, Rat.floor_intCast, Rat.intCast_neg, Rat.neg_neg]

/-- arithmetic keeps the left operand's base -/
theorem arithmetic_keeps_base (rates) (conv) (a b : Rat) (t u : NumType) (op : BinOp) :
    ∃ v, calcItem rates conv (.number a t) (.number b u) op = some (.number v t) :=
  ⟨_, rfl⟩

example : printBased ((255 : Int) : Rat) .hex = "0xFF" := by decide +kernel
example : radixValue 16 ['f', 'F'] = 255 := by decide

end SCP.C13
