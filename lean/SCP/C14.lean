/-
  SCP.C14 — Unix timestamps convert to and from date-times as mutual inverses.

    * `from_unix`, `from_unix_zone`, `from_unix_out_of_range`: `N to date` is the instant N seconds
      after the epoch, tagged with the configured or the requested zone; a timestamp outside
      chrono's range is rejected
    * `date_as_unix`, `time_as_unix`, `dateTime_as_unix`: `<date> as unix` is 86400 · (day number),
      i.e. midnight UTC of that date; a time or date-time yields the seconds of its instant
    * `unix_round_trip`, `dateTime_round_trip`: the two conversions are mutually inverse, for
      every timestamp in range, whatever zone is configured or requested
    * `shown_fields`: the civil date and the hour / minute / second printed for an instant in a
      zone with offset `off` denote exactly `instant + 60·off` (calendar bijection)
    * `raw_print_all_digits`: the printed timestamp reads back to the same integer (every digit)
    * `at_date_time`, `at_date_hour`: `<date> at <time>` / `<date> at <hour>`
    * `phrase_*`: the regenerated rule patterns match the phrases' token sequences
-/
import SC.Engine
import SC.Gen.Config
import SCP.Calendar
import SCP.C09
import SCP.Lemmas.C07
import SCP.Lemmas.C13
namespace SCP.C14
open SC
open SCP.Calendar

def numI (n : Int) : Tok Rat := .item (.number ((n : Int) : Rat) .decimal)
def ti (t : Tok Rat) : TokInfo Rat := { start := 0, stop := 0, tok := some t }
def tiText (s : String) : TokInfo Rat := { start := 0, stop := 0, tok := some (.text s) }

theorem toInt_intCast (n : Int) : Num.toInt ((n : Int) : Rat) = n := by
  show (if ((n : Int) : Rat) < 0 then -((-((n : Int) : Rat)).floor) else ((n : Int) : Rat).floor) = n
  split
  · rw [← Rat.intCast_neg, Rat.floor_intCast]; omega
  · rw [Rat.floor_intCast]

/-- `N to date`: the instant N seconds after the epoch in the configured zone -/
theorem from_unix (c : Cfg Rat) (lang : String) (now : Now) (vs : Vars Rat) (n : Int) (h : dateTimeOk n = true) :
    applyRule c lang now vs .fromUnixtime [("number", ti (numI n))] = some (.item (.dateTime n c.tz)) := by
  simp [applyRule, Fields.get?, assoc?, ti, numI, getNumber, getTimezone, fieldItem, toInt_intCast, h]

/-- `N to ZONE`: the same instant, tagged with the requested zone -/
theorem from_unix_zone (c : Cfg Rat) (lang : String) (now : Now) (vs : Vars Rat) (n : Int) (zn : String) (off : Int)
    (h : dateTimeOk n = true) :
    applyRule c lang now vs .fromUnixtime [("number", ti (numI n)), ("timezone", ti (.tz zn off))] =
      some (.item (.dateTime n ⟨uppercaseAscii zn, off⟩)) := by
  simp [applyRule, Fields.get?, assoc?, ti, numI, getNumber, getTimezone, fieldItem, toInt_intCast, h]

theorem from_unix_out_of_range (c : Cfg Rat) (lang : String) (now : Now) (vs : Vars Rat) (n : Int) (h : dateTimeOk n = false) :
    applyRule c lang now vs .fromUnixtime [("number", ti (numI n))] = none := by
  simp [applyRule, Fields.get?, assoc?, ti, numI, getNumber, fieldItem, toInt_intCast, h]

def raw (n : Int) : Tok Rat := .item (.number ((n : Int) : Rat) .raw)

/-- `<date> as unix`: seconds from the epoch to midnight UTC of that date -/
theorem date_as_unix (c : Cfg Rat) (lang : String) (now : Now) (vs : Vars Rat) (d : YMD) (tz : Zone) :
    applyRule c lang now vs .toUnixtime [("data", ti (.item (.date d tz)))] = some (raw (dayNumber d * 86400)) := by
  simp [applyRule, Fields.get?, assoc?, ti, raw, getTime, getDate, fieldItem, dateSecs, Num.ofInt]

theorem time_as_unix (c : Cfg Rat) (lang : String) (now : Now) (vs : Vars Rat) (s : Int) (tz : Zone) :
    applyRule c lang now vs .toUnixtime [("data", ti (.item (.time s tz)))] = some (raw s) := by
  simp [applyRule, Fields.get?, assoc?, ti, raw, getTime, fieldItem, Num.ofInt]

theorem dateTime_as_unix (c : Cfg Rat) (lang : String) (now : Now) (vs : Vars Rat) (s : Int) (tz : Zone) :
    applyRule c lang now vs .toUnixtime [("data", ti (.item (.dateTime s tz)))] = some (raw s) := by
  simp [applyRule, Fields.get?, assoc?, ti, raw, getTime, getDate, getDateTime, fieldItem, Num.ofInt]

/-- timestamp → date-time → timestamp is the identity (any requested zone) -/
theorem unix_round_trip (c : Cfg Rat) (lang : String) (now : Now) (vs : Vars Rat) (n : Int) (zn : String) (off : Int)
    (h : dateTimeOk n = true) :
    ((applyRule c lang now vs .fromUnixtime [("number", ti (numI n))]).bind fun t =>
      applyRule c lang now vs .toUnixtime [("data", ti t)]) = some (raw n) ∧
    ((applyRule c lang now vs .fromUnixtime [("number", ti (numI n)), ("timezone", ti (.tz zn off))]).bind fun t =>
      applyRule c lang now vs .toUnixtime [("data", ti t)]) = some (raw n) := by
  rw [from_unix c lang now vs n h, from_unix_zone c lang now vs n zn off h]
  simp only [Option.bind_some]
  exact ⟨dateTime_as_unix c lang now vs n _, dateTime_as_unix c lang now vs n _⟩

/-- date-time → timestamp → date-time gives the same instant back (shown in the configured zone) -/
theorem dateTime_round_trip (c : Cfg Rat) (lang : String) (now : Now) (vs : Vars Rat) (s : Int) (tz : Zone)
    (h : dateTimeOk s = true) :
    ((applyRule c lang now vs .toUnixtime [("data", ti (.item (.dateTime s tz)))]).bind fun t =>
      match t with
      | .item (.number v _) => applyRule c lang now vs .fromUnixtime [("number", ti (.item (.number v .decimal)))]
      | _ => none) = some (.item (.dateTime s c.tz)) := by
  rw [dateTime_as_unix]
  simp only [Option.bind_some, raw]
  exact from_unix c lang now vs s h

/-- what is shown for an instant in a zone: civil date, hour, minute, second of `instant + 60·off`;
    these fields are in range and denote exactly that local instant -/
theorem shown_fields (s off : Int) :
    let ls := localSecs s ⟨"", off⟩
    let d := dateOfSecs ls
    let sod := ls % 86400
    Valid d ∧ 0 ≤ sod / 3600 ∧ sod / 3600 < 24 ∧ 0 ≤ sod % 3600 / 60 ∧ sod % 3600 / 60 < 60 ∧ 0 ≤ sod % 60 ∧ sod % 60 < 60 ∧
      dayNumber d * 86400 + (sod / 3600) * 3600 + (sod % 3600 / 60) * 60 + sod % 60 = s + off * 60 := by
  simp only [localSecs, dateOfSecs]
  refine ⟨civilFromDays_valid _, ?_⟩
  rw [dayNumber_civilFromDays]
  omega

theorem radixDigit_ne_minus : ∀ d, d < 16 → radixDigit d ≠ '-' := by decide

theorem natToRadix_no_minus (fuel n : Nat) : ∀ c ∈ natToRadix 10 fuel n, c ≠ '-' := by
  induction fuel generalizing n with
  | zero => intro c hc; simp [natToRadix] at hc
  | succ fuel ih =>
    intro c hc
    unfold natToRadix at hc
    split at hc
    · simp at hc
    · rcases List.mem_append.mp hc with h | h
      · exact ih _ c h
      · simp at h; subst h; exact radixDigit_ne_minus _ (by omega)

/-- the printed timestamp shows every digit: reading the printed text gives the integer back -/
theorem raw_print_all_digits (n : Int) :
    readIntDigits (printBased ((n : Int) : Rat) .raw).toList = n := by
  simp only [printBased, toInt_intCast, String.toList_ofList, intDigits]
  by_cases hn : n < 0
  · simp only [hn, if_true, List.cons_append, List.nil_append, readIntDigits]
    rw [SCP.Lemmas.C07.radixValue_radixDigits' 10 n.natAbs (by omega) (by omega)]
    omega
  · simp only [hn, if_false, List.nil_append]
    have hne : ∀ rest, radixDigits 10 n.natAbs ≠ '-' :: rest := by
      intro rest heq
      have := SCP.Lemmas.C07.radixValue_radixDigits' 10 n.natAbs (by omega) (by omega)
      have hd : ∀ c ∈ radixDigits 10 n.natAbs, c ≠ '-' := by
        intro c hc
        unfold radixDigits at hc
        split at hc
        · simp at hc; subst hc; decide
        · exact natToRadix_no_minus _ _ c hc
      exact hd '-' (by rw [heq]; simp) rfl
    unfold readIntDigits
    split
    · rename_i rest heq; exact absurd heq (hne rest)
    · rw [SCP.Lemmas.C07.radixValue_radixDigits' 10 n.natAbs (by omega) (by omega)]
      omega

/-- `<date> at <time>`: the date's midnight plus the time's seconds of day -/
theorem at_date_time (c : Cfg Rat) (lang : String) (now : Now) (vs : Vars Rat) (d : YMD) (tz tz2 : Zone) (t : Int) :
    applyRule c lang now vs .atDate [("source", ti (.item (.date d tz))), ("time", ti (.item (.time t tz2)))] =
      some (.item (.dateTime (dayNumber d * 86400 + t % 86400) tz)) := by
  simp [applyRule, Fields.get?, assoc?, ti, getDate, getNumberOrTimeSod, getNumber, getTime, fieldItem, dateSecs]

/-- `<date> at <hour>` for an hour 0..23 -/
theorem at_date_hour (c : Cfg Rat) (lang : String) (now : Now) (vs : Vars Rat) (d : YMD) (tz : Zone) (h : Nat) (hh : h < 24) :
    applyRule c lang now vs .atDate [("source", ti (.item (.date d tz))), ("time", ti (numI h))] =
      some (.item (.dateTime (dayNumber d * 86400 + h * 3600) tz)) := by
  have : toU32 (((h : Nat) : Int) : Rat) = (h : Int) := by
    unfold toU32; rw [toInt_intCast]; simp; omega
  unfold numI
  generalize (((h : Nat) : Int) : Rat) = x at this ⊢
  simp [applyRule, Fields.get?, assoc?, ti, getDate, getNumberOrTimeSod, getNumber, fieldItem, dateSecs, this]
  have h24 : ((h : Nat) : Int) < 24 := by omega
  simp [h24]

/-! the regenerated patterns match the phrases -/

macro "match_unix" : tactic => `(tactic|
  (refine ⟨_, rfl, ?_, ?_⟩ <;>
   simp [findMatch, findMatch.go, sameTok, ti, tiText, numI, infoEq, tokEq, tokFieldCompare, fieldNameOf,
     Field.name, Fields.insert, Fields.get?, assoc?, Tok.typeName, Item.typeName, lowerEq]))

/-- `N to date` -/
theorem phrase_to_date (n : Int) :
    ∃ pat, (Gen.rule_en_from_unixtime Rat).patterns[0]? = some pat ∧
      (findMatch ([] : Vars Rat) pat [ti (numI n), tiText "to", tiText "date"]).found = true ∧
      ((findMatch ([] : Vars Rat) pat [ti (numI n), tiText "to", tiText "date"]).fields.get? "number") = some (ti (numI n)) := by
  match_unix

/-- `N to ZONE` -/
theorem phrase_to_zone (n : Int) (zn : String) (off : Int) :
    ∃ pat, (Gen.rule_en_from_unixtime Rat).patterns[1]? = some pat ∧
      (findMatch ([] : Vars Rat) pat [ti (numI n), tiText "to", ti (.tz zn off)]).found = true ∧
      ((findMatch ([] : Vars Rat) pat [ti (numI n), tiText "to", ti (.tz zn off)]).fields.get? "timezone") = some (ti (.tz zn off)) := by
  match_unix

/-- `<date | time | date-time> as unix` -/
theorem phrase_as_unix (i : Item Rat) (hi : (∃ d z, i = .date d z) ∨ (∃ s z, i = .time s z) ∨ (∃ s z, i = .dateTime s z)) :
    ∃ pat, (Gen.rule_en_to_unixtime Rat).patterns[0]? = some pat ∧
      (findMatch ([] : Vars Rat) pat [ti (.item i), tiText "as", tiText "unix"]).found = true ∧
      ((findMatch ([] : Vars Rat) pat [ti (.item i), tiText "as", tiText "unix"]).fields.get? "data") = some (ti (.item i)) := by
  rcases hi with ⟨d, z, rfl⟩ | ⟨s, z, rfl⟩ | ⟨s, z, rfl⟩ <;> match_unix

/-! non-vacuity -/
example : dateTimeOk 1664582400 = true := by decide
example : dateOfSecs (localSecs 1664582400 ⟨"EST", -300⟩) = ⟨2022, 9, 30⟩ := by decide
example : readIntDigits (printBased (((-62135596800 : Int)) : Rat) .raw).toList = -62135596800 := raw_print_all_digits _

end SCP.C14
