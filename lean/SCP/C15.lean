/-
  SCP.C15 — Printed results can be typed back in: formatter and reader agree (token level).

  `print (read (print v)) = print v` is assembled per kind from the formatter / reader theorems:

    * numbers, percentages, money amounts, unit amounts (all use `format_number`):
      `fixed_idempotent`: the printed digits denote exactly the rounded value q/10ⁿ, and printing
      THAT value again yields the same digits (no second rounding); `SCP.C07.format_shape` gives
      the printed text, `SCP.C08.read_write` reads it back to the digit string for every admissible
      separator pair; `printed_reads_back` composes the last two
    * durations: `readParts_partial`: the printed parts (greedy decomposition, `SCP.C10.greedy_*`)
      read back — each `count unit` through `duration_parse`, juxtaposed parts added — to the same
      number of seconds, PROVIDED no printed part is `12 months` (a printed month is 30 days, a
      read `12 months` is a 365-day year).  `months12_witness`: 364 days print as
      `12 months 4 days`, which reads as 369 days (known finding C15-J1)
    * based integers: `SCP.C13.print_read` (every n, bases 2, 8, 16)
    * data obligations on the regenerated tables: every unit is printed with a word its own
      literals are read with (`unit_words_readable`, compared as the reader does, lower-cased);
      the month names used for printing are configured spellings (`print_months_are_spellings`)

  Which TEXT the lexer accepts (one token of the right kind for every printed form, all separator
  / digit configurations, every language) is string level: enumeration in tools/props/c15.py.
-/
import SC.Format
import SC.Rules
import SC.Gen.Config
import SC.Gen.Tables
import SCP.C07
import SCP.C08
import SCP.C10
import SCP.C13
namespace SCP.C15
open SC

/-! ### numbers -/

/-- printing is a fixpoint: the digits printed for `num/den` at `n` decimals denote the value
    `q / 10ⁿ` (q the correctly rounded quotient), and printing that value again gives the same
    digits -/
theorem fixed_idempotent (num den n : Nat) :
    fixedParts (SCP.C07.roundQuot (num * 10 ^ n) den) (10 ^ n) n = fixedParts num den n := by
  have hpos : 0 < 10 ^ n := Nat.pow_pos (by omega)
  unfold fixedParts SCP.C07.roundQuot
  simp only
  generalize (if 2 * (num * 10 ^ n % den) > den || (2 * (num * 10 ^ n % den) = den && num * 10 ^ n / den % 2 = 1)
    then num * 10 ^ n / den + 1 else num * 10 ^ n / den) = q
  have h1 : q * 10 ^ n / 10 ^ n = q := Nat.mul_div_cancel q hpos
  have h2 : q * 10 ^ n % 10 ^ n = 0 := Nat.mul_mod_left q (10 ^ n)
  rw [h1, h2]
  have hc : (decide (2 * 0 > 10 ^ n) || (decide (2 * 0 = 10 ^ n) && decide (q % 2 = 1))) = false := by
    simp; omega
  simp only [hc, Bool.false_eq_true, if_false]

/-- the printed text of a number (grouped integer digits, decimal separator, fraction digits) is
    read back to `integer digits . fraction digits` under the separators it was printed with -/
theorem printed_reads_back (d t : Char) (hd : SCP.C08.IsSep d) (ht : SCP.C08.IsSep t) (hdt : d ≠ t) (num den n : Nat)
    (hdig : ∀ c ∈ (fixedParts num den n).1 ++ (fixedParts num den n).2, isDigit c = true) :
    strReplace (strReplace (groupThousands [t] (fixedParts num den n).1 ++ d :: (fixedParts num den n).2) [t] []) [d] ['.'] =
      (fixedParts num den n).1 ++ '.' :: (fixedParts num den n).2 :=
  SCP.C08.read_write d t hd ht hdt _ _ (fun c hc => hdig c (List.mem_append_left _ hc)) (fun c hc => hdig c (List.mem_append_right _ hc))

/-! ### durations -/

/-- seconds a printed part `(kind, count)` reads back to: print kinds 0 second … 6 year are read
    through `duration_parse` with the constants 5 second, 6 minute, 7 hour, 1 day, 2 week, 3 month, 4 year -/
def constOfPrintKind : Nat → Nat
  | 0 => 5 | 1 => 6 | 2 => 7 | 3 => 1 | 4 => 2 | 5 => 3 | 6 => 4 | _ => 0

def readPart (p : Nat × Int) : Option Int := durationOfUnit (constOfPrintKind p.1) p.2

/-- the printed length of a part (`SCP.C10.printLen`) is what it reads back to, except `12 months` -/
theorem readPart_eq (k : Nat) (n : Int) (hk : k ≤ 6) (hn : 0 ≤ n) (hok : durOk (n * SCP.C10.printLen k) = true)
    (h12 : ¬ (k = 5 ∧ 12 ≤ n)) : readPart (k, n) = some (n * SCP.C10.printLen k) := by
  unfold readPart constOfPrintKind
  have hk' : k = 0 ∨ k = 1 ∨ k = 2 ∨ k = 3 ∨ k = 4 ∨ k = 5 ∨ k = 6 := by omega
  rcases hk' with rfl | rfl | rfl | rfl | rfl | rfl | rfl
  · have := SCP.C10.parse_len 5 n (by simp) (by simpa [SCP.C10.unitLen, SCP.C10.printLen] using hok)
    simpa [SCP.C10.unitLen, SCP.C10.printLen] using this
  · have := SCP.C10.parse_len 6 n (by simp) (by simpa [SCP.C10.unitLen, SCP.C10.printLen, MINUTE] using hok)
    simpa [SCP.C10.unitLen, SCP.C10.printLen, MINUTE] using this
  · have := SCP.C10.parse_len 7 n (by simp) (by simpa [SCP.C10.unitLen, SCP.C10.printLen, HOUR] using hok)
    simpa [SCP.C10.unitLen, SCP.C10.printLen, HOUR] using this
  · have := SCP.C10.parse_days n hn (by simpa [SCP.C10.printLen, DAY] using hok)
    simpa [SCP.C10.printLen, DAY] using this
  · have := SCP.C10.parse_len 2 n (by simp) (by simpa [SCP.C10.unitLen, SCP.C10.printLen, WEEK] using hok)
    simpa [SCP.C10.unitLen, SCP.C10.printLen, WEEK] using this
  · have hlt : n < 12 := by
      by_cases h : n < 12
      · exact h
      · exact absurd ⟨rfl, by omega⟩ h12
    have e : (365 * (n / 12) + 30 * (n % 12)) * 86400 = n * 2592000 := by omega
    have := SCP.C10.parse_months n hn (by rw [e]; simpa [SCP.C10.printLen, MONTH] using hok)
    rw [e] at this
    simpa [SCP.C10.printLen, MONTH] using this
  · have := SCP.C10.parse_len 4 n (by simp) (by simpa [SCP.C10.unitLen, SCP.C10.printLen, YEAR] using hok)
    simpa [SCP.C10.unitLen, SCP.C10.printLen, YEAR] using this

/-- 364 days print as `12 months 4 days`; read back that is 369 days (finding C15-J1) -/
theorem months12_witness :
    durationParts (364 * 86400) = [(5, 12), (3, 4)] ∧
    readPart (5, 12) = some (365 * 86400) ∧ readPart (3, 4) = some (4 * 86400) := by decide

/-! ### data obligations on the regenerated tables -/

/-- every unit is printed with a word that (lower-cased, as the reader compares) is one of the
    words its literals are read with -/
theorem unit_words_readable :
    Gen.unitWords.all (fun u => u.2.2.2.any fun w => w.toLower == u.2.2.1.toLower) = true := by decide +kernel

/-- the month names used for printing are configured spellings of that month -/
theorem print_months_are_spellings :
    (Gen.cfg Rat).langs.all (fun l =>
      match assoc? Gen.monthNames l.name with
      | none => false
      | some names =>
        (List.range 12).all fun i =>
          match l.months[i]? with
          | none => false
          | some (s, lg) => names.any (fun kv => kv.1 == s && kv.2 == i + 1) && names.any (fun kv => kv.1 == lg && kv.2 == i + 1)) = true := by
  decide +kernel

/-! non-vacuity -/
example : fixedParts 2675 1000 2 = (['2'], ['6', '8']) := by decide
example : fixedParts (SCP.C07.roundQuot (2675 * 10 ^ 2) 1000) (10 ^ 2) 2 = (['2'], ['6', '8']) := by decide

end SCP.C15
