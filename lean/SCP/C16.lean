/-
  SCP.C16 — Blanks, comments and letter case of keywords never change a value (token level).

  Blanks and comments produce type-less tokens that the lexer drops; what reaches the rewrite
  layers differs between a line and its noisy variant only in the OFFSETS of the tokens and, after
  a change of letter case, in the letters of text tokens.  `Sim` relates two token infos that agree
  up to exactly that.  Theorems (every number type):

    * `tokFieldCompare_case`, `tokEq_case`, `infoEq_case`: every comparison of a line token against
      a pattern position — literal word, word group, typed field — is invariant under `Sim`
    * `findMatch_case`: hence `find_match` finds the same match (same indices) and binds
      `Sim`-related fields: rule patterns cannot see letter case of words or offsets
    * `findMatch_offsets`: the special case of a pure shift of offsets (extra blanks)
    * `replaceRange_tokens`: the rewritten token list stays `Sim`-related
    * `readCurrency_case`: currency names are looked up case-insensitively
    * `infoEqTok_case`, `matchesAt_case`, `findLocation_case`, `varKey_case`: variable names are
      found and keyed case-insensitively
    * `untyped_skipped`: a type-less token inside a line neither matches nor resets a pattern

  That the regexes yield `Sim`-related token lists for a line and its rewritten variant (month and
  zone lookup, comment and blank recognition) is decided by the metamorphic enumeration.
-/
import SC.Engine
namespace SCP.C16
open SC
variable {F : Type} [Num F]
set_option linter.unusedSectionVars false

/-- equal up to letter case (as the calculator compares words: `to_lowercase`) -/
def CaseEq (a b : String) : Prop := lowerStr a = lowerStr b

theorem lowerEq_congr_left (a a' b : String) (h : CaseEq a a') : lowerEq b a = lowerEq b a' := by
  unfold lowerEq CaseEq at *
  rw [h]

/-- tokens equal up to the letter case of a text token -/
inductive TokSim : Tok F → Tok F → Prop
  | text (a b : String) (h : CaseEq a b) : TokSim (.text a) (.text b)
  | refl (t : Tok F) : TokSim t t

/-- token infos equal up to offsets, original text and the letter case of a text token -/
def Sim (x y : TokInfo F) : Prop :=
  x.active = y.active ∧ ((x.tok = none ∧ y.tok = none) ∨ ∃ a b, x.tok = some a ∧ y.tok = some b ∧ TokSim a b)

theorem tokFieldCompare_case (t t' : Tok F) (f : Field) (h : TokSim t t') :
    tokFieldCompare t f = tokFieldCompare t' f := by
  cases h with
  | refl => rfl
  | text a b hab =>
    cases f <;> simp only [tokFieldCompare, Tok.typeName]
    · rename_i name expected
      cases expected with
      | none => rfl
      | some e => exact lowerEq_congr_left a b e hab
    · rename_i name items
      congr 1
      funext it
      exact lowerEq_congr_left a b it hab

theorem tokEq_case (t t' p : Tok F) (h : TokSim t t') : tokEq t p = tokEq t' p := by
  cases h with
  | refl => rfl
  | text a b hab =>
    cases p with
    | text s =>
      simp only [tokEq]
      unfold lowerEq CaseEq at *
      rw [hab]
    | field f =>
      simp only [tokEq]
      exact tokFieldCompare_case (.text a) (.text b) f (.text a b hab)
    | _ => rfl

theorem infoEq_case (x y p : TokInfo F) (h : Sim x y) : infoEq x p = infoEq y p := by
  obtain ⟨hact, htok⟩ := h
  unfold infoEq
  rcases htok with ⟨hx, hy⟩ | ⟨a, b, hx, hy, hab⟩
  · rw [hx, hy]
  · rw [hx, hy, hact]
    cases p.tok with
    | none => rfl
    | some q => simp only; rw [tokEq_case a b q hab]

/-- pointwise relation on lists -/
inductive Rel2 {α β : Type} (R : α → β → Prop) : List α → List β → Prop
  | nil : Rel2 R [] []
  | cons {a b as bs} (h : R a b) (t : Rel2 R as bs) : Rel2 R (a :: as) (b :: bs)

/-- bound fields: same keys, `Sim`-related infos -/
def FSim (a b : String × TokInfo F) : Prop := a.1 = b.1 ∧ Sim a.2 b.2

theorem insert_sim (fs fs' : Fields F) (k : String) (v v' : TokInfo F) (h : Rel2 FSim fs fs') (hv : Sim v v') :
    Rel2 FSim (Fields.insert fs k v) (Fields.insert fs' k v') := by
  induction h with
  | nil => exact .cons ⟨rfl, hv⟩ .nil
  | @cons a b as bs hab t ih =>
    obtain ⟨k1, v1⟩ := a
    obtain ⟨k2, v2⟩ := b
    obtain ⟨hk, hs⟩ := hab
    simp only at hk
    subst hk
    simp only [Fields.insert]
    split
    · exact .cons ⟨rfl, hv⟩ t
    · split
      · exact .cons ⟨rfl, hv⟩ (.cons ⟨rfl, hs⟩ t)
      · exact .cons ⟨rfl, hs⟩ ih

/-- two match results agree: same verdict and indices, `Sim`-related fields -/
def MSim (m m' : Match F) : Prop := m.found = m'.found ∧ m.start = m'.start ∧ m.stop = m'.stop ∧ Rel2 FSim m.fields m'.fields

theorem go_case (vs : Vars F) (pat : List (TokInfo F)) (rest rest' : List (TokInfo F)) (h : Rel2 Sim rest rest') :
    ∀ (target ruleIdx start : Nat) (fs fs' : Fields F), Rel2 FSim fs fs' →
      MSim (findMatch.go vs pat pat.length rest target ruleIdx start fs) (findMatch.go vs pat pat.length rest' target ruleIdx start fs') := by
  induction h with
  | nil =>
    intro target ruleIdx start fs fs' hf
    simp only [findMatch.go]
    exact ⟨rfl, rfl, rfl, hf⟩
  | @cons x y xs ys hxy t ih =>
    intro target ruleIdx start fs fs' hf
    obtain ⟨hact, htok⟩ := hxy
    simp only [findMatch.go]
    rw [hact]
    split
    · exact ih _ _ _ _ _ hf
    · rcases htok with ⟨hx, hy⟩ | ⟨a, b, hx, hy, hab⟩
      · rw [hx, hy]
        simp only
        split
        · exact ⟨rfl, rfl, rfl, hf⟩
        · exact ih _ _ _ _ _ hf
      · rw [hx, hy]
        simp only
        cases hp : pat[ruleIdx]? with
        | none => exact ⟨rfl, rfl, rfl, hf⟩
        | some p =>
          simp only
          have hsame : sameTok vs p x a = sameTok vs p y b := by
            cases hab with
            | refl =>
              cases a <;> first | rfl | exact infoEq_case x y p ⟨hact, Or.inr ⟨_, _, hx, hy, .refl _⟩⟩
            | text s s' hss => exact infoEq_case x y p ⟨hact, Or.inr ⟨_, _, hx, hy, .text s s' hss⟩⟩
          rw [hsame]
          split
          · have hf' : Rel2 FSim (match fieldNameOf p with | some k => fs.insert k x | none => fs)
                (match fieldNameOf p with | some k => fs'.insert k y | none => fs') := by
              cases fieldNameOf p with
              | none => exact hf
              | some k => exact insert_sim fs fs' k x y hf ⟨hact, Or.inr ⟨a, b, hx, hy, hab⟩⟩
            split
            · exact ⟨rfl, rfl, rfl, hf'⟩
            · exact ih _ _ _ _ _ hf'
          · split
            · exact ⟨rfl, rfl, rfl, hf⟩
            · exact ih _ _ _ _ _ hf

/-- `find_match` cannot see offsets or the letter case of words: on `Sim`-related lines it finds the
    same match and binds `Sim`-related fields -/
theorem findMatch_case (vs : Vars F) (pat infos infos' : List (TokInfo F)) (h : Rel2 Sim infos infos') :
    MSim (findMatch vs pat infos) (findMatch vs pat infos') := by
  unfold findMatch
  exact go_case vs pat infos infos' h 0 0 0 [] [] .nil

/-- a pure shift of offsets (what additional blanks do to the lexed tokens) -/
def reoffset (f : Nat → Nat) (ti : TokInfo F) : TokInfo F := { ti with start := f ti.start, stop := f ti.stop }

theorem rel2_map_reoffset (f : Nat → Nat) (infos : List (TokInfo F)) : Rel2 Sim infos (infos.map (reoffset f)) := by
  induction infos with
  | nil => exact .nil
  | cons x xs ih =>
    refine .cons ⟨rfl, ?_⟩ ih
    cases hx : x.tok with
    | none => exact Or.inl ⟨rfl, by simp [reoffset, hx]⟩
    | some a => exact Or.inr ⟨a, a, rfl, by simp [reoffset, hx], .refl a⟩

theorem findMatch_offsets (vs : Vars F) (pat infos : List (TokInfo F)) (f : Nat → Nat) :
    MSim (findMatch vs pat infos) (findMatch vs pat (infos.map (reoffset f))) :=
  findMatch_case vs pat infos _ (rel2_map_reoffset f infos)

theorem rel2_length {α β : Type} {R : α → β → Prop} {l : List α} {l' : List β} (h : Rel2 R l l') : l.length = l'.length := by
  induction h with
  | nil => rfl
  | cons _ _ ih => simp [ih]

theorem rel2_append {α β : Type} {R : α → β → Prop} {a : List α} {a' : List β} {b : List α} {b' : List β}
    (h1 : Rel2 R a a') (h2 : Rel2 R b b') : Rel2 R (a ++ b) (a' ++ b') := by
  induction h1 with
  | nil => exact h2
  | cons h _ ih => exact .cons h ih

theorem rel2_take {α β : Type} {R : α → β → Prop} {l : List α} {l' : List β} (h : Rel2 R l l') (n : Nat) :
    Rel2 R (l.take n) (l'.take n) := by
  induction h generalizing n with
  | nil => simp; exact .nil
  | cons hd _ ih => cases n with
    | zero => exact .nil
    | succ n => exact .cons hd (ih n)

theorem rel2_drop {α β : Type} {R : α → β → Prop} {l : List α} {l' : List β} (h : Rel2 R l l') (n : Nat) :
    Rel2 R (l.drop n) (l'.drop n) := by
  induction h generalizing n with
  | nil => simp; exact .nil
  | cons hd t ih => cases n with
    | zero => exact .cons hd t
    | succ n => exact ih n

theorem rel2_mapIdx_deactivate (infos infos' : List (TokInfo F)) (h : Rel2 Sim infos infos') (p : Nat → Bool) :
    Rel2 Sim (infos.mapIdx fun i ti => if p i then { ti with active := false } else ti)
      (infos'.mapIdx fun i ti => if p i then { ti with active := false } else ti) := by
  induction h generalizing p with
  | nil => exact .nil
  | @cons x y xs ys hxy t ih =>
    simp only [List.mapIdx_cons]
    refine .cons ?_ (ih (fun i => p (i + 1)))
    split
    · exact ⟨rfl, hxy.2⟩
    · exact hxy

/-- replacing a matched range by the rule's result keeps the lines related -/
theorem replaceRange_tokens (infos infos' : List (TokInfo F)) (m m' : Match F) (t : Tok F)
    (h : Rel2 Sim infos infos') (hm : m.start = m'.start ∧ m.stop = m'.stop) :
    Rel2 Sim (replaceRange infos m t) (replaceRange infos' m' t) := by
  unfold replaceRange
  simp only
  rw [← hm.1, ← hm.2]
  have hmark := rel2_mapIdx_deactivate infos infos' h (fun i => decide (m.start ≤ i) && decide (i < m.stop))
  refine rel2_append (rel2_append (rel2_take hmark _) (.cons ⟨rfl, Or.inr ⟨t, t, rfl, rfl, .refl t⟩⟩ .nil)) (rel2_drop hmark _)

/-- currency names (codes, aliases, symbols) are looked up case-insensitively -/
theorem readCurrency_case (c : Cfg F) (name name' : String) (h : CaseEq name name') :
    readCurrency c name = readCurrency c name' := by
  unfold readCurrency CaseEq at *
  rw [h]

/-- variable names: the comparison of a line token with a name token -/
theorem infoEqTok_case (x y : TokInfo F) (r : Tok F) (h : Sim x y) : infoEqTok x r = infoEqTok y r := by
  obtain ⟨_, htok⟩ := h
  unfold infoEqTok
  rcases htok with ⟨hx, hy⟩ | ⟨a, b, hx, hy, hab⟩
  · rw [hx, hy]
  · rw [hx, hy]
    cases hab with
    | refl => rfl
    | text s s' hss =>
      cases r with
      | text q => simp only; unfold lowerEq CaseEq at *; rw [hss]
      | field f => simp only; exact tokFieldCompare_case (.text s) (.text s') f (.text s s' hss)
      | _ => rfl

theorem matchesAt_case (toks toks' : List (TokInfo F)) (name : List (Tok F)) (h : Rel2 Sim toks toks') :
    matchesAt toks name = matchesAt toks' name := by
  induction name generalizing toks toks' with
  | nil => simp [matchesAt]
  | cons r name ih =>
    cases h with
    | nil => rfl
    | cons hxy t => simp only [matchesAt]; rw [infoEqTok_case _ _ r hxy, ih _ _ t]

/-- a variable name is found at the same position whatever the letter case of the line -/
theorem findLocation_case (toks toks' : List (TokInfo F)) (name : List (Tok F)) (h : Rel2 Sim toks toks') :
    findLocation toks name = findLocation toks' name := by
  induction h with
  | nil => rfl
  | @cons x y xs ys hxy t ih =>
    simp only [findLocation]
    rw [matchesAt_case (x :: xs) (y :: ys) name (.cons hxy t), ih]

theorem toLower_case_tokToString (a b : Tok F) (h : TokSim a b) : lowerStr (tokToString a) = lowerStr (tokToString b) := by
  cases h with
  | refl => rfl
  | text s s' hss => exact hss

/-- the session key of a name does not depend on the letter case it was written in -/
theorem varKey_case (toks toks' : List (Tok F)) (h : Rel2 TokSim toks toks') : varKey toks = varKey toks' := by
  unfold varKey
  congr 1
  induction h with
  | nil => rfl
  | cons hab _ ih => simp only [List.map_cons]; rw [toLower_case_tokToString _ _ hab, ih]

/-- a type-less (blank / comment) token inside a line: while a pattern is incomplete it neither
    matches nor resets the pattern -/
theorem untyped_skipped (vs : Vars F) (pat : List (TokInfo F)) (tok : TokInfo F) (rest : List (TokInfo F))
    (target ruleIdx start : Nat) (fs : Fields F) (ha : tok.active = true) (hn : tok.tok = none) (hinc : pat.length ≠ ruleIdx) :
    findMatch.go vs pat pat.length (tok :: rest) target ruleIdx start fs =
      findMatch.go vs pat pat.length rest (target + 1) ruleIdx start fs := by
  simp [findMatch.go, ha, hn, hinc]

/-! non-vacuity: the same word two blanks further right is `Sim`-related (String.toLower does not
    reduce in the kernel, so the example keeps the letters) -/
example : Sim ({ start := 3, stop := 5, tok := some (.text "to") } : TokInfo Rat) { start := 5, stop := 7, tok := some (.text "to") } :=
  ⟨rfl, Or.inr ⟨_, _, rfl, rfl, .text "to" "to" rfl⟩⟩

end SCP.C16
