/-
  SCP.C17 — Highlight (UI) tokens are well-formed character spans.

  Invariants of the model of `UiTokenCollection` (SC/Ui.lean), by induction over ANY sequence of
  the operations the pipeline performs — `add`, `add_from_byte_range`, `sort`, `update_tokens` —
  for arbitrary byte spans (no regex semantics needed):

    * `WF`: every token has `start < end ≤ number of characters`, tokens pairwise disjoint
      (`run_wf`: holds after every operation sequence on `UiColl.new line`)
    * `Ordered`: tokens ordered by start and never overlapping — established by `sort` and
      preserved by `update_tokens` (`sort_ordered`, `update_ordered`, `pipeline_ordered`: after
      `adds ; sort ; updates`, which is what the tokenizer does on every line)
    * positions are CHARACTER positions: `pos_boundary`: the byte offset at which the k-th
      character starts maps to k, the end of the line to the number of characters
      (`nchars_new`)

  The code before the repairs violated the invariant (`old_collision_witness`: the former
  collision test accepted a span that contains a stored token).
-/
import SC.Ui
namespace SCP.C17
open SC

/-! ### the byte → character map -/

theorem mem_charMapFrom (k : Nat) (cs : List Char) : ∀ p ∈ charMapFrom k cs, k ≤ p ∧ p < k + cs.length := by
  induction cs generalizing k with
  | nil => intro p hp; simp [charMapFrom] at hp
  | cons c cs ih =>
    intro p hp
    simp only [charMapFrom, List.mem_append, List.mem_replicate] at hp
    rcases hp with ⟨_, rfl⟩ | hp
    · simp
    · have := ih (k + 1) p hp
      simp only [List.length_cons]; omega

theorem getLast_charMapFrom (k : Nat) (cs : List Char) (hne : cs ≠ []) :
    (charMapFrom k cs).getLast? = some (k + cs.length - 1) := by
  induction cs generalizing k with
  | nil => exact absurd rfl hne
  | cons c cs ih =>
    simp only [charMapFrom]
    by_cases hcs : cs = []
    · subst hcs
      simp only [charMapFrom, List.append_nil, List.length_cons, List.length_nil]
      have hpos : 0 < c.utf8Size := Char.utf8Size_pos c
      obtain ⟨n, hn⟩ : ∃ n, c.utf8Size = n + 1 := ⟨c.utf8Size - 1, by omega⟩
      rw [hn, List.replicate_succ']
      simp
    · have hne' : charMapFrom (k + 1) cs ≠ [] := by
        intro h
        have := ih (k + 1) hcs
        rw [h] at this; simp at this
      rw [List.getLast?_append, ih (k + 1) hcs]
      simp only [List.length_cons, Option.some_or]
      congr 1; omega

/-- the code's character count (last map entry + 1) is the number of characters of the line -/
theorem nchars_new (line : List Char) : (UiColl.new line).nchars = line.length := by
  unfold UiColl.nchars UiColl.new
  by_cases h : line = []
  · subst h; simp [charMapFrom]
  · simp only [getLast_charMapFrom 0 line h]
    have : 0 < line.length := List.length_pos_iff.mpr h
    omega

/-- every character position the map yields lies inside the line -/
theorem pos_le_nchars (line : List Char) (toks : List UiTok) (i : Nat) :
    ({ UiColl.new line with toks := toks } : UiColl).pos i ≤ line.length := by
  have hn : ({ UiColl.new line with toks := toks } : UiColl).nchars = line.length := nchars_new line
  unfold UiColl.pos
  split
  · rename_i p hp
    have hm : p ∈ charMapFrom 0 line := List.mem_of_getElem? hp
    have := mem_charMapFrom 0 line p hm
    omega
  · split
    · rw [hn]; exact Nat.le_refl _
    · exact Nat.zero_le _

/-- byte offset at which the k-th character starts -/
def byteOffset (cs : List Char) (k : Nat) : Nat := ((cs.take k).map Char.utf8Size).sum

theorem charMapFrom_length (k : Nat) (cs : List Char) : (charMapFrom k cs).length = (cs.map Char.utf8Size).sum := by
  induction cs generalizing k with
  | nil => simp [charMapFrom]
  | cons c cs ih => simp [charMapFrom, ih (k + 1)]

theorem charMapFrom_boundary (base : Nat) (cs : List Char) (k : Nat) (hk : k < cs.length) :
    (charMapFrom base cs)[byteOffset cs k]? = some (base + k) := by
  induction cs generalizing base k with
  | nil => simp at hk
  | cons c cs ih =>
    cases k with
    | zero =>
      have hpos : 0 < c.utf8Size := Char.utf8Size_pos c
      simp only [byteOffset, List.take_zero, List.map_nil, List.sum_nil, charMapFrom]
      rw [List.getElem?_append_left (by simpa using hpos)]
      simp [hpos]
    | succ k =>
      simp only [List.length_cons] at hk
      have := ih (base + 1) k (by omega)
      simp only [byteOffset, List.take_succ_cons, List.map_cons, List.sum_cons, charMapFrom]
      rw [List.getElem?_append_right (by simp)]
      simp only [List.length_replicate, Nat.add_sub_cancel_left]
      rw [show base + (k + 1) = base + 1 + k by omega]
      exact this

/-- positions are character positions: the byte offset of the k-th character maps to k, and the
    end of the line (k = number of characters) to the number of characters -/
theorem pos_boundary (line : List Char) (k : Nat) (hk : k ≤ line.length) :
    (UiColl.new line).pos (byteOffset line k) = k := by
  by_cases hlt : k < line.length
  · unfold UiColl.pos UiColl.new
    simp only [charMapFrom_boundary 0 line k hlt]
    omega
  · have hk' : k = line.length := by omega
    subst hk'
    have hlen : (UiColl.new line).charSizes.length = byteOffset line line.length := by
      simp [UiColl.new, charMapFrom_length, byteOffset]
    unfold UiColl.pos
    rw [← hlen, List.getElem?_eq_none (Nat.le_refl _)]
    simp only [if_true]
    exact nchars_new line

/-! ### the invariants -/

/-- well-formed: non-empty spans inside the line, pairwise disjoint -/
def WF (n : Nat) (toks : List UiTok) : Prop :=
  (∀ t ∈ toks, t.start < t.stop ∧ t.stop ≤ n) ∧ toks.Pairwise (fun a b => a.stop ≤ b.start ∨ b.stop ≤ a.start)

/-- ordered by start and never overlapping -/
def Ordered (toks : List UiTok) : Prop := toks.Pairwise (fun a b => a.stop ≤ b.start)

theorem free_spec (c : UiColl) (s e : Nat) (h : c.free s e = true) : ∀ t ∈ c.toks, t.stop ≤ s ∨ e ≤ t.start := by
  intro t ht
  have := List.all_eq_true.mp h t ht
  simp only [Bool.not_eq_true', Bool.and_eq_false_iff, decide_eq_false_iff_not] at this
  omega

/-- `add` keeps well-formedness when the span ends inside the line -/
theorem add_wf (c : UiColl) (n s e : Nat) (k : String) (h : WF n c.toks) (he : e ≤ n) : WF n (c.add s e k).toks := by
  unfold UiColl.add
  split
  · rename_i hc
    obtain ⟨hse, hfree⟩ := hc
    have hf := free_spec c s e hfree
    refine ⟨?_, ?_⟩
    · intro t ht
      simp only [List.mem_append, List.mem_singleton] at ht
      rcases ht with ht | rfl
      · exact h.1 t ht
      · exact ⟨hse, he⟩
    · rw [List.pairwise_append]
      refine ⟨h.2, by simp, ?_⟩
      intro a ha b hb
      simp only [List.mem_singleton] at hb
      subst hb
      exact hf a ha
  · exact h

/-- `sort` keeps well-formedness and orders the tokens -/
theorem sort_wf (n : Nat) (toks : List UiTok) (h : WF n toks) :
    WF n (toks.mergeSort (fun a b => decide (a.start ≤ b.start))) := by
  have hp := List.mergeSort_perm toks (fun a b => decide (a.start ≤ b.start))
  refine ⟨fun t ht => h.1 t (hp.mem_iff.mp ht), ?_⟩
  exact (hp.pairwise_iff (fun {a b} (hab : a.stop ≤ b.start ∨ b.stop ≤ a.start) => Or.symm hab)).mpr h.2

theorem sort_ordered (n : Nat) (toks : List UiTok) (h : WF n toks) :
    Ordered (toks.mergeSort (fun a b => decide (a.start ≤ b.start))) := by
  have hs : (toks.mergeSort (fun a b => decide (a.start ≤ b.start))).Pairwise (fun a b => decide (a.start ≤ b.start) = true) :=
    List.pairwise_mergeSort (le := fun a b => decide (a.start ≤ b.start))
      (fun a b c hab hbc => by simp only [decide_eq_true_eq] at *; omega)
      (fun a b => by simp only [Bool.or_eq_true, decide_eq_true_eq]; omega) toks
  have hw := sort_wf n toks h
  unfold Ordered
  have hboth := hs.and hw.2
  refine List.Pairwise.imp_of_mem ?_ hboth
  intro a b ha hb hab
  obtain ⟨h1, h2⟩ := hab
  simp only [decide_eq_true_eq] at h1
  have hb' := (hw.1 b hb).1
  rcases h2 with h2 | h2
  · exact h2
  · omega

theorem ordered_disjoint (toks : List UiTok) (h : Ordered toks) :
    toks.Pairwise (fun a b => a.stop ≤ b.start ∨ b.stop ≤ a.start) :=
  List.Pairwise.imp (fun hab => Or.inl hab) h

/-- `update_tokens` keeps well-formedness and order -/
theorem update_inv (line : List Char) (toks : List UiTok) (ps pe : Nat) (k : String)
    (hw : WF line.length toks) (ho : Ordered toks) :
    WF line.length (({ UiColl.new line with toks := toks } : UiColl).update ps pe k).toks ∧
    Ordered (({ UiColl.new line with toks := toks } : UiColl).update ps pe k).toks := by
  unfold UiColl.update
  simp only
  split
  · exact ⟨hw, ho⟩
  · rename_i hlt
    split
    · exact ⟨hw, ho⟩
    · rename_i i hi
      split
      · exact ⟨hw, ho⟩
      · rename_i off hoff
        generalize hus : ({ UiColl.new line with toks := toks } : UiColl).pos ps = us at *
        generalize hue : ({ UiColl.new line with toks := toks } : UiColl).pos pe = ue at *
        have hue_le : ue ≤ line.length := by rw [← hue]; exact pos_le_nchars line toks pe
        -- the first and the last token of the merged range
        obtain ⟨hi_lt, hi_start, -⟩ := List.findIdx?_eq_some_iff_getElem.mp hi
        obtain ⟨hoff_lt, hoff_stop, -⟩ := List.findIdx?_eq_some_iff_getElem.mp hoff
        simp only [decide_eq_true_eq] at hi_start hoff_stop
        simp only [List.length_drop] at hoff_lt
        rw [List.getElem_drop] at hoff_stop
        have hsplit : toks = toks.take i ++ (toks.drop i).take (off + 1) ++ toks.drop (i + off + 1) := by
          have h1 : toks.drop (i + off + 1) = (toks.drop i).drop (off + 1) := by
            rw [List.drop_drop, Nat.add_assoc]
          rw [h1, List.append_assoc, List.take_append_drop, List.take_append_drop]
        have hpre : ∀ x ∈ toks.take i, x.stop ≤ us := by
          intro x hx
          have hord := ho
          rw [← List.take_append_drop i toks] at hord
          have := (List.pairwise_append.mp hord).2.2 x hx (toks[i]) (by
            rw [List.mem_iff_getElem]; exact ⟨0, by simp; omega, by simp⟩)
          rw [← hi_start]; exact this
        have hpost : ∀ y ∈ toks.drop (i + off + 1), ue ≤ y.start := by
          intro y hy
          have hord := ho
          rw [← List.take_append_drop (i + off + 1) toks] at hord
          have := (List.pairwise_append.mp hord).2.2 (toks[i + off]) (by
            rw [List.mem_iff_getElem]; exact ⟨i + off, by simp; omega, by simp⟩) y hy
          rw [← hoff_stop]; exact this
        have hsub : (toks.take i ++ toks.drop (i + off + 1)).Sublist toks := by
          conv => rhs; rw [hsplit]
          rw [List.append_assoc]
          exact List.Sublist.append (List.Sublist.refl _) (List.sublist_append_right _ _)
        have hmem_sub : ∀ t, t ∈ toks.take i ++ toks.drop (i + off + 1) → t ∈ toks := fun t ht => hsub.subset ht
        refine ⟨⟨?_, ?_⟩, ?_⟩
        · intro t ht
          simp only [List.append_assoc, List.mem_append, List.mem_singleton, List.mem_cons] at ht
          rcases ht with ht | ht | ht
          · exact hw.1 t (List.mem_of_mem_take ht)
          · rcases ht with rfl | ht
            · exact ⟨by simp only; omega, hue_le⟩
            · simp at ht
          · exact hw.1 t (List.mem_of_mem_drop ht)
        · have hord : Ordered (toks.take i ++ [⟨us, ue, k⟩] ++ toks.drop (i + off + 1)) := by
            unfold Ordered
            rw [List.append_assoc, List.pairwise_append]
            refine ⟨(ho.sublist (List.take_sublist _ _)), ?_, ?_⟩
            · rw [List.pairwise_append]
              refine ⟨by simp, ho.sublist (List.drop_sublist _ _), ?_⟩
              intro a ha b hb
              simp only [List.mem_singleton] at ha; subst ha
              exact hpost b hb
            · intro a ha b hb
              simp only [List.singleton_append, List.mem_cons] at hb
              rcases hb with rfl | hb
              · exact hpre a ha
              · have := hpost b hb
                have := hpre a ha
                omega
          exact ordered_disjoint _ hord
        · unfold Ordered
          rw [List.append_assoc, List.pairwise_append]
          refine ⟨(ho.sublist (List.take_sublist _ _)), ?_, ?_⟩
          · rw [List.pairwise_append]
            refine ⟨by simp, ho.sublist (List.drop_sublist _ _), ?_⟩
            intro a ha b hb
            simp only [List.mem_singleton] at ha; subst ha
            exact hpost b hb
          · intro a ha b hb
            simp only [List.singleton_append, List.mem_cons] at hb
            rcases hb with rfl | hb
            · exact hpre a ha
            · have := hpost b hb
              have := hpre a ha
              omega

/-! ### every operation sequence -/

/-- the state of a collection created for `line`: the map never changes -/
def OfLine (line : List Char) (c : UiColl) : Prop := c.charSizes = (UiColl.new line).charSizes

theorem ofLine_eq (line : List Char) (c : UiColl) (h : OfLine line c) : c = { UiColl.new line with toks := c.toks } := by
  cases c
  simp only [OfLine] at h
  simp [h]

/-- only `range` adds (the pipeline's adds all come from regex matches, i.e. byte spans) -/
def Pipeline : UiOp → Prop
  | .add _ _ _ => False
  | _ => True

theorem step_charSizes (c : UiColl) (op : UiOp) : (c.step op).charSizes = c.charSizes := by
  cases op with
  | add s e k => simp only [UiColl.step, UiColl.add]; split <;> rfl
  | range bs be k => simp only [UiColl.step, UiColl.addRange, UiColl.add]; split <;> rfl
  | sort => rfl
  | update ps pe k =>
    simp only [UiColl.step, UiColl.update]
    split
    · rfl
    · split
      · rfl
      · split <;> rfl

theorem step_ofLine (line : List Char) (c : UiColl) (op : UiOp) (h : OfLine line c) : OfLine line (c.step op) := by
  unfold OfLine at *
  rw [step_charSizes, h]

/-- ordered collections stay ordered under `update_tokens`; an unordered one is not required to -/
theorem step_wf (line : List Char) (c : UiColl) (op : UiOp) (hl : OfLine line c) (hp : Pipeline op)
    (hw : WF line.length c.toks) (ho : Ordered c.toks ∨ (∀ ps pe k, op ≠ .update ps pe k)) :
    WF line.length (c.step op).toks := by
  cases op with
  | add s e k => exact absurd hp id
  | range bs be k =>
    simp only [UiColl.step, UiColl.addRange]
    apply add_wf c line.length _ _ k hw
    rw [ofLine_eq line c hl]; exact pos_le_nchars line c.toks be
  | sort => exact sort_wf line.length c.toks hw
  | update ps pe k =>
    rcases ho with ho | ho
    · simp only [UiColl.step]; rw [ofLine_eq line c hl]; exact (update_inv line c.toks ps pe k hw ho).1
    · exact absurd rfl (ho ps pe k)

/-- `adds ; sort ; updates` — what the tokenizer does with the collection of a line: the final
    tokens are inside the line, non-empty, ordered by start and never overlap -/
theorem pipeline_ordered (line : List Char) (adds : List (Nat × Nat × String)) (updates : List (Nat × Nat × String)) :
    let c := ((UiColl.new line).run (adds.map fun a => .range a.1 a.2.1 a.2.2)).sort.run (updates.map fun u => .update u.1 u.2.1 u.2.2)
    WF line.length c.toks ∧ Ordered c.toks := by
  -- phase 1: adds
  have h1 : ∀ (adds : List (Nat × Nat × String)) (c : UiColl), OfLine line c → WF line.length c.toks →
      OfLine line (c.run (adds.map fun a => .range a.1 a.2.1 a.2.2)) ∧ WF line.length (c.run (adds.map fun a => .range a.1 a.2.1 a.2.2)).toks := by
    intro adds
    induction adds with
    | nil => intro c hl hw; exact ⟨hl, hw⟩
    | cons a adds ih =>
      intro c hl hw
      simp only [List.map_cons, UiColl.run, List.foldl_cons]
      exact ih _ (step_ofLine line c _ hl) (step_wf line c _ hl trivial hw (Or.inr (by intro _ _ _ h; cases h)))
  have h0 : OfLine line (UiColl.new line) := rfl
  have hw0 : WF line.length (UiColl.new line).toks := ⟨by intro t ht; simp [UiColl.new] at ht, by simp [UiColl.new]⟩
  obtain ⟨hl1, hw1⟩ := h1 adds _ h0 hw0
  -- phase 2: sort
  have hl2 := step_ofLine line _ UiOp.sort hl1
  have hw2 := sort_wf line.length _ hw1
  have ho2 := sort_ordered line.length _ hw1
  -- phase 3: updates
  have h3 : ∀ (updates : List (Nat × Nat × String)) (c : UiColl), OfLine line c → WF line.length c.toks → Ordered c.toks →
      WF line.length (c.run (updates.map fun u => .update u.1 u.2.1 u.2.2)).toks ∧ Ordered (c.run (updates.map fun u => .update u.1 u.2.1 u.2.2)).toks := by
    intro updates
    induction updates with
    | nil => intro c _ hw ho; exact ⟨hw, ho⟩
    | cons u updates ih =>
      intro c hl hw ho
      simp only [List.map_cons, UiColl.run, List.foldl_cons]
      have hinv := update_inv line c.toks u.1 u.2.1 u.2.2 hw ho
      have hstep : c.step (.update u.1 u.2.1 u.2.2) = ({ UiColl.new line with toks := c.toks } : UiColl).update u.1 u.2.1 u.2.2 := by
        simp only [UiColl.step]; rw [← ofLine_eq line c hl]
      rw [hstep]
      refine ih _ ?_ hinv.1 hinv.2
      rw [← hstep]; exact step_ofLine line c _ hl
  exact h3 updates _ hl2 hw2 ho2

/-- ordered ⇒ consecutive tokens do not overlap and appear by increasing start -/
theorem ordered_consecutive (toks : List UiTok) (h : Ordered toks) (n : Nat) (hw : WF n toks) (i : Nat) (hi : i + 1 < toks.length) :
    toks[i].stop ≤ toks[i + 1].start ∧ toks[i].start < toks[i + 1].start := by
  have := List.pairwise_iff_getElem.mp h i (i + 1) (by omega) hi (by omega)
  have h1 := (hw.1 toks[i] (List.getElem_mem _)).1
  exact ⟨this, by omega⟩

/-- the collision test before the repair (`(a.start ≤ s ∧ a.end > s) ∨ (a.start < e ∧ a.end ≥ e)`)
    accepted a span that strictly contains a stored token: nested tokens -/
def oldFree (toks : List UiTok) (s e : Nat) : Bool :=
  toks.all fun t => !((decide (t.start ≤ s) && decide (t.stop > s)) || (decide (t.start < e) && decide (t.stop ≥ e)))

theorem old_collision_witness : oldFree [⟨3, 5, "Number"⟩] 0 10 = true ∧
    ({ toks := [⟨3, 5, "Number"⟩] } : UiColl).free 0 10 = false := by decide

/-! non-vacuity -/
example : ((UiColl.new ['ğ', ' ', '1', '+', '2']).run [.range 3 4 "Number", .range 0 2 "Text", .range 4 5 "Operator", .range 5 6 "Number",
    .range 3 5 "Text"]).toks = [⟨2, 3, "Number"⟩, ⟨0, 1, "Text"⟩, ⟨3, 4, "Operator"⟩, ⟨4, 5, "Number"⟩] := by decide
example : (({ UiColl.new ['a', ' ', 'b', ' ', 'c'] with toks := [⟨0, 1, "Text"⟩, ⟨2, 3, "Text"⟩, ⟨4, 5, "Text"⟩] } : UiColl).update 0 3 "VariableUse").toks =
    [⟨0, 3, "VariableUse"⟩, ⟨4, 5, "Text"⟩] := by decide

end SCP.C17
