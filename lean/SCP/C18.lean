/-
  SCP.C18 — Custom rules and user-defined unit families: registration, effect, removal.

  The calculator's mutators are pure functions on the configuration (SC/Calc.lean).  Theorems,
  for every number type unless a formula is involved:

    * `addRule_false_iff`, `addRule_false_noop`, `deleteRule_false_iff`, `deleteRule_false_noop`:
      registration fails only for an unknown language, deletion only for an unknown language or
      name, and a failing call changes nothing
    * `run_rules`: after ANY history of add_rule / delete_rule calls the rule list of every
      language is the original list transformed by exactly the calls addressed to that language
      (`applyOps`), and nothing else of the configuration changes (`run_frame`)
    * `applyOps_base`, `history_eq_survivors`: with no API rule among the original rules, the
      result is `original ++ survivors`, where the survivors are what the same calls leave of an
      empty list (a deletion removes the FIRST rule of that name); registering just the survivors
      in their order on the original configuration yields the same rule list — i.e. the same
      calculator as a fresh one that only ever saw the survivors
    * `decline_noop`: a rule that declines leaves the token list exactly as if it were absent
    * `api_effect`: when a pattern of a registered rule matches and the rule returns a token, the
      matched range is replaced by that token; `echo_binds_by_name`: fields are bound by name
    * `addDynamicType_false_iff`, `addDynamicTypeItem_false_iff` and their `_noop`s: duplicate
      family names / item indices (and items of unknown families) are rejected without any change
    * user-defined families convert along their declared chain: `SCP.C12.calc_factor` holds for
      EVERY contiguous chain with mutually inverse neighbours, not only the configured ones
-/
import SC.Calc
import SC.Engine
import SCP.C12
namespace SCP.C18
open SC
variable {F : Type} [Num F]
set_option linter.unusedSectionVars false

/-! ### return values -/

theorem addRule_false_iff (c : Cfg F) (lang : String) (r : Rule F) : (addRule c lang r).2 = false ↔ c.lang? lang = none := by
  unfold addRule
  cases c.lang? lang <;> simp

theorem addRule_false_noop (c : Cfg F) (lang : String) (r : Rule F) (h : (addRule c lang r).2 = false) : (addRule c lang r).1 = c := by
  unfold addRule at *
  cases hl : c.lang? lang with
  | none => rfl
  | some l => rw [hl] at h; simp at h

theorem deleteRule_false_iff (c : Cfg F) (lang name : String) :
    (deleteRule c lang name).2 = false ↔ ∀ l, c.lang? lang = some l → l.rules.any (·.isApiNamed name) = false := by
  unfold deleteRule
  cases hl : c.lang? lang with
  | none => simp
  | some l =>
    by_cases ha : l.rules.any (·.isApiNamed name) = true
    · simp only [ha, if_true]
      constructor
      · intro h; cases h
      · intro h; have := h l rfl; rw [ha] at this; cases this
    · have ha' : l.rules.any (·.isApiNamed name) = false := by simpa using ha
      simp only [ha', Bool.false_eq_true, if_false]
      constructor
      · intro _ l' hl'; cases hl'; exact ha'
      · intro _; trivial

theorem deleteRule_false_noop (c : Cfg F) (lang name : String) (h : (deleteRule c lang name).2 = false) : (deleteRule c lang name).1 = c := by
  unfold deleteRule at *
  cases hl : c.lang? lang with
  | none => rfl
  | some l =>
    rw [hl] at h
    by_cases ha : l.rules.any (·.isApiNamed name) = true
    · simp [ha] at h
    · simp only [Bool.not_eq_true] at ha
      simp [ha]

/-! ### histories -/

/-- a registration or a deletion -/
inductive ROp (F : Type)
  | add (lang : String) (r : Rule F)
  | del (lang : String) (name : String)

def stepCfg (c : Cfg F) : ROp F → Cfg F
  | .add lang r => (addRule c lang r).1
  | .del lang name => (deleteRule c lang name).1

def run (c : Cfg F) (ops : List (ROp F)) : Cfg F := ops.foldl stepCfg c

/-- what one call does to the rule list of language `L` -/
def applyOp (L : String) (rs : List (Rule F)) : ROp F → List (Rule F)
  | .add lang r => if lang = L then rs ++ [r] else rs
  | .del lang name => if lang = L then removeFirst (·.isApiNamed name) rs else rs

def applyOps (L : String) (rs : List (Rule F)) (ops : List (ROp F)) : List (Rule F) := ops.foldl (applyOp L) rs

theorem find_name (langs : List (Lang F)) (lang : String) (l : Lang F) (h : langs.find? (·.name = lang) = some l) : l.name = lang := by
  have := List.find?_some h
  simpa using this

theorem lang_setLang (c : Cfg F) (l : Lang F) (L : String) (hex : (c.lang? l.name).isSome) :
    (c.setLang l).lang? L = if L = l.name then some l else c.lang? L := by
  have hmap : (c.setLang l).lang? L = (c.lang? L).map (fun x => if x.name = l.name then l else x) := by
    unfold Cfg.setLang Cfg.lang?
    simp only
    rw [List.find?_map]
    have hp : ((fun x : Lang F => decide (x.name = L)) ∘ fun x => if x.name = l.name then l else x) = (fun x : Lang F => decide (x.name = L)) := by
      funext x
      simp only [Function.comp]
      by_cases hx : x.name = l.name
      · simp [hx]
      · simp [hx]
    rw [hp]
  rw [hmap]
  by_cases hL : L = l.name
  · subst hL
    simp only [if_true]
    cases hf : c.lang? l.name with
    | none => rw [hf] at hex; cases hex
    | some x =>
      have : x.name = l.name := find_name c.langs l.name x hf
      simp [this]
  · simp only [hL, if_false]
    cases hf : c.lang? L with
    | none => rfl
    | some x =>
      have : x.name = L := find_name c.langs L x hf
      have hne : ¬ (x.name = l.name) := by rw [this]; exact hL
      simp [hne]

theorem removeFirst_none (p : Rule F → Bool) (rs : List (Rule F)) (h : rs.any p = false) : removeFirst p rs = rs := by
  induction rs with
  | nil => rfl
  | cons x xs ih =>
    simp only [List.any_cons, Bool.or_eq_false_iff] at h
    simp only [removeFirst, h.1, Bool.false_eq_true, if_false, ih h.2]

/-- rule list of language `L` after one call -/
theorem step_rules (c : Cfg F) (op : ROp F) (L : String) :
    ((stepCfg c op).lang? L).map (·.rules) = ((c.lang? L).map (·.rules)).map (fun rs => applyOp L rs op) := by
  cases op with
  | add lang r =>
    simp only [stepCfg, addRule, applyOp]
    cases hl : c.lang? lang with
    | none =>
      simp only
      by_cases hL : lang = L
      · subst hL; simp [hl]
      · simp only [hL, if_false]; cases c.lang? L <;> rfl
    | some l =>
      have hname : l.name = lang := find_name c.langs lang l hl
      have hex : (c.lang? ({ l with rules := l.rules ++ [r] } : Lang F).name).isSome := by simp [hname, hl]
      simp only
      rw [lang_setLang c _ L hex]
      simp only [hname]
      by_cases hL : lang = L
      · subst hL; simp [hl]
      · have : ¬ (L = lang) := fun h => hL h.symm
        simp only [hL, this, if_false]; cases c.lang? L <;> rfl
  | del lang name =>
    simp only [stepCfg, deleteRule, applyOp]
    cases hl : c.lang? lang with
    | none =>
      simp only
      by_cases hL : lang = L
      · subst hL; simp [hl]
      · simp only [hL, if_false]; cases c.lang? L <;> rfl
    | some l =>
      have hname : l.name = lang := find_name c.langs lang l hl
      simp only
      cases ha : l.rules.any (·.isApiNamed name) with
      | true =>
        simp only [if_true]
        have hex : (c.lang? ({ l with rules := removeFirst (·.isApiNamed name) l.rules } : Lang F).name).isSome := by simp [hname, hl]
        rw [lang_setLang c _ L hex]
        simp only [hname]
        by_cases hL : lang = L
        · subst hL; simp [hl]
        · have : ¬ (L = lang) := fun h => hL h.symm
          simp only [hL, this, if_false]; cases c.lang? L <;> rfl
      | false =>
        simp only [Bool.false_eq_true, if_false]
        by_cases hL : lang = L
        · subst hL
          simp only [hl, Option.map_some, if_true]
          rw [removeFirst_none _ _ ha]
        · simp only [hL, if_false]; cases c.lang? L <;> rfl

/-- after ANY history: the rule list of every language is the original one transformed by the
    calls addressed to that language -/
theorem run_rules (c : Cfg F) (ops : List (ROp F)) (L : String) :
    ((run c ops).lang? L).map (·.rules) = ((c.lang? L).map (·.rules)).map (fun rs => applyOps L rs ops) := by
  induction ops generalizing c with
  | nil => simp only [run, applyOps, List.foldl_nil]; cases c.lang? L <;> rfl
  | cons op ops ih =>
    simp only [run, List.foldl_cons, applyOps] at *
    rw [ih (stepCfg c op), step_rules c op L]
    cases c.lang? L <;> rfl

/-- nothing but the rule lists changes -/
theorem run_frame (c : Cfg F) (ops : List (ROp F)) :
    (run c ops).units = c.units ∧ (run c ops).rates = c.rates ∧ (run c ops).dec = c.dec ∧ (run c ops).thou = c.thou ∧
    (run c ops).currencies = c.currencies ∧ (run c ops).bridges = c.bridges ∧ (run c ops).tz = c.tz := by
  induction ops generalizing c with
  | nil => simp [run]
  | cons op ops ih =>
    simp only [run, List.foldl_cons] at *
    have hstep : (stepCfg c op).units = c.units ∧ (stepCfg c op).rates = c.rates ∧ (stepCfg c op).dec = c.dec ∧ (stepCfg c op).thou = c.thou ∧
        (stepCfg c op).currencies = c.currencies ∧ (stepCfg c op).bridges = c.bridges ∧ (stepCfg c op).tz = c.tz := by
      cases op with
      | add lang r => simp only [stepCfg, addRule]; cases c.lang? lang <;> simp [Cfg.setLang]
      | del lang name =>
        simp only [stepCfg, deleteRule]
        cases c.lang? lang with
        | none => simp
        | some l => simp only; split <;> simp [Cfg.setLang]
    have := ih (stepCfg c op)
    obtain ⟨a1, a2, a3, a4, a5, a6, a7⟩ := this
    obtain ⟨b1, b2, b3, b4, b5, b6, b7⟩ := hstep
    exact ⟨a1.trans b1, a2.trans b2, a3.trans b3, a4.trans b4, a5.trans b5, a6.trans b6, a7.trans b7⟩

theorem removeFirst_append_base (p : Rule F → Bool) (base xs : List (Rule F)) (h : ∀ r ∈ base, p r = false) :
    removeFirst p (base ++ xs) = base ++ removeFirst p xs := by
  induction base with
  | nil => rfl
  | cons b bs ih =>
    simp only [List.cons_append, removeFirst]
    rw [h b (by simp)]
    simp only [Bool.false_eq_true, if_false]
    rw [ih (fun r hr => h r (by simp [hr]))]

/-- is this rule an API rule at all? -/
def isApi (r : Rule F) : Bool := match r.fn with | .api _ _ => true | _ => false

theorem not_named_of_not_api (r : Rule F) (name : String) (h : isApi r = false) : r.isApiNamed name = false := by
  unfold isApi at h
  unfold Rule.isApiNamed
  cases hf : r.fn <;> simp_all

/-- with only internal rules to start from, a history leaves `original ++ survivors` -/
theorem applyOps_base (L : String) (base : List (Rule F)) (hb : ∀ r ∈ base, isApi r = false) (ops : List (ROp F)) (xs : List (Rule F)) :
    applyOps L (base ++ xs) ops = base ++ applyOps L xs ops := by
  induction ops generalizing xs with
  | nil => rfl
  | cons op ops ih =>
    simp only [applyOps, List.foldl_cons] at *
    cases op with
    | add lang r =>
      simp only [applyOp]
      split
      · rw [List.append_assoc]; exact ih _
      · exact ih _
    | del lang name =>
      simp only [applyOp]
      split
      · rw [removeFirst_append_base _ base xs (fun r hr => not_named_of_not_api r name (hb r hr))]
        exact ih _
      · exact ih _

/-- registering a list of rules for `L`, in order -/
def registrations (L : String) (rs : List (Rule F)) : List (ROp F) := rs.map (fun r => .add L r)

theorem applyOps_registrations (L : String) (xs rs : List (Rule F)) : applyOps L xs (registrations L rs) = xs ++ rs := by
  induction rs generalizing xs with
  | nil => simp [registrations, applyOps]
  | cons r rs ih =>
    simp only [registrations, List.map_cons, applyOps, List.foldl_cons, applyOp, if_true] at *
    rw [ih (xs ++ [r])]
    simp

/-- THE REFINEMENT: after any history the rule list of a language is the one a fresh calculator
    gets by registering only the survivors, in their order -/
theorem history_eq_survivors (L : String) (base : List (Rule F)) (hb : ∀ r ∈ base, isApi r = false) (ops : List (ROp F)) :
    applyOps L base ops = applyOps L base (registrations L (applyOps L [] ops)) := by
  rw [applyOps_registrations]
  have := applyOps_base L base hb ops []
  simpa using this

/-! ### effect of a registered rule in the rewrite loop -/

theorem tryPats_decline (c : Cfg F) (lang : String) (now : Now) (vs : Vars F) (name : String) (pats : List (List (TokInfo F)))
    (infos : List (TokInfo F)) :
    rulePass.tryPats c lang now vs ⟨.api name .decline, pats⟩ pats infos = none := by
  generalize hr : (⟨.api name .decline, pats⟩ : Rule F) = rule
  have hfn : rule.fn = .api name .decline := by rw [← hr]
  clear hr
  induction pats with
  | nil => simp [rulePass.tryPats]
  | cons p ps ih =>
    simp only [rulePass.tryPats]
    split
    · simp only [hfn, applyRule]
      exact ih
    · exact ih

/-- a rule that declines leaves the line exactly as if the rule were absent -/
theorem decline_noop (c : Cfg F) (lang : String) (now : Now) (vs : Vars F) (rules : List (Rule F)) (name : String)
    (pats : List (List (TokInfo F))) (infos : List (TokInfo F)) :
    rulePass c lang now vs (rules ++ [⟨.api name .decline, pats⟩]) infos = rulePass c lang now vs rules infos := by
  unfold rulePass
  rw [List.foldl_append]
  simp only [List.foldl_cons, List.foldl_nil]
  rw [tryPats_decline]

/-- when the first pattern of a rule matches and the rule returns a token, the matched range is
    replaced by exactly that token -/
theorem api_effect (c : Cfg F) (lang : String) (now : Now) (vs : Vars F) (name : String) (kind : ApiKind F)
    (p : List (TokInfo F)) (ps : List (List (TokInfo F))) (infos : List (TokInfo F)) (t : Tok F)
    (hm : (findMatch vs p infos).found = true)
    (hr : applyRule c lang now vs (.api name kind) (findMatch vs p infos).fields = some t) :
    rulePass c lang now vs [⟨.api name kind, p :: ps⟩] infos = (replaceRange infos (findMatch vs p infos) t, true) := by
  unfold rulePass
  simp only [List.foldl_cons, List.foldl_nil, rulePass.tryPats, hm, if_true, hr]

/-- fields are bound by name: the `echo f` rule returns the token bound to the field `f` -/
theorem echo_binds_by_name (c : Cfg F) (lang : String) (now : Now) (vs : Vars F) (name f : String) (fs : Fields F) :
    applyRule c lang now vs (.api name (.echo f)) fs = (fs.get? f).bind (·.tok) := by
  simp [applyRule]

theorem const_returns (c : Cfg F) (lang : String) (now : Now) (vs : Vars F) (name : String) (v : F) (fs : Fields F) :
    applyRule c lang now vs (.api name (.const v)) fs = some (.item (.number v .decimal)) := by
  simp [applyRule]

/-! ### user-defined unit families -/

theorem addDynamicType_false_iff (c : Cfg F) (name : String) : (addDynamicType c name).2 = false ↔ (assoc? c.units name).isSome := by
  unfold addDynamicType
  cases assoc? c.units name <;> simp

theorem addDynamicType_false_noop (c : Cfg F) (name : String) (h : (addDynamicType c name).2 = false) : (addDynamicType c name).1 = c := by
  unfold addDynamicType at *
  cases hu : assoc? c.units name with
  | none => rw [hu] at h; simp at h
  | some _ => rfl

theorem addDynamicTypeItem_false_iff (c : Cfg F) (it : UnitItem F) :
    (addDynamicTypeItem c it).2 = false ↔
      (assoc? c.units it.group = none ∨ ∀ items, assoc? c.units it.group = some items → items.any (·.index = it.index) = true) := by
  unfold addDynamicTypeItem
  cases hu : assoc? c.units it.group with
  | none => simp
  | some items =>
    by_cases ha : items.any (·.index = it.index) = true
    · simp only [ha, if_true]
      constructor
      · intro _; right; intro items' h'; cases h'; exact ha
      · intro _; trivial
    · have ha' : items.any (·.index = it.index) = false := by simpa using ha
      simp only [ha', Bool.false_eq_true, if_false]
      constructor
      · intro h; cases h
      · intro h
        rcases h with h | h
        · cases h
        · have := h items rfl; rw [ha'] at this; cases this

theorem addDynamicTypeItem_false_noop (c : Cfg F) (it : UnitItem F) (h : (addDynamicTypeItem c it).2 = false) :
    (addDynamicTypeItem c it).1 = c := by
  unfold addDynamicTypeItem at *
  cases hu : assoc? c.units it.group with
  | none => rfl
  | some items =>
    rw [hu] at h
    by_cases ha : items.any (·.index = it.index) = true
    · simp [ha]
    · simp only [Bool.not_eq_true] at ha
      simp [ha] at h

/-- a user-defined family converts along its declared chain (instance of the general theorem of C12,
    which holds for every contiguous chain with mutually inverse neighbouring codes) -/
theorem user_family_converts (ex : String → Rat → Option Rat) (m : String → Rat) (items : List (UnitItem Rat)) (lo : Nat)
    (hch : SCP.Lemmas.C12.Chain items lo) (hex : SCP.Lemmas.C12.ExecIsMult ex m items) (hinv : SCP.Lemmas.C12.InversePairs m items)
    (p q : Nat) (hp : p < items.length) (hq : q < items.length) (v : Rat) :
    calculateUnitWith ex items v (lo + p) (lo + q) = some (v * SCP.C12.factor m items p q) :=
  SCP.C12.calc_factor ex m items lo hch hex hinv p q hp hq v

/-! non-vacuity: add, add, delete the first -/
example : applyOps "en" ([] : List (Rule Rat))
    [.add "en" ⟨.api "a" (.const 1), []⟩, .add "en" ⟨.api "a" (.const 2), []⟩, .add "tr" ⟨.api "b" .decline, []⟩, .del "en" "a"]
    = [⟨.api "a" (.const 2), []⟩] := by
  simp [applyOps, applyOp, removeFirst, Rule.isApiNamed]

end SCP.C18
