/-
  SCP.C18Api — C18, the registration calls from the pattern texts (SC.Api).

    * `addRuleText_unknown_language`, `addRuleText_known_language`: registration fails exactly for an unknown
      language and then changes nothing; for a known one the registered rule holds every pattern tokenised in
      THAT language (a word-group field stands for the words of that language's group, an operator word of that
      language is the operator)
    * `addRuleText_false_noop`: whenever the call answers false the configuration is the one before
    * `addRuleText_other_languages`: the rule lists of all other languages are untouched
    * `addDynamicTypeItemText_unknown_family`, `addDynamicTypeItemText_known_family`,
      `addDynamicTypeItemText_false_noop`: the same for unit items (patterns always tokenised in "en")
-/
import SC.Api
import SCP.C18
namespace SCP.C18Api
open SC
variable {F : Type} [Num F]

theorem addRuleText_unknown_language (env : LexEnv) (c : Cfg F) (now : Now) (lang : String) (fn : RuleFn F)
    (pats : List String) (h : c.lang? lang = none) : addRuleText env c now lang fn pats = some (c, false) := by
  simp [addRuleText, h]

theorem addRuleText_known_language (env : LexEnv) (c : Cfg F) (now : Now) (lang : String) (fn : RuleFn F)
    (pats : List String) (l : Lang F) (h : c.lang? lang = some l) :
    addRuleText env c now lang fn pats =
      (pats.mapM fun p => lexText env c lang now p.toList).map fun ps =>
        (c.setLang { l with rules := l.rules ++ [⟨fn, ps⟩] }, true) := by
  simp [addRuleText, patternTokens, addRule, h]

theorem addRuleText_false_noop (env : LexEnv) (c c' : Cfg F) (now : Now) (lang : String) (fn : RuleFn F)
    (pats : List String) (h : addRuleText env c now lang fn pats = some (c', false)) : c' = c := by
  unfold addRuleText at h
  cases hl : c.lang? lang with
  | none => rw [hl] at h; simp at h; exact h.symm
  | some l =>
    rw [hl] at h
    cases hp : patternTokens env c lang now pats with
    | none => rw [hp] at h; simp at h
    | some ps =>
      rw [hp] at h
      simp [addRule, hl] at h

/-- a registration answers false only for an unknown language (or not at all: unsupported pattern) -/
theorem addRuleText_false_iff (env : LexEnv) (c c' : Cfg F) (now : Now) (lang : String) (fn : RuleFn F)
    (pats : List String) (h : addRuleText env c now lang fn pats = some (c', false)) : c.lang? lang = none := by
  unfold addRuleText at h
  cases hl : c.lang? lang with
  | none => rfl
  | some l =>
    rw [hl] at h
    cases hp : patternTokens env c lang now pats with
    | none => rw [hp] at h; simp at h
    | some ps => rw [hp] at h; simp [addRule, hl] at h

/-- a registration touches the rule list of its own language only -/
theorem addRuleText_other_languages (env : LexEnv) (c c' : Cfg F) (now : Now) (lang : String) (fn : RuleFn F)
    (pats : List String) (b : Bool) (h : addRuleText env c now lang fn pats = some (c', b)) (L : String) (hL : L ≠ lang) :
    c'.lang? L = c.lang? L := by
  unfold addRuleText at h
  cases hl : c.lang? lang with
  | none => rw [hl] at h; simp at h; rw [← h.1]
  | some l =>
    rw [hl] at h
    cases hp : patternTokens env c lang now pats with
    | none => rw [hp] at h; simp at h
    | some ps =>
      rw [hp] at h
      simp [addRule, hl] at h
      have hn : l.name = lang := by
        have := List.find?_some hl
        simpa using this
      have hs := SCP.C18.lang_setLang c { l with rules := l.rules ++ [⟨fn, ps⟩] } L (by simp [hn, hl])
      rw [← h.1, hs]
      simp [hn, hL]

theorem addDynamicTypeItemText_unknown_family (env : LexEnv) (c : Cfg F) (now : Now) (it : UnitItem F)
    (parse : List String) (h : assoc? c.units it.group = none) :
    addDynamicTypeItemText env c now it parse = some (c, false) := by
  simp [addDynamicTypeItemText, h]

theorem addDynamicTypeItemText_known_family (env : LexEnv) (c : Cfg F) (now : Now) (it : UnitItem F)
    (parse : List String) (items : List (UnitItem F)) (h : assoc? c.units it.group = some items) :
    addDynamicTypeItemText env c now it parse =
      (parse.mapM fun p => lexText env c "en" now p.toList).map fun ps =>
        addDynamicTypeItem c { it with parse := ps } := by
  simp [addDynamicTypeItemText, patternTokens, h]

theorem addDynamicTypeItemText_false_noop (env : LexEnv) (c c' : Cfg F) (now : Now) (it : UnitItem F)
    (parse : List String) (h : addDynamicTypeItemText env c now it parse = some (c', false)) : c' = c := by
  unfold addDynamicTypeItemText at h
  cases hu : assoc? c.units it.group with
  | none => rw [hu] at h; simp at h; exact h.symm
  | some items =>
    rw [hu] at h
    cases hp : patternTokens env c "en" now parse with
    | none => rw [hp] at h; simp at h
    | some ps =>
      rw [hp] at h
      simp at h
      have := SCP.C18.addDynamicTypeItem_false_noop c { it with parse := ps } (by rw [h])
      rw [h] at this
      exact this

end SCP.C18Api
