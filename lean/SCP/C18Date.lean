/-
  SCP.C18Date — `SmartCalc::set_date_rule` between registrations (C18: "after any sequence of registrations and
  deletions the calculator behaves exactly like a fresh calculator on which only the surviving rules were registered").

  `set_date_rule` rebuilds the `small_date` rule of one language: it removes the old one from the language's rule list and
  puts the new one in front.  The rule list is the same list `add_rule` / `delete_rule` work on, so the call must not
  disturb what was registered (seed C18-10 dropped every API rule of the language there).  On the model `SC.setDateRule`:

    * `setDateRule_rules`     : the rule list of every language after the call
    * `setDateRule_api`       : the registered (API) rules of every language are the same, in the same order
    * `setDateRule_named`     : hence `delete_rule` finds a name after the call iff it found it before
    * `setDateRule_add_comm`  : registering a rule and setting the date rule commute
    * `setDateRule_idem`      : setting the same patterns twice is setting them once
    * `setDateRule_frame`     : units, rates, separators, currencies, bridges, zone are untouched
    * `deleteRule_keeps_internal`, `addRule_keeps_internal` : whatever name `delete_rule` is given — also the name of a built-in rule
      function — and whatever is registered, the INTERNAL rules of every language stay the same list (seeds C10-10, C18-10)
  Tie: the histories of the C18 check interleave `set_date_rule` (the configured patterns of the language) with the
  registrations, on the implementation and on the model (driver op `date_rule_text`, patterns tokenised by the model).
-/
import SC.Calc
import SCP.C18
namespace SCP.C18Date
open SC SCP.C18
variable {F : Type} [Num F]
set_option linter.unusedSectionVars false

def newRules (pats : List (List (TokInfo F))) (rs : List (Rule F)) : List (Rule F) :=
  ⟨.smallDate, pats⟩ :: rs.filter (fun r => !r.fn.isSmallDate)

/-- the rule list of language `L` after `set_date_rule(lang, pats)` -/
theorem setDateRule_rules (c : Cfg F) (lang L : String) (pats : List (List (TokInfo F))) :
    ((setDateRule c lang pats).lang? L).map (·.rules) =
      ((c.lang? L).map (·.rules)).map (fun rs => if lang = L then newRules pats rs else rs) := by
  simp only [setDateRule]
  cases hl : c.lang? lang with
  | none =>
    simp only
    by_cases hL : lang = L
    · subst hL; simp [hl]
    · simp only [hL, if_false]; cases c.lang? L <;> rfl
  | some l =>
    have hname : l.name = lang := find_name c.langs lang l hl
    have hex : (c.lang? ({ l with rules := newRules pats l.rules } : Lang F).name).isSome := by simp [hname, hl]
    simp only
    show ((c.setLang { l with rules := newRules pats l.rules }).lang? L).map (·.rules) = _
    rw [lang_setLang c _ L hex]
    simp only [hname]
    by_cases hL : lang = L
    · subst hL; simp [hl]
    · have : ¬ (L = lang) := fun h => hL h.symm
      simp only [hL, this, if_false]; cases c.lang? L <;> rfl

theorem api_not_smallDate (r : Rule F) (h : isApi r = true) : r.fn.isSmallDate = false := by
  unfold isApi at h
  cases hf : r.fn <;> simp [hf] at h <;> rfl

theorem newRules_api (pats : List (List (TokInfo F))) (rs : List (Rule F)) :
    (newRules pats rs).filter isApi = rs.filter isApi := by
  simp only [newRules, List.filter_cons]
  have h0 : isApi (⟨.smallDate, pats⟩ : Rule F) = false := rfl
  simp only [h0, Bool.false_eq_true, if_false, List.filter_filter]
  apply List.filter_congr
  intro r _
  cases hr : isApi r with
  | false => simp
  | true => simp [api_not_smallDate r hr]

/-- REGISTRATIONS SURVIVE: the API rules of every language are the same list after `set_date_rule` -/
theorem setDateRule_api (c : Cfg F) (lang L : String) (pats : List (List (TokInfo F))) :
    ((setDateRule c lang pats).lang? L).map (fun l => l.rules.filter isApi) =
      (c.lang? L).map (fun l => l.rules.filter isApi) := by
  have h := congrArg (Option.map (List.filter isApi)) (setDateRule_rules c lang L pats)
  simp only [Option.map_map] at h
  rw [show (fun l : Lang F => l.rules.filter isApi) = (List.filter isApi ∘ fun l : Lang F => l.rules) from rfl, h]
  cases c.lang? L with
  | none => rfl
  | some l =>
    simp only [Option.map_some, Function.comp]
    by_cases hL : lang = L
    · simp only [hL, if_true, newRules_api]
    · simp only [hL, if_false]

theorem named_api (r : Rule F) (name : String) (h : r.isApiNamed name = true) : isApi r = true := by
  cases hr : isApi r with
  | true => rfl
  | false => rw [not_named_of_not_api r name hr] at h; cases h

theorem any_named_filter (rs : List (Rule F)) (name : String) :
    rs.any (·.isApiNamed name) = (rs.filter isApi).any (·.isApiNamed name) := by
  induction rs with
  | nil => rfl
  | cons r rs ih =>
    simp only [List.any_cons, List.filter_cons]
    cases hr : isApi r with
    | true => simp [ih]
    | false => simp [not_named_of_not_api r name hr, ih]

/-- `delete_rule(L, name)` finds the name after `set_date_rule` iff it found it before -/
theorem setDateRule_named (c : Cfg F) (lang L name : String) (pats : List (List (TokInfo F))) :
    ((setDateRule c lang pats).lang? L).map (fun l => l.rules.any (·.isApiNamed name)) =
      (c.lang? L).map (fun l => l.rules.any (·.isApiNamed name)) := by
  have h := congrArg (Option.map (fun rs : List (Rule F) => rs.any (·.isApiNamed name))) (setDateRule_api c lang L pats)
  simp only [Option.map_map] at h
  have e : ∀ o : Option (Lang F), o.map (fun l => l.rules.any (·.isApiNamed name)) =
      o.map ((fun rs : List (Rule F) => rs.any (·.isApiNamed name)) ∘ fun l => l.rules.filter isApi) := by
    intro o; cases o with
    | none => rfl
    | some l => simp [any_named_filter l.rules name]
  rw [e, e, h]

/-- registering an API rule and setting the date rule commute (rule lists of every language) -/
theorem setDateRule_add_comm (c : Cfg F) (lang L : String) (pats : List (List (TokInfo F))) (r : Rule F) (hr : isApi r = true) (lang' : String) :
    ((setDateRule (addRule c lang' r).1 lang pats).lang? L).map (·.rules) =
      (((addRule (setDateRule c lang pats) lang' r).1).lang? L).map (·.rules) := by
  have a1 := step_rules c (.add lang' r) L
  have a2 := step_rules (setDateRule c lang pats) (.add lang' r) L
  simp only [stepCfg] at a1 a2
  rw [setDateRule_rules, a1, a2, setDateRule_rules]
  cases c.lang? L with
  | none => rfl
  | some l =>
    simp only [Option.map_some]
    by_cases h1 : lang = L <;> by_cases h2 : lang' = L <;>
      simp [h1, h2, newRules, SCP.C18.applyOp, List.filter_append, api_not_smallDate r hr]

/-- setting the same patterns twice is setting them once -/
theorem setDateRule_idem (c : Cfg F) (lang L : String) (pats : List (List (TokInfo F))) :
    ((setDateRule (setDateRule c lang pats) lang pats).lang? L).map (·.rules) = ((setDateRule c lang pats).lang? L).map (·.rules) := by
  rw [setDateRule_rules, setDateRule_rules]
  cases c.lang? L with
  | none => rfl
  | some l =>
    simp only [Option.map_some]
    by_cases h1 : lang = L
    · simp only [h1, if_true, newRules]
      have h0 : (⟨.smallDate, pats⟩ : Rule F).fn.isSmallDate = true := rfl
      simp [h0, List.filter_filter]
    · simp [h1]

/-- nothing but the rule lists changes -/
theorem setDateRule_frame (c : Cfg F) (lang : String) (pats : List (List (TokInfo F))) :
    (setDateRule c lang pats).units = c.units ∧ (setDateRule c lang pats).rates = c.rates ∧ (setDateRule c lang pats).dec = c.dec ∧
    (setDateRule c lang pats).thou = c.thou ∧ (setDateRule c lang pats).currencies = c.currencies ∧
    (setDateRule c lang pats).bridges = c.bridges ∧ (setDateRule c lang pats).tz = c.tz := by
  simp only [setDateRule]
  cases c.lang? lang <;> simp [Cfg.setLang]

/-! ### built-in rules are out of reach of the registration API -/

theorem removeFirst_internal (name : String) (rs : List (Rule F)) :
    (removeFirst (·.isApiNamed name) rs).filter (fun r => !isApi r) = rs.filter (fun r => !isApi r) := by
  induction rs with
  | nil => rfl
  | cons r rs ih =>
    simp only [removeFirst]
    split
    · rename_i h
      have : isApi r = true := named_api r name h
      simp [this]
    · simp only [List.filter_cons, ih]

/-- BUILT-IN RULES ARE OUT OF REACH OF `delete_rule`: whatever name is given — also the name of a built-in rule function —
    the internal rules of every language are the same list afterwards (seeds C10-10, C18-10 removed `as_duration`, `convert_money`) -/
theorem deleteRule_keeps_internal (c : Cfg F) (lang name L : String) :
    (((deleteRule c lang name).1).lang? L).map (fun l => l.rules.filter (fun r => !isApi r)) =
      (c.lang? L).map (fun l => l.rules.filter (fun r => !isApi r)) := by
  have h := step_rules c (.del lang name) L
  simp only [stepCfg] at h
  have h' := congrArg (Option.map (List.filter (fun r : Rule F => !isApi r))) h
  simp only [Option.map_map] at h'
  rw [show (fun l : Lang F => l.rules.filter (fun r => !isApi r)) = (List.filter (fun r : Rule F => !isApi r) ∘ fun l : Lang F => l.rules) from rfl, h']
  cases c.lang? L with
  | none => rfl
  | some l =>
    simp only [Option.map_some, Function.comp, SCP.C18.applyOp]
    by_cases hL : lang = L
    · subst hL; simp only [if_true, removeFirst_internal]
    · simp only [hL, if_false]

/-- … and of `add_rule`: a registration appends an API rule, the internal rules stay as they are -/
theorem addRule_keeps_internal (c : Cfg F) (lang L : String) (r : Rule F) (hr : isApi r = true) :
    (((addRule c lang r).1).lang? L).map (fun l => l.rules.filter (fun r => !isApi r)) =
      (c.lang? L).map (fun l => l.rules.filter (fun r => !isApi r)) := by
  have h := step_rules c (.add lang r) L
  simp only [stepCfg] at h
  have h' := congrArg (Option.map (List.filter (fun r : Rule F => !isApi r))) h
  simp only [Option.map_map] at h'
  rw [show (fun l : Lang F => l.rules.filter (fun r => !isApi r)) = (List.filter (fun r : Rule F => !isApi r) ∘ fun l : Lang F => l.rules) from rfl, h']
  cases c.lang? L with
  | none => rfl
  | some l =>
    simp only [Option.map_some, Function.comp, SCP.C18.applyOp]
    by_cases hL : lang = L
    · simp [hL, List.filter_append, hr]
    · simp only [hL, if_false]

end SCP.C18Date
