/-
  SCP.C19 — Every configured language is a relabelling of the same calculator.

  The language tag reaches the layers behind the lexer only through the per-language tables of
  the configuration: the rule list and the keyword → constant table (`constantOf`), plus the
  print formats.  Theorems (every number type):

    * `applyRule_lang`, `rulePass_lang`, `ruleLoop_lang`, `evalInfos_lang`: two language tags
      whose rule lists and keyword tables coincide evaluate every token list identically — a
      language IS its tables; nothing else about the tag matters
    * `evalTokens` (parser + interpreter: arithmetic, money, percentages, variables) does not take
      a language at all (by its type); `wordless_same`: whenever the rewrite layers leave a token
      list unchanged under two languages, the line evaluates identically under both
    * `parse_kind`: a duration keyword is read through the constant it maps to, so two words (of
      any languages) mapping to the same constant denote the same duration

  Data obligations, re-decided by the kernel on the tables regenerated from config.json:

    * `constants_complete`: every language has a word for every constant (day … year, second …
      hour, today, tomorrow, yesterday, now)
    * `duration_words_known`: every word of a language's duration group maps to a duration constant
    * `operator_words`: every language has alias words for `+`, `-`, `*`, and every operator alias
      is an operator atom
    * `months_complete`: 12 months, each with a short and a long printing name, every configured
      spelling maps into 1..12 and every month has a spelling
    * `formats_complete`: the four date formats and a generic format for each of the seven
      duration units exist in every language
    * `rules_subset`: every rule function a language configures is also configured for `en`
-/
import SC.Engine
import SC.Gen.Config
import SC.Gen.Tables
namespace SCP.C19
open SC
variable {F : Type} [Num F]
set_option linter.unusedSectionVars false

/-- the two things of a language the rewrite layers read -/
def SameTables (c : Cfg F) (l l' : String) : Prop :=
  (c.lang? l).map (·.rules) = (c.lang? l').map (·.rules) ∧ ∀ w, constantOf c l w = constantOf c l' w

theorem applyRule_lang (c : Cfg F) (l l' : String) (h : ∀ w, constantOf c l w = constantOf c l' w) (now : Now) (vs : Vars F)
    (fn : RuleFn F) (fs : Fields F) : applyRule c l now vs fn fs = applyRule c l' now vs fn fs := by
  cases fn <;> simp only [applyRule, h]

theorem tryPats_lang (c : Cfg F) (l l' : String) (h : ∀ w, constantOf c l w = constantOf c l' w) (now : Now) (vs : Vars F)
    (rule : Rule F) (pats : List (List (TokInfo F))) (infos : List (TokInfo F)) :
    rulePass.tryPats c l now vs rule pats infos = rulePass.tryPats c l' now vs rule pats infos := by
  induction pats with
  | nil => rfl
  | cons p ps ih => simp only [rulePass.tryPats, applyRule_lang c l l' h, ih]

theorem rulePass_lang (c : Cfg F) (l l' : String) (h : ∀ w, constantOf c l w = constantOf c l' w) (now : Now) (vs : Vars F)
    (rules : List (Rule F)) (infos : List (TokInfo F)) :
    rulePass c l now vs rules infos = rulePass c l' now vs rules infos := by
  unfold rulePass
  congr 1
  funext acc rule
  rw [tryPats_lang c l l' h]

theorem ruleLoop_lang (c : Cfg F) (l l' : String) (h : ∀ w, constantOf c l w = constantOf c l' w) (now : Now) (vs : Vars F)
    (rules : List (Rule F)) (fuel : Nat) (infos : List (TokInfo F)) :
    ruleLoop c l now vs rules fuel infos = ruleLoop c l' now vs rules fuel infos := by
  induction fuel generalizing infos with
  | zero => rfl
  | succ n ih => simp only [ruleLoop, rulePass_lang c l l' h, ih]

/-- a language is its tables: equal rule lists and keyword tables ⇒ identical evaluation of every line -/
theorem evalInfos_lang (c : Cfg F) (l l' : String) (h : SameTables c l l') (now : Now) (vs : Vars F) (infos : List (TokInfo F)) :
    evalInfos c l now vs infos = evalInfos c l' now vs infos := by
  obtain ⟨hr, hc⟩ := h
  unfold evalInfos rewriteInfos
  simp only
  rw [ruleLoop_lang c l l' hc]
  cases h1 : c.lang? l with
  | none =>
    cases h2 : c.lang? l' with
    | none => rfl
    | some y => rw [h1, h2] at hr; simp at hr
  | some x =>
    cases h2 : c.lang? l' with
    | none => rw [h1, h2] at hr; simp at hr
    | some y =>
      rw [h1, h2] at hr
      simp only [Option.map_some, Option.some.injEq] at hr
      simp only [hr]

/-- lines that the rewrite layers leave alone (no word of either language takes part) evaluate
    identically: the parser and the interpreter have no language parameter -/
theorem wordless_same (c : Cfg F) (l l' : String) (now : Now) (vs : Vars F) (infos : List (TokInfo F))
    (h : rewriteInfos c l now vs infos = rewriteInfos c l' now vs infos) :
    evalInfos c l now vs infos = evalInfos c l' now vs infos := by
  unfold evalInfos
  rw [h]

def ti (t : Tok Rat) : TokInfo Rat := { start := 0, stop := 0, tok := some t }

/-- a duration keyword acts only through the constant it maps to -/
theorem parse_kind (c : Cfg Rat) (l l' : String) (now : Now) (vs : Vars Rat) (n : Rat) (w w' : String)
    (h : constantOf c l w = constantOf c l' w') :
    applyRule c l now vs .durationParse [("duration", ti (.item (.number n .decimal))), ("type", ti (.text w))] =
      applyRule c l' now vs .durationParse [("duration", ti (.item (.number n .decimal))), ("type", ti (.text w'))] := by
  simp [applyRule, Fields.get?, assoc?, ti, getNumber, getText, fieldItem, h]

/-! ### data obligations on the regenerated tables -/

def allLangs : List (Lang Rat) := (Gen.cfg Rat).langs

/-- every language has a word for every constant kind 1..11 -/
theorem constants_complete :
    allLangs.all (fun l => (List.range 11).all fun k => l.constants.any fun kv => kv.2 == k + 1) = true := by decide +kernel

/-- every word of the duration group is a keyword of a duration constant (kinds 1..7) -/
theorem duration_words_known :
    allLangs.all (fun l => ((assoc? l.groups "duration_group").getD []).all fun w =>
      match assoc? l.constants w with | some k => decide (1 ≤ k ∧ k ≤ 7) | none => false) = true := by decide +kernel

def isOpAtom (s : String) : Bool := s = "[OPERATOR:+]" || s = "[OPERATOR:-]" || s = "[OPERATOR:*]" || s = "[OPERATOR:/]"

/-- every language has words for + - * and every alias that looks like an atom is an operator atom -/
theorem operator_words :
    Gen.langAliases.all (fun la =>
      ["[OPERATOR:+]", "[OPERATOR:-]", "[OPERATOR:*]"].all (fun op => la.2.any fun kv => kv.2 == op) &&
      la.2.all (fun kv => isOpAtom kv.2 || !(kv.2.startsWith "["))) = true := by decide +kernel

/-- 12 months with printing names; every configured spelling is a month 1..12; every month has one -/
theorem months_complete :
    allLangs.all (fun l => l.months.length == 12 && l.months.all fun m => m.1 != "" && m.2 != "") = true ∧
    Gen.monthNames.all (fun ln => ln.2.all (fun kv => decide (1 ≤ kv.2 ∧ kv.2 ≤ 12)) &&
      (List.range 12).all fun k => ln.2.any fun kv => kv.2 == k + 1) = true := by
  constructor <;> decide +kernel

/-- the date formats and a generic format of each duration unit exist in every language -/
theorem formats_complete :
    allLangs.all (fun l =>
      ["current_year", "current_year_with_time", "full_date", "full_date_time"].all (fun k => (assoc? l.dateFmts k).isSome) &&
      (List.range 7).all fun kind => l.durFmts.any fun f => f.kind == kind && f.count == "n") = true := by decide +kernel

def fnName : RuleFn Rat → String
  | .percentCalculator => "percentCalculator" | .convertTimezone => "convertTimezone" | .timeWithTimezone => "timeWithTimezone"
  | .toUnixtime => "toUnixtime" | .fromUnixtime => "fromUnixtime" | .convertMoney => "convertMoney" | .numberOn => "numberOn"
  | .numberOf => "numberOf" | .numberOff => "numberOff" | .divisionCleanup => "divisionCleanup" | .durationParse => "durationParse"
  | .asDuration => "asDuration" | .toDuration => "toDuration" | .atDate => "atDate" | .combineDurations => "combineDurations"
  | .findNumbersPercent => "findNumbersPercent" | .findTotalFromPercent => "findTotalFromPercent"
  | .numberTypeConvert => "numberTypeConvert" | .dynamicTypeConvert => "dynamicTypeConvert" | .smallDate => "smallDate"
  | .api n _ => n

/-- the rule functions of every language are rule functions of `en` -/
theorem rules_subset :
    allLangs.all (fun l => l.rules.all fun r =>
      (((Gen.cfg Rat).lang? "en").map (·.rules)).getD [] |>.any fun r' => fnName r'.fn == fnName r.fn) = true := by decide +kernel

/-! non-vacuity: `gün` (tr) and `days` (en) map to the same constant -/
example : constantOf (Gen.cfg Rat) "tr" "gün" = constantOf (Gen.cfg Rat) "en" "days" := by decide +kernel

end SCP.C19
