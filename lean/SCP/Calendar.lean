/-
  SCP.Calendar — the proleptic Gregorian calendar of SC.Chrono is a bijection between day
  numbers and valid civil dates (used by C09, C14, C15).  No bound on the year.
-/
import SC.Chrono
import SCP.Lemmas.Calendar
namespace SCP.Calendar
open SC

/-- the calendar validity of a civil date (without chrono's year range) -/
def Valid (t : YMD) : Prop := 1 ≤ t.m ∧ t.m ≤ 12 ∧ 1 ≤ t.d ∧ t.d ≤ daysInMonth t.y t.m

/-! ### helpers (arithmetic lives in `SCP.Lemmas.Calendar`) -/

/-- a valid civil date in March-based coordinates (shifted year `y`, shifted month `mp`) -/
theorem valid_spec (t : YMD) (h : Valid t) (y mp : Int)
    (hy : y = if t.m ≤ 2 then t.y - 1 else t.y) (hmp : mp = ((t.m : Int) + 9) % 12) :
    0 ≤ mp ∧ mp ≤ 11 ∧ 1 ≤ (t.d : Int) ∧
    (mp ≤ 10 → (153 * mp + 2) / 5 + (t.d : Int) - 1 < (153 * (mp + 1) + 2) / 5) ∧
    (mp = 11 → (t.d : Int) ≤ 28 ∨ ((t.d : Int) = 29 ∧ isLeap (y + 1) = true)) := by
  obtain ⟨h1, h12, hd1, hd⟩ := h
  obtain ⟨hdim, hfeb⟩ := daysInMonth_mp t.y t.m mp h1 h12 hmp
  refine ⟨by omega, by omega, by omega, ?_, ?_⟩
  · intro h10
    have := hdim h10
    omega
  · intro h11
    have hdim2 := hfeb h11
    have hm2 : t.m ≤ 2 := by omega
    have hy1 : y + 1 = t.y := by rw [hy, if_pos hm2]; omega
    rw [hy1]
    by_cases hl : isLeap t.y = true
    · rw [if_pos hl] at hdim2
      have : (t.d : Int) ≤ 29 := by omega
      by_cases h29 : (t.d : Int) = 29
      · exact Or.inr ⟨h29, hl⟩
      · exact Or.inl (by omega)
    · rw [if_neg hl] at hdim2
      exact Or.inl (by omega)

/-- the chronological (lexicographic) order on civil dates -/
def Lex (a b : YMD) : Prop :=
  a.y < b.y ∨ (a.y = b.y ∧ (a.m < b.m ∨ (a.m = b.m ∧ a.d < b.d)))

theorem lex_trichotomy (a b : YMD) : Lex a b ∨ a = b ∨ Lex b a := by
  obtain ⟨ay, am, ad⟩ := a
  obtain ⟨byy, bm, bd⟩ := b
  simp only [Lex, YMD.mk.injEq]
  omega

theorem dayNumber_lt_of_lex (a b : YMD) (ha : Valid a) (hb : Valid b) (h : Lex a b) :
    dayNumber a < dayNumber b := by
  obtain ⟨ya, hya⟩ : ∃ x : Int, x = if a.m ≤ 2 then a.y - 1 else a.y := ⟨_, rfl⟩
  obtain ⟨yb, hyb⟩ : ∃ x : Int, x = if b.m ≤ 2 then b.y - 1 else b.y := ⟨_, rfl⟩
  obtain ⟨mpa, hmpa⟩ : ∃ x : Int, x = ((a.m : Int) + 9) % 12 := ⟨_, rfl⟩
  obtain ⟨mpb, hmpb⟩ : ∃ x : Int, x = ((b.m : Int) + 9) % 12 := ⟨_, rfl⟩
  have ea : dayNumber a = _ := dayNumber_eq a.y a.m a.d ya mpa hya hmpa
  have eb : dayNumber b = _ := dayNumber_eq b.y b.m b.d yb mpb hyb hmpb
  obtain ⟨a0, a1, a2, a3, a4⟩ := valid_spec a ha ya mpa hya hmpa
  obtain ⟨b0, b1, b2, -, -⟩ := valid_spec b hb yb mpb hyb hmpb
  rw [ea, eb]
  apply march_lt ya mpa a.d yb mpb b.d a0 a1 a2 a3 a4 b0 b1 b2
  obtain ⟨ha1, ha12, -, -⟩ := ha
  obtain ⟨hb1, hb12, -, -⟩ := hb
  unfold Lex at h
  clear a3 a4 ea eb
  omega

/-! ### the theorems -/

theorem dayNumber_epoch : dayNumber ⟨1970, 1, 1⟩ = 0 := by decide

/-- every day number is the day number of its civil date -/
theorem dayNumber_civilFromDays (n : Int) : dayNumber (civilFromDays n) = n := by
  obtain ⟨y, mp, d, hm0, hm1, hd1, -, -, hn, hciv⟩ := civil_spec n
  rw [hciv, dayNumber_eq _ _ _ y mp ?_ ?_]
  · omega
  · omega
  · omega

/-- the civil date of a day number is a valid calendar date -/
theorem civilFromDays_valid (n : Int) : Valid (civilFromDays n) := by
  obtain ⟨y, mp, d, hm0, hm1, hd1, hlt, hfeb, -, hciv⟩ := civil_spec n
  rw [hciv]
  obtain ⟨m, hm⟩ : ∃ m : Nat, m = (if mp < 10 then mp + 3 else mp - 9).toNat := ⟨_, rfl⟩
  rw [← hm]
  have hm1' : 1 ≤ m := by omega
  have hm12 : m ≤ 12 := by omega
  have hmp : mp = ((m : Int) + 9) % 12 := by omega
  obtain ⟨Y, hY⟩ : ∃ x : Int, x = if mp < 10 then y else y + 1 := ⟨_, rfl⟩
  rw [← hY]
  obtain ⟨hdim, hdimfeb⟩ := daysInMonth_mp Y m mp hm1' hm12 hmp
  show 1 ≤ m ∧ m ≤ 12 ∧ 1 ≤ d.toNat ∧ d.toNat ≤ daysInMonth Y m
  refine ⟨hm1', hm12, by omega, ?_⟩
  by_cases h : mp ≤ 10
  · have := hdim h
    have := hlt h
    omega
  · have h11 : mp = 11 := by omega
    have hY1 : Y = y + 1 := by rw [hY, if_neg (by omega)]
    rw [hdimfeb h11, hY1]
    rcases hfeb h11 with h | ⟨h, hl⟩
    · split <;> omega
    · rw [if_pos hl]; omega

/-- every valid civil date is the civil date of its day number -/
theorem civilFromDays_dayNumber (t : YMD) (h : Valid t) : civilFromDays (dayNumber t) = t := by
  have hv := civilFromDays_valid (dayNumber t)
  have he := dayNumber_civilFromDays (dayNumber t)
  rcases lex_trichotomy (civilFromDays (dayNumber t)) t with hl | heq | hl
  · have := dayNumber_lt_of_lex _ _ hv h hl; omega
  · exact heq
  · have := dayNumber_lt_of_lex _ _ h hv hl; omega

set_option linter.unusedVariables false in
/-- consecutive days inside a month (the hypotheses are not needed by the arithmetic) -/
theorem dayNumber_succ_day (y : Int) (m d : Nat) (h : Valid ⟨y, m, d + 1⟩) (hd : 1 ≤ d) :
    dayNumber ⟨y, m, d + 1⟩ = dayNumber ⟨y, m, d⟩ + 1 := by
  rw [dayNumber_eq y m (d + 1) _ _ rfl rfl, dayNumber_eq y m d _ _ rfl rfl]
  omega

/-- the first of the next month follows the last day of a month -/
theorem dayNumber_succ_month (y : Int) (m : Nat) (hm : 1 ≤ m ∧ m < 12) :
    dayNumber ⟨y, m + 1, 1⟩ = dayNumber ⟨y, m, daysInMonth y m⟩ + 1 := by
  obtain ⟨hm1, hm12⟩ := hm
  obtain ⟨mp, hmp⟩ : ∃ x : Int, x = ((m : Int) + 9) % 12 := ⟨_, rfl⟩
  obtain ⟨hdim, hfeb⟩ := daysInMonth_mp y m mp hm1 (by omega) hmp
  by_cases h2 : m = 2
  · subst h2
    have hs := marchDays_step (y - 1)
    rw [show y - 1 + 1 = y by omega] at hs
    rw [dayNumber_eq y (2 + 1) 1 y 0 (by simp) (by decide),
      dayNumber_eq y 2 _ (y - 1) 11 (by simp) (by decide), hfeb (by omega)]
    split at hs <;> simp_all <;> omega
  · have := hdim (by omega)
    rw [dayNumber_eq y (m + 1) 1 (if m ≤ 2 then y - 1 else y) (mp + 1)
        (by split <;> split <;> omega) (by omega),
      dayNumber_eq y m _ _ mp rfl hmp]
    omega

/-- 1 January follows 31 December -/
theorem dayNumber_succ_year (y : Int) : dayNumber ⟨y + 1, 1, 1⟩ = dayNumber ⟨y, 12, 31⟩ + 1 := by
  rw [dayNumber_eq (y + 1) 1 1 y 10 (by simp) (by decide),
    dayNumber_eq y 12 31 y 9 (by simp) (by decide)]
  omega

/-- a year has 365 or 366 days -/
theorem year_length (y : Int) :
    dayNumber ⟨y + 1, 1, 1⟩ - dayNumber ⟨y, 1, 1⟩ = if isLeap y then 366 else 365 := by
  rw [dayNumber_eq (y + 1) 1 1 y 10 (by simp) (by decide),
    dayNumber_eq y 1 1 (y - 1) 10 (by simp) (by decide)]
  have hs := marchDays_step (y - 1)
  rw [show y - 1 + 1 = y by omega] at hs
  omega

/-- day numbers order valid dates chronologically (lexicographic order on y, m, d) -/
theorem dayNumber_lt_iff (a b : YMD) (ha : Valid a) (hb : Valid b) :
    dayNumber a < dayNumber b ↔ (a.y < b.y ∨ (a.y = b.y ∧ (a.m < b.m ∨ (a.m = b.m ∧ a.d < b.d)))) := by
  constructor
  · intro hlt
    rcases lex_trichotomy a b with hl | heq | hl
    · exact hl
    · subst heq; omega
    · have := dayNumber_lt_of_lex _ _ hb ha hl; omega
  · exact dayNumber_lt_of_lex a b ha hb

example : Valid ⟨2024, 2, 29⟩ := by unfold Valid; decide
example : ¬ Valid ⟨2023, 2, 29⟩ := by unfold Valid; decide
example : civilFromDays 19782 = ⟨2024, 2, 29⟩ := by decide

end SCP.Calendar
