/-
  SCP.Lemmas.C02 — helper definitions and lemmas for SCP.C02:
  the AST the parser builds for each specification tree, its evaluation, the parsing lemmas
  (with explicit fuel bounds), and the invariants of `missing_token_adder` on tree tokens.
-/
import SC.Spec.Arith
import SC.Parser
import SC.Eval
import SC.Engine

namespace SC.Spec
open SC
variable {F : Type} [Num F]

/-! ### the AST of a tree -/

mutual
def Prim.ast : Prim F → Ast F
  | .lit v => .item (.number v .decimal)
  | .paren s => s.ast
def Unary.ast : Unary F → Ast F
  | .prim p => p.ast
  | .neg (.lit v) => .item (.number (Num.mul v (Num.ofInt (-1))) .decimal)
  | .neg (.paren s) => .prefixUnary .minus s.ast
  | .pos (.lit v) => .item (.number (Num.mul v (Num.ofInt 1)) .decimal)
  | .pos (.paren s) => .prefixUnary .plus s.ast
def Prod.ast : Prod F → Ast F
  | .one u => u.ast
  | .mul p u => .binary p.ast .mul u.ast
  | .div p u => .binary p.ast .div u.ast
def Sum.ast : Sum F → Ast F
  | .one p => p.ast
  | .add s p => .binary s.ast .plus p.ast
  | .sub s p => .binary s.ast .minus p.ast
end

mutual
theorem Prim.ast_ne_none : ∀ p : Prim F, p.ast ≠ .none
  | .lit v => by simp [Prim.ast]
  | .paren s => by simpa [Prim.ast] using Sum.ast_ne_none s
theorem Unary.ast_ne_none : ∀ u : Unary F, u.ast ≠ .none
  | .prim p => by simpa [Unary.ast] using Prim.ast_ne_none p
  | .neg (.lit v) => by simp [Unary.ast]
  | .neg (.paren s) => by simp [Unary.ast]
  | .pos (.lit v) => by simp [Unary.ast]
  | .pos (.paren s) => by simp [Unary.ast]
theorem Prod.ast_ne_none : ∀ p : Prod F, p.ast ≠ .none
  | .one u => by simpa [Prod.ast] using Unary.ast_ne_none u
  | .mul p u => by simp [Prod.ast]
  | .div p u => by simp [Prod.ast]
theorem Sum.ast_ne_none : ∀ s : Sum F, s.ast ≠ .none
  | .one p => by simpa [Sum.ast] using Prod.ast_ne_none p
  | .add s p => by simp [Sum.ast]
  | .sub s p => by simp [Sum.ast]
end

/-! ### evaluation of the AST of a tree -/

theorem execAst_binary {rates : List (String × F)} {conv : UnitRef → F → UnitRef → Option F}
    {vs : Vars F} {l r : Ast F} {x y : F} {op : Op} {bop : BinOp}
    (hl : execAst rates conv vs l = .ok (.item (.number x .decimal), vs))
    (hr : execAst rates conv vs r = .ok (.item (.number y .decimal), vs))
    (hop : binOpOf op = some bop) :
    execAst rates conv vs (.binary l op r) = .ok (.item (.number (applyOp bop x y) .decimal), vs) := by
  simp [execAst, hl, hr, hop, calcItem, bind, Except.bind]

mutual
theorem Prim.exec_ast (rates : List (String × F)) (conv : UnitRef → F → UnitRef → Option F)
    (vs : Vars F) : ∀ p : Prim F,
    execAst rates conv vs p.ast = .ok (.item (.number p.value .decimal), vs)
  | .lit v => by simp [Prim.ast, Prim.value, execAst]
  | .paren s => by simpa [Prim.ast, Prim.value] using Sum.exec_ast rates conv vs s
theorem Unary.exec_ast (rates : List (String × F)) (conv : UnitRef → F → UnitRef → Option F)
    (vs : Vars F) : ∀ u : Unary F,
    execAst rates conv vs u.ast = .ok (.item (.number u.value .decimal), vs)
  | .prim p => by simpa [Unary.ast, Unary.value] using Prim.exec_ast rates conv vs p
  | .neg (.lit v) => by simp [Unary.ast, Unary.value, execAst]
  | .neg (.paren s) => by
    simp [Unary.ast, Unary.value, execAst, Sum.exec_ast rates conv vs s, bind, Except.bind, negItem]
  | .pos (.lit v) => by simp [Unary.ast, Unary.value, execAst]
  | .pos (.paren s) => by
    simp [Unary.ast, Unary.value, execAst, Sum.exec_ast rates conv vs s, bind, Except.bind]
theorem Prod.exec_ast (rates : List (String × F)) (conv : UnitRef → F → UnitRef → Option F)
    (vs : Vars F) : ∀ p : Prod F,
    execAst rates conv vs p.ast = .ok (.item (.number p.value .decimal), vs)
  | .one u => by simpa [Prod.ast, Prod.value] using Unary.exec_ast rates conv vs u
  | .mul p u => by
    simpa [Prod.ast, Prod.value, applyOp] using
      execAst_binary (Prod.exec_ast rates conv vs p) (Unary.exec_ast rates conv vs u) (op := .mul) rfl
  | .div p u => by
    simpa [Prod.ast, Prod.value, applyOp] using
      execAst_binary (Prod.exec_ast rates conv vs p) (Unary.exec_ast rates conv vs u) (op := .div) rfl
theorem Sum.exec_ast (rates : List (String × F)) (conv : UnitRef → F → UnitRef → Option F)
    (vs : Vars F) : ∀ s : Sum F,
    execAst rates conv vs s.ast = .ok (.item (.number s.value .decimal), vs)
  | .one p => by simpa [Sum.ast, Sum.value] using Prod.exec_ast rates conv vs p
  | .add s p => by
    simpa [Sum.ast, Sum.value, applyOp] using
      execAst_binary (Sum.exec_ast rates conv vs s) (Prod.exec_ast rates conv vs p) (op := .plus) rfl
  | .sub s p => by
    simpa [Sum.ast, Sum.value, applyOp] using
      execAst_binary (Sum.exec_ast rates conv vs s) (Prod.exec_ast rates conv vs p) (op := .minus) rfl
end
/-! ### one-step unfolding lemmas for the parser -/

theorem parseLevel_three {fuel : Nat} {ts : List (Tok F)} {r : PRes F}
    (h : parseUnary fuel ts = r) : parseLevel (fuel + 1) 3 ts = r := by
  rw [parseLevel]; simpa using h

theorem parseLevel_lt {fuel lvl : Nat} {ts ts' : List (Tok F)} {a : Ast F} (hl : lvl < 3)
    (hp : parseLevel fuel (lvl + 1) ts = .ok (a, ts')) (ha : a ≠ .none) :
    parseLevel (fuel + 1) lvl ts = binLoop fuel lvl a ts' := by
  rw [parseLevel]
  simp only [show ¬ lvl ≥ 3 by omega, if_false, hp]

theorem binLoop_none {fuel lvl : Nat} {a : Ast F} {ts : List (Tok F)}
    (h : matchOp (levelOps lvl) ts = none) : binLoop (fuel + 1) lvl a ts = .ok (a, ts) := by
  rw [binLoop]; simp [h]

theorem binLoop_step {fuel lvl : Nat} {a r : Ast F} {o : Op} {ts ts1 ts2 : List (Tok F)}
    (hm : matchOp (levelOps lvl) ts = some (o, ts1))
    (hr : rightLoop fuel lvl ts1 = .ok (r, ts2)) :
    binLoop (fuel + 1) lvl a ts = binLoop fuel lvl (.binary a o r) ts2 := by
  rw [binLoop]; simp [hm, hr]

theorem rightLoop_ok {fuel lvl : Nat} {ts ts' : List (Tok F)} {a : Ast F}
    (hp : parseLevel fuel (lvl + 1) ts = .ok (a, ts')) (ha : a ≠ .none) :
    rightLoop (fuel + 1) lvl ts = .ok (a, ts') := by
  rw [rightLoop]
  simp only [hp]

theorem parseParenBody_ok {fuel : Nat} {ts ts' : List (Tok F)} {a : Ast F}
    (hp : parseLevel fuel 0 ts = .ok (a, .op .rparen :: ts')) (ha : a ≠ .none) :
    parseParenBody (fuel + 1) ts = .ok (a, ts') := by
  rw [parseParenBody]
  simp only [hp]
  cases a <;> simp_all [matchOp]

theorem parseUnary_lit (fuel : Nat) (v : F) (rest : List (Tok F)) :
    parseUnary (fuel + 1) (litTok v :: rest) = .ok (.item (.number v .decimal), rest) := by
  simp [parseUnary, litTok, parseBasic]

theorem parseUnary_sign_lit (fuel : Nat) (o : Op) (ho : o.isSign = true) (v : F) (rest : List (Tok F)) :
    parseUnary (fuel + 1) (.op o :: litTok v :: rest) =
      .ok (.item (.number (Num.mul v (Num.ofInt (signOf o))) .decimal), rest) := by
  simp [parseUnary, litTok, ho, Tok.isOpOf, prefixOperand]

theorem parseUnary_sign_paren {fuel : Nat} {o : Op} (ho : o.isSign = true) {ts ts' : List (Tok F)}
    {a : Ast F} (hp : parseParenBody fuel ts = .ok (a, ts')) :
    parseUnary (fuel + 1) (.op o :: .op .lparen :: ts) = .ok (.prefixUnary o a, ts') := by
  simp [parseUnary, ho, Tok.isOpOf, hp]

theorem parseUnary_paren (fuel : Nat) (ts : List (Tok F)) :
    parseUnary (fuel + 1) (.op .lparen :: ts) = parseParenBody fuel ts := by
  simp [parseUnary, Op.isSign]

/-! ### parsing the tokens of a tree (with a continuation `rest` and explicit fuel bounds) -/

/-- what may follow a complete product: not `*`, `/`, `%` -/
def ProdEnd (rest : List (Tok F)) : Prop :=
  matchOp (levelOps 2) rest = none ∧ matchOp (levelOps 1) rest = none

/-- what may follow a complete sum: not `*`, `/`, `%`, `+`, `-` -/
def SumEnd (rest : List (Tok F)) : Prop :=
  ProdEnd rest ∧ matchOp (levelOps 0) rest = none

omit [Num F] in
theorem prodEnd_nil : ProdEnd ([] : List (Tok F)) := by simp [ProdEnd, matchOp]
omit [Num F] in
theorem sumEnd_nil : SumEnd ([] : List (Tok F)) := by simp [SumEnd, ProdEnd, matchOp]
omit [Num F] in
theorem sumEnd_rparen (rest : List (Tok F)) : SumEnd (.op .rparen :: rest) := by
  simp [SumEnd, ProdEnd, matchOp, levelOps]
omit [Num F] in
theorem prodEnd_plus (rest : List (Tok F)) : ProdEnd (.op .plus :: rest) := by
  simp [ProdEnd, matchOp, levelOps]
omit [Num F] in
theorem prodEnd_minus (rest : List (Tok F)) : ProdEnd (.op .minus :: rest) := by
  simp [ProdEnd, matchOp, levelOps]

/-- the spine statement at level 2: the tokens of `p` followed by `rest` lead to the loop of
    level 2 with `p.ast` accumulated and `rest` to go -/
def ProdSpine (p : Prod F) : Prop :=
  ∀ (f : Nat) (rest : List (Tok F)), f ≥ 4 * p.toks.length + 3 →
    ∃ f', f' + p.toks.length + 1 ≥ f ∧ parseLevel f 2 (p.toks ++ rest) = binLoop f' 2 p.ast rest

def SumSpine (s : Sum F) : Prop :=
  ∀ (f : Nat) (rest : List (Tok F)), f ≥ 4 * s.toks.length + 5 → ProdEnd rest →
    ∃ f', f' + s.toks.length + 1 ≥ f ∧ parseLevel f 0 (s.toks ++ rest) = binLoop f' 0 s.ast rest

theorem level2_of_spine {p : Prod F} (hs : ProdSpine p) (f : Nat) (rest : List (Tok F))
    (hf : f ≥ 4 * p.toks.length + 3) (hr : matchOp (levelOps 2) rest = none) :
    parseLevel f 2 (p.toks ++ rest) = .ok (p.ast, rest) := by
  obtain ⟨f', hf', h2⟩ := hs f rest hf
  obtain ⟨k, rfl⟩ : ∃ k, f' = k + 1 := ⟨f' - 1, by omega⟩
  rw [h2, binLoop_none hr]

theorem level1_of_spine {p : Prod F} (hs : ProdSpine p) (f : Nat) (rest : List (Tok F))
    (hf : f ≥ 4 * p.toks.length + 4) (hr : ProdEnd rest) :
    parseLevel f 1 (p.toks ++ rest) = .ok (p.ast, rest) := by
  obtain ⟨g, rfl⟩ : ∃ g, f = g + 2 := ⟨f - 2, by omega⟩
  have h2 := level2_of_spine hs (g + 1) rest (by omega) hr.1
  rw [parseLevel_lt (by omega) h2 (Prod.ast_ne_none p)]
  exact binLoop_none hr.2

theorem level0_of_spine {s : Sum F} (hs : SumSpine s) (f : Nat) (rest : List (Tok F))
    (hf : f ≥ 4 * s.toks.length + 5) (hr : SumEnd rest) :
    parseLevel f 0 (s.toks ++ rest) = .ok (s.ast, rest) := by
  obtain ⟨f', hf', h2⟩ := hs f rest hf hr.1
  obtain ⟨k, rfl⟩ : ∃ k, f' = k + 1 := ⟨f' - 1, by omega⟩
  rw [h2, binLoop_none hr.2]

theorem parenBody_of_spine {s : Sum F} (hs : SumSpine s) (f : Nat) (rest : List (Tok F))
    (hf : f ≥ 4 * s.toks.length + 6) :
    parseParenBody f (s.toks ++ .op .rparen :: rest) = .ok (s.ast, rest) := by
  obtain ⟨g, rfl⟩ : ∃ g, f = g + 1 := ⟨f - 1, by omega⟩
  exact parseParenBody_ok (level0_of_spine hs g _ (by omega) (sumEnd_rparen rest)) (Sum.ast_ne_none s)

mutual
theorem Prim.parse : ∀ (p : Prim F) (f : Nat) (rest : List (Tok F)), f ≥ 4 * p.toks.length + 1 →
    parseUnary f (p.toks ++ rest) = .ok (p.ast, rest)
  | .lit v, f, rest, hf => by
    obtain ⟨g, rfl⟩ : ∃ g, f = g + 1 := ⟨f - 1, by omega⟩
    simpa [Prim.toks, Prim.ast] using parseUnary_lit g v rest
  | .paren s, f, rest, hf => by
    simp only [Prim.toks, List.length_cons, List.length_append, List.length_nil] at hf
    obtain ⟨g, rfl⟩ : ∃ g, f = g + 1 := ⟨f - 1, by omega⟩
    simp only [Prim.toks, Prim.ast, List.cons_append, List.append_assoc, List.nil_append]
    rw [parseUnary_paren]
    exact parenBody_of_spine (Sum.parse_spine s) g rest (by omega)
theorem Unary.parse : ∀ (u : Unary F) (f : Nat) (rest : List (Tok F)), f ≥ 4 * u.toks.length + 1 →
    parseUnary f (u.toks ++ rest) = .ok (u.ast, rest)
  | .prim p, f, rest, hf => by
    simpa [Unary.toks, Unary.ast] using Prim.parse p f rest (by simpa [Unary.toks] using hf)
  | .neg (.lit v), f, rest, hf => by
    obtain ⟨g, rfl⟩ : ∃ g, f = g + 1 := ⟨f - 1, by omega⟩
    simpa [Unary.toks, Prim.toks, Unary.ast, signOf] using parseUnary_sign_lit g .minus rfl v rest
  | .pos (.lit v), f, rest, hf => by
    obtain ⟨g, rfl⟩ : ∃ g, f = g + 1 := ⟨f - 1, by omega⟩
    simpa [Unary.toks, Prim.toks, Unary.ast, signOf] using parseUnary_sign_lit g .plus rfl v rest
  | .neg (.paren s), f, rest, hf => by
    simp only [Unary.toks, Prim.toks, List.length_cons, List.length_append, List.length_nil] at hf
    obtain ⟨g, rfl⟩ : ∃ g, f = g + 1 := ⟨f - 1, by omega⟩
    simp only [Unary.toks, Prim.toks, Unary.ast, List.cons_append, List.append_assoc, List.nil_append]
    exact parseUnary_sign_paren rfl (parenBody_of_spine (Sum.parse_spine s) g rest (by omega))
  | .pos (.paren s), f, rest, hf => by
    simp only [Unary.toks, Prim.toks, List.length_cons, List.length_append, List.length_nil] at hf
    obtain ⟨g, rfl⟩ : ∃ g, f = g + 1 := ⟨f - 1, by omega⟩
    simp only [Unary.toks, Prim.toks, Unary.ast, List.cons_append, List.append_assoc, List.nil_append]
    exact parseUnary_sign_paren rfl (parenBody_of_spine (Sum.parse_spine s) g rest (by omega))
theorem Prod.parse_spine : ∀ (p : Prod F), ProdSpine p
  | .one u, f, rest, hf => by
    simp only [Prod.toks] at hf
    obtain ⟨g, rfl⟩ : ∃ g, f = g + 2 := ⟨f - 2, by omega⟩
    refine ⟨g + 1, by omega, ?_⟩
    simp only [Prod.toks, Prod.ast]
    exact parseLevel_lt (by omega) (parseLevel_three (Unary.parse u g rest (by omega)))
      (Unary.ast_ne_none u)
  | .mul p u, f, rest, hf => by
    simp only [Prod.toks, List.length_append, List.length_cons] at hf
    obtain ⟨f', hf', hp⟩ := Prod.parse_spine p f (.op .mul :: (u.toks ++ rest)) (by omega)
    obtain ⟨g, rfl⟩ : ∃ g, f' = g + 3 := ⟨f' - 3, by omega⟩
    refine ⟨g + 2, by simp only [Prod.toks, List.length_append, List.length_cons]; omega, ?_⟩
    simp only [Prod.toks, Prod.ast, List.append_assoc, List.cons_append]
    rw [hp]
    exact binLoop_step (by simp [matchOp, levelOps])
      (rightLoop_ok (parseLevel_three (Unary.parse u g rest (by omega))) (Unary.ast_ne_none u))
  | .div p u, f, rest, hf => by
    simp only [Prod.toks, List.length_append, List.length_cons] at hf
    obtain ⟨f', hf', hp⟩ := Prod.parse_spine p f (.op .div :: (u.toks ++ rest)) (by omega)
    obtain ⟨g, rfl⟩ : ∃ g, f' = g + 3 := ⟨f' - 3, by omega⟩
    refine ⟨g + 2, by simp only [Prod.toks, List.length_append, List.length_cons]; omega, ?_⟩
    simp only [Prod.toks, Prod.ast, List.append_assoc, List.cons_append]
    rw [hp]
    exact binLoop_step (by simp [matchOp, levelOps])
      (rightLoop_ok (parseLevel_three (Unary.parse u g rest (by omega))) (Unary.ast_ne_none u))
theorem Sum.parse_spine : ∀ (s : Sum F), SumSpine s
  | .one p, f, rest, hf, hr => by
    simp only [Sum.toks] at hf
    obtain ⟨g, rfl⟩ : ∃ g, f = g + 1 := ⟨f - 1, by omega⟩
    refine ⟨g, by omega, ?_⟩
    simp only [Sum.toks, Sum.ast]
    exact parseLevel_lt (by omega) (level1_of_spine (Prod.parse_spine p) g rest (by omega) hr)
      (Prod.ast_ne_none p)
  | .add s p, f, rest, hf, hr => by
    simp only [Sum.toks, List.length_append, List.length_cons] at hf
    obtain ⟨f', hf', hp⟩ :=
      Sum.parse_spine s f (.op .plus :: (p.toks ++ rest)) (by omega) (prodEnd_plus _)
    obtain ⟨g, rfl⟩ : ∃ g, f' = g + 2 := ⟨f' - 2, by omega⟩
    refine ⟨g + 1, by simp only [Sum.toks, List.length_append, List.length_cons]; omega, ?_⟩
    simp only [Sum.toks, Sum.ast, List.append_assoc, List.cons_append]
    rw [hp]
    exact binLoop_step (by simp [matchOp, levelOps])
      (rightLoop_ok (level1_of_spine (Prod.parse_spine p) g rest (by omega) hr) (Prod.ast_ne_none p))
  | .sub s p, f, rest, hf, hr => by
    simp only [Sum.toks, List.length_append, List.length_cons] at hf
    obtain ⟨f', hf', hp⟩ :=
      Sum.parse_spine s f (.op .minus :: (p.toks ++ rest)) (by omega) (prodEnd_minus _)
    obtain ⟨g, rfl⟩ : ∃ g, f' = g + 2 := ⟨f' - 2, by omega⟩
    refine ⟨g + 1, by simp only [Sum.toks, List.length_append, List.length_cons]; omega, ?_⟩
    simp only [Sum.toks, Sum.ast, List.append_assoc, List.cons_append]
    rw [hp]
    exact binLoop_step (by simp [matchOp, levelOps])
      (rightLoop_ok (level1_of_spine (Prod.parse_spine p) g rest (by omega) hr) (Prod.ast_ne_none p))
end

/-- parsing a whole tree with the fuel `parseExpr` provides -/
theorem Sum.parseExpr_toks (s : Sum F) : parseExpr s.toks = .ok (s.ast, []) := by
  have := level0_of_spine (Sum.parse_spine s) (parseFuel s.toks) [] (by simp [parseFuel]; omega) sumEnd_nil
  simpa [parseExpr] using this

/-! ### `missing_token_adder` on the tokens of a tree -/

omit [Num F] in
theorem insertPlus_lit (v : F) (rest : List (Tok F)) :
    insertPlus false (litTok v :: rest) = litTok v :: insertPlus true rest := by
  simp [insertPlus, litTok, Tok.isOp, Tok.isOpOf]

omit [Num F] in
/-- an operator other than `)` is copied; the operand after it needs no `+` -/
theorem insertPlus_op (b : Bool) (o : Op) (ho : o ≠ .rparen) (rest : List (Tok F)) :
    insertPlus b (.op o :: rest) = .op o :: insertPlus false rest := by
  simp [insertPlus, Tok.isOp, Tok.isOpOf, ho]

omit [Num F] in
/-- `)` is copied; it ends an operand -/
theorem insertPlus_rparen (b : Bool) (rest : List (Tok F)) :
    insertPlus b (.op .rparen :: rest) = .op .rparen :: insertPlus true rest := by
  simp [insertPlus, Tok.isOpOf]

/- Invariant: the tokens of a tree are entered with "no operator required" (line start, or
   right after `(`, a sign or a binary operator), are copied unchanged, and are left with
   "operator required" (a tree ends with a literal or with `)`).  Inside the tree a `)` is
   followed by an operator, another `)` or the end, so the new `)`-branch inserts nothing. -/
omit [Num F] in
mutual
theorem Prim.insertPlus_append : ∀ (p : Prim F) (rest : List (Tok F)),
    insertPlus false (p.toks ++ rest) = p.toks ++ insertPlus true rest
  | .lit v, rest => by simp [Prim.toks, insertPlus_lit]
  | .paren s, rest => by
    simp [Prim.toks, insertPlus_op, Sum.insertPlus_append s, insertPlus_rparen]
theorem Unary.insertPlus_append : ∀ (u : Unary F) (rest : List (Tok F)),
    insertPlus false (u.toks ++ rest) = u.toks ++ insertPlus true rest
  | .prim p, rest => by simpa [Unary.toks] using Prim.insertPlus_append p rest
  | .neg p, rest => by simp [Unary.toks, insertPlus_op, Prim.insertPlus_append p]
  | .pos p, rest => by simp [Unary.toks, insertPlus_op, Prim.insertPlus_append p]
theorem Prod.insertPlus_append : ∀ (p : Prod F) (rest : List (Tok F)),
    insertPlus false (p.toks ++ rest) = p.toks ++ insertPlus true rest
  | .one u, rest => by simpa [Prod.toks] using Unary.insertPlus_append u rest
  | .mul p u, rest => by
    simp [Prod.toks, Prod.insertPlus_append p, insertPlus_op, Unary.insertPlus_append u]
  | .div p u, rest => by
    simp [Prod.toks, Prod.insertPlus_append p, insertPlus_op, Unary.insertPlus_append u]
theorem Sum.insertPlus_append : ∀ (s : Sum F) (rest : List (Tok F)),
    insertPlus false (s.toks ++ rest) = s.toks ++ insertPlus true rest
  | .one p, rest => by simpa [Sum.toks] using Prod.insertPlus_append p rest
  | .add s p, rest => by
    simp [Sum.toks, Sum.insertPlus_append s, insertPlus_op, Prod.insertPlus_append p]
  | .sub s p, rest => by
    simp [Sum.toks, Sum.insertPlus_append s, insertPlus_op, Prod.insertPlus_append p]
end

omit [Num F] in
theorem Sum.insertPlus_toks (s : Sum F) : insertPlus false s.toks = s.toks := by
  simpa [insertPlus] using Sum.insertPlus_append s []

omit [Num F] in
/-- a list `insertPlus` leaves alone has only suffixes `insertPlus false` leaves alone -/
theorem insertPlus_drop (l : List (Tok F)) : ∀ (b : Bool), insertPlus b l = l →
    ∀ i, insertPlus false (l.drop i) = l.drop i := by
  induction l with
  | nil => intro b _ i; simp [insertPlus]
  | cons t ts ih =>
    intro b h i
    by_cases hr : t.isOpOf .rparen = true
    · have h' : insertPlus true ts = ts := by simpa [insertPlus, hr] using h
      cases i with
      | zero => simp [insertPlus, hr, h']
      | succ i => simpa using ih true h' i
    · by_cases ht : t.isOp = true
      · have h' : insertPlus false ts = ts := by simpa [insertPlus, hr, ht] using h
        cases i with
        | zero => simp [insertPlus, hr, ht, h']
        | succ i => simpa using ih false h' i
      · cases b with
        | true =>
          exfalso
          simp only [insertPlus, hr, ht] at h
          simp at h
          rw [← h.1] at ht
          simp [Tok.isOp] at ht
        | false =>
          have h' : insertPlus true ts = ts := by simpa [insertPlus, hr, ht] using h
          cases i with
          | zero => simp [insertPlus, hr, ht, h']
          | succ i => simpa using ih true h' i

omit [Num F] in
mutual
theorem Prim.not_assign : ∀ (p : Prim F) (t : Tok F), t ∈ p.toks → t.isOpOf .assign = false
  | .lit v, t, h => by simp [Prim.toks, litTok] at h; subst h; rfl
  | .paren s, t, h => by
    simp [Prim.toks] at h
    rcases h with rfl | h | rfl
    · rfl
    · exact Sum.not_assign s t h
    · rfl
theorem Unary.not_assign : ∀ (u : Unary F) (t : Tok F), t ∈ u.toks → t.isOpOf .assign = false
  | .prim p, t, h => Prim.not_assign p t (by simpa [Unary.toks] using h)
  | .neg p, t, h => by
    simp [Unary.toks] at h
    rcases h with rfl | h
    · rfl
    · exact Prim.not_assign p t h
  | .pos p, t, h => by
    simp [Unary.toks] at h
    rcases h with rfl | h
    · rfl
    · exact Prim.not_assign p t h
theorem Prod.not_assign : ∀ (p : Prod F) (t : Tok F), t ∈ p.toks → t.isOpOf .assign = false
  | .one u, t, h => Unary.not_assign u t (by simpa [Prod.toks] using h)
  | .mul p u, t, h => by
    simp [Prod.toks] at h
    rcases h with h | rfl | h
    · exact Prod.not_assign p t h
    · rfl
    · exact Unary.not_assign u t h
  | .div p u, t, h => by
    simp [Prod.toks] at h
    rcases h with h | rfl | h
    · exact Prod.not_assign p t h
    · rfl
    · exact Unary.not_assign u t h
theorem Sum.not_assign : ∀ (s : Sum F) (t : Tok F), t ∈ s.toks → t.isOpOf .assign = false
  | .one p, t, h => Prod.not_assign p t (by simpa [Sum.toks] using h)
  | .add s p, t, h => by
    simp [Sum.toks] at h
    rcases h with h | rfl | h
    · exact Sum.not_assign s t h
    · rfl
    · exact Prod.not_assign p t h
  | .sub s p, t, h => by
    simp [Sum.toks] at h
    rcases h with h | rfl | h
    · exact Sum.not_assign s t h
    · rfl
    · exact Prod.not_assign p t h
end

/-- `missing_token_adder` leaves a list alone when `insertPlus` does and no sign stands at the
    start position -/
theorem missingTokenAdder_stable (toks : List (Tok F)) (hi : insertPlus false toks = toks)
    (h : ∀ i t, adderStart toks = some i → toks[i]? = some t →
      (t.isOpOf .plus || t.isOpOf .minus) = false) :
    missingTokenAdder toks = toks := by
  unfold missingTokenAdder
  cases hs : adderStart toks with
  | none => rfl
  | some i =>
    simp only
    have hd := insertPlus_drop toks false hi i
    cases hr : toks.drop i with
    | nil =>
      have hl : toks.length ≤ i := by simpa using hr
      simp [insertPlus, List.take_of_length_le hl]
    | cons t rest =>
      have ht : toks[i]? = some t := by
        have := List.head?_drop (l := toks) (i := i)
        rw [hr] at this; simpa using this.symm
      have := h i t hs ht
      simp only [this, Bool.false_eq_true, if_false]
      rw [← hr, hd, List.take_append_drop]

/-! ### literals written side by side -/

/-- the product consisting of one literal -/
def litProd (v : F) : Prod F := .one (.prim (.lit v))

/-- `s + w₁ + w₂ + …` -/
def sumOfLits (s : Sum F) (ws : List F) : Sum F := ws.foldl (fun s w => .add s (litProd w)) s

omit [Num F] in
theorem sumOfLits_toks (s : Sum F) (ws : List F) :
    (sumOfLits s ws).toks = s.toks ++ insertPlus true (ws.map litTok) := by
  induction ws generalizing s with
  | nil => simp [sumOfLits, insertPlus]
  | cons w ws ih =>
    have := ih (.add s (litProd w))
    simp only [sumOfLits, List.foldl_cons] at this ⊢
    rw [this]
    simp [Sum.toks, Prod.toks, Unary.toks, Prim.toks, litProd, insertPlus, litTok, Tok.isOp, Tok.isOpOf]

theorem sumOfLits_value (s : Sum F) (ws : List F) :
    (sumOfLits s ws).value = ws.foldl Num.add s.value := by
  induction ws generalizing s with
  | nil => simp [sumOfLits]
  | cons w ws ih =>
    have := ih (.add s (litProd w))
    simp only [sumOfLits, List.foldl_cons] at this ⊢
    rw [this]
    simp [Sum.value, Prod.value, Unary.value, Prim.value, litProd]

omit [Num F] in
theorem findIdx_lits (ws : List F) :
    (ws.map litTok).findIdx? (fun t : Tok F => t.isOpOf .assign) = none := by
  rw [List.findIdx?_eq_none_iff]
  intro t ht
  simp only [List.mem_map] at ht
  obtain ⟨w, _, rfl⟩ := ht
  simp [litTok, Tok.isOpOf]

theorem adder_lits (v : F) (ws : List F) :
    missingTokenAdder ((v :: ws).map litTok) = litTok v :: insertPlus true (ws.map litTok) := by
  cases ws with
  | nil =>
    simp [missingTokenAdder, adderStart, insertPlus, List.findIdx?_cons, litTok, Tok.isOpOf]
  | cons w ws =>
    have hs : adderStart ((v :: w :: ws).map litTok) = some 0 := by
      unfold adderStart
      rw [findIdx_lits]
      simp
    unfold missingTokenAdder
    rw [hs]
    simp [litTok, Tok.isOpOf, insertPlus, Tok.isOp]

end SC.Spec
