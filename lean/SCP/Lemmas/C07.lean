/-
  SCP.Lemmas.C07 — helper lemmas for SCP.C07 (digits, rounding, grouping).
-/
import SC.Format
namespace SCP.Lemmas.C07
open SC

/-! ### digits -/

theorem digitOf_radixDigit' : ∀ d, d < 16 → digitOf (radixDigit d) = d := by decide

theorem radixValue_nil (b : Nat) : radixValue b [] = 0 := rfl

theorem radixValue_append' (b : Nat) (xs : List Char) (c : Char) :
    radixValue b (xs ++ [c]) = radixValue b xs * b + digitOf c := by
  simp [radixValue, List.foldl_append]

/-- the fuelled digit loop reads back to its argument -/
theorem radixValue_natToRadix (b : Nat) (hb : 2 ≤ b) (hb' : b ≤ 16) :
    ∀ fuel n, n < fuel → radixValue b (natToRadix b fuel n) = n := by
  intro fuel
  induction fuel with
  | zero => intro n h; omega
  | succ fuel ih =>
    intro n h
    unfold natToRadix
    by_cases hn : n = 0
    · simp [hn, radixValue_nil]
    · have hlt : n / b < fuel := by
        have : n / b < n := Nat.div_lt_self (by omega) (by omega)
        omega
      have hm : n % b < 16 := by
        have : n % b < b := Nat.mod_lt _ (by omega)
        omega
      rw [if_neg hn, radixValue_append', ih _ hlt, digitOf_radixDigit' _ hm]
      exact Nat.div_add_mod' n b

theorem radixValue_radixDigits' (b n : Nat) (hb : 2 ≤ b) (hb' : b ≤ 16) :
    radixValue b (radixDigits b n) = n := by
  unfold radixDigits
  by_cases hn : n = 0
  · subst hn; simp [radixValue, show digitOf '0' = 0 by decide]
  · rw [if_neg hn]; exact radixValue_natToRadix b hb hb' _ _ (by omega)

theorem natToRadix_ne_nil (b fuel n : Nat) (hn : n ≠ 0) : natToRadix b (fuel + 1) n ≠ [] := by
  unfold natToRadix
  simp [hn]

theorem radixDigits_ne_nil' (b n : Nat) : radixDigits b n ≠ [] := by
  unfold radixDigits
  by_cases hn : n = 0
  · simp [hn]
  · rw [if_neg hn]; exact natToRadix_ne_nil b n n hn

/-- number of digits: `m < b^k` prints with at most `k` digits -/
theorem natToRadix_length (b : Nat) (hb : 2 ≤ b) :
    ∀ fuel m k, m < b ^ k → (natToRadix b fuel m).length ≤ k := by
  intro fuel
  induction fuel with
  | zero => intro m k _; simp [natToRadix]
  | succ fuel ih =>
    intro m k h
    unfold natToRadix
    by_cases hm : m = 0
    · simp [hm]
    · rw [if_neg hm]
      cases k with
      | zero => simp at h; omega
      | succ k =>
        have : m / b < b ^ k := by
          rw [Nat.div_lt_iff_lt_mul (by omega)]
          rw [Nat.pow_succ] at h; exact h
        have := ih (m / b) k this
        simp; omega

theorem radixDigits_length (b : Nat) (hb : 2 ≤ b) (m k : Nat) (hk : 0 < k) (h : m < b ^ k) :
    (radixDigits b m).length ≤ k := by
  unfold radixDigits
  by_cases hm : m = 0
  · simp [hm]; omega
  · rw [if_neg hm]; exact natToRadix_length b hb _ _ _ h

theorem radixValue_replicate_zero (b k : Nat) (ds : List Char) :
    radixValue b (List.replicate k '0' ++ ds) = radixValue b ds := by
  induction k with
  | zero => simp
  | succ k ih =>
    have h0 : digitOf '0' = 0 := by decide
    simp only [radixValue, List.replicate_succ, List.cons_append, List.foldl_cons] at ih ⊢
    simpa [h0] using ih

theorem radixValue_padZeros (b w : Nat) (ds : List Char) :
    radixValue b (padZeros w ds) = radixValue b ds := by
  unfold padZeros; exact radixValue_replicate_zero b _ ds

theorem padZeros_length (w : Nat) (ds : List Char) (h : ds.length ≤ w) :
    (padZeros w ds).length = w := by
  unfold padZeros; simp; omega


/-! ### rounding -/

/-- the rounding step of `fixedParts` (round half to even), as a function -/
def rq (scaled den : Nat) : Nat :=
  let q := scaled / den
  let r := scaled % den
  if 2 * r > den || (2 * r = den && q % 2 = 1) then q + 1 else q

theorem rq_nearest (scaled den : Nat) (hd : 0 < den) :
    2 * (rq scaled den * den - scaled) ≤ den ∧ 2 * (scaled - rq scaled den * den) ≤ den := by
  have h1 := Nat.div_add_mod scaled den
  have h2 := Nat.mod_lt scaled hd
  unfold rq
  simp only []
  generalize hq : scaled / den = q at *
  generalize hr : scaled % den = r at *
  generalize hp : den * q = p at *
  split
  · rename_i hc
    have hc' : 2 * r > den ∨ 2 * r = den := by
      simp at hc; omega
    have : (q + 1) * den = p + den := by rw [Nat.add_mul, Nat.mul_comm q den, hp]; simp
    rw [this]; omega
  · rename_i hc
    have hc' : ¬ 2 * r > den := by
      simp at hc; omega
    have : q * den = p := by rw [Nat.mul_comm, hp]
    rw [this]; omega

theorem rq_tie_even (scaled den : Nat) (htie : 2 * (scaled % den) = den) :
    rq scaled den % 2 = 0 := by
  unfold rq
  simp only []
  split
  · rename_i hc
    simp [htie] at hc
    omega
  · rename_i hc
    simp [htie] at hc
    omega

theorem fixedParts_eq (num den n : Nat) :
    fixedParts num den n =
      (natToDigits (rq (num * 10 ^ n) den / 10 ^ n),
        if n = 0 then [] else padZeros n (natToDigits (rq (num * 10 ^ n) den % 10 ^ n))) := rfl

theorem fixedParts_value' (num den n : Nat) (hn : 0 < n) :
    radixValue 10 (fixedParts num den n).1 * 10 ^ n + radixValue 10 (fixedParts num den n).2
        = rq (num * 10 ^ n) den ∧
      (fixedParts num den n).2.length = n := by
  rw [fixedParts_eq]
  simp only [if_neg (Nat.ne_of_gt hn), natToDigits]
  generalize rq (num * 10 ^ n) den = q
  have hlt : q % 10 ^ n < 10 ^ n := Nat.mod_lt _ (Nat.pow_pos (by omega))
  constructor
  · rw [radixValue_padZeros, radixValue_radixDigits' 10 _ (by omega) (by omega),
      radixValue_radixDigits' 10 _ (by omega) (by omega)]
    exact Nat.div_add_mod' q (10 ^ n)
  · exact padZeros_length _ _ (radixDigits_length 10 (by omega) _ _ hn hlt)


/-! ### grouping -/

theorem groupThousands_cons (sep : List Char) (c : Char) (cs : List Char) :
    groupThousands sep (c :: cs) =
      if cs.length > 0 && cs.length % 3 = 0 then c :: sep ++ groupThousands sep cs
      else c :: groupThousands sep cs := rfl

theorem filter_groupThousands (sep : Char) (ds : List Char) (h : sep ∉ ds) :
    (groupThousands [sep] ds).filter (· ≠ sep) = ds := by
  induction ds with
  | nil => simp [groupThousands]
  | cons c cs ih =>
    have hc : c ≠ sep := by intro e; apply h; simp [e]
    have hcs : sep ∉ cs := by intro e; apply h; simp [e]
    rw [groupThousands_cons]
    split <;> simpa [hc] using ih hcs

theorem groupThousands_nil_sep (ds : List Char) : groupThousands [] ds = ds := by
  induction ds with
  | nil => rfl
  | cons c cs ih => rw [groupThousands_cons]; simp [ih]

/-- cut into threes from the left -/
def chunks3 : List Char → List (List Char)
  | a :: b :: c :: rest => [a, b, c] :: chunks3 rest
  | _ => []

theorem chunks3_flatten : ∀ l : List Char, l.length % 3 = 0 → (chunks3 l).flatten = l := by
  intro l
  fun_induction chunks3 l with
  | case1 a b c rest ih =>
    intro h
    simp only [List.length_cons] at h
    simp [ih (by omega)]
  | case2 l hne =>
    intro h
    match l, hne, h with
    | [], _, _ => rfl
    | [_], _, h => simp at h
    | [_, _], _, h => simp at h
    | a :: b :: c :: rest, hne, _ => exact absurd rfl (hne a b c rest)

theorem intercalate_cons_head (sep : List Char) (c : Char) (a : List Char) (r : List (List Char)) :
    List.intercalate sep ((c :: a) :: r) = c :: List.intercalate sep (a :: r) := by
  cases r with
  | nil => simp [List.intercalate]
  | cons b r => simp [List.intercalate_cons_cons]


/-- groups from the right: first group 1..3 characters, then threes -/
def gfr : List Char → List (List Char)
  | [] => []
  | ds =>
    let k := (ds.length - 1) % 3 + 1
    ds.take k :: chunks3 (ds.drop k)

theorem gfr_cons (c : Char) (cs : List Char) :
    gfr (c :: cs) = (c :: cs.take (cs.length % 3)) :: chunks3 (cs.drop (cs.length % 3)) := by
  simp [gfr]

theorem gfr_of_mod_ne (cs : List Char) (h : cs.length % 3 ≠ 0) :
    gfr cs = cs.take (cs.length % 3) :: chunks3 (cs.drop (cs.length % 3)) := by
  cases cs with
  | nil => simp at h
  | cons d ds =>
    simp only [List.length_cons] at h
    have e : (ds.length + 1) % 3 = ds.length % 3 + 1 := by omega
    rw [gfr_cons, List.length_cons, e]
    simp

theorem gfr_of_mod_zero (cs : List Char) (hne : cs ≠ []) (h : cs.length % 3 = 0) :
    gfr cs = chunks3 cs ∧ chunks3 cs ≠ [] := by
  match cs, hne, h with
  | [], hne, _ => exact absurd rfl hne
  | [_], _, h => simp at h
  | [_, _], _, h => simp at h
  | a :: b :: c :: rest, _, h =>
    simp only [List.length_cons] at h
    have e : (rest.length + 1 + 1) % 3 = 2 := by omega
    constructor
    · rw [gfr_cons, List.length_cons, List.length_cons, e]
      simp [chunks3]
    · simp [chunks3]

theorem groupThousands_eq_intercalate (sep ds : List Char) :
    groupThousands sep ds = List.intercalate sep (gfr ds) := by
  induction ds with
  | nil => simp [groupThousands, gfr, List.intercalate]
  | cons c cs ih =>
    rw [groupThousands_cons]
    by_cases hnil : cs = []
    · subst hnil; simp [groupThousands, gfr, chunks3, List.intercalate]
    · have hpos : cs.length > 0 := List.length_pos_iff.mpr hnil
      by_cases hm : cs.length % 3 = 0
      · have ⟨h1, h2⟩ := gfr_of_mod_zero cs hnil hm
        rw [if_pos (by simp [hpos, hm]), ih, h1, gfr_cons, hm]
        obtain ⟨g, gs, hg⟩ := List.exists_cons_of_ne_nil h2
        simp [hg, List.intercalate_cons_cons]
      · rw [if_neg (by simp [hm]), ih, gfr_of_mod_ne cs hm, gfr_cons, intercalate_cons_head]

theorem gfr_flatten (ds : List Char) : (gfr ds).flatten = ds := by
  cases ds with
  | nil => simp [gfr]
  | cons c cs =>
    rw [gfr_cons, List.flatten_cons, chunks3_flatten _ (by simp; omega)]
    simp

end SCP.Lemmas.C07
