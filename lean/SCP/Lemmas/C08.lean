/-
  SCP.Lemmas.C08 — helper lemmas for SCP.C08: `str::replace` with a one-character pattern is a
  character-wise substitution; removing / replacing characters that do not occur.
-/
import SC.Format
import SC.Units
import SCP.Lemmas.C07
namespace SCP.Lemmas.C08
open SC

theorem strReplace_go_single (c : Char) (rep : List Char) :
    ∀ fuel s, s.length < fuel →
      strReplace.go [c] rep fuel s = s.flatMap (fun x => if x = c then rep else [x]) := by
  intro fuel
  induction fuel with
  | zero => intro s h; omega
  | succ fuel ih =>
    intro s h
    cases s with
    | nil => simp [strReplace.go]
    | cons x rest =>
      have hr : rest.length < fuel := by simp at h; omega
      by_cases hx : x = c
      · subst hx
        simp [strReplace.go, startsWith, ih rest hr]
      · have hx' : ¬ c = x := fun e => hx e.symm
        simp [strReplace.go, startsWith, ih rest hr, hx, hx']

theorem strReplace_single' (s rep : List Char) (c : Char) :
    strReplace s [c] rep = s.flatMap (fun x => if x = c then rep else [x]) := by
  unfold strReplace
  simp only [List.isEmpty_cons, Bool.false_eq_true, if_false]
  exact strReplace_go_single c rep _ s (by omega)

theorem strReplace_empty_empty (s : List Char) : strReplace s [] [] = s := by
  simp [strReplace]

/-- substituting a character that does not occur changes nothing -/
theorem flatMap_subst_not_mem (c : Char) (rep l : List Char) (h : c ∉ l) :
    l.flatMap (fun x => if x = c then rep else [x]) = l := by
  induction l with
  | nil => rfl
  | cons a l ih =>
    have ha : a ≠ c := by intro e; apply h; simp [e]
    have hl : c ∉ l := by intro e; apply h; simp [e]
    simp [List.flatMap_cons, ha, ih hl]

/-- substituting by nothing is filtering -/
theorem flatMap_remove_eq_filter (t : Char) (l : List Char) :
    l.flatMap (fun x => if x = t then [] else [x]) = l.filter (· ≠ t) := by
  induction l with
  | nil => rfl
  | cons a l ih =>
    by_cases ha : a = t <;> simp [List.flatMap_cons, ha, ih]

theorem filter_ne_not_mem (t : Char) (l : List Char) (h : t ∉ l) : l.filter (· ≠ t) = l := by
  rw [List.filter_eq_self]
  intro a ha
  simp
  intro e; exact h (e ▸ ha)

/-- remove `t` from grouped digits ++ d :: fraction -/
theorem remove_thousands (d t : Char) (hdt : d ≠ t) (ip fp : List Char) (hip : t ∉ ip) (hfp : t ∉ fp) :
    strReplace (SC.groupThousands [t] ip ++ d :: fp) [t] [] = ip ++ d :: fp := by
  rw [strReplace_single', flatMap_remove_eq_filter, List.filter_append,
    SCP.Lemmas.C07.filter_groupThousands t ip hip, List.filter_cons, filter_ne_not_mem t fp hfp]
  simp [hdt]

/-- replace `d` by '.' in digits ++ d :: fraction -/
theorem replace_decimal (d : Char) (ip fp : List Char) (hip : d ∉ ip) (hfp : d ∉ fp) :
    strReplace (ip ++ d :: fp) [d] ['.'] = ip ++ '.' :: fp := by
  rw [strReplace_single', List.flatMap_append, List.flatMap_cons,
    flatMap_subst_not_mem d _ ip hip, flatMap_subst_not_mem d _ fp hfp]
  simp

end SCP.Lemmas.C08
