/-
  SCP.Lemmas.C12 — the walk of `calculate_unit` along a contiguous index chain computes a
  quotient of weights, for every code executor that multiplies by the factor its code denotes.
-/
import SC.Units
namespace SCP.Lemmas.C12
open SC

abbrev UI := UnitItem Rat

/-- the indices of the items are `lo, lo+1, …` (what `BTreeMap<usize, _>` holds for a family
    whose indices are contiguous) -/
def Chain : List UI → Nat → Prop
  | [], _ => True
  | it :: rest, lo => it.index = lo ∧ Chain rest (lo + 1)

theorem findItem_chain (items : List UI) (lo : Nat) (h : Chain items lo) (k : Nat) :
    findItem? items (lo + k) = items[k]? := by
  induction items generalizing lo k with
  | nil => simp [findItem?]
  | cons it rest ih =>
    obtain ⟨h1, h2⟩ := h
    cases k with
    | zero => simp [findItem?, h1]
    | succ k =>
      have hne : ¬ it.index = lo + (k + 1) := by omega
      have := ih (lo + 1) h2 k
      simp only [findItem?] at this ⊢
      rw [List.find?_cons]
      simp only [hne, decide_false]
      rw [show lo + (k + 1) = lo + 1 + k by omega, this]
      simp

theorem chain_index (items : List UI) (lo : Nat) (h : Chain items lo) (k : Nat) (it : UI)
    (hk : items[k]? = some it) : it.index = lo + k := by
  induction items generalizing lo k with
  | nil => simp at hk
  | cons x rest ih =>
    obtain ⟨h1, h2⟩ := h
    cases k with
    | zero => simp at hk; subst hk; simpa using h1
    | succ k =>
      simp at hk
      have := ih (lo + 1) h2 k hk
      omega

/-- weight of the item at position `p`: how many units of position 0 one unit of position `p`
    is, according to the down codes -/
def weight (m : String → Rat) (items : List UI) : Nat → Rat
  | 0 => 1
  | p + 1 => weight m items p * (match items[p + 1]? with | some it => m it.down | none => 1)

/-- neighbouring codes are mutually inverse -/
def InversePairs (m : String → Rat) (items : List UI) : Prop :=
  ∀ p a b, items[p]? = some a → items[p + 1]? = some b → m a.up * m b.down = 1

/-- the executor multiplies by the factor of the code, for the codes of these items -/
def ExecIsMult (ex : String → Rat → Option Rat) (m : String → Rat) (items : List UI) : Prop :=
  ∀ it ∈ items, ∀ v, ex it.up v = some (v * m it.up) ∧ ex it.down v = some (v * m it.down)

theorem weight_ne_zero (m : String → Rat) (items : List UI) (hinv : InversePairs m items) (p : Nat)
    (hp : p < items.length) : weight m items p ≠ 0 := by
  induction p with
  | zero => simp [weight]
  | succ p ih =>
    have hp' : p < items.length := by omega
    have h1 : items[p]? = some items[p] := List.getElem?_eq_getElem hp'
    have h2 : items[p + 1]? = some items[p + 1] := List.getElem?_eq_getElem hp
    have := hinv p _ _ h1 h2
    simp only [weight, h2]
    intro h0
    rcases Rat.mul_eq_zero.mp h0 with h | h
    · exact ih hp' h
    · rw [h] at this; simp at this

theorem weight_succ (m : String → Rat) (items : List UI) (p : Nat) (b : UI) (hb : items[p + 1]? = some b) :
    weight m items (p + 1) = weight m items p * m b.down := by
  simp [weight, hb]

theorem up_base (v u d wp : Rat) (h : u * d = 1) (hwp : wp ≠ 0) : v * u = v * (wp / (wp * d)) := by
  have hd : d ≠ 0 := by intro h0; rw [h0] at h; simp at h
  grind
theorem up_step (v u d wp wq : Rat) (h : u * d = 1) : v * u * (wp * d / wq) = v * (wp / wq) := by
  grind
theorem down_step (v d wp wq : Rat) : v * d * (wp / wq) = v * (wp * d / wq) := by grind

/-- going up: from position `p` to position `q > p` -/
theorem loop_up (ex : String → Rat → Option Rat) (m : String → Rat) (items : List UI) (lo : Nat)
    (hch : Chain items lo) (hex : ExecIsMult ex m items) (hinv : InversePairs m items)
    (q : Nat) (hq : q < items.length) :
    ∀ (n fuel p : Nat) (v : Rat) (cur : UI), p + n + 1 = q → n < fuel → items[p]? = some cur →
      calculateUnitWith.loop ex items (lo + q) true fuel v cur (lo + p + 1) =
        some (v * (weight m items p / weight m items q)) := by
  intro n
  induction n with
  | zero =>
    intro fuel p v cur hpq hf hcur
    cases fuel with
    | zero => omega
    | succ fuel =>
      have hq' : items[p + 1]? = some items[q] := by
        have : p + 1 = q := by omega
        subst this; exact List.getElem?_eq_getElem hq
      have hmem : cur ∈ items := List.mem_of_getElem? hcur
      have hidx : (items[q]).index = lo + q := chain_index items lo hch q _ (List.getElem?_eq_getElem hq)
      have hfind : findItem? items (lo + p + 1) = some items[q] := by
        rw [show lo + p + 1 = lo + (p + 1) by omega, findItem_chain items lo hch]; exact hq'
      rw [calculateUnitWith.loop]
      simp only [if_true, (hex cur hmem v).1, hfind, hidx]
      have hw : weight m items q = weight m items p * m (items[q]).down := by
        have : q = p + 1 := by omega
        subst this; exact weight_succ m items p _ hq'
      have hinv' := hinv p cur _ hcur hq'
      have hwp : weight m items p ≠ 0 := weight_ne_zero m items hinv p (by omega)
      rw [hw]
      congr 1
      exact up_base _ _ _ _ hinv' hwp
  | succ n ih =>
    intro fuel p v cur hpq hf hcur
    cases fuel with
    | zero => omega
    | succ fuel =>
      have hp1 : p + 1 < items.length := by omega
      have hnext : items[p + 1]? = some items[p + 1] := List.getElem?_eq_getElem hp1
      have hmem : cur ∈ items := List.mem_of_getElem? hcur
      have hidx : (items[p + 1]).index = lo + (p + 1) := chain_index items lo hch (p + 1) _ hnext
      have hfind : findItem? items (lo + p + 1) = some items[p + 1] := by
        rw [show lo + p + 1 = lo + (p + 1) by omega, findItem_chain items lo hch]; exact hnext
      have hne : ¬ (lo + (p + 1) = lo + q) := by omega
      rw [calculateUnitWith.loop]
      simp only [if_true, (hex cur hmem v).1, hfind, hidx, hne, if_false]
      have := ih fuel (p + 1) (v * m cur.up) items[p + 1] (by omega) (by omega) hnext
      rw [show lo + (p + 1) + 1 = lo + p + 1 + 1 by omega] at this
      rw [this]
      congr 1
      have hw := weight_succ m items p _ hnext
      have hinv' := hinv p cur _ hcur hnext
      have hwp : weight m items p ≠ 0 := weight_ne_zero m items hinv p (by omega)
      rw [hw]
      exact up_step _ _ _ _ _ hinv'

theorem down_base (v d wq : Rat) (hwq : wq ≠ 0) : v * d = v * (wq * d / wq) := by grind

/-- going down: from position `p + 1` to position `q ≤ p` -/
theorem loop_down (ex : String → Rat → Option Rat) (m : String → Rat) (items : List UI) (lo : Nat)
    (hch : Chain items lo) (hex : ExecIsMult ex m items) (hinv : InversePairs m items) (q : Nat) :
    ∀ (n fuel p : Nat) (v : Rat) (cur : UI), q + n = p → n < fuel → items[p + 1]? = some cur →
      calculateUnitWith.loop ex items (lo + q) false fuel v cur (lo + p) =
        some (v * (weight m items (p + 1) / weight m items q)) := by
  intro n
  induction n with
  | zero =>
    intro fuel p v cur hpq hf hcur
    cases fuel with
    | zero => omega
    | succ fuel =>
      have hpl : p + 1 < items.length := (List.getElem?_eq_some_iff.mp hcur).1
      have hp : p < items.length := by omega
      have hnext : items[p]? = some items[p] := List.getElem?_eq_getElem hp
      have hmem : cur ∈ items := List.mem_of_getElem? hcur
      have hidx : (items[p]).index = lo + p := chain_index items lo hch p _ hnext
      have hfind : findItem? items (lo + p) = some items[p] := by
        rw [findItem_chain items lo hch]; exact hnext
      have hqp : q = p := by omega
      subst hqp
      rw [calculateUnitWith.loop]
      simp only [(hex cur hmem v).2, hfind, hidx, if_true, Bool.false_eq_true, if_false]
      rw [weight_succ m items q cur hcur]
      congr 1
      exact down_base _ _ _ (weight_ne_zero m items hinv q hp)
  | succ n ih =>
    intro fuel p v cur hpq hf hcur
    cases fuel with
    | zero => omega
    | succ fuel =>
      have hpl : p + 1 < items.length := (List.getElem?_eq_some_iff.mp hcur).1
      have hp : p < items.length := by omega
      have hnext : items[p]? = some items[p] := List.getElem?_eq_getElem hp
      have hmem : cur ∈ items := List.mem_of_getElem? hcur
      have hidx : (items[p]).index = lo + p := chain_index items lo hch p _ hnext
      have hfind : findItem? items (lo + p) = some items[p] := by
        rw [findItem_chain items lo hch]; exact hnext
      have hne : ¬ (lo + p = lo + q) := by omega
      have hne0 : ¬ (lo + p = 0) := by omega
      obtain ⟨p', rfl⟩ : ∃ p', p = p' + 1 := ⟨p - 1, by omega⟩
      rw [calculateUnitWith.loop]
      simp only [(hex cur hmem v).2, hfind, hidx, hne, hne0, if_false, Bool.false_eq_true]
      have := ih fuel p' (v * m cur.down) items[p' + 1] (by omega) (by omega) hnext
      rw [show lo + (p' + 1) - 1 = lo + p' by omega, this]
      congr 1
      rw [weight_succ m items (p' + 1) cur hcur]
      exact down_step _ _ _ _

/-- `calculate_unit` between two positions of a contiguous chain multiplies by the quotient of
    the weights -/
theorem calculateUnit_weights (ex : String → Rat → Option Rat) (m : String → Rat) (items : List UI) (lo : Nat)
    (hch : Chain items lo) (hex : ExecIsMult ex m items) (hinv : InversePairs m items)
    (p q : Nat) (hp : p < items.length) (hq : q < items.length) (v : Rat) :
    calculateUnitWith ex items v (lo + p) (lo + q) = some (v * (weight m items p / weight m items q)) := by
  unfold calculateUnitWith
  by_cases hpq : p = q
  · subst hpq
    have := weight_ne_zero m items hinv p hp
    simp only [if_true]
    congr 1
    grind
  · have hne : ¬ (lo + p = lo + q) := by omega
    have hcur : items[p]? = some items[p] := List.getElem?_eq_getElem hp
    have hfind : findItem? items (lo + p) = some items[p] := by
      rw [findItem_chain items lo hch]; exact hcur
    simp only [hne, if_false, hfind]
    by_cases hlt : p < q
    · have hup : (!decide (lo + p > lo + q)) = true := by simp; omega
      simp only [hup, if_true]
      exact loop_up ex m items lo hch hex hinv q hq (q - p - 1) _ p v _ (by omega) (by omega) hcur
    · have hup : (!decide (lo + p > lo + q)) = false := by simp; omega
      have h0 : ¬ (lo + p = 0) := by omega
      simp only [hup, Bool.false_eq_true, if_false, h0]
      obtain ⟨p', rfl⟩ : ∃ p', p = p' + 1 := ⟨p - 1, by omega⟩
      rw [show lo + (p' + 1) - 1 = lo + p' by omega]
      exact loop_down ex m items lo hch hex hinv q (p' - q) _ p' v _ (by omega) (by omega) hcur

end SCP.Lemmas.C12
