/-
  SCP.Lemmas.C13 — helper lemmas for SCP.C13: the `Rat` instance of `Num` on integer values.
-/
import SC.Format
namespace SCP.Lemmas.C13
open SC

theorem natCast_not_neg (n : Nat) : ¬ (((n : Int) : Rat) < 0) := by
  rw [Rat.not_lt, ← Rat.intCast_zero, Rat.intCast_le_intCast]
  exact Int.natCast_nonneg n

theorem lt_zero_natCast (n : Nat) : Num.lt (((n : Int) : Rat)) (Num.ofInt 0) = false := by
  show decide ((((n : Int) : Rat)) < ((0 : Int) : Rat)) = false
  rw [Rat.intCast_zero]
  exact decide_eq_false (natCast_not_neg n)

theorem trunc_natCast (n : Nat) : Num.trunc (((n : Int) : Rat)) = ((n : Int) : Rat) := by
  show (if ((n : Int) : Rat) < 0 then -(((-((n : Int) : Rat)).floor : Int) : Rat)
    else ((((n : Int) : Rat).floor : Int) : Rat)) = _
  rw [if_neg (natCast_not_neg n), Rat.floor_intCast]

theorem toInt_natCast (n : Nat) : Num.toInt (((n : Int) : Rat)) = (n : Int) := by
  show (if ((n : Int) : Rat) < 0 then -((-((n : Int) : Rat)).floor) else (((n : Int) : Rat)).floor) = _
  rw [if_neg (natCast_not_neg n), Rat.floor_intCast]

theorem truncInt_natCast (n : Nat) : Num.truncInt (((n : Int) : Rat)) = (n : Int) := by
  show (if ((n : Int) : Rat) < 0 then -((-((n : Int) : Rat)).floor) else (((n : Int) : Rat)).floor) = _
  rw [if_neg (natCast_not_neg n), Rat.floor_intCast]

/-- the half-integers: `(2k+1)/2 + 1/2 = k+1` and `-( (2k+1)/2 ) + 1/2 = -k` -/
theorem half_add_half (k : Int) : ((2 * k + 1 : Int) : Rat) / 2 + 1 / 2 = ((k + 1 : Int) : Rat) := by
  rw [Rat.intCast_add, Rat.intCast_add, Rat.intCast_mul]
  have : ((2 : Int) : Rat) = 2 := rfl
  have : ((1 : Int) : Rat) = 1 := rfl
  grind

theorem neg_half_add_half (k : Int) : -(((2 * k + 1 : Int) : Rat) / 2) + 1 / 2 = ((-k : Int) : Rat) := by
  rw [Rat.intCast_add, Rat.intCast_neg, Rat.intCast_mul]
  have : ((2 : Int) : Rat) = 2 := rfl
  have : ((1 : Int) : Rat) = 1 := rfl
  grind

theorem half_int_neg_iff (k : Int) : ((2 * k + 1 : Int) : Rat) / 2 < 0 ↔ k < 0 := by
  have h2 : (0 : Rat) < 2 := by decide
  rw [Rat.div_lt_iff h2, Rat.zero_mul, ← Rat.intCast_zero, Rat.intCast_lt_intCast]
  omega

end SCP.Lemmas.C13
