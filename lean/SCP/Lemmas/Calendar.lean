/-
  SCP.Lemmas.Calendar — integer arithmetic behind H. Hinnant's `days_from_civil` /
  `civil_from_days` (SC.Chrono.dayNumber / civilFromDays).  Everything is staged so that each
  step is linear integer arithmetic with floor divisions by literals (`omega`).
-/
import SC.Chrono
namespace SCP.Calendar
open SC

/-! ### day-of-era ↔ (year-of-era, day-of-year) -/

/-- Hinnant's closed formula for the year of era, given the decomposition of the day of era
    into century `c`, 4-year block `q`, year in block `yq`, day of year `doy`. -/
theorem yoe_formula (doe c q doq yq doy : Int)
    (hc0 : 0 ≤ c) (hc3 : c ≤ 3) (hq0 : 0 ≤ q) (hq : q ≤ 24)
    (hyq0 : 0 ≤ yq) (hyq3 : yq ≤ 3) (hdoy0 : 0 ≤ doy)
    (hdoy : doy ≤ 364 ∨ (doy = 365 ∧ yq = 3 ∧ (q ≠ 24 ∨ c = 3)))
    (hdoq : doq = 365 * yq + doy)
    (hdoe : doe = 36524 * c + 1461 * q + doq) :
    (doe - doe / 1460 + doe / 36524 - doe / 146096) / 365 = 100 * c + 4 * q + yq := by
  have hdoq' : doq ≤ 1460 := by omega
  have hdoq0 : 0 ≤ doq := by omega
  have hdoc : 1461 * q + doq ≤ 36523 ∨ (1461 * q + doq = 36524 ∧ c = 3) := by omega
  have hlo : 36524 * c ≤ doe := by omega
  have hhi : doe ≤ 36524 * c + 36523 ∨ (doe = 146096 ∧ c = 3) := by omega
  have hfg : doe / 36524 - doe / 146096 = c := by
    rcases hhi with h | ⟨h, rfl⟩
    · have : doe / 36524 = c := by omega
      have : doe / 146096 = 0 := by omega
      omega
    · subst h; decide
  have he : doe / 1460 = 25 * c + q ∨ doe / 1460 = 25 * c + q + 1 := by omega
  rcases he with he | he <;> omega

/-- every day of era decomposes into century / 4-year block / year in block / day of year -/
theorem doe_decomp (doe : Int) (h0 : 0 ≤ doe) (h1 : doe ≤ 146096) :
    ∃ c q yq doy : Int, 0 ≤ c ∧ c ≤ 3 ∧ 0 ≤ q ∧ q ≤ 24 ∧ 0 ≤ yq ∧ yq ≤ 3 ∧ 0 ≤ doy ∧
      (doy ≤ 364 ∨ (doy = 365 ∧ yq = 3 ∧ (q ≠ 24 ∨ c = 3))) ∧
      doe = 36524 * c + 1461 * q + (365 * yq + doy) := by
  -- century
  obtain ⟨c, hc0, hc3, hclo, hchi⟩ : ∃ c : Int, 0 ≤ c ∧ c ≤ 3 ∧ 36524 * c ≤ doe ∧
      (doe ≤ 36524 * c + 36523 ∨ (c = 3 ∧ doe = 146096)) := by
    by_cases h : doe = 146096
    · exact ⟨3, by omega, by omega, by omega, by omega⟩
    · exact ⟨doe / 36524, by omega, by omega, by omega, by omega⟩
  -- 4-year block inside the century
  obtain ⟨doc, hdoc⟩ : ∃ doc : Int, doc = doe - 36524 * c := ⟨_, rfl⟩
  obtain ⟨q, hq⟩ : ∃ q : Int, q = doc / 1461 := ⟨_, rfl⟩
  obtain ⟨doq, hdoq⟩ : ∃ doq : Int, doq = doc - 1461 * q := ⟨_, rfl⟩
  have hdoc0 : 0 ≤ doc := by omega
  have hdoc1 : doc ≤ 36523 ∨ (c = 3 ∧ doc = 36524) := by omega
  have hq0 : 0 ≤ q := by omega
  have hq24 : q ≤ 24 := by omega
  have hdoq0 : 0 ≤ doq := by omega
  have hdoq1 : doq ≤ 1460 := by omega
  have hlast : doq = 1460 → (q ≠ 24 ∨ c = 3) := by omega
  -- year inside the block
  by_cases h : doq = 1460
  · exact ⟨c, q, 3, 365, hc0, hc3, hq0, hq24, by omega, by omega, by omega,
      Or.inr ⟨rfl, rfl, hlast h⟩, by omega⟩
  · exact ⟨c, q, doq / 365, doq - 365 * (doq / 365), hc0, hc3, hq0, hq24, by omega, by omega,
      by omega, Or.inl (by omega), by omega⟩

theorem yoe_parts (c q yq yoe : Int)
    (hq0 : 0 ≤ q) (hq : q ≤ 24)
    (hyq0 : 0 ≤ yq) (hyq3 : yq ≤ 3) (hy : yoe = 100 * c + 4 * q + yq) :
    yoe / 4 = 25 * c + q ∧ yoe / 100 = c := by
  constructor <;> omega

theorem yoe_leap (c q yq yoe : Int) (hq0 : 0 ≤ q) (hq : q ≤ 24)
    (hyq3 : yq = 3) (hl : q ≠ 24 ∨ c = 3) (hy : yoe = 100 * c + 4 * q + yq) :
    (yoe + 1) % 4 = 0 ∧ ((yoe + 1) % 100 ≠ 0 ∨ (yoe + 1) % 400 = 0) := by
  subst hyq3
  refine ⟨by omega, ?_⟩
  by_cases h24 : q = 24
  · exact Or.inr (by omega)
  · exact Or.inl (by omega)

/-- the year-of-era / day-of-year split computed by `civilFromDays` -/
theorem civil_year (doe yoe doy : Int) (h0 : 0 ≤ doe) (h1 : doe ≤ 146096)
    (hyoe : yoe = (doe - doe / 1460 + doe / 36524 - doe / 146096) / 365)
    (hdoy : doy = doe - (365 * yoe + yoe / 4 - yoe / 100)) :
    0 ≤ yoe ∧ yoe ≤ 399 ∧ 0 ≤ doy ∧
      (doy ≤ 364 ∨ (doy = 365 ∧ (yoe + 1) % 4 = 0 ∧ ((yoe + 1) % 100 ≠ 0 ∨ (yoe + 1) % 400 = 0))) := by
  obtain ⟨c, q, yq, doy', hc0, hc3, hq0, hq24, hyq0, hyq3, hd0, hd1, hdoe⟩ := doe_decomp doe h0 h1
  have hy : yoe = 100 * c + 4 * q + yq :=
    hyoe.trans (yoe_formula doe c q _ yq doy' hc0 hc3 hq0 hq24 hyq0 hyq3 hd0 hd1 rfl hdoe)
  clear hyoe
  obtain ⟨h4, h100⟩ := yoe_parts c q yq yoe hq0 hq24 hyq0 hyq3 hy
  rw [h4, h100] at hdoy
  have hdd : doy = doy' := by omega
  subst hdd
  refine ⟨by omega, by omega, hd0, ?_⟩
  rcases hd1 with h | ⟨h, hy3, hl⟩
  · exact Or.inl h
  · exact Or.inr ⟨h, yoe_leap c q yq yoe hq0 hq24 hy3 hl hy⟩

/-! ### day-of-year ↔ (shifted month, day) -/

/-- the month / day split computed by `civilFromDays` -/
theorem civil_month (doy mp d : Int) (h0 : 0 ≤ doy) (h1 : doy ≤ 365)
    (hmp : mp = (5 * doy + 2) / 153) (hd : d = doy - (153 * mp + 2) / 5 + 1) :
    0 ≤ mp ∧ mp ≤ 11 ∧ 1 ≤ d ∧ doy = (153 * mp + 2) / 5 + d - 1 ∧
      (mp ≤ 10 → doy < (153 * (mp + 1) + 2) / 5) := by
  have hmp0 : 0 ≤ mp := by omega
  have hmp11 : mp ≤ 11 := by omega
  refine ⟨hmp0, hmp11, ?_, by omega, ?_⟩ <;> omega

/-! ### `dayNumber` in closed form -/

/-- days from 1 March of year 0 to 1 March of year `y` -/
def marchDays (y : Int) : Int := 365 * y + y / 4 - y / 100 + y / 400

theorem era_fold (y : Int) :
    y / 400 * 146097
        + ((y - y / 400 * 400) * 365 + (y - y / 400 * 400) / 4 - (y - y / 400 * 400) / 100)
      = marchDays y := by
  unfold marchDays; omega

/-- `dayNumber` as the number of days before 1 March of the shifted year `y` plus the day of
    the (March-based) year -/
theorem dayNumber_eq (Y : Int) (m d : Nat) (y mp : Int)
    (hy : y = if m ≤ 2 then Y - 1 else Y) (hmp : mp = ((m : Int) + 9) % 12) :
    dayNumber ⟨Y, m, d⟩ = marchDays y + (153 * mp + 2) / 5 + (d : Int) - 1 - 719468 := by
  subst hy hmp
  simp only [dayNumber]
  rw [← era_fold]
  omega

theorem isLeap_iff (y : Int) : isLeap y = true ↔ (y % 4 = 0 ∧ y % 100 ≠ 0) ∨ y % 400 = 0 := by
  simp [isLeap]

/-- length of the shifted year: 1 March of year `y+1` minus 1 March of year `y` -/
theorem marchDays_step (y : Int) :
    marchDays (y + 1) = marchDays y + (if isLeap (y + 1) then 366 else 365) := by
  unfold marchDays
  by_cases h : isLeap (y + 1) = true
  · rw [if_pos h]; rw [isLeap_iff] at h; omega
  · rw [if_neg h]; rw [isLeap_iff] at h; omega

theorem marchDays_mono (a b : Int) (h : a ≤ b) : marchDays a ≤ marchDays b := by
  unfold marchDays; omega

/-! ### `civilFromDays` in March-based form -/

theorem civil_unfold (n era doe yoe doy mp d m : Int)
    (h1 : era = (n + 719468) / 146097) (h2 : doe = n + 719468 - era * 146097)
    (h3 : yoe = (doe - doe / 1460 + doe / 36524 - doe / 146096) / 365)
    (h4 : doy = doe - (365 * yoe + yoe / 4 - yoe / 100))
    (h5 : mp = (5 * doy + 2) / 153) (h6 : d = doy - (153 * mp + 2) / 5 + 1)
    (h7 : m = if mp < 10 then mp + 3 else mp - 9) :
    civilFromDays n
      = ⟨if m ≤ 2 then yoe + era * 400 + 1 else yoe + era * 400, m.toNat, d.toNat⟩ := by
  subst h1 h2 h3 h4 h5 h6 h7
  rfl

/-- `civilFromDays` in March-based form: shifted year `y`, shifted month `mp`, day `d` -/
theorem civil_spec (n : Int) : ∃ y mp d : Int,
    0 ≤ mp ∧ mp ≤ 11 ∧ 1 ≤ d ∧
    (mp ≤ 10 → (153 * mp + 2) / 5 + d - 1 < (153 * (mp + 1) + 2) / 5) ∧
    (mp = 11 → d ≤ 28 ∨ (d = 29 ∧ isLeap (y + 1) = true)) ∧
    n = marchDays y + (153 * mp + 2) / 5 + d - 1 - 719468 ∧
    civilFromDays n
      = ⟨if mp < 10 then y else y + 1, (if mp < 10 then mp + 3 else mp - 9).toNat, d.toNat⟩ := by
  obtain ⟨era, hera⟩ : ∃ x : Int, x = (n + 719468) / 146097 := ⟨_, rfl⟩
  obtain ⟨doe, hdoe⟩ : ∃ x : Int, x = n + 719468 - era * 146097 := ⟨_, rfl⟩
  obtain ⟨yoe, hyoe⟩ : ∃ x : Int, x = (doe - doe / 1460 + doe / 36524 - doe / 146096) / 365 :=
    ⟨_, rfl⟩
  obtain ⟨doy, hdoy⟩ : ∃ x : Int, x = doe - (365 * yoe + yoe / 4 - yoe / 100) := ⟨_, rfl⟩
  obtain ⟨mp, hmp⟩ : ∃ x : Int, x = (5 * doy + 2) / 153 := ⟨_, rfl⟩
  obtain ⟨d, hd⟩ : ∃ x : Int, x = doy - (153 * mp + 2) / 5 + 1 := ⟨_, rfl⟩
  have hciv := civil_unfold n era doe yoe doy mp d _ hera hdoe hyoe hdoy hmp hd rfl
  have hdoe0 : 0 ≤ doe := by omega
  have hdoe1 : doe ≤ 146096 := by omega
  obtain ⟨hy0, hy1, hd0, hd1⟩ := civil_year doe yoe doy hdoe0 hdoe1 hyoe hdoy
  clear hyoe
  obtain ⟨hm0, hm1, hd1', hdoy', hlt⟩ := civil_month doy mp d hd0 (by omega) hmp hd
  refine ⟨yoe + era * 400, mp, d, hm0, hm1, hd1', ?_, ?_, ?_, ?_⟩
  · omega
  · intro h11
    rcases hd1 with h | ⟨h, hl4, hl100⟩
    · exact Or.inl (by omega)
    · refine Or.inr ⟨by omega, ?_⟩
      rw [isLeap_iff]
      omega
  · clear hmp hd hd1 hlt
    unfold marchDays
    omega
  · rw [hciv]
    simp only [YMD.mk.injEq, and_true]
    omega

/-! ### month lengths in March-based form -/

theorem daysInMonth_mp (Y : Int) (m : Nat) (mp : Int) (hm1 : 1 ≤ m) (hm12 : m ≤ 12)
    (hmp : mp = ((m : Int) + 9) % 12) :
    (mp ≤ 10 → (daysInMonth Y m : Int) = (153 * (mp + 1) + 2) / 5 - (153 * mp + 2) / 5) ∧
    (mp = 11 → daysInMonth Y m = if isLeap Y then 29 else 28) := by
  have hm : m = 1 ∨ m = 2 ∨ m = 3 ∨ m = 4 ∨ m = 5 ∨ m = 6 ∨ m = 7 ∨ m = 8 ∨ m = 9 ∨ m = 10 ∨
      m = 11 ∨ m = 12 := by omega
  rcases hm with rfl | rfl | rfl | rfl | rfl | rfl | rfl | rfl | rfl | rfl | rfl | rfl <;>
    subst hmp <;> simp [daysInMonth]

/-- chronological order in March-based coordinates -/
theorem march_lt (y mp d y' mp' d' : Int)
    (hm0 : 0 ≤ mp) (hm1 : mp ≤ 11) (hd : 1 ≤ d)
    (hlt : mp ≤ 10 → (153 * mp + 2) / 5 + d - 1 < (153 * (mp + 1) + 2) / 5)
    (hfeb : mp = 11 → d ≤ 28 ∨ (d = 29 ∧ isLeap (y + 1) = true))
    (hm0' : 0 ≤ mp') (hm1' : mp' ≤ 11) (hd' : 1 ≤ d')
    (hlex : y < y' ∨ (y = y' ∧ (mp < mp' ∨ (mp = mp' ∧ d < d')))) :
    marchDays y + (153 * mp + 2) / 5 + d - 1 - 719468
      < marchDays y' + (153 * mp' + 2) / 5 + d' - 1 - 719468 := by
  rcases hlex with h | ⟨rfl, h | ⟨rfl, h⟩⟩
  · have hs := marchDays_step y
    have hmono := marchDays_mono (y + 1) y' (by omega)
    have hdoy' : 0 ≤ (153 * mp' + 2) / 5 + d' - 1 := by omega
    have hdoy : (153 * mp + 2) / 5 + d - 1 ≤ 364 ∨
        ((153 * mp + 2) / 5 + d - 1 = 365 ∧ isLeap (y + 1) = true) := by
      by_cases h10 : mp ≤ 10
      · have := hlt h10; omega
      · have h11 : mp = 11 := by omega
        rcases hfeb h11 with h | ⟨h, hl⟩
        · omega
        · exact Or.inr ⟨by omega, hl⟩
    rcases hdoy with h | ⟨h, hl⟩
    · split at hs <;> omega
    · rw [if_pos hl] at hs; omega
  · have := hlt (by omega)
    omega
  · omega

end SCP.Calendar
