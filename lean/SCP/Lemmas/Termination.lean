/-
  SCP.Lemmas.Termination — a completed `find_match` covers at least `pattern length` active typed
  tokens, and replacing its range by one token strictly decreases the number of active typed
  tokens when the pattern has at least two tokens.
-/
import SC.Engine
namespace SCP.Lemmas.Termination
open SC
variable {F : Type} [Num F]
set_option linter.unusedSectionVars false

/-- an info that pattern matching can see: Active and typed -/
def live (ti : TokInfo F) : Bool := ti.active && ti.tok.isSome

/-- number of live infos at absolute positions `[s, e)`; `k` is the position of the head -/
def cnt (s e : Nat) : Nat → List (TokInfo F) → Nat
  | _, [] => 0
  | k, ti :: l => (if s ≤ k ∧ k < e ∧ live ti = true then 1 else 0) + cnt s e (k + 1) l

/-- the measure: number of live infos -/
def mu (l : List (TokInfo F)) : Nat := cnt 0 l.length 0 l

theorem cnt_append (s e k : Nat) (a b : List (TokInfo F)) : cnt s e k (a ++ b) = cnt s e k a + cnt s e (k + a.length) b := by
  induction a generalizing k with
  | nil => simp [cnt]
  | cons x xs ih =>
    simp only [List.cons_append, cnt, ih (k + 1), List.length_cons]
    rw [show k + 1 + xs.length = k + (xs.length + 1) by omega]
    omega

/-- widening the upper bound beyond the end of the list changes nothing -/
theorem cnt_widen (s e e' k : Nat) (l : List (TokInfo F)) (h : k + l.length ≤ e) (h' : k + l.length ≤ e') :
    cnt s e k l = cnt s e' k l := by
  induction l generalizing k with
  | nil => rfl
  | cons x xs ih =>
    simp only [List.length_cons] at h h'
    simp only [cnt]
    rw [ih (k + 1) (by omega) (by omega)]
    have h1 : k < e := by omega
    have h2 : k < e' := by omega
    simp [h1, h2]

theorem cnt_le_mono (s e e' k : Nat) (l : List (TokInfo F)) (h : e ≤ e') : cnt s e k l ≤ cnt s e' k l := by
  induction l generalizing k with
  | nil => exact Nat.le_refl _
  | cons x xs ih =>
    simp only [cnt]
    have := ih (k + 1)
    by_cases hc : s ≤ k ∧ k < e ∧ live x = true
    · have hc' : s ≤ k ∧ k < e' ∧ live x = true := ⟨hc.1, by omega, hc.2.2⟩
      simp only [hc, hc', if_true]; omega
    · simp only [hc, if_false]
      split <;> omega

/-- nothing is counted at positions below `s` -/
theorem cnt_below (s e k : Nat) (l : List (TokInfo F)) (h : k + l.length ≤ s) : cnt s e k l = 0 := by
  induction l generalizing k with
  | nil => rfl
  | cons x xs ih =>
    simp only [List.length_cons] at h
    simp only [cnt]
    rw [ih (k + 1) (by omega)]
    have : ¬ (s ≤ k) := by omega
    simp [this]

/-- the scan of `find_match`: a completed match (pattern of at least one token, scan not yet
    complete) ends inside the list and its range `[start, stop)` holds at least `pattern length`
    live infos -/
theorem go_count (vs : Vars F) (pat : List (TokInfo F)) (rest : List (TokInfo F)) :
    ∀ (pre : List (TokInfo F)) (ruleIdx start : Nat) (fs : Fields F) (m : Match F),
      ruleIdx < pat.length → start ≤ pre.length → ruleIdx ≤ cnt start (pre.length) 0 pre →
      findMatch.go vs pat pat.length rest pre.length ruleIdx start fs = m →
      m.found = true → m.start ≤ m.stop ∧ m.stop ≤ (pre ++ rest).length ∧ pat.length ≤ cnt m.start m.stop 0 (pre ++ rest) := by
  induction rest with
  | nil =>
    intro pre ruleIdx start fs m hlt _ _ hm hf
    simp only [findMatch.go] at hm
    subst hm
    simp only [decide_eq_true_eq] at hf
    omega
  | cons tok rest' ih =>
    intro pre ruleIdx start fs m hlt hstart hcnt hm hf
    -- the consumed prefix grows by `tok`
    have hpre : pre ++ tok :: rest' = (pre ++ [tok]) ++ rest' := by simp
    have hlen : (pre ++ [tok]).length = pre.length + 1 := by simp
    have hc_ext : cnt start (pre.length + 1) 0 (pre ++ [tok]) = cnt start pre.length 0 pre + (if start ≤ pre.length ∧ live tok = true then 1 else 0) := by
      rw [cnt_append, cnt_widen start (pre.length + 1) pre.length 0 pre (by omega) (by omega)]
      simp only [cnt, Nat.zero_add, Nat.add_zero]
      have : pre.length < pre.length + 1 := by omega
      simp [this]
    have step : ∀ (ri st : Nat) (fs' : Fields F), ri < pat.length → st ≤ pre.length + 1 → ri ≤ cnt st (pre.length + 1) 0 (pre ++ [tok]) →
        findMatch.go vs pat pat.length rest' (pre.length + 1) ri st fs' = m →
        m.start ≤ m.stop ∧ m.stop ≤ (pre ++ tok :: rest').length ∧ pat.length ≤ cnt m.start m.stop 0 (pre ++ tok :: rest') := by
      intro ri st fs' h1 h2 h3 h4
      have := ih (pre ++ [tok]) ri st fs' m h1 (by rw [hlen]; exact h2) (by rw [hlen]; exact h3) (by rw [hlen]; exact h4) hf
      rw [hpre]; exact this
    simp only [findMatch.go] at hm
    split at hm
    · -- Removed token
      exact step ruleIdx start fs hlt (by omega) (by rw [hc_ext]; omega) hm
    · rename_i hact
      split at hm
      · -- untyped
        split at hm
        · rename_i heq; omega
        · exact step ruleIdx start fs hlt (by omega) (by rw [hc_ext]; omega) hm
      · rename_i t ht
        have hlive : live tok = true := by
          simp only [live, ht, Option.isSome_some, Bool.and_true]
          simpa using hact
        split at hm
        · rename_i hnone
          rw [List.getElem?_eq_none_iff] at hnone
          omega
        · rename_i p hp
          split at hm
          · -- the token matches the pattern position
            split at hm
            · -- pattern complete
              rename_i hdone
              subst hm
              simp only
              refine ⟨by omega, by simp, ?_⟩
              rw [hpre, cnt_append]
              have h1 : cnt start (pre.length + 1) 0 (pre ++ [tok]) = cnt start pre.length 0 pre + 1 := by
                rw [hc_ext]; simp [hstart, hlive]
              omega
            · rename_i hnot
              exact step (ruleIdx + 1) start _ (by omega) (by omega) (by rw [hc_ext]; simp [hstart, hlive]; omega) hm
          · -- mismatch: restart behind this token
            split at hm
            · rename_i h0; omega
            · exact step 0 (pre.length + 1) fs (by omega) (by omega) (by omega) hm

/-- a completed `find_match` of a pattern with at least one token -/
theorem findMatch_count (vs : Vars F) (pat infos : List (TokInfo F)) (hp : 1 ≤ pat.length)
    (hf : (findMatch vs pat infos).found = true) :
    (findMatch vs pat infos).start ≤ (findMatch vs pat infos).stop ∧ (findMatch vs pat infos).stop ≤ infos.length ∧
      pat.length ≤ cnt (findMatch vs pat infos).start (findMatch vs pat infos).stop 0 infos := by
  have := go_count vs pat infos [] 0 0 [] _ (by omega) (by simp) (by simp [cnt]) rfl (by simpa [findMatch] using hf)
  simpa [findMatch] using this

/-! ### replacing the matched range -/

theorem cnt_shift (n k : Nat) (zs : List (TokInfo F)) : cnt 0 (k + zs.length + n) k zs = cnt 0 zs.length 0 zs := by
  induction zs generalizing k n with
  | nil => rfl
  | cons z zs ihz =>
    simp only [cnt, List.length_cons, Nat.zero_le, true_and]
    have a1 : k < k + (zs.length + 1) + n := by omega
    have a2 : 0 < zs.length + 1 := by omega
    simp only [a1, a2, true_and]
    have e1 := ihz (n + 0) (k + 1)
    have e2 := ihz 0 1
    rw [show k + (zs.length + 1) + n = (k + 1) + zs.length + (n + 0) by omega, e1]
    rw [show zs.length + 1 = 1 + zs.length + 0 by omega, e2]

theorem mu_cons (y : TokInfo F) (ys : List (TokInfo F)) : mu (y :: ys) = (if live y = true then 1 else 0) + mu ys := by
  simp only [mu, cnt, List.length_cons, Nat.zero_le, true_and]
  have h0 : 0 < ys.length + 1 := by omega
  simp only [h0, true_and]
  have := cnt_shift (F := F) 0 1 ys
  rw [show ys.length + 1 = 1 + ys.length + 0 by omega, this]

theorem mu_append (a b : List (TokInfo F)) : mu (a ++ b) = mu a + mu b := by
  induction a with
  | nil => simp [mu, cnt]
  | cons x xs ih => simp only [List.cons_append, mu_cons, ih]; omega

/-- marking the positions `[s, e)` Removed (positions counted from `k`) -/
def deact (s e : Nat) : Nat → List (TokInfo F) → List (TokInfo F)
  | _, [] => []
  | k, x :: xs => (if decide (s ≤ k) && decide (k < e) then { x with active := false } else x) :: deact s e (k + 1) xs

theorem mapIdx_eq_deact (s e k : Nat) (l : List (TokInfo F)) :
    (l.mapIdx fun i ti => if decide (s ≤ i + k) && decide (i + k < e) then ({ ti with active := false } : TokInfo F) else ti) = deact s e k l := by
  induction l generalizing k with
  | nil => rfl
  | cons x xs ih =>
    simp only [List.mapIdx_cons, Nat.zero_add, deact]
    congr 1
    have hfun : (fun i ti => if decide (s ≤ i + 1 + k) && decide (i + 1 + k < e) then ({ ti with active := false } : TokInfo F) else ti) =
        (fun i ti => if decide (s ≤ i + (k + 1)) && decide (i + (k + 1) < e) then ({ ti with active := false } : TokInfo F) else ti) := by
      funext i ti
      rw [show i + 1 + k = i + (k + 1) by omega]
    rw [hfun]
    exact ih (k + 1)

theorem deact_mu (s e k : Nat) (l : List (TokInfo F)) : mu (deact s e k l) + cnt s e k l = mu l := by
  induction l generalizing k with
  | nil => simp [deact, mu, cnt]
  | cons x xs ih =>
    have htail := ih (k + 1)
    simp only [deact, mu_cons, cnt]
    have hdead : live ({ x with active := false } : TokInfo F) = false := by simp [live]
    by_cases hin : s ≤ k ∧ k < e
    · have hdec : (decide (s ≤ k) && decide (k < e)) = true := by simp [hin.1, hin.2]
      simp only [hdec, if_true, hdead, Bool.false_eq_true, if_false]
      by_cases hl : live x = true
      · have h3 : s ≤ k ∧ k < e ∧ live x = true := ⟨hin.1, hin.2, hl⟩
        simp only [h3, hl, if_true, and_self]; omega
      · have hl' : live x = false := by simpa using hl
        simp only [hl', Bool.false_eq_true, and_false, if_false]; omega
    · have hdec : (decide (s ≤ k) && decide (k < e)) = false := by
        simp only [Bool.and_eq_false_iff, decide_eq_false_iff_not]
        by_cases h1 : s ≤ k
        · right; intro h2; exact hin ⟨h1, h2⟩
        · left; exact h1
      have h3 : ¬ (s ≤ k ∧ k < e ∧ live x = true) := fun h => hin ⟨h.1, h.2.1⟩
      simp only [hdec, Bool.false_eq_true, if_false, h3]; omega

/-- replacing the range of a match by one token: the measure loses the live infos of the range
    and gains one -/
theorem replaceRange_mu (infos : List (TokInfo F)) (m : Match F) (t : Tok F) :
    mu (replaceRange infos m t) + cnt m.start m.stop 0 infos = mu infos + 1 := by
  unfold replaceRange
  simp only
  have hmk := mapIdx_eq_deact (F := F) m.start m.stop 0 infos
  simp only [Nat.add_zero] at hmk
  rw [hmk]
  have hmark := deact_mu (F := F) m.start m.stop 0 infos
  generalize deact m.start m.stop 0 infos = marked at *
  rw [mu_append, mu_append]
  have hsplit : mu (marked.take m.start) + mu (marked.drop m.start) = mu marked := by
    rw [← mu_append, List.take_append_drop]
  have hone : mu [({ start := (infos[m.start]?.map (·.start)).getD 0, stop := (infos[m.stop - 1]?.map (·.stop)).getD 0, tok := some t, text := "", active := true } : TokInfo F)] = 1 := by
    simp [mu, cnt, live]
  omega

end SCP.Lemmas.Termination
