/-
  SCP.Lex — string level for the arithmetic sub-language: every spacing of a line lexes to the
  same tokens.

  `codeLex` (SC/Units.lean) is the model of the regex tokenizer restricted to the alphabet of
  digits, separators, blanks, ASCII letters and operator characters (it is what `basic_execute`
  runs on conversion codes; the check C02 also compares it with the implementation's own lexer on
  generated arithmetic lines).  A line is a list of PIECES — literal texts and operator
  characters — separated by arbitrary numbers of blanks:

    * `lex_render`: for every list of well-formed pieces and every choice of gaps (also at both
      ends) that does not glue a digit-initial literal to a preceding literal or sign,
      `codeLex` returns exactly the pieces' tokens
    * `lex_spacing_irrelevant`: hence two spacings of the same pieces lex identically — extra
      blanks never change the tokens of an arithmetic line (C16, clause 1, for this sub-language)
    * `tree_line_eval`: with `SCP.C02.parse_eval`: every such rendering of an expression tree's
      tokens evaluates to the textbook value (C02 at string level for this sub-language)
-/
import SC.Units
import SC.Spec.Arith
import SCP.C02
namespace SCP.Lex
open SC SC.Spec
variable {F : Type} [Num F]
set_option linter.unusedSectionVars false

/-- a piece of an arithmetic line -/
inductive Piece (F : Type)
  | lit (txt : List Char) (v : F)
  | op (c : Char)

def Piece.text : Piece F → List Char
  | .lit txt _ => txt
  | .op c => [c]

def Piece.tok : Piece F → Tok F
  | .lit _ v => litTok v
  | .op c => .op (Op.ofChar c)

def isSignChar (c : Char) : Bool := c = '-' || c = '+'
def isOpChar (c : Char) : Bool := c = '+' || c = '-' || c = '*' || c = '/' || c = '(' || c = ')'

def startsDigit : List Char → Bool
  | d :: _ => isDigit d
  | [] => false

/-- a literal text: optional sign, a digit, then digits and separators; it reads to `v` -/
def LitOK (dec thou : String) (txt : List Char) (v : F) : Prop :=
  ∃ (sign : List Char) (d : Char) (more : List Char),
    txt = sign ++ d :: more ∧ (sign = [] ∨ sign = ['-'] ∨ sign = ['+']) ∧ isDigit d = true ∧
    (∀ c ∈ more, isNumBody c = true) ∧ readLiteral dec thou txt = some v

def PieceOK (dec thou : String) : Piece F → Prop
  | .lit txt v => LitOK dec thou txt v
  | .op c => isOpChar c = true

/-- what follows a piece does not continue it: no separator / digit / letter right behind a
    literal, no digit right behind a sign -/
def Piece.endsBefore (p : Piece F) (R : List Char) : Prop :=
  match p with
  | .lit _ _ => ∀ c, R.head? = some c → isNumBody c = false ∧ isAsciiLetter c = false
  | .op c => isSignChar c = true → startsDigit R = false

/-- the line: gap, piece, gap, piece, …, trailing gap -/
def render : List (Nat × Piece F) → Nat → List Char
  | [], t => List.replicate t ' '
  | (g, p) :: rest, t => List.replicate g ' ' ++ p.text ++ render rest t

/-- every piece is followed by something that does not continue it -/
def Separated : List (Nat × Piece F) → Nat → Prop
  | [], _ => True
  | (_, p) :: rest, t => p.endsBefore (render rest t) ∧ Separated rest t

/-! ### the three scanner steps -/

theorem lex_blanks (dec thou : String) (g fuel : Nat) (R : List Char) :
    (codeLex dec thou (fuel + g) (List.replicate g ' ' ++ R) : Option (List (Tok F))) = codeLex dec thou fuel R := by
  induction g with
  | zero => simp
  | succ g ih =>
    rw [show fuel + (g + 1) = (fuel + g) + 1 by omega, List.replicate_succ, List.cons_append]
    simp only [codeLex, if_true]
    exact ih

theorem isDigit_not_space : isDigit ' ' = false := by decide

theorem lex_op (dec thou : String) (c : Char) (hc : isOpChar c = true) (fuel : Nat) (R : List Char)
    (h : isSignChar c = true → startsDigit R = false) :
    (codeLex dec thou (fuel + 1) (c :: R) : Option (List (Tok F))) = (codeLex dec thou fuel R).map (fun ts => .op (Op.ofChar c) :: ts) := by
  have hcs : c = '+' ∨ c = '-' ∨ c = '*' ∨ c = '/' ∨ c = '(' ∨ c = ')' := by
    simp only [isOpChar, Bool.or_eq_true, decide_eq_true_eq] at hc
    rcases hc with ((((h | h) | h) | h) | h) | h <;> simp [h]
  have hsigned : ((c = '-' || c = '+') && (match R with | d :: _ => isDigit d | [] => false)) = false := by
    by_cases hs : isSignChar c = true
    · have := h hs
      unfold startsDigit at this
      cases R with
      | nil => simp
      | cons d _ => simp only at this; simp [this]
    · simp only [isSignChar, Bool.or_eq_true, decide_eq_true_eq, not_or] at hs
      simp [hs.1, hs.2]
  have hsd : (isSignChar c = true → startsDigit R = false) := h
  have d1 : isDigit '+' = false := by decide
  have d2 : isDigit '-' = false := by decide
  have d3 : isDigit '*' = false := by decide
  have d4 : isDigit '/' = false := by decide
  have d5 : isDigit '(' = false := by decide
  have d6 : isDigit ')' = false := by decide
  have l1 : isAsciiLetter '+' = false := by decide
  have l2 : isAsciiLetter '-' = false := by decide
  have l3 : isAsciiLetter '*' = false := by decide
  have l4 : isAsciiLetter '/' = false := by decide
  have l5 : isAsciiLetter '(' = false := by decide
  have l6 : isAsciiLetter ')' = false := by decide
  rcases hcs with rfl | rfl | rfl | rfl | rfl | rfl
  · have := hsd (by decide)
    cases R with
    | nil => simp [codeLex, d1, l1]
    | cons r rs => simp only [startsDigit] at this; simp [codeLex, d1, l1, this]
  · have := hsd (by decide)
    cases R with
    | nil => simp [codeLex, d2, l2]
    | cons r rs => simp only [startsDigit] at this; simp [codeLex, d2, l2, this]
  · simp [codeLex, d3, l3]
  · simp [codeLex, d4, l4]
  · simp [codeLex, d5, l5]
  · simp [codeLex, d6, l6]

theorem takeWhile_numBody (more R : List Char) (hm : ∀ c ∈ more, isNumBody c = true)
    (hR : ∀ c, R.head? = some c → isNumBody c = false) :
    (more ++ R).takeWhile isNumBody = more ∧ (more ++ R).dropWhile isNumBody = R := by
  induction more with
  | nil =>
    cases R with
    | nil => simp
    | cons r rs =>
      have := hR r rfl
      simp [List.takeWhile, List.dropWhile, this]
  | cons m ms ih =>
    have hmm := hm m (by simp)
    have := ih (fun c hc => hm c (by simp [hc]))
    simp [List.takeWhile, List.dropWhile, hmm, this.1, this.2]

theorem lex_lit (dec thou : String) (txt : List Char) (v : F) (hl : LitOK dec thou txt v) (fuel : Nat) (R : List Char)
    (hR : ∀ c, R.head? = some c → isNumBody c = false ∧ isAsciiLetter c = false) :
    (codeLex dec thou (fuel + 1) (txt ++ R) : Option (List (Tok F))) = (codeLex dec thou fuel R).map (fun ts => litTok v :: ts) := by
  obtain ⟨sign, d, more, rfl, hsign, hd, hmore, hread⟩ := hl
  have hbody : ∀ c ∈ d :: more, isNumBody c = true := by
    intro c hc
    rcases List.mem_cons.mp hc with rfl | hc
    · simp [isNumBody, hd]
    · exact hmore c hc
  have htw := takeWhile_numBody (d :: more) R hbody (fun c hc => (hR c hc).1)
  simp only [List.cons_append] at htw
  have hsuffix : R.takeWhile isAsciiLetter = [] := by
    cases R with
    | nil => rfl
    | cons r rs => simp [List.takeWhile, (hR r rfl).2]
  have hd_not_sign : ¬ (d = '-') ∧ ¬ (d = '+') := by
    constructor <;> (intro h; subst h; revert hd; decide)
  have e1 : isDigit '-' = false := by decide
  have e2 : isDigit '+' = false := by decide
  have hsp : ¬ (d = ' ') := by intro h; subst h; revert hd; decide
  rcases hsign with rfl | rfl | rfl
  · -- no sign
    simp only [List.nil_append, List.cons_append] at hread ⊢
    simp [codeLex, hsp, hd, hd_not_sign.1, hd_not_sign.2, htw.1, htw.2, hread, hsuffix, notationMul, litTok]
  · -- '-'
    simp only [List.cons_append, List.nil_append] at hread ⊢
    simp [codeLex, e1, hd, htw.1, htw.2, hread, hsuffix, notationMul, litTok]
  · -- '+'
    simp only [List.cons_append, List.nil_append] at hread ⊢
    simp [codeLex, e2, hd, htw.1, htw.2, hread, hsuffix, notationMul, litTok]

/-! ### whole lines -/

/-- fuel that suffices: one step per piece and per blank, plus the final step -/
def fuelFor : List (Nat × Piece F) → Nat → Nat
  | [], t => t + 1
  | (g, _) :: rest, t => fuelFor rest t + 1 + g

theorem lex_trailing (dec thou : String) (t extra : Nat) :
    (codeLex dec thou (t + 1 + extra) (List.replicate t ' ') : Option (List (Tok F))) = some [] := by
  have := lex_blanks (F := F) dec thou t (1 + extra) []
  rw [show 1 + extra + t = t + 1 + extra by omega, List.append_nil] at this
  rw [this, show 1 + extra = extra + 1 by omega]
  simp [codeLex]

/-- every spacing of well-formed, separated pieces lexes to exactly the pieces' tokens -/
theorem lex_render (dec thou : String) (ps : List (Nat × Piece F)) (t : Nat)
    (hok : ∀ gp ∈ ps, PieceOK dec thou gp.2) (hsep : Separated ps t) :
    (codeLex dec thou (fuelFor ps t) (render ps t) : Option (List (Tok F))) = some (ps.map (·.2.tok)) := by
  induction ps with
  | nil => simpa [fuelFor, render] using lex_trailing (F := F) dec thou t 0
  | cons gp rest ih =>
    obtain ⟨g, p⟩ := gp
    obtain ⟨hend, hsep'⟩ := hsep
    have ih' := ih (fun x hx => hok x (by simp [hx])) hsep'
    simp only [fuelFor, render, List.append_assoc]
    rw [lex_blanks]
    have hp := hok (g, p) (by simp)
    cases p with
    | lit txt v =>
      simp only [Piece.text]
      rw [lex_lit dec thou txt v hp _ _ hend, ih']
      simp [Piece.tok]
    | op c =>
      simp only [Piece.text, List.singleton_append]
      rw [lex_op dec thou c hp _ _ hend, ih']
      simp [Piece.tok]

/-- the gaps of a line do not matter: two spacings of the same pieces lex identically -/
theorem lex_spacing_irrelevant (dec thou : String) (ps ps' : List (Nat × Piece F)) (t t' : Nat)
    (hsame : ps.map (·.2.tok) = ps'.map (·.2.tok))
    (hok : ∀ gp ∈ ps, PieceOK dec thou gp.2) (hsep : Separated ps t)
    (hok' : ∀ gp ∈ ps', PieceOK dec thou gp.2) (hsep' : Separated ps' t') :
    (codeLex dec thou (fuelFor ps t) (render ps t) : Option (List (Tok F))) = codeLex dec thou (fuelFor ps' t') (render ps' t') := by
  rw [lex_render dec thou ps t hok hsep, lex_render dec thou ps' t' hok' hsep', hsame]

/-- C02 at string level for this sub-language: a line whose pieces are the tokens of an
    expression tree lexes, parses and evaluates to the tree's textbook value, whatever the
    spacing -/
theorem tree_line_eval (dec thou : String) (s : Sum F) (ps : List (Nat × Piece F)) (t : Nat)
    (htoks : ps.map (·.2.tok) = s.toks)
    (hok : ∀ gp ∈ ps, PieceOK dec thou gp.2) (hsep : Separated ps t)
    (rates : List (String × F)) (conv : UnitRef → F → UnitRef → Option F) (vs : Vars F) :
    ∃ toks ast, codeLex dec thou (fuelFor ps t) (render ps t) = some toks ∧ parseExpr toks = .ok (ast, []) ∧
      execAst rates conv vs ast = .ok (.item (.number s.value .decimal), vs) := by
  obtain ⟨ast, h1, h2⟩ := SCP.C02.parse_eval s rates conv vs
  exact ⟨s.toks, ast, by rw [lex_render dec thou ps t hok hsep, htoks], h1, h2⟩

/-- a comment never reaches the tokens: whatever follows the first `#` is irrelevant -/
theorem comment_irrelevant (dec thou : String) (t c c' : List Char) (h : '#' ∉ t) :
    (lexLine dec thou (t ++ '#' :: c) : Option (List (Tok F))) = lexLine dec thou (t ++ '#' :: c') ∧
    (lexLine dec thou (t ++ '#' :: c) : Option (List (Tok F))) = lexLine dec thou t := by
  have hp : ∀ a ∈ t, (decide (a ≠ '#')) = true := by
    intro a ha; simp only [decide_eq_true_eq]; intro e; exact h (e ▸ ha)
  have h1 : ∀ r, (t ++ '#' :: r).takeWhile (· ≠ '#') = t := by
    intro r
    rw [List.takeWhile_append_of_pos hp]
    simp
  have h2 : t.takeWhile (· ≠ '#') = t := by
    have := List.takeWhile_append_of_pos (p := fun x => decide (x ≠ '#')) (l₁ := t) (l₂ := []) hp
    simpa using this
  unfold lexLine
  simp only [h1, h2, and_self]

/-! non-vacuity: the pieces of `12 *( 3,5+-4)` with their gaps satisfy the hypotheses, and the model
    lexer returns their tokens -/
example : ((codeLex "," "." 40 "12 *( 3,5+-4)".toList : Option (List (Tok Rat))).map fun ts =>
    ts.map fun t => match t with | .item (.number v _) => some v | _ => none) =
    some [some 12, none, none, some (7 / 2), none, some (-4), none] := by decide +kernel

end SCP.Lex
