/-
  SCP.LexerInv — what every token list produced by the tokenizers looks like, for every line,
  every language and whatever the regular expressions of the configuration are: the token infos
  are ordered by their start offset (text order, which is what pattern matching and the parser
  rely on) and every one of them carries a token (comments and blanks are gone).
-/
import SC.Lexer
namespace SCP.LexerInv
open SC
variable {F : Type} [Num F]
set_option linter.unusedSectionVars false

def SortedByStart (l : List (TokInfo F)) : Prop := l.Pairwise (fun a b => a.start ≤ b.start)
def AllTyped (l : List (TokInfo F)) : Prop := ∀ t ∈ l, t.tok.isSome = true

theorem insertByStart_mem (t x : TokInfo F) (l : List (TokInfo F)) : x ∈ insertByStart t l ↔ x = t ∨ x ∈ l := by
  induction l with
  | nil => simp [insertByStart]
  | cons y rest ih =>
    unfold insertByStart
    split
    · simp
    · simp only [List.mem_cons, ih]
      constructor
      · rintro (h | h | h)
        · exact Or.inr (Or.inl h)
        · exact Or.inl h
        · exact Or.inr (Or.inr h)
      · rintro (h | h | h)
        · exact Or.inr (Or.inl h)
        · exact Or.inl h
        · exact Or.inr (Or.inr h)

theorem insertByStart_sorted (t : TokInfo F) (l : List (TokInfo F)) (h : SortedByStart l) : SortedByStart (insertByStart t l) := by
  induction l with
  | nil => simp [insertByStart, SortedByStart]
  | cons y rest ih =>
    unfold SortedByStart at h ih ⊢
    rw [List.pairwise_cons] at h
    unfold insertByStart
    split
    · rename_i hlt
      rw [List.pairwise_cons]
      refine ⟨?_, List.pairwise_cons.mpr h⟩
      intro b hb
      rcases List.mem_cons.mp hb with rfl | hb
      · omega
      · have := h.1 b hb; omega
    · rename_i hge
      rw [List.pairwise_cons]
      refine ⟨?_, ih h.2⟩
      intro b hb
      rcases (insertByStart_mem t b rest).mp hb with rfl | hb
      · omega
      · exact h.1 b hb

theorem foldl_insert_sorted (l acc : List (TokInfo F)) (h : SortedByStart acc) :
    SortedByStart (l.foldl (fun acc t => insertByStart t acc) acc) := by
  induction l generalizing acc with
  | nil => exact h
  | cons t rest ih => exact ih _ (insertByStart_sorted t acc h)

theorem foldl_insert_mem (l acc : List (TokInfo F)) (x : TokInfo F) :
    x ∈ l.foldl (fun acc t => insertByStart t acc) acc ↔ x ∈ l ∨ x ∈ acc := by
  induction l generalizing acc with
  | nil => simp
  | cons t rest ih =>
    simp only [List.foldl_cons, ih, insertByStart_mem, List.mem_cons]
    constructor
    · rintro (h | h | h)
      · exact Or.inl (Or.inr h)
      · exact Or.inl (Or.inl h)
      · exact Or.inr h
    · rintro ((h | h) | h)
      · exact Or.inr (Or.inl h)
      · exact Or.inl h
      · exact Or.inr (Or.inr h)

/-- `cleanup_token_infos` leaves the typed infos, ordered by start -/
theorem cleanupInfos_spec (toks : List (TokInfo F)) :
    SortedByStart (cleanupInfos toks) ∧ AllTyped (cleanupInfos toks) ∧
      ∀ x, x ∈ cleanupInfos toks ↔ (x ∈ toks ∧ x.tok.isSome = true) := by
  unfold cleanupInfos
  refine ⟨foldl_insert_sorted _ [] (by simp [SortedByStart]), ?_, ?_⟩
  · intro t ht
    have := (foldl_insert_mem _ [] t).mp ht
    simp only [List.mem_filter, List.not_mem_nil, or_false] at this
    exact this.2
  · intro x
    rw [foldl_insert_mem]
    simp [List.mem_filter]

theorem mapM_cons_some {α β : Type} (f : α → Option β) (a : α) (l : List α) (r : List β) (h : (a :: l).mapM f = some r) :
    ∃ b bs, f a = some b ∧ l.mapM f = some bs ∧ r = b :: bs := by
  rw [List.mapM_cons] at h
  cases hfa : f a with
  | none => simp [hfa] at h
  | some b =>
    cases hl : l.mapM f with
    | none => simp [hfa, hl] at h
    | some bs =>
      simp [hfa, hl] at h
      exact ⟨b, bs, rfl, rfl, h.symm⟩

theorem mapM_map_eq {α β γ : Type} (f : α → Option β) (ga : α → γ) (gb : β → γ) (hf : ∀ a b, f a = some b → gb b = ga a) :
    ∀ (l : List α) (l' : List β), l.mapM f = some l' → l'.map gb = l.map ga := by
  intro l
  induction l with
  | nil => intro l' h; simp at h; subst h; rfl
  | cons a rest ih =>
    intro l' h
    obtain ⟨b, bs, hb, hbs, rfl⟩ := mapM_cons_some f a rest l' h
    simp [hf a b hb, ih bs hbs]

theorem mapM_all {α β : Type} (f : α → Option β) (pa : α → Prop) (pb : β → Prop) (hf : ∀ a b, f a = some b → pa a → pb b) :
    ∀ (l : List α) (l' : List β), l.mapM f = some l' → (∀ a ∈ l, pa a) → ∀ b ∈ l', pb b := by
  intro l
  induction l with
  | nil => intro l' h _; simp at h; subst h; simp
  | cons a rest ih =>
    intro l' h hp
    obtain ⟨b, bs, hb, hbs, rfl⟩ := mapM_cons_some f a rest l' h
    intro x hx
    rcases List.mem_cons.mp hx with rfl | hx
    · exact hf a _ hb (hp a List.mem_cons_self)
    · exact ih bs hbs (fun a ha => hp a (List.mem_cons_of_mem _ ha)) x hx

theorem aliasGo_spec (env : LexEnv) (c : Cfg F) (now : Now) (ti : TokInfo F) (arr : Array Char) :
    ∀ (table : List (NRe × String)) (ti' : TokInfo F), aliasPass.go env c now ti arr table = some ti' →
      ti'.start = ti.start ∧ (ti.tok.isSome = true → ti'.tok.isSome = true) := by
  intro table
  induction table with
  | nil => intro ti' h; simp only [aliasPass.go, Option.some.injEq] at h; subst h; exact ⟨rfl, id⟩
  | cons x rest ih =>
    intro ti' h
    obtain ⟨re, data⟩ := x
    simp only [aliasPass.go] at h
    split at h
    · split at h
      · cases h
      · simp only [Option.some.injEq] at h; subst h; exact ⟨rfl, fun _ => rfl⟩
      · simp only [Option.some.injEq] at h; subst h; exact ⟨rfl, fun _ => rfl⟩
      · exact ih ti' h
    · exact ih ti' h

/-- the alias pass changes tokens, never spans; a typed info stays typed -/
theorem aliasPass_spec (env : LexEnv) (c : Cfg F) (now : Now) (table : List (NRe × String)) (st st' : List (TokInfo F))
    (h : aliasPass env c now table st = some st') :
    st'.map (·.start) = st.map (·.start) ∧ (AllTyped st → AllTyped st') := by
  unfold aliasPass at h
  have key : ∀ (ti ti' : TokInfo F),
      (match strLower env.T ti.text.toList with
        | none => none
        | some low => aliasPass.go env c now ti low.toArray table) = some ti' →
      ti'.start = ti.start ∧ (ti.tok.isSome = true → ti'.tok.isSome = true) := by
    intro ti ti' hti
    cases hl : strLower env.T ti.text.toList with
    | none => rw [hl] at hti; cases hti
    | some low => rw [hl] at hti; exact aliasGo_spec env c now ti _ table ti' hti
  exact ⟨mapM_map_eq _ (·.start) (·.start) (fun a b hab => (key a b hab).1) st st' h,
    fun hty => mapM_all _ (fun (a : TokInfo F) => a.tok.isSome = true) (fun (b : TokInfo F) => b.tok.isSome = true) (fun a b hab => (key a b hab).2) st st' h hty⟩

theorem sorted_iff_map (l : List (TokInfo F)) : SortedByStart l ↔ (l.map (·.start)).Pairwise (· ≤ ·) := by
  unfold SortedByStart; rw [List.pairwise_map]

theorem aliasTokinizer_spec (env : LexEnv) (c : Cfg F) (lang : String) (now : Now) (st st' : List (TokInfo F))
    (h : aliasTokinizer env c lang now st = some st') :
    st'.map (·.start) = st.map (·.start) ∧ (AllTyped st → AllTyped st') := by
  unfold aliasTokinizer at h
  cases h1 : aliasPass env c now env.alias st with
  | none => simp [h1] at h
  | some mid =>
    simp only [h1, Option.bind_some] at h
    have s1 := aliasPass_spec env c now env.alias st mid h1
    cases hl : assoc? env.langAlias lang with
    | none => simp only [hl, Option.some.injEq] at h; subst h; exact s1
    | some table =>
      simp only [hl] at h
      have s2 := aliasPass_spec env c now table mid st' h
      exact ⟨s2.1.trans s1.1, fun hty => s2.2 (s1.2 hty)⟩

/-- THE TOKENS OF A LINE are in text order and all carry a token — for every line, language, clock,
    configuration and every set of regular expressions -/
theorem lexText_sorted_typed (env : LexEnv) (c : Cfg F) (lang : String) (now : Now) (line : List Char) (toks : List (TokInfo F))
    (h : lexText env c lang now line = some toks) : SortedByStart toks ∧ AllTyped toks := by
  unfold lexText lexFull at h
  simp only [Option.map_eq_some_iff] at h
  obtain ⟨r, hr, rfl⟩ := h
  simp only [Option.bind_eq_some_iff, Option.map_eq_some_iff] at hr
  obtain ⟨st1, _, st2, h2, toks, h3, rfl⟩ := hr
  unfold regexTokinizer at h2
  simp only [Option.map_eq_some_iff] at h2
  obtain ⟨st2', _, rfl⟩ := h2
  have hc := cleanupInfos_spec st2'.toks
  have ha := aliasTokinizer_spec env c lang now _ toks h3
  simp only at ha
  refine ⟨?_, ha.2 hc.2.1⟩
  rw [sorted_iff_map, ha.1, ← sorted_iff_map]
  exact hc.1

end SCP.LexerInv
