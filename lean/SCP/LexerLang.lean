/-
  SCP.LexerLang — at the tokenizer level too, a language is nothing but its tables: two language
  tags whose month expressions, alias words, constant words and word groups are the same give the
  same token infos and the same highlight requests for every line (the tag itself is never
  inspected).  Extends `SCP.C19.evalInfos_lang` to the layer in front of it.
-/
import SC.Lexer
namespace SCP.LexerLang
open SC
variable {F : Type} [Num F]
set_option linter.unusedSectionVars false

/-- the tables the tokenizers read for a language tag -/
def SameLexTables (env : LexEnv) (c : Cfg F) (l1 l2 : String) : Prop :=
  assoc? env.months l1 = assoc? env.months l2 ∧
  assoc? env.langAlias l1 = assoc? env.langAlias l2 ∧
  (∀ w, constantOf c l1 w = constantOf c l2 w) ∧
  (∀ g, ((c.lang? l1).bind fun l => assoc? l.groups g) = ((c.lang? l2).bind fun l => assoc? l.groups g))

theorem fieldType_lang (env : LexEnv) (c : Cfg F) (l1 l2 : String) (h : SameLexTables env c l1 l2)
    (kind name : String) (extra : Option String) : fieldType env c l1 kind name extra = fieldType env c l2 kind name extra := by
  unfold fieldType
  rw [h.2.2.2]

theorem lexFull_lang (env : LexEnv) (c : Cfg F) (l1 l2 : String) (h : SameLexTables env c l1 l2) (now : Now) (line : List Char) :
    lexFull env c l1 now line = lexFull env c l2 now line := by
  have hf : fieldType env c l1 = fieldType env c l2 := by
    funext k n e; exact fieldType_lang env c l1 l2 h k n e
  have hc : constantOf c l1 = constantOf c l2 := by funext w; exact h.2.2.1 w
  have hfp : ∀ b res (st : LexSt F), fieldParser env c l1 b res st = fieldParser env c l2 b res st := by
    intro b res st; unfold fieldParser; rw [hf]
  have htp : ∀ b res (st : LexSt F), textParser env c l1 now b res st = textParser env c l2 now b res st := by
    intro b res st; unfold textParser; rw [hc]
  have hrun : ∀ b key (st : LexSt F), runParser env c l1 now b key st = runParser env c l2 now b key st := by
    intro b key st; simp only [runParser, hfp, htp]
  have hreg : ∀ b (st : LexSt F), regexTokinizer env c l1 now b st = regexTokinizer env c l2 now b st := by
    intro b st
    have hrun' : ∀ key, runParser env c l1 now b key = runParser env c l2 now b key := fun key => funext (hrun b key)
    simp only [regexTokinizer, hrun']
  have hmon : ∀ b (st : LexSt F), monthParser env l1 b st = monthParser env l2 b st := by
    intro b st; unfold monthParser; rw [h.1]
  have hlang : ∀ b (st : LexSt F), languageTokinizer env l1 b st = languageTokinizer env l2 b st := by
    intro b st; simp only [languageTokinizer, hmon]
  have hali : ∀ (st : List (TokInfo F)), aliasTokinizer env c l1 now st = aliasTokinizer env c l2 now st := by
    intro st; unfold aliasTokinizer; rw [h.2.1]
  simp only [lexFull, hlang, hreg, hali]

/-- tokens and highlight requests of a line depend on the language only through its tables -/
theorem lexText_lang (env : LexEnv) (c : Cfg F) (l1 l2 : String) (h : SameLexTables env c l1 l2) (now : Now) (line : List Char) :
    lexText env c l1 now line = lexText env c l2 now line ∧ lexUi env c l1 now line = lexUi env c l2 now line := by
  unfold lexText lexUi
  rw [lexFull_lang env c l1 l2 h]
  exact ⟨rfl, rfl⟩

end SCP.LexerLang
