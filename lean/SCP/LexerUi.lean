/-
  SCP.LexerUi — the highlight tokens of a line, from its TEXT: whatever the regular expressions
  of the configuration are and whatever spans they report, the collection the model's
  tokenizers build (`SC.lexUi`: every `add_uitoken_from_match` of the eleven parsers and of the
  month parser, then `sort`), followed by any sequence of span merges (`update_tokens`, which is
  what variables, unit literals and rules do afterwards), consists of non-empty character spans
  inside the line, ordered by start, no two overlapping.

  This instantiates `SCP.C17.pipeline_ordered` (which quantifies over all request lists) with the
  requests the lexer model actually makes; the requests themselves are compared with the
  implementation's operation log on every line of the C17 run (driver op `lexui`).
-/
import SC.Lexer
import SCP.C17
namespace SCP.LexerUi
open SC SCP.C17
variable {F : Type} [Num F]

theorem lexer_highlight_wf (env : LexEnv) (c : Cfg F) (lang : String) (now : Now) (line : List Char) (ui : UiColl)
    (h : lexUi env c lang now line = some ui) (updates : List (Nat × Nat × String)) :
    WF line.length (ui.run (updates.map fun u => .update u.1 u.2.1 u.2.2)).toks ∧
      Ordered (ui.run (updates.map fun u => .update u.1 u.2.1 u.2.2)).toks := by
  unfold lexUi at h
  cases hf : lexFull env c lang now line with
  | none => rw [hf] at h; cases h
  | some r =>
    rw [hf] at h
    simp only [Option.map_some, Option.some.injEq] at h
    subst h
    exact pipeline_ordered line r.2 updates

/-- the token infos and the highlight requests come from one run of the tokenizers -/
theorem lexText_eq (env : LexEnv) (c : Cfg F) (lang : String) (now : Now) (line : List Char) :
    lexText env c lang now line = (lexFull env c lang now line).map (·.1) := rfl

end SCP.LexerUi
