/-
  SCP.ParserTotal — the parser never runs out of fuel: on EVERY token list `parseExpr` returns
  either a tree or one of the implementation's own error kinds, never the model's artificial
  `Err.other` (fuel exhausted).  Since the fuel only bounds the recursion depth of loops that the
  Rust code runs unbounded, this is the termination of the parser for all inputs (C01), not only
  for the well-formed lines of C02.

  Proof: simultaneous induction on the fuel over the five mutually recursive functions with the
  requirements  level l: 6n+5−l,  unary: 6n+1,  parenthesis body: 6n+6,  binary loop: 6n+1,
  operand loop: 6n+6  (n = number of remaining tokens), together with the consumption facts
  (every successful operand parse consumes at least one token).
-/
import SC.Parser
namespace SCP.ParserTotal
open SC
variable {F : Type} [Num F]
set_option linter.unusedSectionVars false

/-- not the fuel-exhaustion marker -/
def Fine (r : PRes F) : Prop := r ≠ .error .other

/-- a successful result left strictly fewer tokens -/
def Consumes (ts : List (Tok F)) (r : PRes F) : Prop := ∀ a ts', r = .ok (a, ts') → ts'.length < ts.length

def ConsumesLe (ts : List (Tok F)) (r : PRes F) : Prop := ∀ a ts', r = .ok (a, ts') → ts'.length ≤ ts.length

theorem parseBasic_fine (ts : List (Tok F)) : Fine (parseBasic ts) ∧ Consumes ts (parseBasic ts) := by
  cases ts with
  | nil => exact ⟨by simp [Fine, parseBasic], by intro a ts' h; simp [parseBasic] at h⟩
  | cons t rest =>
    have hlen : ∀ (x : Ast F) a ts', (Except.ok (x, rest) : PRes F) = .ok (a, ts') → ts'.length < (t :: rest).length := by
      intro x a ts' h
      simp only [Except.ok.injEq, Prod.mk.injEq] at h
      obtain ⟨_, rfl⟩ := h
      simp
    cases t with
    | item i => exact ⟨by simp [Fine, parseBasic], by intro a ts' h; exact hlen _ a ts' (by simpa [parseBasic] using h)⟩
    | text s => exact ⟨by simp [Fine, parseBasic], by intro a ts' h; exact hlen _ a ts' (by simpa [parseBasic] using h)⟩
    | field f => exact ⟨by simp [Fine, parseBasic], by intro a ts' h; exact hlen _ a ts' (by simpa [parseBasic] using h)⟩
    | var n => exact ⟨by simp [Fine, parseBasic], by intro a ts' h; exact hlen _ a ts' (by simpa [parseBasic] using h)⟩
    | tz n o => exact ⟨by simp [Fine, parseBasic], by intro a ts' h; exact hlen _ a ts' (by simpa [parseBasic] using h)⟩
    | op o => exact ⟨by simp [Fine, parseBasic], by intro a ts' h; simp [parseBasic] at h⟩
    | month m => exact ⟨by simp [Fine, parseBasic], by intro a ts' h; simp [parseBasic] at h⟩

theorem matchOp_len (ops : List Op) (ts : List (Tok F)) (o : Op) (ts1 : List (Tok F)) (h : matchOp ops ts = some (o, ts1)) :
    ts1.length + 1 = ts.length := by
  cases ts with
  | nil => simp [matchOp] at h
  | cons t rest =>
    cases t <;> simp only [matchOp] at h <;> try (cases h)
    split at h
    · simp only [Option.some.injEq, Prod.mk.injEq] at h; obtain ⟨_, rfl⟩ := h; simp
    · cases h

/-- the simultaneous statement for one fuel value -/
structure Claim (fuel : Nat) : Prop where
  level : ∀ (lvl : Nat) (ts : List (Tok F)), Consumes ts (parseLevel fuel lvl ts) ∧
    (lvl ≤ 3 → 6 * ts.length + 5 ≤ fuel + lvl → Fine (parseLevel fuel lvl ts))
  bin : ∀ (lvl : Nat) (left : Ast F) (ts : List (Tok F)), ConsumesLe ts (binLoop fuel lvl left ts) ∧
    (lvl ≤ 2 → 6 * ts.length + 1 ≤ fuel → Fine (binLoop fuel lvl left ts))
  right : ∀ (lvl : Nat) (ts : List (Tok F)), Consumes ts (rightLoop fuel lvl ts) ∧
    (lvl ≤ 2 → 6 * ts.length + 6 ≤ fuel → Fine (rightLoop fuel lvl ts))
  paren : ∀ (ts : List (Tok F)), Consumes ts (parseParenBody fuel ts) ∧
    (6 * ts.length + 6 ≤ fuel → Fine (parseParenBody fuel ts))
  unary : ∀ (ts : List (Tok F)), Consumes ts (parseUnary fuel ts) ∧
    (6 * ts.length + 1 ≤ fuel → Fine (parseUnary fuel ts))

theorem claim_zero : Claim (F := F) 0 := by
  refine ⟨?_, ?_, ?_, ?_, ?_⟩
  · intro lvl ts; exact ⟨by intro a ts' h; simp [parseLevel] at h, by intro _ h; omega⟩
  · intro lvl left ts; exact ⟨by intro a ts' h; simp [binLoop] at h, by intro _ h; omega⟩
  · intro lvl ts; exact ⟨by intro a ts' h; simp [rightLoop] at h, by intro _ h; omega⟩
  · intro ts; exact ⟨by intro a ts' h; simp [parseParenBody] at h, by intro h; omega⟩
  · intro ts; exact ⟨by intro a ts' h; simp [parseUnary] at h, by intro h; omega⟩

theorem claim_succ (n : Nat) (ih : Claim (F := F) n) : Claim (F := F) (n + 1) := by
  refine ⟨?_, ?_, ?_, ?_, ?_⟩
  · -- parseLevel
    intro lvl ts
    simp only [parseLevel]
    by_cases h3 : lvl ≥ 3
    · simp only [h3, if_true]
      exact ⟨(ih.unary ts).1, fun hl hf => (ih.unary ts).2 (by omega)⟩
    · simp only [h3, if_false]
      have hin := ih.level (lvl + 1) ts
      cases hr : parseLevel n (lvl + 1) ts with
      | error e =>
        refine ⟨by intro a ts' h; simp at h, ?_⟩
        intro _ hf
        have := hin.2 (by omega) (by omega)
        rw [hr] at this
        simpa [Fine] using this
      | ok p =>
        obtain ⟨left, ts'⟩ := p
        have hc : ts'.length < ts.length := hin.1 left ts' hr
        cases left with
        | none => exact ⟨by intro a t2 h; simp at h; obtain ⟨_, rfl⟩ := h; exact hc, by intro _ _; simp [Fine]⟩
        | _ =>
          simp only
          refine ⟨?_, ?_⟩
          · intro a t2 h
            have := (ih.bin lvl _ ts').1 a t2 h
            omega
          · intro _ hf
            exact (ih.bin lvl _ ts').2 (by omega) (by omega)
  · -- binLoop
    intro lvl left ts
    simp only [binLoop]
    cases hm : matchOp (levelOps lvl) ts with
    | none => exact ⟨by intro a ts' h; simp at h; obtain ⟨_, rfl⟩ := h; exact Nat.le_refl _, by intro _ _; simp [Fine]⟩
    | some p =>
      obtain ⟨o, ts1⟩ := p
      have hl := matchOp_len _ _ _ _ hm
      simp only
      have hr := ih.right lvl ts1
      cases hrr : rightLoop n lvl ts1 with
      | error e =>
        refine ⟨by intro a ts' h; simp at h, ?_⟩
        intro h2 hf
        have := hr.2 h2 (by omega)
        rw [hrr] at this
        simpa [Fine] using this
      | ok q =>
        obtain ⟨right, ts2⟩ := q
        have hc : ts2.length < ts1.length := hr.1 right ts2 hrr
        simp only
        refine ⟨?_, ?_⟩
        · intro a t3 h
          have := (ih.bin lvl _ ts2).1 a t3 h
          omega
        · intro h2 hf
          exact (ih.bin lvl _ ts2).2 h2 (by omega)
  · -- rightLoop
    intro lvl ts
    simp only [rightLoop]
    have hin := ih.level (lvl + 1) ts
    cases hr : parseLevel n (lvl + 1) ts with
    | error e =>
      refine ⟨by intro a ts' h; simp at h, ?_⟩
      intro h2 hf
      have := hin.2 (by omega) (by omega)
      rw [hr] at this
      simpa [Fine] using this
    | ok p =>
      obtain ⟨ast, ts'⟩ := p
      have hc : ts'.length < ts.length := hin.1 ast ts' hr
      cases ast with
      | none =>
        simp only
        refine ⟨?_, ?_⟩
        · intro a t2 h
          have := (ih.right lvl ts').1 a t2 h
          omega
        · intro h2 hf
          exact (ih.right lvl ts').2 h2 (by omega)
      | _ => exact ⟨by intro a t2 h; simp at h; obtain ⟨_, rfl⟩ := h; exact hc, by intro _ _; simp [Fine]⟩
  · -- parseParenBody
    intro ts
    simp only [parseParenBody]
    have hin := ih.level 0 ts
    cases hr : parseLevel n 0 ts with
    | error e =>
      refine ⟨by intro a ts' h; simp at h, ?_⟩
      intro hf
      have := hin.2 (by omega) (by omega)
      rw [hr] at this
      simpa [Fine] using this
    | ok p =>
      obtain ⟨ast, ts3⟩ := p
      have hc : ts3.length < ts.length := hin.1 ast ts3 hr
      cases ast with
      | none => exact ⟨by intro a t2 h; simp at h, by intro _; simp [Fine]⟩
      | _ =>
        simp only
        cases hm : matchOp [Op.rparen] ts3 with
        | none => exact ⟨by intro a t2 h; simp at h, by intro _; simp [Fine]⟩
        | some q =>
          obtain ⟨o, ts4⟩ := q
          have := matchOp_len _ _ _ _ hm
          exact ⟨by intro a t2 h; simp at h; obtain ⟨_, rfl⟩ := h; omega, by intro _; simp [Fine]⟩
  · -- parseUnary
    intro ts
    simp only [parseUnary]
    cases ts with
    | nil => exact parseBasic_fine ([] : List (Tok F)) |> fun h => ⟨h.2, fun _ => h.1⟩
    | cons t rest =>
      cases t with
      | op o =>
        simp only
        by_cases hs : o.isSign = true
        · simp only [hs, if_true]
          cases rest with
          | nil =>
            have := parseBasic_fine ([] : List (Tok F))
            exact ⟨by intro a ts' h; simp [parseBasic] at h, fun _ => this.1⟩
          | cons t2 rest' =>
            simp only
            by_cases hp : t2.isOpOf .lparen = true
            · simp only [hp, if_true]
              have hpb := ih.paren rest'
              cases hr : parseParenBody n rest' with
              | error e =>
                refine ⟨by intro a ts' h; simp at h, ?_⟩
                intro hf
                have := hpb.2 (by simp only [List.length_cons] at hf; omega)
                rw [hr] at this
                simpa [Fine] using this
              | ok q =>
                obtain ⟨ast, ts4⟩ := q
                have := hpb.1 ast ts4 hr
                exact ⟨by intro a t3 h; simp at h; obtain ⟨_, rfl⟩ := h; simp only [List.length_cons]; omega, by intro _; simp [Fine]⟩
            · simp only [hp, Bool.false_eq_true, if_false]
              cases hpo : prefixOperand o t2 with
              | none => exact ⟨by intro a t3 h; simp at h, by intro _; simp [Fine]⟩
              | some ast => exact ⟨by intro a t3 h; simp at h; obtain ⟨_, rfl⟩ := h; simp only [List.length_cons]; omega, by intro _; simp [Fine]⟩
        · simp only [hs, Bool.false_eq_true, if_false]
          by_cases hlp : o = .lparen
          · simp only [hlp, if_true]
            have hpb := ih.paren rest
            refine ⟨?_, ?_⟩
            · intro a t3 h
              have := hpb.1 a t3 h
              simp only [List.length_cons]; omega
            · intro hf
              exact hpb.2 (by simp only [List.length_cons] at hf; omega)
          · simp only [hlp, if_false]
            have := parseBasic_fine (Tok.op o :: rest)
            exact ⟨this.2, fun _ => this.1⟩
      | _ =>
        simp only
        first
        | exact (parseBasic_fine _ |> fun h => ⟨h.2, fun _ => h.1⟩)

theorem claim_all : ∀ fuel, Claim (F := F) fuel
  | 0 => claim_zero
  | n + 1 => claim_succ n (claim_all n)

/-- THE THEOREM: on every token list the parser returns a tree or one of the implementation's
    error kinds; its fuel is never exhausted -/
theorem parseExpr_total (ts : List (Tok F)) : parseExpr ts ≠ .error .other := by
  unfold parseExpr parseFuel
  exact ((claim_all (8 * (ts.length + 2))).level 0 ts).2 (by omega) (by omega)

/-- and every successful parse consumed at least one token -/
theorem parseExpr_consumes (ts : List (Tok F)) (a : Ast F) (ts' : List (Tok F)) (h : parseExpr ts = .ok (a, ts')) :
    ts'.length < ts.length :=
  ((claim_all (parseFuel ts)).level 0 ts).1 a ts' h

end SCP.ParserTotal
