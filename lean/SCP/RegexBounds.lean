/-
  SCP.RegexBounds — every position the regex simulation reports (start, end and every capture
  group of a match) lies inside the line: `≤ cs.size`.  Invariant: the capture slots of every
  thread in the list of position `p` hold positions `≤ p`, and the search never looks beyond the
  end of the line.  Hence the lexer never asks for the byte offset of a character index that does
  not exist.
-/
import SC.Regex
namespace SCP.RegexBounds
open SC

def SlotsLe (p : Nat) (sl : Slots) : Prop := ∀ (i v : Nat), sl[i]? = some (some v) → v ≤ p

theorem slotsLe_mono {p q : Nat} (h : p ≤ q) {sl : Slots} (hs : SlotsLe p sl) : SlotsLe q sl :=
  fun i v hv => Nat.le_trans (hs i v hv) h

theorem slotsLe_set (p : Nat) (sl : Slots) (n v : Nat) (hs : SlotsLe p sl) (hv : v ≤ p) : SlotsLe p (sl.set! n (some v)) := by
  intro i w hw
  by_cases hi : i = n
  · subst hi
    by_cases hlt : i < sl.size
    · have : (sl.set! i (some v))[i]? = some (some v) := by simp [Array.set!, hlt]
      rw [this] at hw; cases hw; exact hv
    · have : (sl.set! i (some v))[i]? = none := by simp [Array.set!]; omega
      rw [this] at hw; cases hw
  · have : (sl.set! n (some v))[i]? = sl[i]? := by
      simp only [Array.set!, Array.setIfInBounds]
      split
      · exact Array.getElem?_set_ne _ (by omega)
      · rfl
    rw [this] at hw; exact hs i w hw

theorem slotsLe_empty (p n : Nat) : SlotsLe p (Array.replicate n none) := by
  intro i v h
  simp [Array.getElem?_replicate] at h

def ThreadsLe (p : Nat) (ts : Array Thread) : Prop := ∀ t ∈ ts.toList, SlotsLe p t.slots

theorem threadsLe_push (p : Nat) (ts : Array Thread) (t : Thread) (h : ThreadsLe p ts) (ht : SlotsLe p t.slots) : ThreadsLe p (ts.push t) := by
  intro x hx
  simp only [Array.toList_push, List.mem_append, List.mem_singleton] at hx
  rcases hx with hx | rfl
  · exact h x hx
  · exact ht

theorem addThreads_le (T : UTables) (cs : Array Char) (prog : Array Inst) (pos : Nat) :
    ∀ (fuel : Nat) (stack : List (Nat × Slots)) (seen : Array Bool) (acc : Array Thread),
      (∀ e ∈ stack, SlotsLe pos e.2) → ThreadsLe pos acc → ThreadsLe pos (addThreads T cs prog pos fuel stack seen acc).2 := by
  intro fuel
  induction fuel with
  | zero => intro stack seen acc _ h; simpa [addThreads] using h
  | succ n ih =>
    intro stack seen acc hst hacc
    cases stack with
    | nil => simpa [addThreads] using hacc
    | cons top rest =>
      obtain ⟨pc, sl⟩ := top
      have hsl : SlotsLe pos sl := hst (pc, sl) List.mem_cons_self
      have hrest : ∀ e ∈ rest, SlotsLe pos e.2 := fun e he => hst e (List.mem_cons_of_mem _ he)
      simp only [addThreads]
      split
      · exact ih rest seen acc hrest hacc
      · cases prog[pc]! with
        | jmp x => exact ih _ _ acc (by intro e he; rcases List.mem_cons.mp he with rfl | he; exact hsl; exact hrest e he) hacc
        | split x y =>
          exact ih _ _ acc (by
            intro e he
            rcases List.mem_cons.mp he with rfl | he
            · exact hsl
            · rcases List.mem_cons.mp he with rfl | he
              · exact hsl
              · exact hrest e he) hacc
        | save s =>
          exact ih _ _ acc (by
            intro e he
            rcases List.mem_cons.mp he with rfl | he
            · exact slotsLe_set pos sl s pos hsl (Nat.le_refl _)
            · exact hrest e he) hacc
        | wordb =>
          simp only
          split
          · exact ih _ _ acc (by intro e he; rcases List.mem_cons.mp he with rfl | he; exact hsl; exact hrest e he) hacc
          · exact ih rest _ acc hrest hacc
        | chr s => exact ih rest _ _ hrest (threadsLe_push pos acc _ hacc hsl)
        | done => exact ih rest _ _ hrest (threadsLe_push pos acc _ hacc hsl)

theorem threadsLe_mono {p q : Nat} (h : p ≤ q) {ts : Array Thread} (hs : ThreadsLe p ts) : ThreadsLe q ts :=
  fun t ht => slotsLe_mono h (hs t ht)

theorem threadsLe_empty (p : Nat) : ThreadsLe p #[] := by intro t ht; simp at ht

/-- one step: the threads of the next position hold positions `≤ pos + 1`, a match found here positions `≤ pos` -/
theorem stepThreads_le (T : UTables) (cs : Array Char) (prog : Array Inst) (pos : Nat) (clist : Array Thread)
    (h : ThreadsLe pos clist) :
    ThreadsLe (pos + 1) (stepThreads T cs prog pos clist).1 ∧
      ∀ sl, (stepThreads T cs prog pos clist).2 = some sl → SlotsLe pos sl := by
  unfold stepThreads
  simp only
  -- invariant of the fold over the threads
  have key : ∀ (l : List Thread) (st : Array Bool × Array Thread × Option Slots × Bool),
      (∀ t ∈ l, SlotsLe pos t.slots) → ThreadsLe (pos + 1) st.2.1 → (∀ sl, st.2.2.1 = some sl → SlotsLe pos sl) →
      let r := l.foldl (fun (st : Array Bool × Array Thread × Option Slots × Bool) th =>
        if st.2.2.2 then st else
        match prog[th.pc]! with
        | .chr s =>
          if h : pos < cs.size then
            if s.has T cs[pos] then
              ((addThreads T cs prog (pos + 1) (4 * prog.size + 8) [(th.pc + 1, th.slots)] st.1 st.2.1).1,
               (addThreads T cs prog (pos + 1) (4 * prog.size + 8) [(th.pc + 1, th.slots)] st.1 st.2.1).2, st.2.2.1, false)
            else st
          else st
        | .done => (st.1, st.2.1, some th.slots, true)
        | _ => st) st
      ThreadsLe (pos + 1) r.2.1 ∧ ∀ sl, r.2.2.1 = some sl → SlotsLe pos sl := by
    intro l
    induction l with
    | nil => intro st _ h1 h2; exact ⟨h1, h2⟩
    | cons th rest ih =>
      intro st hl h1 h2
      simp only [List.foldl_cons]
      have hth : SlotsLe pos th.slots := hl th List.mem_cons_self
      have hrest : ∀ t ∈ rest, SlotsLe pos t.slots := fun t ht => hl t (List.mem_cons_of_mem _ ht)
      apply ih _ hrest
      · split
        · exact h1
        · split
          · split
            · split
              · exact addThreads_le T cs prog (pos + 1) _ _ _ _
                  (by intro e he; rcases List.mem_singleton.mp he with rfl; exact slotsLe_mono (Nat.le_succ _) hth) h1
              · exact h1
            · exact h1
          · exact h1
          · exact h1
      · split
        · exact h2
        · split
          · split
            · split
              · exact h2
              · exact h2
            · exact h2
          · intro sl hsl; simp only [Option.some.injEq] at hsl; rw [← hsl]; exact hth
          · exact h2
  have hk := key clist.toList (Array.replicate prog.size false, #[], none, false) h (threadsLe_empty _) (by intro sl hsl; cases hsl)
  rw [← Array.foldl_toList]
  exact hk

/-- the search loop: whatever it returns holds positions inside the line -/
theorem findLoop_le (T : UTables) (cs : Array Char) (prog : Array Inst) (empty : Slots) (he : ∀ p, SlotsLe p empty) :
    ∀ (n pos : Nat) (pending : Array Thread) (found : Option Slots),
      ThreadsLe pos pending → (∀ sl, found = some sl → SlotsLe cs.size sl) →
      ∀ sl, findLoop T cs prog empty n pos pending found = some sl → SlotsLe cs.size sl := by
  intro n
  induction n with
  | zero => intro pos pending found _ hf sl h; simp only [findLoop] at h; exact hf sl h
  | succ k ih =>
    intro pos pending found hp hf sl h
    simp only [findLoop] at h
    by_cases hpos : pos > cs.size
    · simp only [hpos, if_true] at h; exact hf sl h
    · simp only [hpos, if_false] at h
      have hle : pos ≤ cs.size := Nat.le_of_not_gt hpos
      -- the thread list of this position
      have hclist : ThreadsLe pos (if found.isNone = true then
          (addThreads T cs prog pos (4 * prog.size + 8) [(0, empty)]
            (pending.foldl (fun s th => s.set! th.pc true) (Array.replicate prog.size false)) pending).2 else pending) := by
        split
        · exact addThreads_le T cs prog pos _ _ _ _ (by intro e hm; rcases List.mem_singleton.mp hm with rfl; exact he pos) hp
        · exact hp
      generalize hcl : (if found.isNone = true then
          (addThreads T cs prog pos (4 * prog.size + 8) [(0, empty)]
            (pending.foldl (fun s th => s.set! th.pc true) (Array.replicate prog.size false)) pending).2 else pending) = clist at h hclist
      by_cases hemp : clist.isEmpty = true
      · simp only [hemp, if_true] at h
        by_cases hfs : found.isSome = true
        · simp only [hfs, if_true] at h; exact hf sl h
        · simp only [hfs, Bool.false_eq_true, if_false] at h
          exact ih (pos + 1) #[] none (threadsLe_empty _) (by intro sl hsl; cases hsl) sl h
      · simp only [hemp, Bool.false_eq_true, if_false] at h
        have hstep := stepThreads_le T cs prog pos clist hclist
        refine ih (pos + 1) _ _ hstep.1 ?_ sl h
        intro sl' hsl'
        split at hsl'
        · rename_i m hm
          cases hsl'
          exact slotsLe_mono hle (hstep.2 _ hm)
        · exact hf sl' hsl'

/-- EVERY MATCH lies inside the line, and so does every capture group -/
theorem find_in_bounds (T : UTables) (cs : Array Char) (r : Re) (start : Nat) (m : RMatch) (h : Re.find T cs r start = some m) :
    m.start ≤ cs.size ∧ m.stop ≤ cs.size ∧ SlotsLe cs.size m.slots := by
  unfold Re.find at h
  simp only at h
  split at h
  · rename_i sl hsl
    have hb := findLoop_le T cs r.program (Array.replicate (2 * (r.maxGroup + 1)) none) (fun p => slotsLe_empty p _)
      _ start #[] none (threadsLe_empty _) (by intro sl hs; cases hs) sl hsl
    split at h
    · rename_i s e hs he
      cases h
      refine ⟨hb 0 s ?_, hb 1 e ?_, hb⟩
      · have : sl[0]? = some sl[0]! := by
          by_cases h0 : 0 < sl.size
          · simp [getElem!_pos, h0]
          · simp [getElem!_neg, h0] at hs
        rw [this, hs]
      · have : sl[1]? = some sl[1]! := by
          by_cases h1 : 1 < sl.size
          · simp [getElem!_pos, h1]
          · simp [getElem!_neg, h1] at he
        rw [this, he]
    · cases h
  · cases h

/-! ### lower bound: nothing is reported in front of the position the search started at -/

def SlotsGe (p : Nat) (sl : Slots) : Prop := ∀ (i v : Nat), sl[i]? = some (some v) → p ≤ v


theorem slotsGe_set (p : Nat) (sl : Slots) (n v : Nat) (hs : SlotsGe p sl) (hv : p ≤ v) : SlotsGe p (sl.set! n (some v)) := by
  intro i w hw
  by_cases hi : i = n
  · subst hi
    by_cases hlt : i < sl.size
    · have : (sl.set! i (some v))[i]? = some (some v) := by simp [Array.set!, hlt]
      rw [this] at hw; cases hw; exact hv
    · have : (sl.set! i (some v))[i]? = none := by simp [Array.set!]; omega
      rw [this] at hw; cases hw
  · have : (sl.set! n (some v))[i]? = sl[i]? := by
      simp only [Array.set!, Array.setIfInBounds]
      split
      · exact Array.getElem?_set_ne _ (by omega)
      · rfl
    rw [this] at hw; exact hs i w hw

theorem slotsGe_empty (p n : Nat) : SlotsGe p (Array.replicate n none) := by
  intro i v h
  simp [Array.getElem?_replicate] at h

def ThreadsGe (p : Nat) (ts : Array Thread) : Prop := ∀ t ∈ ts.toList, SlotsGe p t.slots

theorem threadsGe_push (p : Nat) (ts : Array Thread) (t : Thread) (h : ThreadsGe p ts) (ht : SlotsGe p t.slots) : ThreadsGe p (ts.push t) := by
  intro x hx
  simp only [Array.toList_push, List.mem_append, List.mem_singleton] at hx
  rcases hx with hx | rfl
  · exact h x hx
  · exact ht

theorem addThreads_ge (T : UTables) (cs : Array Char) (prog : Array Inst) (s pos : Nat) (hsp : s ≤ pos) :
    ∀ (fuel : Nat) (stack : List (Nat × Slots)) (seen : Array Bool) (acc : Array Thread),
      (∀ e ∈ stack, SlotsGe s e.2) → ThreadsGe s acc → ThreadsGe s (addThreads T cs prog pos fuel stack seen acc).2 := by
  intro fuel
  induction fuel with
  | zero => intro stack seen acc _ h; simpa [addThreads] using h
  | succ n ih =>
    intro stack seen acc hst hacc
    cases stack with
    | nil => simpa [addThreads] using hacc
    | cons top rest =>
      obtain ⟨pc, sl⟩ := top
      have hsl : SlotsGe s sl := hst (pc, sl) List.mem_cons_self
      have hrest : ∀ e ∈ rest, SlotsGe s e.2 := fun e he => hst e (List.mem_cons_of_mem _ he)
      simp only [addThreads]
      split
      · exact ih rest seen acc hrest hacc
      · cases prog[pc]! with
        | jmp x => exact ih _ _ acc (by intro e he; rcases List.mem_cons.mp he with rfl | he; exact hsl; exact hrest e he) hacc
        | split x y =>
          exact ih _ _ acc (by
            intro e he
            rcases List.mem_cons.mp he with rfl | he
            · exact hsl
            · rcases List.mem_cons.mp he with rfl | he
              · exact hsl
              · exact hrest e he) hacc
        | save sn =>
          exact ih _ _ acc (by
            intro e he
            rcases List.mem_cons.mp he with rfl | he
            · exact slotsGe_set s sl sn pos hsl hsp
            · exact hrest e he) hacc
        | wordb =>
          simp only
          split
          · exact ih _ _ acc (by intro e he; rcases List.mem_cons.mp he with rfl | he; exact hsl; exact hrest e he) hacc
          · exact ih rest _ acc hrest hacc
        | chr cset => exact ih rest _ _ hrest (threadsGe_push s acc _ hacc hsl)
        | done => exact ih rest _ _ hrest (threadsGe_push s acc _ hacc hsl)

theorem threadsGe_empty (p : Nat) : ThreadsGe p #[] := by intro t ht; simp at ht

theorem stepThreads_ge (T : UTables) (cs : Array Char) (prog : Array Inst) (s pos : Nat) (hsp : s ≤ pos) (clist : Array Thread)
    (h : ThreadsGe s clist) :
    ThreadsGe s (stepThreads T cs prog pos clist).1 ∧ ∀ sl, (stepThreads T cs prog pos clist).2 = some sl → SlotsGe s sl := by
  unfold stepThreads
  simp only
  have key : ∀ (l : List Thread) (st : Array Bool × Array Thread × Option Slots × Bool),
      (∀ t ∈ l, SlotsGe s t.slots) → ThreadsGe s st.2.1 → (∀ sl, st.2.2.1 = some sl → SlotsGe s sl) →
      let r := l.foldl (fun (st : Array Bool × Array Thread × Option Slots × Bool) th =>
        if st.2.2.2 then st else
        match prog[th.pc]! with
        | .chr cset =>
          if h : pos < cs.size then
            if cset.has T cs[pos] then
              ((addThreads T cs prog (pos + 1) (4 * prog.size + 8) [(th.pc + 1, th.slots)] st.1 st.2.1).1,
               (addThreads T cs prog (pos + 1) (4 * prog.size + 8) [(th.pc + 1, th.slots)] st.1 st.2.1).2, st.2.2.1, false)
            else st
          else st
        | .done => (st.1, st.2.1, some th.slots, true)
        | _ => st) st
      ThreadsGe s r.2.1 ∧ ∀ sl, r.2.2.1 = some sl → SlotsGe s sl := by
    intro l
    induction l with
    | nil => intro st _ h1 h2; exact ⟨h1, h2⟩
    | cons th rest ih =>
      intro st hl h1 h2
      simp only [List.foldl_cons]
      have hth : SlotsGe s th.slots := hl th List.mem_cons_self
      have hrest : ∀ t ∈ rest, SlotsGe s t.slots := fun t ht => hl t (List.mem_cons_of_mem _ ht)
      apply ih _ hrest
      · split
        · exact h1
        · split
          · split
            · split
              · exact addThreads_ge T cs prog s (pos + 1) (Nat.le_succ_of_le hsp) _ _ _ _
                  (by intro e he; rcases List.mem_singleton.mp he with rfl; exact hth) h1
              · exact h1
            · exact h1
          · exact h1
          · exact h1
      · split
        · exact h2
        · split
          · split
            · split
              · exact h2
              · exact h2
            · exact h2
          · intro sl hsl; simp only [Option.some.injEq] at hsl; rw [← hsl]; exact hth
          · exact h2
  have hk := key clist.toList (Array.replicate prog.size false, #[], none, false) h (threadsGe_empty _) (by intro sl hsl; cases hsl)
  rw [← Array.foldl_toList]
  exact hk

theorem findLoop_ge (T : UTables) (cs : Array Char) (prog : Array Inst) (empty : Slots) (s : Nat) (he : SlotsGe s empty) :
    ∀ (n pos : Nat) (pending : Array Thread) (found : Option Slots), s ≤ pos →
      ThreadsGe s pending → (∀ sl, found = some sl → SlotsGe s sl) →
      ∀ sl, findLoop T cs prog empty n pos pending found = some sl → SlotsGe s sl := by
  intro n
  induction n with
  | zero => intro pos pending found _ _ hf sl h; simp only [findLoop] at h; exact hf sl h
  | succ k ih =>
    intro pos pending found hsp hp hf sl h
    simp only [findLoop] at h
    by_cases hpos : pos > cs.size
    · simp only [hpos, if_true] at h; exact hf sl h
    · simp only [hpos, if_false] at h
      have hclist : ThreadsGe s (if found.isNone = true then
          (addThreads T cs prog pos (4 * prog.size + 8) [(0, empty)]
            (pending.foldl (fun sn th => sn.set! th.pc true) (Array.replicate prog.size false)) pending).2 else pending) := by
        split
        · exact addThreads_ge T cs prog s pos hsp _ _ _ _ (by intro e hm; rcases List.mem_singleton.mp hm with rfl; exact he) hp
        · exact hp
      generalize hcl : (if found.isNone = true then
          (addThreads T cs prog pos (4 * prog.size + 8) [(0, empty)]
            (pending.foldl (fun sn th => sn.set! th.pc true) (Array.replicate prog.size false)) pending).2 else pending) = clist at h hclist
      by_cases hemp : clist.isEmpty = true
      · simp only [hemp, if_true] at h
        by_cases hfs : found.isSome = true
        · simp only [hfs, if_true] at h; exact hf sl h
        · simp only [hfs, Bool.false_eq_true, if_false] at h
          exact ih (pos + 1) #[] none (Nat.le_succ_of_le hsp) (threadsGe_empty _) (by intro sl hsl; cases hsl) sl h
      · simp only [hemp, Bool.false_eq_true, if_false] at h
        have hstep := stepThreads_ge T cs prog s pos hsp clist hclist
        refine ih (pos + 1) _ _ (Nat.le_succ_of_le hsp) hstep.1 ?_ sl h
        intro sl' hsl'
        split at hsl'
        · rename_i m hm
          cases hsl'
          exact hstep.2 _ hm
        · exact hf sl' hsl'

/-- a match found by a search from `start` begins at or behind `start` -/
theorem find_from (T : UTables) (cs : Array Char) (r : Re) (start : Nat) (m : RMatch) (h : Re.find T cs r start = some m) :
    start ≤ m.start ∧ start ≤ m.stop := by
  unfold Re.find at h
  simp only at h
  split at h
  · rename_i sl hsl
    have hb := findLoop_ge T cs r.program (Array.replicate (2 * (r.maxGroup + 1)) none) start (slotsGe_empty start _)
      _ start #[] none (Nat.le_refl _) (threadsGe_empty _) (by intro sl hs; cases hs) sl hsl
    split at h
    · rename_i s0 e0 hs he
      cases h
      refine ⟨hb 0 s0 ?_, hb 1 e0 ?_⟩
      · have : sl[0]? = some sl[0]! := by
          by_cases h0 : 0 < sl.size
          · simp [getElem!_pos, h0]
          · simp [getElem!_neg, h0] at hs
        rw [this, hs]
      · have : sl[1]? = some sl[1]! := by
          by_cases h1 : 1 < sl.size
          · simp [getElem!_pos, h1]
          · simp [getElem!_neg, h1] at he
        rw [this, he]
    · cases h
  · cases h

/-- every match `captures_iter` yields lies inside the line -/
theorem all_in_bounds (T : UTables) (cs : Array Char) (r : Re) :
    ∀ m ∈ Re.all T cs r, m.start ≤ cs.size ∧ m.stop ≤ cs.size ∧ SlotsLe cs.size m.slots := by
  unfold Re.all
  have key : ∀ (fuel start : Nat) (last : Option Nat), ∀ m ∈ Re.all.go T cs r fuel start last,
      m.start ≤ cs.size ∧ m.stop ≤ cs.size ∧ SlotsLe cs.size m.slots := by
    intro fuel
    induction fuel with
    | zero => intro start last m hm; simp [Re.all.go] at hm
    | succ n ih =>
      intro start last m hm
      simp only [Re.all.go] at hm
      split at hm
      · simp at hm
      · rename_i m0 hm0
        split at hm
        · simp at hm
        · rename_i m1 hm1
          rcases List.mem_cons.mp hm with rfl | hm
          · split at hm1
            · exact find_in_bounds T cs r _ _ hm1
            · cases hm1; exact find_in_bounds T cs r _ _ hm0
          · exact ih _ _ m hm
  exact key _ _ _

/-- a named capture group lies inside the line -/
theorem cap_in_bounds (n : NRe) (m : RMatch) (size : Nat) (hm : SlotsLe size m.slots) (name : String) (s e : Nat)
    (h : n.cap m name = some (s, e)) : s ≤ size ∧ e ≤ size := by
  unfold NRe.cap at h
  split at h
  · rename_i i _
    split at h
    · rename_i hs he
      simp only [Option.some.injEq, Prod.mk.injEq] at h
      obtain ⟨rfl, rfl⟩ := h
      exact ⟨hm _ _ hs, hm _ _ he⟩
    · cases h
  · cases h

/-- matches in text order: each one begins at or behind the end of its predecessor -/
def Chain : Nat → List RMatch → Prop
  | _, [] => True
  | lo, m :: rest => lo ≤ m.start ∧ lo ≤ m.stop ∧ Chain m.stop rest

/-- `captures_iter` yields its matches in text order and without overlap -/
theorem all_chain (T : UTables) (cs : Array Char) (r : Re) : Chain 0 (Re.all T cs r) := by
  unfold Re.all
  have key : ∀ (fuel start : Nat) (last : Option Nat), Chain start (Re.all.go T cs r fuel start last) := by
    intro fuel
    induction fuel with
    | zero => intro start last; simp [Re.all.go, Chain]
    | succ n ih =>
      intro start last
      simp only [Re.all.go]
      split
      · simp [Chain]
      · rename_i m0 hm0
        split
        · simp [Chain]
        · rename_i m1 hm1
          have hge : start ≤ m1.start ∧ start ≤ m1.stop := by
            split at hm1
            · have := find_from T cs r _ _ hm1
              exact ⟨by omega, by omega⟩
            · cases hm1; exact find_from T cs r _ _ hm0
          exact ⟨hge.1, hge.2, ih _ _⟩
  exact key _ _ _

end SCP.RegexBounds
