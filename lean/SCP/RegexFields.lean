/-
  SCP.RegexFields — data obligations on the regenerated time and zone expressions (re-decided by the
  kernel on every run): whatever the `hour`, `minute`, `second` groups of a time expression can
  capture is a number of at most 23 / 59 / 59 (at most 12 for the hour of an am/pm form), and the
  hour / minute groups of the GMT syntax at most 19 / 59.  These are the domains of
  `NaiveTime::from_hms` / `FixedOffset::east` the time parser feeds them into; an expression that
  accepts '24:00' (seed C01-2) fails the obligation.  The language of a group is computed from the
  expression data (`Re.finiteLang`); that the matcher only captures words of that language is not
  proved here (the lexer model is tied to the code per line).
-/
import SC.Regex
import SC.Gen.Regexes
import SC.Types
namespace SCP.RegexFields
open SC

def timeRes : List NRe := (assoc? Gen.parseRegexes "time").getD []
def zoneRes : List NRe := (assoc? Gen.parseRegexes "timezone").getD []

theorem gen_time_fields_in_range :
    (timeRes.all fun r => r.groupAtMost "hour" 23 && r.groupAtMost "minute" 59 && r.groupAtMost "second" 59 &&
      ((r.names.any (·.1 = "meridiem")) → r.groupAtMost "hour" 12)) = true := by decide +kernel

theorem gen_zone_fields_in_range :
    (zoneRes.all fun r => r.groupAtMost "timezone_hour" 19 && r.groupAtMost "timezone_minute" 59) = true := by decide +kernel

/-- the obligation is about something: the expressions exist and have the groups -/
example : timeRes.length = 5 ∧ (timeRes.all fun r => r.names.any (·.1 = "hour")) = true := by decide +kernel

end SCP.RegexFields
