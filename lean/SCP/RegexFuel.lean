/-
  SCP.RegexFuel — the fuel of the regex simulation is never the reason a thread is lost.

  `addThreads` follows the instructions that consume no character, with an explicit stack and a
  `seen` flag per program counter.  Measure: 3 · (program counters not yet seen) + stack height.
  Every step lowers it (a seen / out-of-range entry is popped: −1; a new one is marked and pushes
  at most two: −3 + 1).  Hence beyond that many steps more fuel changes nothing
  (`addThreads_stable`), and the fuel the model passes (`4 · size + 8`, one entry on the stack,
  `seen` of the program's size) is always enough (`addThreads_model_fuel`).
-/
import SC.Regex
namespace SCP.RegexFuel
open SC

def unseen (seen : List Bool) : Nat := (seen.filter (· = false)).length

theorem unseen_set (seen : List Bool) (i : Nat) (hi : i < seen.length) (h : seen[i] = false) :
    unseen (seen.set i true) + 1 = unseen seen := by
  induction seen generalizing i with
  | nil => simp at hi
  | cons b rest ih =>
    cases i with
    | zero =>
      simp only [List.getElem_cons_zero] at h
      subst h
      simp [unseen, List.set]
    | succ j =>
      simp only [List.getElem_cons_succ] at h
      have := ih j (by simpa using hi) h
      cases b <;> simp [unseen, List.set] at this ⊢ <;> omega

def mu (stack : List (Nat × Slots)) (seen : Array Bool) : Nat := 3 * unseen seen.toList + stack.length

theorem addThreads_stable (T : UTables) (cs : Array Char) (prog : Array Inst) (pos : Nat) :
    ∀ (fuel : Nat) (stack : List (Nat × Slots)) (seen : Array Bool) (acc : Array Thread) (k : Nat),
      seen.size = prog.size → mu stack seen < fuel →
      addThreads T cs prog pos (fuel + k) stack seen acc = addThreads T cs prog pos fuel stack seen acc := by
  intro fuel
  induction fuel with
  | zero => intro stack seen acc k _ h; omega
  | succ n ih =>
    intro stack seen acc k hsz h
    rw [show n + 1 + k = (n + k) + 1 by omega]
    cases stack with
    | nil => simp [addThreads]
    | cons top rest =>
      obtain ⟨pc, sl⟩ := top
      simp only [addThreads]
      by_cases hskip : (decide (pc ≥ prog.size) || seen[pc]!) = true
      · simp only [hskip, if_true]
        exact ih rest seen acc k hsz (by simp only [mu, List.length_cons] at h ⊢; omega)
      · simp only [hskip, Bool.false_eq_true, if_false]
        have hpc : pc < prog.size := by
          simp only [Bool.or_eq_true, decide_eq_true_eq, not_or, Nat.not_le] at hskip; exact hskip.1
        have hpcs : pc < seen.size := by omega
        have hns : seen[pc] = false := by
          simp only [Bool.or_eq_true, decide_eq_true_eq, not_or] at hskip
          have := hskip.2
          rw [getElem!_pos seen pc hpcs] at this
          simpa using this
        have hsz' : (seen.set! pc true).size = prog.size := by simp [hsz]
        have hun : unseen (seen.set! pc true).toList + 1 = unseen seen.toList := by
          have : (seen.set! pc true).toList = seen.toList.set pc true := by simp [Array.set!]
          rw [this]
          exact unseen_set seen.toList pc (by simpa using hpcs) (by simpa using hns)
        have hmu : ∀ (st : List (Nat × Slots)), st.length ≤ rest.length + 2 → mu st (seen.set! pc true) < n := by
          intro st hst
          simp only [mu, List.length_cons] at h ⊢
          omega
        cases prog[pc]! with
        | jmp x => exact ih _ _ acc k hsz' (hmu _ (by simp))
        | split x y => exact ih _ _ acc k hsz' (hmu _ (by simp))
        | save s => exact ih _ _ acc k hsz' (hmu _ (by simp))
        | wordb =>
          simp only
          split
          · exact ih _ _ acc k hsz' (hmu _ (by simp))
          · exact ih _ _ acc k hsz' (hmu _ (by simp))
        | chr s => exact ih _ _ _ k hsz' (hmu _ (by simp))
        | done => exact ih _ _ _ k hsz' (hmu _ (by simp))

/-- the fuel the model passes is enough: one entry on the stack, flags of the program's size -/
theorem addThreads_model_fuel (T : UTables) (cs : Array Char) (prog : Array Inst) (pos : Nat)
    (start : Nat × Slots) (seen : Array Bool) (acc : Array Thread) (hsz : seen.size = prog.size) (k : Nat) :
    addThreads T cs prog pos (4 * prog.size + 8 + k) [start] seen acc = addThreads T cs prog pos (4 * prog.size + 8) [start] seen acc := by
  apply addThreads_stable T cs prog pos _ _ _ _ _ hsz
  have : unseen seen.toList ≤ seen.toList.length := List.length_filter_le _ _
  simp only [mu, List.length_cons, List.length_nil]
  simp only [Array.length_toList] at this
  omega

end SCP.RegexFuel
