/-
  SCP.RegexLint — a data obligation on the regenerated regular expressions (re-decided by the kernel
  on every run): no token expression of `config.json` bounds the length of a run of blanks.  Every
  class that accepts U+0020 stands under a repetition without upper bound.  The obligation failed on
  the time expressions before the repair 4e22569 (` ?` in front of am/pm: '10:30  pm' was 10:30) and
  fails for an expression such as `[ ]` where `[ ]+` is meant.  It is a syntactic sufficient
  condition used as a check of the data, not a semantic theorem about matching.
-/
import SC.Regex
import SC.Gen.Regexes
namespace SCP.RegexLint
open SC

theorem gen_blank_runs_unbounded :
    (Gen.parseRegexes.all fun kv => kv.2.all fun r => r.re.blankRunsUnbounded false) = true := by decide +kernel

/-- the shape the obligation rejects -/
example : (Re.seq (.set ⟨false, [.range 48 57]⟩) (.seq (.rep (.set ⟨false, [.ch 32]⟩) 0 (some 1)) (.set ⟨false, [.ch 112]⟩))).blankRunsUnbounded false = false := by decide
example : (Re.seq (.set ⟨false, [.range 48 57]⟩) (.seq (.rep (.set ⟨false, [.ch 32]⟩) 0 none) (.set ⟨false, [.ch 112]⟩))).blankRunsUnbounded false = true := by decide

end SCP.RegexLint
