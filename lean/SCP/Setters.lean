/-
  SCP.Setters — histories of configuration calls (`set_decimal_seperator`, `set_thousand_separator`,
  `set_number_configuration`, `set_percentage_configuration`, `set_money_configuration`).

  Round 8 of the seeded changes showed where the checks were thin: not inputs, but HISTORIES of configuration calls (a setter
  that ignores a value equal to the other separator — visible only in one order of the two calls; caches that compare the
  percentage settings with the number settings).  On the model the setters are record updates (`SC.setDecimalSeparator`, …; the
  driver's `cfg_*` operations go through them), and for EVERY history of calls:

    * `dec_thou_comm`            : the two separator setters commute
    * `setThousand_writes`, `setDecimal_writes` : a setter writes its argument whatever the other separator is
    * `run_dec`, `run_thou`, `run_num`, `run_pct`, `run_money` : LAST WRITE WINS, separately for each group of settings — the
      configuration after any history holds, in each group, what the last call of that group wrote (else the initial value);
      in particular number and percentage settings never influence each other
    * `run_frame`                : rates, currencies, zone, unit families, bridges, languages and their rules are untouched
    * `run_same_last`            : two histories with the same last writes configure the number syntax identically
    * `run_eq_of_same_last`      : … and leave the SAME configuration altogether: the configuration is a function of the last writes
  Tie: every `cfg` operation of the correspondence runs (C02 scanner tie in either order, C04 configuration-change histories,
  C05 / C07 / C08 / C12 conventions) reaches the model through these functions; the implementation is driven through its real setters.
-/
import SC.Calc
namespace SCP.Setters
open SC
variable {F : Type} [Num F]
set_option linter.unusedSectionVars false

/-- a configuration call -/
inductive CfgOp
  | dec (s : String)
  | thou (s : String)
  | num (f : NumFmt)
  | pct (f : NumFmt)
  | money (removeZero rounding : Bool)

def step (c : Cfg F) : CfgOp → Cfg F
  | .dec s => setDecimalSeparator c s
  | .thou s => setThousandSeparator c s
  | .num f => setNumberConfiguration c f
  | .pct f => setPercentageConfiguration c f
  | .money rz r => setMoneyConfiguration c rz r

def run (c : Cfg F) : List CfgOp → Cfg F
  | [] => c
  | op :: ops => run (step c op) ops

/-- the value the LAST call of a kind wrote, if there was one -/
def lastDec : List CfgOp → Option String
  | [] => none
  | op :: ops => (lastDec ops).or (match op with | .dec s => some s | _ => none)
def lastThou : List CfgOp → Option String
  | [] => none
  | op :: ops => (lastThou ops).or (match op with | .thou s => some s | _ => none)
def lastNum : List CfgOp → Option NumFmt
  | [] => none
  | op :: ops => (lastNum ops).or (match op with | .num f => some f | _ => none)
def lastPct : List CfgOp → Option NumFmt
  | [] => none
  | op :: ops => (lastPct ops).or (match op with | .pct f => some f | _ => none)
def lastMoney : List CfgOp → Option (Bool × Bool)
  | [] => none
  | op :: ops => (lastMoney ops).or (match op with | .money a b => some (a, b) | _ => none)

/-- the two separator setters commute: the configuration does not depend on the order of the calls -/
theorem dec_thou_comm (c : Cfg F) (d t : String) :
    setThousandSeparator (setDecimalSeparator c d) t = setDecimalSeparator (setThousandSeparator c t) d := rfl

/-- a setter writes its argument, whatever the other separator currently is (in particular when they are equal) -/
theorem setThousand_writes (c : Cfg F) (t : String) : (setThousandSeparator c t).thou = t ∧ (setThousandSeparator c t).dec = c.dec := ⟨rfl, rfl⟩
theorem setDecimal_writes (c : Cfg F) (d : String) : (setDecimalSeparator c d).dec = d ∧ (setDecimalSeparator c d).thou = c.thou := ⟨rfl, rfl⟩

/-- LAST WRITE WINS, for every history of configuration calls and each group of settings separately -/
theorem run_dec (c : Cfg F) (ops : List CfgOp) : (run c ops).dec = (lastDec ops).getD c.dec := by
  induction ops generalizing c with
  | nil => rfl
  | cons op ops ih =>
    simp only [run, lastDec, ih]
    cases h : lastDec ops with
    | some s => simp
    | none => cases op <;> simp [step, setDecimalSeparator, setThousandSeparator, setNumberConfiguration, setPercentageConfiguration, setMoneyConfiguration]

theorem run_thou (c : Cfg F) (ops : List CfgOp) : (run c ops).thou = (lastThou ops).getD c.thou := by
  induction ops generalizing c with
  | nil => rfl
  | cons op ops ih =>
    simp only [run, lastThou, ih]
    cases h : lastThou ops with
    | some s => simp
    | none => cases op <;> simp [step, setDecimalSeparator, setThousandSeparator, setNumberConfiguration, setPercentageConfiguration, setMoneyConfiguration]

theorem run_num (c : Cfg F) (ops : List CfgOp) : (run c ops).numFmt = (lastNum ops).getD c.numFmt := by
  induction ops generalizing c with
  | nil => rfl
  | cons op ops ih =>
    simp only [run, lastNum, ih]
    cases h : lastNum ops with
    | some s => simp
    | none => cases op <;> simp [step, setDecimalSeparator, setThousandSeparator, setNumberConfiguration, setPercentageConfiguration, setMoneyConfiguration]

/-- in particular: a change of the number settings never reaches the percentage settings, and vice versa -/
theorem run_pct (c : Cfg F) (ops : List CfgOp) : (run c ops).pctFmt = (lastPct ops).getD c.pctFmt := by
  induction ops generalizing c with
  | nil => rfl
  | cons op ops ih =>
    simp only [run, lastPct, ih]
    cases h : lastPct ops with
    | some s => simp
    | none => cases op <;> simp [step, setDecimalSeparator, setThousandSeparator, setNumberConfiguration, setPercentageConfiguration, setMoneyConfiguration]

theorem run_money (c : Cfg F) (ops : List CfgOp) :
    ((run c ops).moneyRemoveZero, (run c ops).moneyRounding) = (lastMoney ops).getD (c.moneyRemoveZero, c.moneyRounding) := by
  induction ops generalizing c with
  | nil => rfl
  | cons op ops ih =>
    simp only [run, lastMoney, ih]
    cases h : lastMoney ops with
    | some s => simp
    | none => cases op <;> simp [step, setDecimalSeparator, setThousandSeparator, setNumberConfiguration, setPercentageConfiguration, setMoneyConfiguration]

/-- nothing else is touched: rates, currencies, zone, unit families, bridges, languages with their rules -/
theorem run_frame (c : Cfg F) (ops : List CfgOp) :
    (run c ops).rates = c.rates ∧ (run c ops).currencies = c.currencies ∧ (run c ops).currencyAlias = c.currencyAlias ∧ (run c ops).tz = c.tz ∧
    (run c ops).zones = c.zones ∧ (run c ops).units = c.units ∧ (run c ops).bridges = c.bridges ∧ (run c ops).langs = c.langs := by
  induction ops generalizing c with
  | nil => simp [run]
  | cons op ops ih =>
    simp only [run]
    have h := ih (step c op)
    cases op <;> simpa [step, setDecimalSeparator, setThousandSeparator, setNumberConfiguration, setPercentageConfiguration, setMoneyConfiguration] using h

/-- two histories that end in the same last writes give the same configuration of the printed / read number syntax -/
theorem run_same_last (c : Cfg F) (ops ops' : List CfgOp)
    (h1 : lastDec ops = lastDec ops') (h2 : lastThou ops = lastThou ops') (h3 : lastNum ops = lastNum ops') (h4 : lastPct ops = lastPct ops') :
    (run c ops).dec = (run c ops').dec ∧ (run c ops).thou = (run c ops').thou ∧ (run c ops).numFmt = (run c ops').numFmt ∧ (run c ops).pctFmt = (run c ops').pctFmt := by
  rw [run_dec, run_dec, run_thou, run_thou, run_num, run_num, run_pct, run_pct, h1, h2, h3, h4]
  exact ⟨rfl, rfl, rfl, rfl⟩

/-- non-vacuity: the history of seed C02-12 (thousands first, to the value the decimal separator has at that moment) -/
example : ((run (F := Rat) {} [.thou ",", .dec "."]).dec, (run (F := Rat) {} [.thou ",", .dec "."]).thou) = (".", ",") := by decide

theorem cfg_ext (a b : Cfg F) (h1 : a.dec = b.dec) (h2 : a.thou = b.thou) (h3 : a.numFmt = b.numFmt) (h4 : a.pctFmt = b.pctFmt)
    (h5 : a.moneyRemoveZero = b.moneyRemoveZero) (h6 : a.moneyRounding = b.moneyRounding) (h7 : a.tz = b.tz)
    (h8 : a.currencies = b.currencies) (h9 : a.currencyAlias = b.currencyAlias) (h10 : a.rates = b.rates) (h11 : a.zones = b.zones)
    (h12 : a.units = b.units) (h13 : a.bridges = b.bridges) (h14 : a.langs = b.langs) : a = b := by
  cases a; cases b; simp_all

/-- THE CONFIGURATION IS A FUNCTION OF THE LAST WRITES: two histories of setter calls on the same calculator whose last call of
    each kind wrote the same values leave the SAME configuration — hence every later evaluation is the same, whatever the order,
    repetition or intermediate values of the calls were -/
theorem run_eq_of_same_last (c : Cfg F) (ops ops' : List CfgOp)
    (h1 : lastDec ops = lastDec ops') (h2 : lastThou ops = lastThou ops') (h3 : lastNum ops = lastNum ops')
    (h4 : lastPct ops = lastPct ops') (h5 : lastMoney ops = lastMoney ops') : run c ops = run c ops' := by
  obtain ⟨a1, a2, a3, a4, a5, a6, a7, a8⟩ := run_frame c ops
  obtain ⟨b1, b2, b3, b4, b5, b6, b7, b8⟩ := run_frame c ops'
  have hm := run_money c ops
  have hm' := run_money c ops'
  rw [h5] at hm
  have hmm := hm.trans hm'.symm
  simp only [Prod.mk.injEq] at hmm
  apply cfg_ext
  · rw [run_dec, run_dec, h1]
  · rw [run_thou, run_thou, h2]
  · rw [run_num, run_num, h3]
  · rw [run_pct, run_pct, h4]
  · exact hmm.1
  · exact hmm.2
  · rw [a4, b4]
  · rw [a2, b2]
  · rw [a3, b3]
  · rw [a1, b1]
  · rw [a5, b5]
  · rw [a6, b6]
  · rw [a7, b7]
  · rw [a8, b8]

end SCP.Setters
