/-
  SCP.Termination — the rewrite loops reach their fixpoint (C01, termination clause, on the model).

  The implementation's `rule_tokinizer` and `dynamic_type_tokinizer` repeat their pass while a
  pattern fired, without any bound; the model (`ruleLoop`, `unitLoop`) carries a fuel of
  `number of infos + 1`.  Theorems (every number type, every rule set — configured, user-registered
  or both — whose patterns have at least two tokens):

    * `findMatch_count` (Lemmas): a completed `find_match` covers at least `pattern length` live
      (Active, typed) infos; `replaceRange_mu`: replacing them by one token removes them from the
      measure `mu` (= number of live infos) and adds one
    * `rulePass_mu`, `unitPass_mu`: a pass never increases `mu`; a pass that fired decreases it
      strictly; a pass that did not fire returns its input unchanged
    * `ruleLoop_stable`, `unitLoop_stable`: once the fuel exceeds `mu`, more fuel changes nothing:
      the loop has reached the point where no pattern fires — it TERMINATES after at most `mu`
      firing passes, for every input
    * `model_fuel_suffices`: the fuel the model uses (`length + 1`) always exceeds `mu`

  Data obligation (re-decided on the regenerated tables by `SCP.C10.patterns_at_least_two`): every
  configured rule, unit and date pattern has at least two tokens.  A user-registered pattern with a
  single token whose rule returns a token that matches it again would loop forever in the
  implementation; that is outside the hypothesis and is stated in DESIGN.md.
-/
import SC.Engine
import SC.Gen.Config
import SCP.Lemmas.Termination
namespace SCP.Termination
open SC
open SCP.Lemmas.Termination
variable {F : Type} [Num F]
set_option linter.unusedSectionVars false

theorem cnt_le_length (s e k : Nat) (l : List (TokInfo F)) : cnt s e k l ≤ l.length := by
  induction l generalizing k with
  | nil => simp [cnt]
  | cons x xs ih =>
    simp only [cnt, List.length_cons]
    have := ih (k + 1)
    split <;> omega

/-- the model's fuel (`length + 1`) always exceeds the measure -/
theorem model_fuel_suffices (infos : List (TokInfo F)) : mu infos < infos.length + 1 := by
  have := cnt_le_length (F := F) 0 infos.length 0 infos
  unfold mu; omega

/-- replacing a completed match of a pattern with at least two tokens lowers the measure -/
theorem replace_lowers (vs : Vars F) (p infos : List (TokInfo F)) (t : Tok F) (hp : 2 ≤ p.length)
    (hf : (findMatch vs p infos).found = true) : mu (replaceRange infos (findMatch vs p infos) t) < mu infos := by
  obtain ⟨_, _, hc⟩ := findMatch_count vs p infos (by omega) hf
  have := replaceRange_mu infos (findMatch vs p infos) t
  omega

theorem rule_tryPats_mu (c : Cfg F) (lang : String) (now : Now) (vs : Vars F) (rule : Rule F) (pats : List (List (TokInfo F)))
    (infos infos' : List (TokInfo F)) (hp : ∀ p ∈ pats, 2 ≤ p.length)
    (h : rulePass.tryPats c lang now vs rule pats infos = some infos') : mu infos' < mu infos := by
  induction pats with
  | nil => simp [rulePass.tryPats] at h
  | cons p ps ih =>
    simp only [rulePass.tryPats] at h
    split at h
    · rename_i hfound
      split at h
      · rename_i t ht
        simp only [Option.some.injEq] at h
        subst h
        exact replace_lowers vs p infos t (hp p (by simp)) hfound
      · exact ih (fun q hq => hp q (by simp [hq])) h
    · exact ih (fun q hq => hp q (by simp [hq])) h

/-- all patterns of all rules have at least two tokens -/
def PatsOK (rules : List (Rule F)) : Prop := ∀ r ∈ rules, ∀ p ∈ r.patterns, 2 ≤ p.length

/-- one pass over the rules: never more live infos; strictly fewer if something fired; unchanged otherwise -/
theorem rulePass_mu (c : Cfg F) (lang : String) (now : Now) (vs : Vars F) (rules : List (Rule F)) (hok : PatsOK rules)
    (infos : List (TokInfo F)) :
    ((rulePass c lang now vs rules infos).2 = true → mu (rulePass c lang now vs rules infos).1 < mu infos) ∧
    ((rulePass c lang now vs rules infos).2 = false → (rulePass c lang now vs rules infos).1 = infos) := by
  unfold rulePass
  -- generalise the accumulator of the fold
  suffices h : ∀ (rs : List (Rule F)) (acc : List (TokInfo F) × Bool), PatsOK rs →
      (acc.2 = true → mu acc.1 < mu infos) → (acc.2 = false → acc.1 = infos) →
      let r := rs.foldl (fun (acc : List (TokInfo F) × Bool) rule =>
        match rulePass.tryPats c lang now vs rule rule.patterns acc.1 with
        | some infos' => (infos', true)
        | none => acc) acc
      (r.2 = true → mu r.1 < mu infos) ∧ (r.2 = false → r.1 = infos) by
    exact h rules (infos, false) hok (by simp) (by simp)
  intro rs
  induction rs with
  | nil => intro acc _ h1 h2; exact ⟨h1, h2⟩
  | cons r rs ih =>
    intro acc hok' h1 h2
    simp only [List.foldl_cons]
    apply ih
    · exact fun q hq => hok' q (by simp [hq])
    · intro hfired
      cases ht : rulePass.tryPats c lang now vs r r.patterns acc.1 with
      | none => simp only [ht] at hfired ⊢; exact h1 hfired
      | some infos' =>
        simp only [ht]
        have hlow := rule_tryPats_mu c lang now vs r r.patterns acc.1 infos' (hok' r (by simp)) ht
        cases hacc : acc.2 with
        | true => have := h1 hacc; omega
        | false => have := h2 hacc; rw [this] at hlow; exact hlow
    · intro hnot
      cases ht : rulePass.tryPats c lang now vs r r.patterns acc.1 with
      | none => simp only [ht] at hnot ⊢; exact h2 hnot
      | some infos' => simp only [ht] at hnot; cases hnot

/-- TERMINATION of the rule loop: once the fuel exceeds the number of live infos, any further fuel
    is unused — the loop has stopped because no pattern fires any more -/
theorem ruleLoop_stable (c : Cfg F) (lang : String) (now : Now) (vs : Vars F) (rules : List (Rule F)) (hok : PatsOK rules) :
    ∀ (fuel : Nat) (infos : List (TokInfo F)) (k : Nat), mu infos < fuel →
      ruleLoop c lang now vs rules (fuel + k) infos = ruleLoop c lang now vs rules fuel infos := by
  intro fuel
  induction fuel with
  | zero => intro infos k h; omega
  | succ n ih =>
    intro infos k h
    rw [show n + 1 + k = (n + k) + 1 by omega]
    simp only [ruleLoop]
    obtain ⟨h1, h2⟩ := rulePass_mu c lang now vs rules hok infos
    cases hf : (rulePass c lang now vs rules infos).2 with
    | false => simp [hf]
    | true =>
      simp only [hf, if_true]
      have := h1 hf
      exact ih _ k (by omega)

/-- in particular the fuel of `rewriteInfos` is never exhausted -/
theorem ruleLoop_model_fuel (c : Cfg F) (lang : String) (now : Now) (vs : Vars F) (rules : List (Rule F)) (hok : PatsOK rules)
    (infos : List (TokInfo F)) (k : Nat) :
    ruleLoop c lang now vs rules (infos.length + 1 + k) infos = ruleLoop c lang now vs rules (infos.length + 1) infos :=
  ruleLoop_stable c lang now vs rules hok _ infos k (model_fuel_suffices infos)

/-! ### the unit-literal loop -/

/-- all unit patterns have at least two tokens -/
def UnitsOK (c : Cfg F) : Prop := ∀ fam ∈ c.units, ∀ it ∈ fam.2, ∀ p ∈ it.parse, 2 ≤ p.length

theorem unit_tryPats_mu (vs : Vars F) (it : UnitItem F) (pats : List (List (TokInfo F)))
    (infos infos' : List (TokInfo F)) (hp : ∀ p ∈ pats, 2 ≤ p.length)
    (h : unitPass.tryPats vs it pats infos = some infos') : mu infos' < mu infos := by
  induction pats with
  | nil => simp [unitPass.tryPats] at h
  | cons p ps ih =>
    simp only [unitPass.tryPats] at h
    split at h
    · rename_i v hfound hv
      simp only [Option.some.injEq] at h
      subst h
      exact replace_lowers vs p infos _ (hp p (by simp)) hfound
    · exact ih (fun q hq => hp q (by simp [hq])) h

theorem unitPass_mu (c : Cfg F) (vs : Vars F) (hok : UnitsOK c) (infos : List (TokInfo F)) :
    ((unitPass c vs infos).2 = true → mu (unitPass c vs infos).1 < mu infos) ∧
    ((unitPass c vs infos).2 = false → (unitPass c vs infos).1 = infos) := by
  unfold unitPass
  have inner : ∀ (items : List (UnitItem F)) (acc : List (TokInfo F) × Bool),
      (∀ it ∈ items, ∀ p ∈ it.parse, 2 ≤ p.length) →
      (acc.2 = true → mu acc.1 < mu infos) → (acc.2 = false → acc.1 = infos) →
      let r := items.foldl (fun (acc : List (TokInfo F) × Bool) it =>
        match unitPass.tryPats vs it it.parse acc.1 with
        | some infos' => (infos', true)
        | none => acc) acc
      (r.2 = true → mu r.1 < mu infos) ∧ (r.2 = false → r.1 = infos) := by
    intro items
    induction items with
    | nil => intro acc _ h1 h2; exact ⟨h1, h2⟩
    | cons it items ih =>
      intro acc hok' h1 h2
      simp only [List.foldl_cons]
      apply ih
      · exact fun q hq => hok' q (by simp [hq])
      · intro hfired
        cases ht : unitPass.tryPats vs it it.parse acc.1 with
        | none => simp only [ht] at hfired ⊢; exact h1 hfired
        | some infos' =>
          simp only [ht]
          have hlow := unit_tryPats_mu vs it it.parse acc.1 infos' (hok' it (by simp)) ht
          cases hacc : acc.2 with
          | true => have := h1 hacc; omega
          | false => have := h2 hacc; rw [this] at hlow; exact hlow
      · intro hnot
        cases ht : unitPass.tryPats vs it it.parse acc.1 with
        | none => simp only [ht] at hnot ⊢; exact h2 hnot
        | some infos' => simp only [ht] at hnot; cases hnot
  suffices h : ∀ (fams : List (String × List (UnitItem F))) (acc : List (TokInfo F) × Bool),
      (∀ fam ∈ fams, ∀ it ∈ fam.2, ∀ p ∈ it.parse, 2 ≤ p.length) →
      (acc.2 = true → mu acc.1 < mu infos) → (acc.2 = false → acc.1 = infos) →
      let r := fams.foldl (fun acc fam => fam.2.foldl (fun (acc : List (TokInfo F) × Bool) it =>
        match unitPass.tryPats vs it it.parse acc.1 with
        | some infos' => (infos', true)
        | none => acc) acc) acc
      (r.2 = true → mu r.1 < mu infos) ∧ (r.2 = false → r.1 = infos) by
    exact h c.units (infos, false) hok (by simp) (by simp)
  intro fams
  induction fams with
  | nil => intro acc _ h1 h2; exact ⟨h1, h2⟩
  | cons fam fams ih =>
    intro acc hok' h1 h2
    simp only [List.foldl_cons]
    have := inner fam.2 acc (hok' fam (by simp)) h1 h2
    exact ih _ (fun q hq => hok' q (by simp [hq])) this.1 this.2

theorem unitLoop_stable (c : Cfg F) (vs : Vars F) (hok : UnitsOK c) :
    ∀ (fuel : Nat) (infos : List (TokInfo F)) (k : Nat), mu infos < fuel →
      unitLoop c vs (fuel + k) infos = unitLoop c vs fuel infos := by
  intro fuel
  induction fuel with
  | zero => intro infos k h; omega
  | succ n ih =>
    intro infos k h
    rw [show n + 1 + k = (n + k) + 1 by omega]
    simp only [unitLoop]
    obtain ⟨h1, h2⟩ := unitPass_mu c vs hok infos
    cases hf : (unitPass c vs infos).2 with
    | false => simp [hf]
    | true =>
      simp only [hf, if_true]
      have := h1 hf
      exact ih _ k (by omega)

/-! ### the configured tables satisfy the hypotheses (re-decided after every regeneration) -/

theorem gen_rules_ok : ∀ l ∈ (Gen.cfg Rat).langs, PatsOK l.rules := by
  have h : (Gen.cfg Rat).langs.all (fun l => l.rules.all fun r => r.patterns.all fun p => decide (2 ≤ p.length)) = true := by
    decide +kernel
  intro l hl r hr p hp
  have h1 := List.all_eq_true.mp h l hl
  have h2 := List.all_eq_true.mp h1 r hr
  have h3 := List.all_eq_true.mp h2 p hp
  simpa using h3

theorem gen_units_ok : UnitsOK (Gen.cfg Rat) := by
  have h : (Gen.cfg Rat).units.all (fun fam => fam.2.all fun it => it.parse.all fun p => decide (2 ≤ p.length)) = true := by
    decide +kernel
  intro fam hf it hi p hp
  have h1 := List.all_eq_true.mp h fam hf
  have h2 := List.all_eq_true.mp h1 it hi
  have h3 := List.all_eq_true.mp h2 p hp
  simpa using h3

end SCP.Termination
