/-
  SCP.VarInvariant — the hypothesis `NamesOK` of the termination theorem of the variable loop
  (`SCP.VarTermination`) is an invariant of evaluation: evaluating a line keeps it, provided the
  NAME the line assigns to (the tokens in front of `=`, after the rewrite layers) is admissible
  — non-empty, no pattern-field token, not a single variable token.  The interpreter never
  changes the name tokens of a variable (`execAst_names`), the parser registers at most the
  line's own name (`parseLine_names`).  The per-line condition is decidable; the driver
  evaluates it on every line of the correspondence runs.
-/
import SC.Engine
import SCP.VarTermination
namespace SCP.VarInvariant
open SC SCP.VarTermination
variable {F : Type} [Num F]
set_option linter.unusedSectionVars false

/-- an admissible variable name -/
def NameOK (name : List (Tok F)) : Prop :=
  name ≠ [] ∧ (∀ r ∈ name, ∀ f, r ≠ .field f) ∧ (∀ x, name ≠ [.var x])

theorem nameOKb_iff (name : List (Tok F)) : nameOKb name = true ↔ NameOK name := by
  unfold nameOKb NameOK
  simp only [Bool.and_eq_true, Bool.not_eq_true', List.isEmpty_eq_false_iff, List.all_eq_true]
  constructor
  · rintro ⟨⟨h1, h2⟩, h3⟩
    refine ⟨h1, ?_, ?_⟩
    · intro r hr f hf
      have := h2 r hr
      rw [hf] at this; simp at this
    · intro x hx
      rw [hx] at h3; simp at h3
  · rintro ⟨h1, h2, h3⟩
    refine ⟨⟨h1, ?_⟩, ?_⟩
    · intro r hr
      cases r <;> first | rfl | (exact absurd rfl (h2 _ hr _))
    · cases name with
      | nil => rfl
      | cons a rest =>
        cases rest with
        | nil => cases a <;> first | rfl | (exact absurd rfl (h3 _))
        | cons b rest2 => cases a <;> rfl

theorem namesOK_iff (vs : Vars F) : NamesOK vs ↔ ∀ kv ∈ vs, NameOK kv.2.toks := Iff.rfl

theorem mem_insert (vs : Vars F) (k : String) (v : VarInfo F) (kv : String × VarInfo F) (h : kv ∈ vs.insert k v) :
    kv = (k, v) ∨ kv ∈ vs := by
  induction vs with
  | nil => simp [Vars.insert] at h; exact Or.inl h
  | cons x rest ih =>
    obtain ⟨k', v'⟩ := x
    unfold Vars.insert at h
    by_cases h1 : k' = k
    · simp only [h1, if_true, List.mem_cons] at h
      rcases h with h | h
      · exact Or.inl h
      · exact Or.inr (List.mem_cons_of_mem _ h)
    · simp only [h1, if_false] at h
      by_cases h2 : k < k'
      · simp only [h2, if_true, List.mem_cons] at h
        rcases h with h | h | h
        · exact Or.inl h
        · exact Or.inr (by rw [h]; exact List.mem_cons_self)
        · exact Or.inr (List.mem_cons_of_mem _ h)
      · simp only [h2, if_false, List.mem_cons] at h
        rcases h with h | h
        · exact Or.inr (by rw [h]; exact List.mem_cons_self)
        · rcases ih h with h | h
          · exact Or.inl h
          · exact Or.inr (List.mem_cons_of_mem _ h)

theorem get?_mem (vs : Vars F) (k : String) (info : VarInfo F) (h : vs.get? k = some info) : (k, info) ∈ vs := by
  induction vs with
  | nil => simp [Vars.get?] at h
  | cons x rest ih =>
    obtain ⟨k', v'⟩ := x
    unfold Vars.get? at h
    by_cases h1 : k' = k
    · simp only [h1, if_true, Option.some.injEq] at h; subst h; subst h1; exact List.mem_cons_self
    · simp only [h1, if_false] at h; exact List.mem_cons_of_mem _ (ih h)

theorem insert_namesOK (vs : Vars F) (k : String) (v : VarInfo F) (h : NamesOK vs) (hv : NameOK v.toks) : NamesOK (vs.insert k v) := by
  intro kv hkv
  rcases mem_insert vs k v kv hkv with rfl | hm
  · exact hv
  · exact h kv hm

/-- the interpreter only ever replaces the DATA of an existing variable -/
theorem execAst_names (rates : List (String × F)) (conv : UnitRef → F → UnitRef → Option F) :
    ∀ (ast : Ast F) (vs : Vars F) (v : Val F) (vs' : Vars F),
      execAst rates conv vs ast = .ok (v, vs') → NamesOK vs → NamesOK vs' := by
  intro ast
  induction ast with
  | none => intro vs v vs' h hok; simp only [execAst] at h; cases h; exact hok
  | item i => intro vs v vs' h hok; simp only [execAst] at h; cases h; exact hok
  | field f => intro vs v vs' h hok; simp only [execAst] at h; cases h; exact hok
  | month m => intro vs v vs' h hok; simp only [execAst] at h; cases h; exact hok
  | var name =>
    intro vs v vs' h hok
    simp only [execAst] at h
    split at h <;> (cases h; exact hok)
  | prefixUnary op a ih =>
    intro vs v vs' h hok
    simp only [execAst, bind, Except.bind] at h
    split at h
    · cases h
    · rename_i r hr
      obtain ⟨v1, vs1⟩ := r
      have h1 := ih vs v1 vs1 hr hok
      simp only at h
      split at h
      · cases h; exact h1
      · split at h
        · split at h <;> (first | (cases h; exact h1) | cases h)
        · cases h
  | assignment name e ih =>
    intro vs v vs' h hok
    simp only [execAst, bind, Except.bind] at h
    split at h
    · cases h
    · rename_i r hr
      obtain ⟨v1, vs1⟩ := r
      have h1 := ih vs v1 vs1 hr hok
      simp only at h
      split at h
      · rename_i info hinfo
        cases h
        exact insert_namesOK vs1 name _ h1 (h1 _ (get?_mem vs1 name info hinfo))
      · cases h; exact h1
  | binary l op r ihl ihr =>
    intro vs v vs' h hok
    simp only [execAst, bind, Except.bind] at h
    split at h
    · cases h
    · rename_i r1 hr1
      obtain ⟨lv, vs1⟩ := r1
      have h1 := ihl vs lv vs1 hr1 hok
      simp only at h
      split at h
      · cases h
      · rename_i r2 hr2
        obtain ⟨rv, vs2⟩ := r2
        have h2 := ihr vs1 rv vs2 hr2 h1
        simp only at h
        split at h
        · split at h
          · cases h
          · split at h
            · cases h; exact h2
            · cases h
        · cases h

theorem registerVar_names (vs : Vars F) (name : List (Tok F)) (expr : Ast F) (h : NamesOK vs) (hn : NameOK name) :
    NamesOK (registerVar vs name expr).2 := by
  unfold registerVar
  split
  · exact h
  · exact insert_namesOK vs _ _ h hn

/-- the parser registers at most the line's own name -/
theorem parseLine_names (vs : Vars F) (toks : List (Tok F)) (ast : Ast F) (vs' : Vars F)
    (h : parseLine vs toks = .ok (ast, vs')) (hok : NamesOK vs)
    (hname : ∀ name, lineName toks = some name → NameOK name) : NamesOK vs' := by
  unfold parseLine at h
  by_cases ha : toks.any (fun t => t.isOpOf .assign) = true
  · simp only [ha, if_true] at h
    have hn : NameOK (assignParts toks).1 := hname _ (by simp [lineName, ha])
    split at h
    · cases h
    · split at h
      · cases h
      · simp only [Except.ok.injEq, Prod.mk.injEq] at h; rw [← h.2]; exact hok
    · simp only [Except.ok.injEq] at h
      rename_i expr _ _ _
      have := registerVar_names vs (assignParts toks).1 expr hok hn
      rw [h] at this
      exact this
  · simp only [ha, Bool.false_eq_true, if_false] at h
    split at h
    · cases h
    · simp only [Except.ok.injEq, Prod.mk.injEq] at h; rw [← h.2]; exact hok

/-- evaluating the rewritten tokens of a line keeps the invariant -/
theorem evalTokens_names (c : Cfg F) (vs : Vars F) (infos : List (TokInfo F)) (hok : NamesOK vs)
    (hname : ∀ name, lineName (postProcess infos) = some name → NameOK name) : NamesOK (evalTokens c vs infos).1 := by
  unfold evalTokens
  split
  · exact hok
  · split
    · exact hok
    · rename_i ast vs' hp
      have h1 := parseLine_names vs _ ast vs' hp hok hname
      split
      · exact h1
      · rename_i v vs'' he
        unfold exec at he
        exact execAst_names _ _ ast vs' v vs'' he h1

/-- ONE LINE: `evalInfos` keeps `NamesOK`, given that the name the line assigns to is admissible -/
theorem evalInfos_names (c : Cfg F) (lang : String) (now : Now) (vs : Vars F) (infos : List (TokInfo F)) (hok : NamesOK vs)
    (hname : ∀ name, lineName (postProcess (rewriteInfos c lang now vs infos)) = some name → NameOK name) :
    NamesOK (evalInfos c lang now vs infos).1 := by
  unfold evalInfos
  exact evalTokens_names c vs _ hok hname

/-- the condition on one line, in the session state it is evaluated in (decidable; evaluated by the driver) -/
def LineOK (c : Cfg F) (lang : String) (now : Now) (vs : Vars F) (infos : List (TokInfo F)) : Prop :=
  ∀ name, lineName (postProcess (rewriteInfos c lang now vs infos)) = some name → NameOK name

/-- the variables after a sequence of lines -/
def varsAfter (c : Cfg F) (lang : String) (now : Now) : Vars F → List (List (TokInfo F)) → Vars F
  | vs, [] => vs
  | vs, l :: ls => varsAfter c lang now (evalInfos c lang now vs l).1 ls

/-- every line of the sequence is admissible in the state it meets -/
def AllLinesOK (c : Cfg F) (lang : String) (now : Now) : Vars F → List (List (TokInfo F)) → Prop
  | _, [] => True
  | vs, l :: ls => LineOK c lang now vs l ∧ AllLinesOK c lang now (evalInfos c lang now vs l).1 ls

/-- EVERY REACHABLE SESSION STATE satisfies `NamesOK`: from the empty session, after any sequence of admissible lines -/
theorem session_names (c : Cfg F) (lang : String) (now : Now) :
    ∀ (ls : List (List (TokInfo F))) (vs : Vars F), NamesOK vs → AllLinesOK c lang now vs ls → NamesOK (varsAfter c lang now vs ls) := by
  intro ls
  induction ls with
  | nil => intro vs h _; exact h
  | cons l rest ih =>
    intro vs h hall
    exact ih _ (evalInfos_names c lang now vs l h hall.1) hall.2

/-- the driver's flag is the hypothesis -/
theorem lineOKb_iff (c : Cfg F) (lang : String) (now : Now) (vs : Vars F) (infos : List (TokInfo F)) :
    lineOKb c lang now vs infos = true ↔ LineOK c lang now vs infos := by
  unfold lineOKb LineOK
  cases lineName (postProcess (rewriteInfos c lang now vs infos)) with
  | none => simp
  | some n => simp [nameOKb_iff]

theorem empty_names : NamesOK ([] : Vars F) := by intro kv h; cases h

/-- hence the variable-substitution loop of every line of such a session reaches its fixpoint within the model's fuel -/
theorem session_var_loop_terminates (c : Cfg F) (lang : String) (now : Now) (ls : List (List (TokInfo F)))
    (hall : AllLinesOK c lang now [] ls) (infos : List (TokInfo F)) (k : Nat) :
    varLoop (varsAfter c lang now [] ls) (varStartIndex infos) (2 * infos.length + 1 + k) infos =
      updateTokenVariables (varsAfter c lang now [] ls) infos :=
  updateTokenVariables_stable _ (session_names c lang now ls [] empty_names hall) infos k

end SCP.VarInvariant
