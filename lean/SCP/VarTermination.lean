/-
  SCP.VarTermination — the variable-substitution loop (`update_token_variables`) reaches its
  fixpoint: it terminates for every line and every session whose variable names are non-empty,
  contain no pattern-field token and are not a single variable token (names are taken from the
  tokens in front of `=`; a name that is one existing variable is that variable, so it is never
  registered a second time).

  Measure `M = 2·(number of infos) − (number of variable infos)`: a substitution replaces a
  segment of `s ≥ 1` infos by one variable info; it lowers `M` by `2s − 1 − (variable infos in the
  segment)`, which is at least 1 — for `s ≥ 2` trivially, for `s = 1` because a plain name token
  never equals a variable info (`infoEqTok_plain`).  Hence `varLoop_stable`: beyond `M` rounds more
  fuel changes nothing; the model's fuel `2·length + 1` always exceeds `M` (`model_fuel_suffices`).
-/
import SC.Engine
import SCP.C03
namespace SCP.VarTermination
open SC
variable {F : Type} [Num F]
set_option linter.unusedSectionVars false

def isVarInfo (ti : TokInfo F) : Bool := match ti.tok with | some (.var _) => true | _ => false

def nvar (l : List (TokInfo F)) : Nat := l.countP isVarInfo

/-- the measure -/
def M (l : List (TokInfo F)) : Nat := 2 * l.length - nvar l

theorem nvar_le (l : List (TokInfo F)) : nvar l ≤ l.length := List.countP_le_length

/-- a name token that is neither a variable nor a pattern field -/
def plain : Tok F → Bool
  | .var _ => false
  | .field _ => false
  | _ => true

/-- admissible variable names -/
def NamesOK (vs : Vars F) : Prop :=
  ∀ kv ∈ vs, kv.2.toks ≠ [] ∧ (∀ r ∈ kv.2.toks, ∀ f, r ≠ .field f) ∧ (∀ x, kv.2.toks ≠ [.var x])

/-- a plain name token never equals a variable info -/
theorem infoEqTok_plain (l : TokInfo F) (r : Tok F) (hr : plain r = true) (h : infoEqTok l r = true) : isVarInfo l = false := by
  unfold infoEqTok at h
  unfold isVarInfo
  cases hl : l.tok with
  | none => rfl
  | some a =>
    rw [hl] at h
    cases a <;> try rfl
    -- l is a variable info: only a variable or a field name token can equal it
    cases r <;> simp_all [plain]

theorem matchesAt_length (toks : List (TokInfo F)) (name : List (Tok F)) (h : matchesAt toks name = true) :
    name.length ≤ toks.length := by
  induction name generalizing toks with
  | nil => simp
  | cons r name ih =>
    cases toks with
    | nil => simp [matchesAt] at h
    | cons t toks =>
      simp only [matchesAt, Bool.and_eq_true] at h
      have := ih toks h.2
      simp only [List.length_cons]; omega

theorem matchesAt_head (t : TokInfo F) (toks : List (TokInfo F)) (r : Tok F) (name : List (Tok F))
    (h : matchesAt (t :: toks) (r :: name) = true) : infoEqTok t r = true := by
  simp only [matchesAt, Bool.and_eq_true] at h
  exact h.1

theorem nvar_append (a b : List (TokInfo F)) : nvar (a ++ b) = nvar a + nvar b := by
  unfold nvar; exact List.countP_append

/-- one substitution step lowers the measure -/
theorem varStep_lowers (vs : Vars F) (hok : NamesOK vs) (startIdx : Nat) (infos infos' : List (TokInfo F))
    (h : varStep vs startIdx infos = some infos') : M infos' < M infos := by
  unfold varStep at h
  simp only at h
  cases hp : pickBest none (candidates vs (infos.drop startIdx)) with
  | none => rw [hp] at h; cases h
  | some best =>
    obtain ⟨idx, name, size⟩ := best
    rw [hp] at h
    simp only [Option.some.injEq] at h
    -- the chosen candidate comes from a variable whose name occurs at `idx`
    have hmem := (SCP.C03.pickBest_spec _ none _ hp).1
    rcases hmem with h0 | hmem
    · cases h0
    · unfold candidates at hmem
      rw [List.mem_filterMap] at hmem
      obtain ⟨kv, hkv, hloc⟩ := hmem
      simp only [Option.map_eq_some_iff] at hloc
      obtain ⟨i, hfind, heq⟩ := hloc
      simp only [Prod.mk.injEq] at heq
      obtain ⟨rfl, rfl, rfl⟩ := heq
      obtain ⟨hne, hnofield, hnotvar⟩ := hok kv hkv
      have hspec := (SCP.C03.findLocation_some_iff _ _ _).mp hfind
      have hmatch : matchesAt ((infos.drop startIdx).drop i) kv.2.toks = true := hspec.1.2.1
      rw [List.drop_drop] at hmatch
      have hlen := matchesAt_length _ _ hmatch
      simp only [List.length_drop] at hlen
      -- shape of the result: prefix, one new variable info, suffix
      generalize hs : kv.2.toks.length = s at *
      obtain ⟨tn, htn, hres⟩ : ∃ tn : TokInfo F, isVarInfo tn = true ∧
          infos' = infos.take (startIdx + i) ++ [tn] ++ infos.drop (startIdx + i + s) :=
        ⟨_, by simp [isVarInfo], h.symm⟩
      subst hres
      have hs1 : 1 ≤ s := by
        rw [← hs]; exact List.length_pos_iff.mpr hne
      have hre : startIdx + i + s ≤ infos.length := by omega
      have hdd : infos.drop (startIdx + i + s) = (infos.drop (startIdx + i)).drop s := by rw [List.drop_drop]
      have hsplit : infos = infos.take (startIdx + i) ++ ((infos.drop (startIdx + i)).take s ++ infos.drop (startIdx + i + s)) := by
        rw [hdd, List.take_append_drop, List.take_append_drop]
      have hvarNew : nvar [tn] = 1 := by simp [nvar, htn]
      have hnv : nvar infos = nvar (infos.take (startIdx + i)) + (nvar ((infos.drop (startIdx + i)).take s) + nvar (infos.drop (startIdx + i + s))) := by
        conv => lhs; rw [hsplit]
        rw [nvar_append, nvar_append]
      have hseg_le : nvar ((infos.drop (startIdx + i)).take s) ≤ s := by
        have := nvar_le ((infos.drop (startIdx + i)).take s)
        simp only [List.length_take, List.length_drop] at this
        omega
      -- when the name is a single token it is plain, so the matched info is not a variable
      have hone : s = 1 → nvar ((infos.drop (startIdx + i)).take s) = 0 := by
        intro h1
        subst h1
        cases hk : kv.2.toks with
        | nil => rw [hk] at hs; simp at hs
        | cons r rest =>
          rw [hk] at hs hmatch
          have hrest : rest = [] := by
            simp only [List.length_cons] at hs
            exact List.length_eq_zero_iff.mp (by omega)
          subst hrest
          have hplain : plain r = true := by
            cases r with
            | var x => exact absurd hk (hnotvar x)
            | field f => exact absurd rfl (hnofield (.field f) (by rw [hk]; simp) f)
            | _ => rfl
          cases hd : infos.drop (startIdx + i) with
          | nil => rw [hd] at hmatch; simp [matchesAt] at hmatch
          | cons t rest' =>
            rw [hd] at hmatch
            have := infoEqTok_plain t r hplain (matchesAt_head t rest' r [] hmatch)
            simp [nvar, List.countP_cons, this]
      have hlen' : (infos.take (startIdx + i) ++ [tn] ++ infos.drop (startIdx + i + s)).length = infos.length - s + 1 := by
        simp only [List.length_append, List.length_take, List.length_drop, List.length_cons, List.length_nil]
        omega
      unfold M
      rw [hlen', nvar_append, nvar_append, hvarNew, hnv]
      have h1 := nvar_le (infos.take (startIdx + i))
      have h2 := nvar_le (infos.drop (startIdx + i + s))
      simp only [List.length_take, List.length_drop] at h1 h2
      by_cases hs2 : s = 1
      · have := hone hs2; omega
      · omega

/-- TERMINATION of the variable loop: beyond `M infos` rounds more fuel changes nothing -/
theorem varLoop_stable (vs : Vars F) (hok : NamesOK vs) (startIdx : Nat) :
    ∀ (fuel : Nat) (infos : List (TokInfo F)) (k : Nat), M infos < fuel →
      varLoop vs startIdx (fuel + k) infos = varLoop vs startIdx fuel infos := by
  intro fuel
  induction fuel with
  | zero => intro infos k h; omega
  | succ n ih =>
    intro infos k h
    rw [show n + 1 + k = (n + k) + 1 by omega]
    simp only [varLoop]
    cases hs : varStep vs startIdx infos with
    | none => rfl
    | some infos' =>
      simp only
      have := varStep_lowers vs hok startIdx infos infos' hs
      exact ih infos' k (by omega)

/-- the fuel of `updateTokenVariables` (`2·length + 1`) is never exhausted -/
theorem model_fuel_suffices (infos : List (TokInfo F)) : M infos < 2 * infos.length + 1 := by
  unfold M; omega

theorem updateTokenVariables_stable (vs : Vars F) (hok : NamesOK vs) (infos : List (TokInfo F)) (k : Nat) :
    varLoop vs (varStartIndex infos) (2 * infos.length + 1 + k) infos = updateTokenVariables vs infos := by
  unfold updateTokenVariables
  exact varLoop_stable vs hok _ _ infos k (model_fuel_suffices infos)

end SCP.VarTermination
