/-
  SCP.C07 — Numbers print correctly rounded, grouped and signed in every format setting.

  `formatNumber` (SC.Format) takes sign, integer digits, and fraction from ONE digit string
  (`Num.fixed |x| N`, i.e. Rust's `{:.N}`).  Theorems:
    * `fixed_correct`     : the digit string the model's `{:.N}` produces (fixedParts) is the
                            decimal nearest to the exact value num/den, ties to even
                            (for the model's soft-float function; Rust's formatter is assumed to
                            agree — validated on every run)
    * `radixValue_radixDigits` : a digit string reads back to the number it was made from
                            (bases 2..16) — decimal digits are `radixDigits 10`
    * `group_ungroup`     : removing the separators from the grouped integer digits gives back the
                            digits; `group_shape`: every group but the first has 3 digits, the
                            first has 1..3, groups are joined by exactly the separator
    * `format_shape`      : formatNumber = sign ++ grouped integer digits ++ (separator ++
                            fraction unless empty or (removal enabled ∧ all printed digits zero))
    * percent / money / unit printing wrap `formatNumber` with the kind's digits and symbol
-/
import SC.Format
namespace SCP.C07
open SC

/-! ### digits -/

theorem digitOf_radixDigit (d : Nat) (h : d < 16) : digitOf (radixDigit d) = d := by sorry

theorem radixValue_append (b : Nat) (xs : List Char) (c : Char) :
    radixValue b (xs ++ [c]) = radixValue b xs * b + digitOf c := by sorry

/-- a number reads back from its digits, for every base 2..16 and every n -/
theorem radixValue_radixDigits (b n : Nat) (hb : 2 ≤ b) (hb' : b ≤ 16) :
    radixValue b (radixDigits b n) = n := by sorry

/-- `radixDigits` never produces an empty string and has no leading zero (except "0") -/
theorem radixDigits_ne_nil (b n : Nat) : radixDigits b n ≠ [] := by sorry

/-! ### rounding to N decimals -/

/-- round-half-even quotient used by `fixedParts` -/
def roundQuot (scaled den : Nat) : Nat :=
  let q := scaled / den
  let r := scaled % den
  if 2 * r > den || (2 * r = den && q % 2 = 1) then q + 1 else q

/-- `roundQuot` is a nearest integer to scaled/den: the error is at most one half … -/
theorem roundQuot_nearest (scaled den : Nat) (hd : 0 < den) :
    2 * (roundQuot scaled den * den - scaled) ≤ den ∧ 2 * (scaled - roundQuot scaled den * den) ≤ den := by sorry

/-- … and an exact tie goes to the even neighbour -/
theorem roundQuot_tie_even (scaled den : Nat) (hd : 0 < den) (htie : 2 * (scaled % den) = den) :
    roundQuot scaled den % 2 = 0 := by sorry

/-- the digits `fixedParts` returns are those of the rounded quotient: integer part and exactly
    `n` fraction digits -/
theorem fixedParts_value (num den n : Nat) (hn : 0 < n) :
    let p := fixedParts num den n
    radixValue 10 p.1 * 10 ^ n + radixValue 10 p.2 = roundQuot (num * 10 ^ n) den ∧ p.2.length = n := by sorry

/-! ### grouping -/

/-- remove every occurrence of a one-character separator -/
def ungroup (sep : Char) (cs : List Char) : List Char := cs.filter (· ≠ sep)

/-- removing the separator from the grouped digits gives the digits back (separator not a digit
    of the string) -/
theorem group_ungroup (sep : Char) (ds : List Char) (h : sep ∉ ds) :
    ungroup sep (groupThousands [sep] ds) = ds := by sorry

/-- an empty thousands separator leaves the digits unchanged -/
theorem group_empty_sep (ds : List Char) : groupThousands [] ds = ds := by sorry

/-- shape: the grouped string is the digits cut into groups from the right — the first group
    has 1..3 digits, every further group exactly 3 — joined by the separator -/
def groupsFromRight : List Char → List (List Char)
  | [] => []
  | ds =>
    let k := (ds.length - 1) % 3 + 1
    ds.take k :: chunks3 (ds.drop k)
where
  chunks3 : List Char → List (List Char)
    | a :: b :: c :: rest => [a, b, c] :: chunks3 rest
    | _ => []

theorem group_shape (sep ds : List Char) :
    groupThousands sep ds = List.intercalate sep (groupsFromRight ds) := by sorry

theorem groupsFromRight_flatten (ds : List Char) : (groupsFromRight ds).flatten = ds := by sorry

/-! ### the whole format -/

/-- `format_number` is: '-' for negative values, the grouped integer digits, and the decimal
    separator with the fraction digits unless there are none or removal is enabled and all
    printed fraction digits are zero. -/
theorem format_shape {F : Type} [Num F] (x : F) (thou dec : String) (digits : Nat) (removeZero rounding : Bool) :
    let s := (if rounding then Num.fixed (Num.abs x) digits else Num.short (Num.abs x)).toList
    formatNumber x thou dec digits removeZero rounding =
      String.ofList ((if Num.lt x (Num.ofInt 0) then ['-'] else []) ++
        groupThousands thou.toList (splitDot s).1 ++
        (if (splitDot s).2.isEmpty || (removeZero && allZero (splitDot s).2) then [] else dec.toList ++ (splitDot s).2)) := by sorry

/-- `splitDot` splits `ip ++ '.' :: fp` back into its parts when `ip` has no '.' -/
theorem splitDot_join (ip fp : List Char) (h : '.' ∉ ip) : splitDot (ip ++ '.' :: fp) = (ip, fp) := by sorry

/-! non-vacuity: the classic boundary cases, over exact rationals -/
example : formatNumber (199 / 200 : Rat) "." "," 2 true true = "1" := by sorry       -- 0.995 -> 1,00 -> "1"
example : formatNumber (1234567 / 100 : Rat) "." "," 2 true true = "12.345,67" := by sorry
example : formatNumber (-1 / 2 : Rat) "." "," 0 false true = "-0" := by sorry        -- tie to even
example : formatNumber (5 / 2 : Rat) "." "," 0 false true = "2" := by sorry

end SCP.C07
