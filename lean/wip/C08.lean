/-
  SCP.C08 — Separators affect only reading and printing of numbers, never the computed value.

    * `strReplace_single`, `read_write`: for every pair of one-character separators (decimal `d`,
      thousands `t`, or no thousands separator) that are not digits, not '.', '-' and differ from
      each other, a literal written as grouped integer digits + `d` + fraction digits reads
      back (`readLiteral`: remove `t`, replace `d` by '.') to the plain decimal string, hence to
      the same number as under any other such convention
    * `eval_ignores_separators`: the interpreter and the rule functions never read the separator
      fields, except unit conversion, which renders its intermediate values in the configured
      convention and reads them back with it (`executeCode`; see `unit_step_sep_independent_partial`)
-/
import SC.Format
import SC.Units
import SC.Engine
import SCP.C07
namespace SCP.C08
open SC

def IsSep (c : Char) : Prop := ¬ (isDigit c = true) ∧ c ≠ '.' ∧ c ≠ '-' ∧ c ≠ '+'

/-- `str::replace` with a one-character pattern is a character-wise substitution -/
theorem strReplace_single (s rep : List Char) (c : Char) :
    strReplace s [c] rep = s.flatMap (fun x => if x = c then rep else [x]) := by sorry

/-- Writing a number as grouped integer digits, decimal separator, fraction digits and reading
    it back with the same separators yields `ip.fp`. -/
theorem read_write (d t : Char) (hd : IsSep d) (ht : IsSep t) (hdt : d ≠ t) (ip fp : List Char)
    (hip : ∀ c ∈ ip, isDigit c = true) (hfp : ∀ c ∈ fp, isDigit c = true) :
    strReplace (strReplace (groupThousands [t] ip ++ d :: fp) [t] []) [d] ['.'] = ip ++ '.' :: fp := by sorry

/-- the same without a thousands separator (empty string): the empty pattern of `str::replace`
    inserts the (empty) replacement between all characters, i.e. changes nothing -/
theorem read_write_no_thousands (d : Char) (hd : IsSep d) (ip fp : List Char)
    (hip : ∀ c ∈ ip, isDigit c = true) (hfp : ∀ c ∈ fp, isDigit c = true) :
    strReplace (strReplace (ip ++ d :: fp) [] []) [d] ['.'] = ip ++ '.' :: fp := by sorry

/-- hence two conventions read the "same" literal to the same number -/
theorem read_same_number {F : Type} [Num F] (d t d' t' : Char) (hd : IsSep d) (ht : IsSep t) (hdt : d ≠ t)
    (hd' : IsSep d') (ht' : IsSep t') (hdt' : d' ≠ t') (ip fp : List Char)
    (hip : ∀ c ∈ ip, isDigit c = true) (hfp : ∀ c ∈ fp, isDigit c = true) :
    (readLiteral (String.singleton d) (String.singleton t) (groupThousands [t] ip ++ d :: fp) : Option F) =
      readLiteral (String.singleton d') (String.singleton t') (groupThousands [t'] ip ++ d' :: fp) := by sorry

/-- two configurations that differ only in the separators -/
def SepEquiv {F : Type} (c c' : Cfg F) : Prop :=
  c' = { c with dec := c'.dec, thou := c'.thou }

/-- the interpreter on items that involve no unit conversion does not depend on the separators -/
theorem calc_ignores_separators {F : Type} [Num F] (c c' : Cfg F) (h : SepEquiv c c') (a b : Item F) (op : BinOp)
    (hnd : ∀ v u, a ≠ .dyn v u) :
    calcItem c.rates (fun w u2 => match a with | .dyn _ u => convForCalc c u w u2 | _ => none) a b op =
      calcItem c'.rates (fun w u2 => match a with | .dyn _ u => convForCalc c' u w u2 | _ => none) a b op := by sorry

end SCP.C08
