"""Shared machinery of ./check: builds, implementation / model runners, proof audit,
verdict logic, evidence and replay files.  See DESIGN.md §5."""
import fcntl
import hashlib
import json
import os
import random
import re
import subprocess
import sys
import time

ROOT = os.path.dirname(os.path.dirname(os.path.abspath(__file__)))
REPO = os.environ.get("VERIF_REPO", "/repo")
LEAN = os.path.join(ROOT, "lean")
HARNESS = os.path.join(ROOT, "harness")
WORK = os.path.join(ROOT, ".work")
EVIDENCE = os.path.join(ROOT, "evidence")
REPLAYS = os.path.join(ROOT, "replays")
SCIMPL = os.path.join(HARNESS, "target", "debug", "scimpl")
SCDRIVER = os.path.join(LEAN, ".lake", "build", "bin", "scdriver")
ALLOWED_AXIOMS = {"propext", "Classical.choice", "Quot.sound"}
FORBIDDEN = re.compile(r"\b(sorry|admit|native_decide|bv_decide|implemented_by)\b|^\s*axiom\s|\bunsafe\s|maxHeartbeats\s+0")

ENV = dict(os.environ)
ENV["CARGO_NET_OFFLINE"] = "true"
ENV["TZ"] = "UTC"   # chrono::Local round trip in time_with_timezone is the identity

for d in (WORK, EVIDENCE, REPLAYS):
    os.makedirs(d, exist_ok=True)


class Lock:
    def __init__(self, name):
        self.path = os.path.join(WORK, name + ".lock")

    def __enter__(self):
        self.f = open(self.path, "w")
        fcntl.flock(self.f, fcntl.LOCK_EX)
        return self

    def __exit__(self, *a):
        fcntl.flock(self.f, fcntl.LOCK_UN)
        self.f.close()


def sh(cmd, cwd=None, timeout=3600):
    p = subprocess.run(cmd, cwd=cwd, env=ENV, stdout=subprocess.PIPE, stderr=subprocess.STDOUT,
                       text=True, timeout=timeout)
    return p.returncode, p.stdout


# ---------------------------------------------------------------------------------------------
# builds
# ---------------------------------------------------------------------------------------------

def build_harness():
    """cargo build of the harness against /repo's CURRENT working tree (feature verif-hooks)."""
    with Lock("cargo"):
        lock_src = os.path.join(REPO, "Cargo.lock")
        lock_dst = os.path.join(HARNESS, "Cargo.lock")
        if not os.path.exists(lock_dst):
            import shutil
            shutil.copy(lock_src, lock_dst)
        rc, out = sh(["cargo", "build", "--offline"], cwd=HARNESS)
        return rc == 0, out


def run_translator():
    """regenerate lean/SC/Gen from /repo (config.json + the implementation's own pattern
    tokens); returns (ok, log)"""
    with Lock("gen"):
        rc, out = sh([sys.executable, os.path.join(ROOT, "tools", "gen_config.py")], cwd=ROOT)
        return rc == 0, out


def lake_build(targets):
    with Lock("lake"):
        rc, out = sh(["lake", "build"] + list(targets), cwd=LEAN, timeout=7200)
        return rc == 0, out


def lean_sources(modules):
    files = []
    for m in modules:
        files.append(os.path.join(LEAN, m.replace(".", "/") + ".lean"))
    return files


def all_lean_files():
    out = []
    for base in ("SC", "SCP"):
        for dp, _, fns in os.walk(os.path.join(LEAN, base)):
            for fn in fns:
                if fn.endswith(".lean"):
                    out.append(os.path.join(dp, fn))
    out.append(os.path.join(LEAN, "Driver.lean"))
    return out


def strip_comments(src):
    # remove /- ... -/ (nested) and -- comments
    out = []
    i, depth, n = 0, 0, len(src)
    while i < n:
        if src.startswith("/-", i):
            depth += 1
            i += 2
        elif depth and src.startswith("-/", i):
            depth -= 1
            i += 2
        elif depth:
            i += 1
        elif src.startswith("--", i):
            j = src.find("\n", i)
            i = n if j < 0 else j
        else:
            out.append(src[i])
            i += 1
    return "".join(out)


def grep_forbidden():
    hits = []
    for f in all_lean_files():
        try:
            src = strip_comments(open(f, encoding="utf-8").read())
        except OSError:
            continue
        for ln, line in enumerate(src.split("\n"), 1):
            if FORBIDDEN.search(line):
                hits.append(f"{os.path.relpath(f, LEAN)}:{ln}: {line.strip()[:120]}")
    return hits


def audit_axioms(prop_id, modules, theorems):
    """#print axioms for each theorem; returns dict theorem -> list of axioms, or None if the
    theorem does not exist / does not check."""
    path = os.path.join(LEAN, f".audit_{prop_id}.lean")
    with open(path, "w") as f:
        for m in modules:
            f.write(f"import {m}\n")
        for t in theorems:
            f.write(f"#print axioms {t}\n")
    with Lock("lake"):
        rc, out = sh(["lake", "env", "lean", path], cwd=LEAN)
    os.remove(path)
    res = {t: None for t in theorems}
    # output blocks: "'name' depends on axioms: [a, b]" or "'name' does not depend on any axioms"
    flat = out.replace("\n", " ")
    for t in theorems:
        m = re.search(r"'" + re.escape(t) + r"' depends on axioms: \[([^\]]*)\]", flat)
        if m:
            res[t] = [a.strip() for a in m.group(1).split(",") if a.strip()]
            continue
        if re.search(r"'" + re.escape(t) + r"' does not depend on any axioms", flat):
            res[t] = []
    return res, out


# ---------------------------------------------------------------------------------------------
# runners
# ---------------------------------------------------------------------------------------------

_counter = [0]
_counter_lock = __import__("threading").Lock()


def _tmp(prefix, suffix):
    # called from the worker threads of run_impl_sharded too: the counter is taken under a lock (two threads once drew the same
    # name and one removed the other's file — a machinery error of the thorough tier of C01, not a property violation)
    with _counter_lock:
        _counter[0] += 1
        n = _counter[0]
    return os.path.join(WORK, f"{prefix}_{os.getpid()}_{n}{suffix}")


def run_impl(ops, timeout_ms=5000):
    """Run ops (list of dict) through the real library.  Returns list of result dicts, same
    length.  A hang yields {"hang": true} for that op and the rest of the ops are executed in a
    fresh process (state is lost: callers group stateful ops into cases starting with reset)."""
    results = []
    rest = list(ops)
    while rest:
        path = _tmp("ops", ".jsonl")
        with open(path, "w", encoding="utf-8") as f:
            for op in rest:
                f.write(json.dumps(op, ensure_ascii=False) + "\n")
        p = subprocess.run([SCIMPL, path, "--timeout-ms", str(timeout_ms)], stdout=subprocess.PIPE,
                           stderr=subprocess.PIPE, env=ENV)
        os.remove(path)
        lines = [l for l in p.stdout.decode("utf-8", "replace").split("\n") if l.strip()]
        got = []
        for l in lines:
            try:
                got.append(json.loads(l))
            except json.JSONDecodeError:
                got.append({"error": "bad output", "raw": l[:200]})
        results.extend(got)
        if len(got) >= len(rest):
            break
        if p.returncode == 3 and got and got[-1].get("hang"):
            rest = rest[len(got):]
            continue
        # the process died (abort / stack overflow): mark the op and go on
        results.append({"crash": True, "rc": p.returncode, "stderr": p.stderr.decode("utf-8", "replace")[-300:]})
        rest = rest[len(got) + 1:]
    return results[:len(ops)]


def run_impl_sharded(cases, shards=12, timeout_ms=5000):
    """cases: list of lists of ops (each case independent, the harness state is reset between
    shards only: use only with stateless ops or cases that begin with a reset op)."""
    from concurrent.futures import ThreadPoolExecutor
    if len(cases) < 200 or shards <= 1:
        flat = [op for c in cases for op in c]
        res = run_impl(flat, timeout_ms)
        out, i = [], 0
        for c in cases:
            out.append(res[i:i + len(c)])
            i += len(c)
        return out
    chunks = [cases[i::shards] for i in range(shards)]

    def work(chunk):
        flat = [op for c in chunk for op in c]
        res = run_impl(flat, timeout_ms)
        out, i = [], 0
        for c in chunk:
            out.append(res[i:i + len(c)])
            i += len(c)
        return out
    with ThreadPoolExecutor(max_workers=shards) as ex:
        parts = list(ex.map(work, chunks))
    out = [None] * len(cases)
    for s, part in enumerate(parts):
        for j, r in enumerate(part):
            out[s + j * shards] = r
    return out


def esc(s):
    return s.replace("\\", "\\\\").replace("\n", "\\n").replace("\r", "\\r").replace("\t", "\\t")


def unesc(s):
    out, i = [], 0
    while i < len(s):
        if s[i] == "\\" and i + 1 < len(s):
            c = s[i + 1]
            out.append({"n": "\n", "r": "\r", "t": "\t"}.get(c, c))
            i += 2
        else:
            out.append(s[i])
            i += 1
    return "".join(out)


def run_model(lines):
    """lines: list of request strings (TAB separated fields).  Returns list of answer strings."""
    if not lines:
        return []
    data = "\n".join(lines) + "\n"
    p = subprocess.run([SCDRIVER], input=data.encode("utf-8"), stdout=subprocess.PIPE,
                       stderr=subprocess.PIPE, env=ENV)
    out = p.stdout.decode("utf-8", "replace").split("\n")
    if out and out[-1] == "":
        out.pop()
    if len(out) != len(lines):
        raise RuntimeError(f"model driver returned {len(out)} answers for {len(lines)} requests; rc={p.returncode} "
                           f"stderr={p.stderr.decode('utf-8', 'replace')[-400:]}")
    return out


# ---------------------------------------------------------------------------------------------
# findings
# ---------------------------------------------------------------------------------------------

def load_findings():
    p = os.path.join(ROOT, "KNOWN_FINDINGS.json")
    if not os.path.exists(p):
        return []
    return json.load(open(p, encoding="utf-8"))["findings"]


# ---------------------------------------------------------------------------------------------
# context handed to property modules
# ---------------------------------------------------------------------------------------------

class Ctx:
    def __init__(self, prop_id, tier, seed):
        self.prop = prop_id
        self.tier = tier
        self.seed = seed
        self.rng = random.Random(seed * 1000003 + int(hashlib.sha256(prop_id.encode()).hexdigest()[:8], 16))
        self.evaluations = 0
        self.nontrivial = set()
        self.samples = []
        self.dist = {}
        self.traces_validated = 0
        self.disagreements = []     # model vs implementation (tie)
        self.oracle_failures = []   # implementation vs specification (property)
        self.known_seen = {}        # finding id -> count
        self.notes = []
        self.exhaustive = False
        self.findings = [f for f in load_findings() if f["property"] == prop_id]
        self.budget_scale = 1.0

    def quick(self):
        return self.tier == "quick"

    def n(self, quick, thorough):
        return int((quick if self.quick() else thorough) * self.budget_scale)

    def count(self, key, k=1):
        self.dist[key] = self.dist.get(key, 0) + k

    def sample(self, s, cap=12):
        if len(self.samples) < cap:
            self.samples.append(s)

    def seen(self, key, nontrivial=True):
        self.evaluations += 1
        if nontrivial:
            self.nontrivial.add(key if isinstance(key, (str, int, tuple)) else json.dumps(key, sort_keys=True, ensure_ascii=False))

    def match_finding(self, failure):
        """failure: dict with at least 'class' (structural class computed by the property
        module) — an open finding with the same class explains it."""
        for f in self.findings:
            if f.get("status") == "open" and f.get("class") == failure.get("class"):
                return f
        return None

    def oracle_fail(self, failure):
        f = self.match_finding(failure)
        if f:
            self.known_seen[f["id"]] = self.known_seen.get(f["id"], 0) + 1
        else:
            self.oracle_failures.append(failure)

    def disagree(self, d):
        self.disagreements.append(d)


def write_replay(prop_id, payload):
    h = hashlib.sha256(json.dumps(payload, sort_keys=True, ensure_ascii=False, default=str).encode()).hexdigest()[:12]
    path = os.path.join(REPLAYS, f"{prop_id}-{h}.json")
    with open(path, "w", encoding="utf-8") as f:
        json.dump(payload, f, indent=1, ensure_ascii=False, default=str)
    return path


def write_evidence(prop_id, tier, seed, coverage, assumptions, wall, violations):
    ev = {"property_id": prop_id, "tier": tier, "seed": seed, "level": "proof",
          "coverage": coverage, "assumptions": assumptions, "wall_s": round(wall, 2),
          "violations": violations}
    with open(os.path.join(EVIDENCE, f"{prop_id}.json"), "w", encoding="utf-8") as f:
        json.dump(ev, f, indent=1, ensure_ascii=False, default=str)
