"""A corpus of evaluable lines drawn from the generators of ALL properties, for the metamorphic properties whose quantifier
is "all lines of the other properties' generators" (C08 separators, C16 blanks / comments / case).  Every line is in the default
convention (decimal ',' thousands '.') and in English unless the returned language says otherwise."""
import datetime
from tools.gen import lines as L


def _year():
    return datetime.date.today().year


def line(rng):
    """returns (lang, text)"""
    k = rng.random()
    try:
        if k < 0.45:
            return "en", L.value_line(rng)
        if k < 0.53:
            from tools.props import c05
            return "en", c05.gen_case(rng)["text"]
        if k < 0.61:
            from tools.props import c06
            from tools import oracle as O
            cur, rates, alias = c06.tables()
            codes = sorted(rates.keys()) if isinstance(rates, dict) else ["usd", "eur", "try"]
            A, B = rng.choice(codes), rng.choice(codes)
            t = c06.spelling(rng, A, O.numclass(rng))
            return "en", rng.choice([t, f"{t} to {B.lower()}", f"{t} + {c06.spelling(rng, B, O.numclass(rng))}", f"{t} * 3"])
        if k < 0.70:
            from tools.props import c09
            lang = rng.choice(["en", "en", "tr"])
            y, m, d = c09.gen_date(rng, _year())
            y = rng.randint(1900, 2100) if rng.random() < 0.7 else y
            while not c09.valid(y, m, d):
                d -= 1
            t = c09.spell(rng, lang, y, m, d, _year(), allow_default=False)
            if lang == "en":
                return lang, rng.choice([t, f"{t} + {rng.randint(1, 25)} days", f"{t} - {rng.randint(1, 11)} months", f"{t} to {c09.spell(rng, 'en', 2020, 2, 29, _year(), False)}"])
            return lang, rng.choice([t, f"{t} + {rng.randint(1, 25)} gün"])
        if k < 0.78:
            from tools.props import c10
            parts = [(c10.count(rng) % 5000, rng.choice(c10.ORDER)) for _ in range(rng.randint(1, 4))]
            t = " ".join(f"{n} {c10.word(rng, u, n)}" for n, u in parts)
            return "en", rng.choice([t, t + " as hours", t + " + 3 days", t + " to minutes"])
        if k < 0.85:
            h, m = rng.randint(0, 23), rng.randint(0, 59)
            z1, z2 = rng.choice(L.ZONES + ["NPT", "ACST", "HAST", "NZDT"]), rng.choice(L.ZONES + ["NPT", "LINT"])
            t = rng.choice([f"{h}:{m:02d}", f"{(h % 11) + 1}:{m:02d} {rng.choice(['am', 'pm', 'PM'])}", f"{(h % 11) + 1} {rng.choice(['am', 'pm'])}"])
            return "en", rng.choice([f"{t} {z1}", f"{t} {z1} to {z2}", f"{t} {z1} + {rng.randint(1, 90)} minutes", f"{t} to {(h + 5) % 24}:{m:02d}"])
        if k < 0.92:
            from tools.props import c12
            units, _ = c12.tables()
            a = rng.choice(units)
            b = rng.choice([u for u in units if u["kind"] == a["kind"]])
            v = rng.choice(["1", "2,5", "1000", "0,001", L.num(rng)])
            return "en", rng.choice([f"{v} {rng.choice(a['words'])} to {rng.choice(b['names'])}", f"{v} {rng.choice(a['words'])} + {L.num(rng)} {rng.choice(b['words'])}",
                                     f"{v} {rng.choice(a['words'])} * 3"])
        if k < 0.96:
            from tools.props import c13
            n = rng.randint(0, 2 ** rng.randint(1, 40))
            return "en", rng.choice([c13.lit(n, rng.choice(["hex", "octal", "binary"]), rng), f"{n} to {rng.choice(['hex', 'octal', 'binary'])}",
                                     f"{c13.lit(n, 'hex', rng)} + {rng.randint(0, 99)}"])
        n = rng.randint(-10 ** 9, 4 * 10 ** 9)
        return "en", rng.choice([f"{n} to date", f"{n} to EST", f"{rng.randint(1, 28)}/{rng.randint(1, 12)}/{rng.randint(1971, 2100)} as unix"])
    except Exception:
        return "en", L.value_line(rng)
