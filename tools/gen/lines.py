"""Line generators shared by the property checks.  Every random choice comes from the rng passed
in.  Generators return plain strings (default configuration: decimal ',' thousands '.')."""

MONTHS_EN = ["jan", "feb", "mar", "apr", "may", "jun", "jul", "aug", "sep", "oct", "nov", "dec"]
CURRENCIES = ["usd", "eur", "try", "dkk", "gbp", "jpy", "sek", "bgn", "chf", "pln"]
ZONES = ["EST", "CET", "UTC", "PST", "IST", "JST", "GMT+3", "GMT-5", "GMT+5:30"]
UNITS = ["mm", "cm", "m", "km", "mg", "g", "kg", "byte", "kb", "mb", "gb", "inch", "ft", "yard", "mile", "oz", "lb"]
DUR = ["second", "seconds", "minute", "minutes", "hour", "hours", "day", "days", "week", "weeks", "month", "months", "year", "years"]
NAMES = ["x", "y", "total", "my var", "my var long", "price", "tax rate", "a", "b", "ab"]


def num(rng, dec=","):
    k = rng.random()
    if k < 0.5:
        return str(rng.randint(0, 999))
    if k < 0.8:
        return f"{rng.randint(0, 9999)}{dec}{rng.randint(0, 99):02d}"
    if k < 0.9:
        return str(rng.randint(1000, 10**9))
    return f"{rng.randint(0, 9)}{dec}{rng.randint(1, 999999)}"


def arith(rng, depth=0):
    if depth > 3 or rng.random() < 0.35:
        s = num(rng)
        if rng.random() < 0.1:
            s = "-" + s
        return s
    k = rng.random()
    if k < 0.2:
        return "(" + arith(rng, depth + 1) + ")"
    op = rng.choice(["+", "-", "*", "/"])
    sp = rng.choice(["", " ", " ", "  "])
    return arith(rng, depth + 1) + sp + op + sp + arith(rng, depth + 1)


def money(rng):
    c = rng.choice(CURRENCIES)
    k = rng.random()
    if k > 0.9:
        # magnitude suffix: '2k usd', '$1,5M', '3M try'
        amt = rng.choice([str(rng.randint(1, 900)), f"{rng.randint(1, 99)},{rng.randint(1, 9)}"]) + rng.choice("kKMG")
        return ("$" + amt) if (c == "usd" and rng.random() < 0.4) else amt + " " + c
    if k < 0.2 and c == "usd":
        return "$" + num(rng)
    if k < 0.3 and c == "eur":
        return "€" + num(rng)
    return num(rng) + rng.choice([" ", ""]) + (c if rng.random() < 0.7 else c.upper())


def percent(rng):
    return num(rng) + "%" if rng.random() < 0.8 else "%" + num(rng)


def date(rng):
    d, m, y = rng.randint(1, 28), rng.randint(1, 12), rng.randint(1990, 2035)
    k = rng.random()
    if k < 0.3:
        return f"{d}/{m}/{y}"
    if k < 0.6:
        return f"{d} {MONTHS_EN[m-1]} {y}"
    if k < 0.8:
        return f"{MONTHS_EN[m-1]} {d}, {y}"
    return f"{d} {MONTHS_EN[m-1]}"


def duration(rng):
    n = rng.randint(1, 3)
    return " ".join(f"{rng.randint(0, 70)} {rng.choice(DUR)}" for _ in range(n))


def clock(rng):
    h, m = rng.randint(0, 23), rng.randint(0, 59)
    k = rng.random()
    if k < 0.25:
        # 12-hour forms (1-11 am/pm): 'H:MM am', 'H:MMpm', 'H pm', 'Ham'
        hh = rng.randint(1, 11)
        mer = rng.choice(["am", "pm", "AM", "PM"])
        s = rng.choice([f"{hh}:{m:02d} {mer}", f"{hh}:{m:02d}{mer}", f"{hh} {mer}", f"{hh}{mer}"])
    else:
        s = f"{h}:{m:02d}"
        if rng.random() < 0.3:
            s += f":{rng.randint(0, 59):02d}"
    if rng.random() < 0.5:
        s += " " + rng.choice(ZONES)
    return s


def unitq(rng):
    return num(rng) + " " + rng.choice(UNITS)


def value_line(rng):
    """a line that evaluates to a value of some kind"""
    k = rng.random()
    if k < 0.30:
        return arith(rng)
    if k < 0.40:
        return money(rng) + rng.choice(["", " + " + money(rng), " * " + num(rng), " to " + rng.choice(CURRENCIES)])
    if k < 0.50:
        return rng.choice([num(rng) + " + " + percent(rng), percent(rng) + " of " + num(rng),
                           percent(rng) + " on " + money(rng), percent(rng) + " off " + num(rng),
                           num(rng) + " is what % of " + num(rng), num(rng) + " is " + percent(rng) + " of what",
                           money(rng) + " - " + percent(rng), money(rng) + " is what % of " + money(rng)])
    if k < 0.60:
        return date(rng) + rng.choice(["", " + " + duration(rng), " - " + duration(rng), " to " + date(rng), " as unix"])
    if k < 0.70:
        return duration(rng) + rng.choice(["", " + " + duration(rng), " as hours", " as seconds"])
    if k < 0.80:
        return clock(rng) + rng.choice(["", " + " + duration(rng), " - " + duration(rng), " to " + rng.choice(ZONES), " to " + clock(rng).split(" ")[0]])
    if k < 0.90:
        return unitq(rng) + rng.choice(["", " to " + rng.choice(UNITS), " * 2"])
    return rng.choice(["0x" + format(rng.randint(0, 2**20), "x"), "0b" + format(rng.randint(0, 255), "b"),
                       str(rng.randint(0, 10**6)) + " to hex", str(rng.randint(0, 4000000000)) + " to date"])


def program_line(rng, names):
    k = rng.random()
    if k < 0.35:
        return rng.choice(names) + " = " + value_line(rng)
    if k < 0.6:
        return rng.choice(names) + rng.choice([" + 1", " * 2", "", " - 3", " / 4"])
    if k < 0.7:
        return rng.choice(["", "   ", "# only a comment", "hello world", "1 +", ")("])
    return value_line(rng)


def text(rng, max_lines=6, names=NAMES):
    n = rng.randint(1, max_lines)
    sep = rng.choice(["\n", "\n", "\r\n"])
    lines = [program_line(rng, names) for _ in range(n)]
    if rng.random() < 0.1:
        # mixed separators / trailing separator
        return "".join(l + rng.choice(["\n", "\r\n"]) for l in lines)
    return sep.join(lines)
