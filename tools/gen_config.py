#!/usr/bin/env python3
"""Translator: /repo/src/json/config.json (+ the implementation's own tokenised patterns, dumped
through the harness `lex` op, + three source anchors) -> lean/SC/Gen/*.lean.
Rewrites a file only when its content changes (keeps `lake build` incremental).
Fails loudly (exit 1) when an anchor is missing or a construct is not translatable."""
import hashlib
import json
import os
import re
import sys
from decimal import Decimal

ROOT = os.path.dirname(os.path.dirname(os.path.abspath(__file__)))
sys.path.insert(0, ROOT)
from tools import common as C  # noqa: E402

REPO = C.REPO
GEN = os.path.join(C.LEAN, "SC", "Gen")

RULE_FN = {
    "percent_calculator": "percentCalculator", "convert_timezone": "convertTimezone", "time_with_timezone": "timeWithTimezone",
    "to_unixtime": "toUnixtime", "from_unixtime": "fromUnixtime", "convert_money": "convertMoney", "number_on": "numberOn",
    "number_of": "numberOf", "number_off": "numberOff", "division_cleanup": "divisionCleanup", "duration_parse": "durationParse",
    "as_duration": "asDuration", "to_duration": "toDuration", "at_date": "atDate", "combine_durations": "combineDurations",
    "find_numbers_percent": "findNumbersPercent", "find_total_from_percent": "findTotalFromPercent",
    "number_type_convert": "numberTypeConvert", "dynamic_type_convert": "dynamicTypeConvert", "small_date": "smallDate",
}
DUR_KIND = {"Second": 0, "Minute": 1, "Hour": 2, "Day": 3, "Week": 4, "Month": 5, "Year": 6}


def die(msg):
    print("TRANSLATOR FAILURE:", msg)
    sys.exit(1)


def lstr(s):
    out = ['"']
    for ch in s:
        if ch == '"':
            out.append('\\"')
        elif ch == "\\":
            out.append("\\\\")
        elif ch == "\n":
            out.append("\\n")
        elif ch == "\r":
            out.append("\\r")
        elif ch == "\t":
            out.append("\\t")
        elif ord(ch) < 32 or ord(ch) in (0x200e, 0x200f, 0x202a, 0x202b, 0x202c, 0x202d, 0x202e):
            out.append("\\u%04x" % ord(ch))
        else:
            out.append(ch)
    out.append('"')
    return "".join(out)


def lopt(s):
    return "none" if s is None else f"(some {lstr(s)})"


def llist(items):
    return "[" + ", ".join(items) + "]"


def lrat(dec_text):
    """exact decimal text -> `(Num.ofRat neg num den)`"""
    d = Decimal(dec_text)
    neg = d < 0
    n, den = abs(d).as_integer_ratio()
    return f"(Num.ofRat {'true' if neg else 'false'} {n} {den})"


def lfield(t):
    f = t["f"]
    n = lstr(t["name"])
    if f == "TEXT":
        return f"(.text {n} {lopt(t.get('extra'))})"
    if f == "DYNAMIC_TYPE":
        return f"(.dyn {n} {lopt(t.get('extra'))})"
    if f == "GROUP":
        return f"(.group {n} {llist([lstr(x) for x in t['items']])})"
    if f == "TYPE_GROUP":
        return f"(.typeGroup {llist([lstr(x) for x in t['types']])} {n})"
    simple = {"DATE_TIME": "dateTime", "DATE": "date", "TIME": "time", "MONEY": "money", "PERCENT": "percent",
              "NUMBER": "number", "MONTH": "month", "DURATION": "duration", "TIMEZONE": "timezone"}
    if f in simple:
        return f"(.{simple[f]} {n})"
    die(f"unknown field type {f}")


def bits_to_rat(hexbits):
    b = int(hexbits, 16)
    neg = b >> 63
    b &= (1 << 63) - 1
    ex = b >> 52
    man = b & ((1 << 52) - 1)
    if ex == 0x7ff:
        die("non-finite number in a pattern token")
    if ex == 0:
        num, den = man, 1 << 1074
    else:
        m = man + (1 << 52)
        e = ex - 1075
        num, den = (m << e, 1) if e >= 0 else (m, 1 << -e)
    return f"(Num.ofRat {'true' if neg else 'false'} {num} {den})"


def ltok(t):
    k = t["t"]
    if k == "F":
        return f"(.field {lfield(t)})"
    if k == "T":
        return f"(.text {lstr(t['s'])})"
    if k == "O":
        return f"(.op (Op.ofChar (Char.ofNat {ord(t['c'])})))"
    if k == "N":
        return f"(.item (.number {bits_to_rat(t['v'])} .decimal))"
    if k == "P":
        return f"(.item (.percent {bits_to_rat(t['v'])}))"
    if k == "Mo":
        return f"(.month {t['m']})"
    if k == "TZ":
        return f"(.tz {lstr(t['name'])} {t['off']})"
    die(f"pattern token kind {k} is not translatable: {t}")


def linfo(ti):
    tok = "none" if ti["tok"] is None else f"(some {ltok(ti['tok'])})"
    return f"⟨{ti['s']}, {ti['e']}, {tok}, {lstr(ti['text'])}, true⟩"


def write_if_changed(path, content):
    os.makedirs(os.path.dirname(path), exist_ok=True)
    if os.path.exists(path) and open(path, encoding="utf-8").read() == content:
        return False
    with open(path, "w", encoding="utf-8") as f:
        f.write(content)
    return True


def rust_sorted(keys):
    return sorted(keys, key=lambda k: k.encode("utf-8"))


def anchors():
    """the three lists read from Rust source; each must be found"""
    src = open(os.path.join(REPO, "src/tokinizer/regex_tokinizer/mod.rs"), encoding="utf-8").read()
    order = re.findall(r'\("(\w+)",\s+\w+_regex_parser\s+as RegexParser\)', src)
    if len(order) < 5:
        die("anchor TOKEN_REGEX_PARSER not found in regex_tokinizer/mod.rs")
    src = open(os.path.join(REPO, "src/tokinizer/rule_tokinizer/mod.rs"), encoding="utf-8").read()
    fns = re.findall(r'm\.insert\("(\w+)"\.to_string\(\),\s+(\w+) as ExpressionFunc\)', src)
    if len(fns) < 5:
        die("anchor RULE_FUNCTIONS not found in rule_tokinizer/mod.rs")
    for name, fn in fns:
        if name != fn:
            die(f"RULE_FUNCTIONS maps {name} to a different function {fn}: the model keys rule behaviour by name")
        if name not in RULE_FN:
            die(f"rule function {name} has no model")
    src = open(os.path.join(REPO, "src/smartcalc.rs"), encoding="utf-8").read()
    m = re.search(r"impl Default for SmartCalc \{(.*?)\n\}\n", src, re.S)
    if not m:
        die("anchor `impl Default for SmartCalc` not found")
    date_rules = {}
    for lang, body in re.findall(r'set_date_rule\("(\w+)", vec!\[(.*?)\]\)', m.group(1), re.S):
        date_rules[lang] = re.findall(r'"([^"]*)"\.to_string\(\)', body)
    if not date_rules:
        die("default date patterns not found in SmartCalc::default")
    # where set_date_rule puts the small_date rule: in front of the configured rules or behind them
    m2 = re.search(r"pub fn set_date_rule.*?current_rules\.(insert\(0,|push\()\s*RuleType::Internal", src, re.S)
    if not m2:
        die("anchor: position of the small_date rule in set_date_rule not found")
    date_rules["__first__"] = m2.group(1).startswith("insert")
    return order, [n for n, _ in fns], date_rules


def main():
    cfg_path = os.path.join(REPO, "src/json/config.json")
    raw = open(cfg_path, encoding="utf-8").read()
    cfg = json.loads(raw, parse_float=lambda s: s, parse_int=lambda s: s)
    order, fn_names, date_rules = anchors()
    date_first = date_rules.pop("__first__")
    digest = hashlib.sha256((raw + json.dumps([order, fn_names, date_rules, date_first])).encode()).hexdigest()

    # ---- the implementation's own tokenised patterns ------------------------------------------
    pats = []   # (lang, text)
    langs = rust_sorted(cfg["languages"].keys())
    for lang in langs:
        L = cfg["languages"][lang]
        for rname in rust_sorted(L["rules"].keys()):
            for p in L["rules"][rname]["rules"]:
                pats.append((lang, p))
        for p in date_rules.get(lang, []):
            pats.append((lang, p))
    for fam in cfg["types"]:
        for it in fam["items"]:
            for p in it["parse"]:
                pats.append(("en", p))
    if not os.path.exists(C.SCIMPL):
        die("harness binary missing (build it first)")
    res = C.run_impl([{"op": "lex", "lang": l, "text": p} for l, p in pats] + [{"op": "fingerprint", "full": True}])
    lexed = {}
    for (l, p), r in zip(pats, res):
        if "toks" not in r:
            die(f"the implementation could not tokenise pattern {p!r} ({l}): {r}")
        lexed[(l, p)] = r["toks"]
    fp = res[-1].get("text", "")
    impl_rates = dict(re.findall(r"^rate (\w+) (\d+)$", fp, re.M))

    out = []
    out.append("/- GENERATED by tools/gen_config.py from /repo/src/json/config.json — do not edit.")
    out.append(f"   input sha256: {digest} -/")
    out.append("import SC.Types\nnamespace SC.Gen\nopen SC\nvariable (F : Type) [Num F]\n")

    # currencies
    cur_rows = []
    for code in rust_sorted(cfg["currencies"].keys()):
        c = cfg["currencies"][code]
        cur_rows.append(f"  ({lstr(code.lower())}, ⟨{lstr(c['code'])}, {lstr(c['symbol'])}, {str(c['symbolOnLeft']).lower()}, "
                        f"{str(c['spaceBetweenAmountAndSymbol']).lower()}, {c['decimalDigits']}⟩)")
    out.append("def currencies : List (String × Currency) := [\n" + ",\n".join(cur_rows) + "]\n")
    lower_codes = {k.lower(): v["code"] for k, v in cfg["currencies"].items()}
    alias_rows = []
    for a in rust_sorted(cfg["currency_alias"].keys()):
        tgt = cfg["currency_alias"][a]
        if tgt in lower_codes:     # config.get_currency(value): exact key lookup in the lower-cased table
            alias_rows.append(f"({lstr(a)}, {lstr(tgt)})")
    out.append("def currencyAlias : List (String × String) := " + llist(alias_rows) + "\n")
    rate_rows = []
    rate_items = []
    for k in cfg["currency_rates"].keys():
        if k in lower_codes:
            rate_items.append((lower_codes[k], cfg["currency_rates"][k]))
    for code, txt in sorted(rate_items, key=lambda kv: kv[0].encode()):
        # cross-check: serde_json's reading of the decimal text == the correctly rounded double
        import struct
        want = struct.unpack(">Q", struct.pack(">d", float(Decimal(txt))))[0]
        if code in impl_rates and int(impl_rates[code]) != want:
            die(f"rate {code}: the implementation read {txt} as bits {int(impl_rates[code]):x}, correctly rounded is {want:x}")
        d = Decimal(txt)
        if d < 0:
            die(f"negative rate {code}")
        n_, d_ = d.as_integer_ratio()
        rate_rows.append(f"({lstr(code)}, {n_}, {d_})")
    out.append("/-- currency code ↦ rate as the exact decimal of config.json (numerator, denominator) -/")
    out.append("def rateTable : List (String × Nat × Nat) := " + llist(rate_rows) + "\n")
    out.append("def rates : List (String × F) := rateTable.map fun r => (r.1, Num.ofRat false r.2.1 r.2.2)\n")
    zone_rows = [f"({lstr(z.upper())}, {cfg['timezones'][z]})" for z in rust_sorted(cfg["timezones"].keys())]
    out.append("def zones : List (String × Int) := " + llist(zone_rows) + "\n")

    # units
    fam_rows = []
    for fam in sorted(cfg["types"], key=lambda f: f["name"].encode()):
        items = []
        for it in sorted(fam["items"], key=lambda i: int(i["index"])):
            if it.get("upgrade_code") is None or it.get("downgrade_code") is None:
                continue
            parse = llist([llist([linfo(t) for t in lexed[("en", p)]]) for p in it["parse"]])
            dig = "none" if it.get("decimal_digits") is None else f"(some {it['decimal_digits']})"
            rnd = "none" if it.get("use_fract_rounding") is None else f"(some {str(it['use_fract_rounding']).lower()})"
            rz = "none" if it.get("remove_fract_if_zero") is None else f"(some {str(it['remove_fract_if_zero']).lower()})"
            items.append(f"    ⟨{lstr(fam['name'])}, {it['index']}, {lstr(it['format'])}, {parse}, {lstr(it['upgrade_code'])}, "
                         f"{lstr(it['downgrade_code'])}, {llist([lstr(n) for n in it['names']])}, {dig}, {rnd}, {rz}⟩")
        fam_rows.append(f"  ({lstr(fam['name'])}, [\n" + ",\n".join(items) + "])")
    out.append("def units : List (String × List (UnitItem F)) := [\n" + ",\n".join(fam_rows) + "]\n")
    fam_index = {f["name"]: {int(i["index"]) for i in f["items"] if i.get("upgrade_code") is not None and i.get("downgrade_code") is not None} for f in cfg["types"]}
    br_rows = []
    for b in cfg["type_conversion"]:
        s, t = b["source"], b["target"]
        if int(s["index"]) in fam_index.get(s["name"], ()) and int(t["index"]) in fam_index.get(t["name"], ()):
            br_rows.append(f"⟨{lstr(s['name'])}, {s['index']}, {lstr(t['name'])}, {t['index']}, {lstr(b['to_source_calculation'])}, {lstr(b['to_target_calculation'])}⟩")
    out.append("def bridges : List Bridge := " + llist(br_rows) + "\n")

    # languages
    lang_defs = []
    rule_defs = []
    for lang in langs:
        L = cfg["languages"][lang]
        consts = llist([f"({lstr(k)}, {L['constant_pair'][k]})" for k in rust_sorted(L["constant_pair"].keys()) if 1 <= int(L["constant_pair"][k]) <= 11])
        groups = llist([f"({lstr(g)}, {llist([lstr(w) for w in L['word_group'][g]])})" for g in rust_sorted(L["word_group"].keys())])
        rules = []
        for rname in rust_sorted(L["rules"].keys()):
            if rname not in fn_names:
                continue
            plist = llist([llist([linfo(t) for t in lexed[(lang, p)]]) for p in L["rules"][rname]["rules"]])
            rule_defs.append(f"def rule_{lang}_{rname} : Rule F := ⟨.{RULE_FN[rname]}, {plist}⟩\n")
            rules.append(f"    rule_{lang}_{rname} F")
        if lang in date_rules:
            plist = llist([llist([linfo(t) for t in lexed[(lang, p)]]) for p in date_rules[lang]])
            rule_defs.append(f"def rule_{lang}_small_date : Rule F := ⟨.smallDate, {plist}⟩\n")
            if date_first:
                rules.insert(0, f"    rule_{lang}_small_date F")
            else:
                rules.append(f"    rule_{lang}_small_date F")
        durs = llist([f"⟨{lstr(d['count'])}, {lstr(d['format'])}, {DUR_KIND[d['duration_type']]}⟩" for d in L["format"]["duration"]])
        datef = llist([f"({lstr(k)}, {lstr(L['format']['date'][k])})" for k in rust_sorted(L["format"]["date"].keys())])
        months = [["", ""] for _ in range(12)]
        for name in rust_sorted(L["long_months"].keys()):
            n = int(L["long_months"][name])
            if 1 <= n <= 12:
                months[n - 1][1] = name
        for name in rust_sorted(L["short_months"].keys()):
            n = int(L["short_months"][name])
            if 1 <= n <= 12:
                months[n - 1][0] = name
        mrows = llist([f"({lstr(s)}, {lstr(l)})" for s, l in months])
        lang_defs.append(f"def lang_{lang} : Lang F := {{\n  name := {lstr(lang)},\n  constants := {consts},\n  groups := {groups},\n"
                         f"  rules := [\n" + ",\n".join(rules) + f"],\n  durFmts := {durs},\n  dateFmts := {datef},\n  months := {mrows} }}\n")
    out.extend(rule_defs)
    out.extend(lang_defs)
    out.append("/-- `SmartCalc::default()` -/")
    out.append("def cfg : Cfg F := {\n  currencies := currencies, currencyAlias := currencyAlias, rates := rates F, zones := zones,\n"
               "  units := units F, bridges := bridges,\n  langs := " + llist([f"lang_{l} F" for l in langs]) + " }\n")
    out.append("end SC.Gen\n")
    changed = write_if_changed(os.path.join(GEN, "Config.lean"), "\n".join(out))

    # ---- plain tables for kernel-checked data obligations ------------------------------------
    t = []
    t.append("/- GENERATED by tools/gen_config.py — plain tables for data obligations. -/")
    t.append("namespace SC.Gen\n")
    t.append("/-- tokens per configured rule / unit / date pattern (as the implementation tokenises them) -/")
    t.append("def patternLengths : List Nat := " + llist([str(len(lexed[k])) for k in pats]) + "\n")
    t.append("/-- zone offsets in minutes -/")
    t.append("def zoneOffsets : List Int := " + llist([str(cfg["timezones"][z]) for z in rust_sorted(cfg["timezones"].keys())]) + "\n")
    # conversion codes: "{value}", "{value} * c", "{value} / c" (c an exact decimal) -> multiplier
    codes = []
    for fam in cfg["types"]:
        for it in fam["items"]:
            for k in ("upgrade_code", "downgrade_code"):
                if it.get(k) is not None and it[k] not in codes:
                    codes.append(it[k])
    for b in cfg["type_conversion"]:
        for k in ("to_source_calculation", "to_target_calculation"):
            if b[k] not in codes:
                codes.append(b[k])
    rows = []
    for code in sorted(codes, key=lambda c: c.encode()):
        m = re.match(r"^\{value\}(?:\s*([*/])\s*([0-9]+(?:\.[0-9]+)?))?$", code)
        if not m:
            die(f"conversion code {code!r} is not of the shape '{{value}}', '{{value}} * c' or '{{value}} / c'")
        if m.group(1) is None:
            n_, d_ = 1, 1
        else:
            n_, d_ = Decimal(m.group(2)).as_integer_ratio()
            if n_ == 0:
                die(f"conversion code {code!r} has a zero constant")
            if m.group(1) == "/":
                n_, d_ = d_, n_
        rows.append(f"({lstr(code)}, {n_}, {d_})")
    t.append("/-- conversion code text ↦ the multiplier it denotes (numerator, denominator) -/")
    t.append("def codeFactors : List (String × Nat × Nat) := " + llist(rows) + "\n")
    # per-language word tables for the language-parity obligations (C19)
    rows = []
    for lang in langs:
        Lg = cfg["languages"][lang]
        al = llist([f"({lstr(k)}, {lstr(Lg['alias'][k])})" for k in rust_sorted(Lg.get("alias", {}).keys())])
        rows.append(f"({lstr(lang)}, {al})")
    t.append("/-- language ↦ alias word ↦ replacement text -/")
    t.append("def langAliases : List (String × List (String × String)) := " + llist(rows) + "\n")
    rows = []
    for lang in langs:
        Lg = cfg["languages"][lang]
        names = []
        for tab in ("long_months", "short_months"):
            for k in rust_sorted(Lg[tab].keys()):
                names.append(f"({lstr(k)}, {Lg[tab][k]})")
        rows.append(f"({lstr(lang)}, {llist(names)})")
    t.append("/-- language ↦ every configured month spelling ↦ month number -/")
    t.append("def monthNames : List (String × List (String × Nat)) := " + llist(rows) + "\n")
    # printed word of every unit and the words its literals are read with (C15)
    rows = []
    for fam in sorted(cfg["types"], key=lambda f: f["name"].encode()):
        for it in sorted(fam["items"], key=lambda i: int(i["index"])):
            if it.get("upgrade_code") is None or it.get("downgrade_code") is None:
                continue
            printed = it["format"].replace("{value}", "").strip()
            words = []
            for p_ in it["parse"]:
                m_ = re.match(r"^\{NUMBER:value\} (?:\{TEXT:type:(\w+)\}|(\w+))$", p_)
                if m_:
                    words.append(m_.group(1) or m_.group(2))
            rows.append(f"({lstr(fam['name'])}, {it['index']}, {lstr(printed)}, {llist([lstr(w) for w in words])})")
    t.append("/-- (family, index, the word the unit is printed with, the words its literals are read with) -/")
    t.append("def unitWords : List (String × Nat × String × List String) := " + llist(rows) + "\n")
    t.append("/-- parser order of TOKEN_REGEX_PARSER -/")
    t.append("def parserOrder : List String := " + llist([lstr(x) for x in order]) + "\n")
    t.append("end SC.Gen\n")
    changed |= write_if_changed(os.path.join(GEN, "Tables.lean"), "\n".join(t))

    # ---- the tokenizers' regular expressions and the Unicode tables of the regex crate ---------
    from tools import gen_regex as GR
    cfg_plain = json.loads(raw)
    try:
        rx = GR.gen_regexes(cfg_plain, order)
    except GR.Unsupported as e:
        die(f"regular expression outside the translated syntax: {e}")
    rx = ("/- GENERATED by tools/gen_regex.py from /repo/src/json/config.json (parse, alias, languages.*.alias, month names,\n"
          "   type_group) and the parser order of TOKEN_REGEX_PARSER — do not edit. -/\nimport SC.Regex\n") + rx
    changed |= write_if_changed(os.path.join(GEN, "Regexes.lean"), rx)
    sig = GR.unicode_signature(REPO, C.SCIMPL)
    upath = os.path.join(GEN, "Unicode.lean")
    have = open(upath, encoding="utf-8").read(600) if os.path.exists(upath) else ""
    if f"signature: {sig}" not in have:
        changed |= write_if_changed(upath, GR.gen_unicode(C.SCIMPL, sig))
    print("translator ok;", "files updated" if changed else "no change", f"({len(pats)} patterns, {len(cur_rows)} currencies)")


if __name__ == "__main__":
    main()
