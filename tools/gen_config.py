#!/usr/bin/env python3
"""Translator: /repo/src/json/config.json (+ the implementation's own tokenised patterns, dumped
through the harness) -> lean/SC/Gen/*.lean.  Rewrites a file only when its content changes."""
import sys
if __name__ == "__main__":
    sys.exit(0)
