"""Translate the regular expressions of config.json (token parsers, alias words, month names) into
Lean terms of `SC.Re`, and the Unicode tables of the implementation's `regex` crate / `core` case
mapping (dumped by the harness) into `SC.UTables`.

Only the regex syntax config.json uses is accepted; anything else raises, which the check reports as
a broken translator (the model would no longer be the code)."""
import hashlib
import json
import os
import subprocess


class Unsupported(Exception):
    pass


class P:
    def __init__(self, s):
        self.s = s
        self.i = 0
        self.ngroups = 0
        self.names = []

    def peek(self):
        return self.s[self.i] if self.i < len(self.s) else None

    def eat(self, c=None):
        ch = self.peek()
        if ch is None or (c is not None and ch != c):
            raise Unsupported(f"expected {c!r} at {self.i} in {self.s!r}")
        self.i += 1
        return ch

    # alt := seq ('|' seq)*
    def alt(self):
        items = [self.seq()]
        while self.peek() == "|":
            self.eat()
            items.append(self.seq())
        r = items[-1]
        for x in reversed(items[:-1]):
            r = ("alt", x, r)
        return r

    def seq(self):
        items = []
        while self.peek() is not None and self.peek() not in "|)":
            items.append(self.rep())
        if not items:
            return ("eps",)
        r = items[-1]
        for x in reversed(items[:-1]):
            r = ("seq", x, r)
        return r

    def rep(self):
        a = self.atom()
        while self.peek() is not None and self.peek() in "?*+{":
            c = self.peek()
            if c == "{":
                j = self.s.index("}", self.i)
                body = self.s[self.i + 1:j]
                if not body or not all(ch.isdigit() or ch == "," for ch in body):
                    raise Unsupported(f"repetition {body!r} in {self.s!r}")
                self.i = j + 1
                if "," in body:
                    lo, hi = body.split(",")
                    mn, mx = int(lo), (int(hi) if hi != "" else None)
                else:
                    mn = mx = int(body)
            else:
                self.eat()
                mn, mx = {"?": (0, 1), "*": (0, None), "+": (1, None)}[c]
            if self.peek() == "?":
                raise Unsupported(f"lazy repetition in {self.s!r}")
            a = ("rep", a, mn, mx)
        return a

    def escape(self, in_class):
        self.eat("\\")
        c = self.eat()
        if c == "b" and not in_class:
            return ("wordb",)
        if c == "p":
            self.eat("{")
            j = self.s.index("}", self.i)
            name = self.s[self.i:j]
            self.i = j + 1
            item = {"L": ("letter",), "Currency_Symbol": ("currency",), "Sc": ("currency",)}.get(name)
            if item is None:
                raise Unsupported(f"\\p{{{name}}} in {self.s!r}")
            return item if in_class else ("set", False, [item])
        if c == "w":
            return ("word",) if in_class else ("set", False, [("word",)])
        if c in "rnt":
            cp = {"r": 13, "n": 10, "t": 9}[c]
            return ("ch", cp) if in_class else ("set", False, [("ch", cp)])
        if c.isalnum():
            raise Unsupported(f"escape \\{c} in {self.s!r}")
        return ("ch", ord(c)) if in_class else ("set", False, [("ch", ord(c))])

    def cls(self):
        self.eat("[")
        neg = False
        if self.peek() == "^":
            self.eat()
            neg = True
        items = []
        first = True
        while True:
            c = self.peek()
            if c is None:
                raise Unsupported(f"unterminated class in {self.s!r}")
            if c == "]" and not first:
                self.eat()
                break
            first = False
            if c == "[":
                raise Unsupported(f"nested class in {self.s!r}")
            if c == "\\":
                it = self.escape(True)
            else:
                self.eat()
                it = ("ch", ord(c))
            if it[0] == "ch" and self.peek() == "-" and self.i + 1 < len(self.s) and self.s[self.i + 1] != "]":
                self.eat("-")
                if self.peek() == "\\":
                    hi = self.escape(True)
                else:
                    hi = ("ch", ord(self.eat()))
                if hi[0] != "ch":
                    raise Unsupported(f"range end in {self.s!r}")
                it = ("range", it[1], hi[1])
            items.append(it)
        return ("set", neg, items)

    def atom(self):
        c = self.peek()
        if c == "(":
            self.eat()
            name = None
            capturing = True
            if self.peek() == "?":
                self.eat()
                if self.peek() == ":":
                    self.eat()
                    capturing = False
                elif self.peek() == "P" or self.peek() == "<":
                    if self.peek() == "P":
                        self.eat()
                    self.eat("<")
                    j = self.s.index(">", self.i)
                    name = self.s[self.i:j]
                    self.i = j + 1
                else:
                    raise Unsupported(f"group flag in {self.s!r}")
            idx = None
            if capturing:
                self.ngroups += 1
                idx = self.ngroups
                if name:
                    self.names.append((name, idx))
            r = self.alt()
            self.eat(")")
            return ("grp", idx, r) if capturing else r
        if c == "[":
            return self.cls()
        if c == "\\":
            return self.escape(False)
        if c == ".":
            self.eat()
            return ("set", True, [("ch", 10)])
        if c in "^$":
            raise Unsupported(f"anchor {c} in {self.s!r}")
        if c in "?*+{":
            raise Unsupported(f"dangling quantifier in {self.s!r}")
        self.eat()
        return ("set", False, [("ch", ord(c))])


def parse(s):
    p = P(s)
    r = p.alt()
    if p.i != len(s):
        raise Unsupported(f"trailing {s[p.i:]!r} in {s!r}")
    return r, p.names


def lean_item(it):
    if it[0] == "ch":
        return f".ch {it[1]}"
    if it[0] == "range":
        return f".range {it[1]} {it[2]}"
    return "." + it[0]


def lean_re(r):
    k = r[0]
    if k == "eps":
        return ".eps"
    if k == "wordb":
        return ".wordb"
    if k == "set":
        return f"(.set ⟨{'true' if r[1] else 'false'}, [{', '.join(lean_item(i) for i in r[2])}]⟩)"
    if k in ("seq", "alt"):
        return f"(.{k} {lean_re(r[1])} {lean_re(r[2])})"
    if k == "rep":
        mx = "none" if r[3] is None else f"(some {r[3]})"
        return f"(.rep {lean_re(r[1])} {r[2]} {mx})"
    if k == "grp":
        return f"(.grp {r[1]} {lean_re(r[2])})"
    raise Unsupported(str(r))


def lean_str(s):
    out = []
    for ch in s:
        o = ord(ch)
        if ch in '"\\':
            out.append("\\" + ch)
        elif 32 <= o < 127:
            out.append(ch)
        elif o <= 0xFFFF:
            out.append(f"\\u{o:04x}")
        else:
            out.append(ch)
    return '"' + "".join(out) + '"'


def lean_nre(pattern):
    r, names = parse(pattern)
    return f"⟨{lean_re(r)}, [{', '.join(f'({lean_str(n)}, {i})' for n, i in names)}]⟩"


def gen_regexes(cfg, parser_order):
    """text of SC/Gen/Regexes.lean"""
    lines = ["namespace SC.Gen", "open SC", ""]
    lines.append("/-- `config.token_parse_regex`, in the order `TOKEN_REGEX_PARSER` runs them -/")
    ent = []
    for key in sorted(cfg["parse"].keys()):
        ent.append(f"  ({lean_str(key)}, [\n    " + ",\n    ".join(lean_nre(p) for p in cfg["parse"][key]) + "])")
    lines.append("def parseRegexes : List (String × List NRe) := [\n" + ",\n".join(ent) + "]")
    lines.append("")
    lines.append("/-- `config.alias_regex`: `\\b<word>\\b` ↦ replacement, ordered by word (BTreeMap order) -/")
    al = sorted(cfg["alias"].items(), key=lambda kv: kv[0].encode("utf-8"))
    lines.append("def aliasRegexes : List (NRe × String) := [\n  " + ",\n  ".join(f"({lean_nre(chr(92) + 'b' + k + chr(92) + 'b')}, {lean_str(v)})" for k, v in al) + "]")
    lines.append("")
    lines.append("/-- `config.language_alias_regex` -/")
    ent = []
    for lang in sorted(cfg["languages"].keys()):
        la = sorted(cfg["languages"][lang].get("alias", {}).items(), key=lambda kv: kv[0].encode("utf-8"))
        ent.append(f"  ({lean_str(lang)}, [\n    " + ",\n    ".join(f"({lean_nre(chr(92) + 'b' + k + chr(92) + 'b')}, {lean_str(v)})" for k, v in la) + "])")
    lines.append("def langAliasRegexes : List (String × List (NRe × String)) := [\n" + ",\n".join(ent) + "]")
    lines.append("")
    lines.append("/-- `config.month_regex`: per language, per month number the alternation of all its spellings (long names in key\n    order, then short names in key order) -/")
    ent = []
    for lang in sorted(cfg["languages"].keys()):
        L = cfg["languages"][lang]
        names = [[] for _ in range(12)]
        for table in ("long_months", "short_months"):
            for name, num in sorted(L.get(table, {}).items(), key=lambda kv: kv[0].encode("utf-8")):
                if 1 <= num <= 12:
                    names[num - 1].append(name)
        ms = []
        for i, ns in enumerate(names):
            if not ns:
                continue
            pat = "|".join(chr(92) + "b" + n + chr(92) + "b" for n in ns)
            ms.append(f"({lean_nre(pat)}, {i + 1})")
        ent.append(f"  ({lean_str(lang)}, [\n    " + ",\n    ".join(ms) + "])")
    lines.append("def monthRegexes : List (String × List (NRe × Nat)) := [\n" + ",\n".join(ent) + "]")
    lines.append("")
    lines.append("/-- `json_data.type_group` -/")
    tg = sorted(cfg.get("type_group", {}).items(), key=lambda kv: kv[0].encode("utf-8"))
    lines.append("def typeGroups : List (String × List String) := [" + ", ".join(f"({lean_str(k)}, [{', '.join(lean_str(x) for x in v)}])" for k, v in tg) + "]")
    lines.append("")
    lines.append(f"def regexParserOrder : List String := [{', '.join(lean_str(k) for k in parser_order)}]")
    lines.append("")
    lines.append("end SC.Gen")
    return "\n".join(lines) + "\n"


def unicode_signature(repo, scimpl):
    h = hashlib.sha256()
    h.update(open(os.path.join(repo, "Cargo.lock"), "rb").read())
    try:
        h.update(subprocess.run(["rustc", "-V"], capture_output=True).stdout)
    except OSError:
        pass
    return h.hexdigest()


def gen_unicode(scimpl, sig):
    """text of SC/Gen/Unicode.lean from the harness dump"""
    import tempfile
    with tempfile.NamedTemporaryFile("w", suffix=".jsonl", delete=False) as f:
        f.write(json.dumps({"op": "unicode"}) + "\n")
        path = f.name
    try:
        p = subprocess.run([scimpl, path, "--timeout-ms", "120000"], capture_output=True)
    finally:
        os.remove(path)
    d = json.loads(p.stdout.decode("utf-8").strip().split("\n")[0])
    defs = []

    def chunked(name, typ, cells):
        """array literals are split into chunks (a literal of a thousand entries exceeds the elaborator's recursion depth)"""
        parts = []
        for ci in range(0, max(len(cells), 1), 96):
            chunk = cells[ci:ci + 96]
            rows = [", ".join(chunk[i:i + 8]) for i in range(0, len(chunk), 8)]
            parts.append(f"{name}_{ci // 96}")
            defs.append(f"def {name}_{ci // 96} : Array ({typ}) := #[\n  " + ",\n  ".join(rows) + "]\n")
        defs.append(f"def {name} : Array ({typ}) := " + " ++ ".join(parts) + "\n")

    chunked("uLetter", "Nat × Nat", [f"({a}, {b})" for a, b in d["L"]])
    chunked("uWord", "Nat × Nat", [f"({a}, {b})" for a, b in d["W"]])
    chunked("uCurrency", "Nat × Nat", [f"({a}, {b})" for a, b in d["Sc"]])
    chunked("uLower", "Nat × List Nat", [f"({a}, [{', '.join(str(x) for x in l)}])" for a, l in d["lower"]])
    chunked("uUpper", "Nat × List Nat", [f"({a}, [{', '.join(str(x) for x in l)}])" for a, l in d["upper"]])
    out = [f"/- GENERATED by tools/gen_regex.py from the harness op `unicode` (the regex crate and core case mapping the\n   implementation is built with) — do not edit.\n   signature: {sig} -/",
           "import SC.Regex", "namespace SC.Gen", "open SC", ""] + defs + [
           "def utables : UTables := ⟨uLetter, uWord, uCurrency, uLower, uUpper⟩", "", "end SC.Gen", ""]
    return "\n".join(out)
