#!/usr/bin/env python3
"""Writes /verif/MANIFEST.json from the table below (kept next to the checks so that claims and
checks change together)."""
import json
import os

ROOT = os.path.dirname(os.path.dirname(os.path.abspath(__file__)))

CLAIMS = {
    "C01": dict(
        technique="Lean 4 theorems over the session/line-loop model for every evaluator (slot structure) + differential fuzzing of the real library under catch_unwind/watchdog for panic and termination",
        text="Proof (Lean 4 kernel) that for EVERY line evaluator the model of execute/execute_session returns status true and exactly "
             "count(LF)+1 slots, slot i being line i evaluated in the variables left by lines <i (splitLines_length, splitLines_no_lf, "
             "splitLines_join, execute_total, slot_spec). The model is tied to src/session.rs + execute_session by comparing slot counts "
             "on every generated text. Panic freedom and termination of the Rust code are NOT theorems: they are decided by hostile "
             "generators (byte-level, corrupted well-formed lines, curated panic shapes, all language tags, all setters) under "
             "catch_unwind with panic-site attribution and a 5 s watchdog. 14 panic sites found this way were repaired in /repo (fix: commits).",
        note="Trusted: Lean kernel; axioms propext/Classical.choice/Quot.sound only; harness; generators bound line length (<=400) and line count (<=40).",
        ref="§7 C01"),
    "C04": dict(
        technique="Lean 4 refinement proof of the session state machine (all histories of set_text/execute_session) + differential histories long-lived vs fresh calculator with configuration fingerprint hook",
        text="Proof that for every evaluator, every session state and every sequence of texts the concrete session (set_text; "
             "execute_session)* refines the abstract history spec: one slot per line of each text, in order, variables threaded "
             "(setText_exec, history_refines, history_slot_counts), that execute() depends on (evaluator, text) only (execute_eq, "
             "sessions_isolated), and a kernel-checked witness that the pre-fix cursor behaviour violated it (old_cursor_violates; repaired "
             "in /repo by fix 6d1aef0). Partial for clause 1: absence of writes through shared Rc<TokenInfo> cells is runtime aliasing; "
             "decided by differential histories and the verif_fingerprint hook before/after every history.",
        note="Trusted: Lean kernel + 3 standard axioms; SC/Session.lean corresponds to src/session.rs (status/slot counts compared on every history); aliasing clause not a theorem.",
        ref="§7 C04"),
}

NOT_YET = {}


def main():
    ids = [f"C{i:02d}" for i in range(1, 20)]
    checks = []
    for pid in ids:
        if pid not in CLAIMS:
            continue
        c = CLAIMS[pid]
        checks.append({
            "property_id": pid,
            "quick_cmd": f"./check {pid} --tier quick",
            "thorough_cmd": f"./check {pid} --tier thorough",
            "evidence_file": f"/verif/evidence/{pid}.json",
            "replay_cmd_template": f"./check {pid} --replay {{path}}",
            "engine": "lean4-proof+correspondence",
            "level_claimed": {"category": "proof", "text": c["text"], "design_ref": c["ref"]},
            "level_note": c["note"],
            "technique": c["technique"],
        })
    na = [{"property_id": pid, "reason": NOT_YET.get(pid, "not yet claimed: the model slice, theorems and correspondence for this property are still being built (see DESIGN.md §11); no check is registered, so nothing is asserted about it")}
          for pid in ids if pid not in CLAIMS]
    manifest = {
        "version": 1,
        "setup_cmd": "./check --setup",
        "hooks": {
            "guard": "verif-hooks",
            "enable": "cargo feature: the harness crate /verif/harness depends on smartcalc with features = [\"verif-hooks\"]",
            "baseline_off_cmd": "cd /repo && cargo test --workspace --no-fail-fast --offline",
            "source_commits": ["5da8a33"],
            "add_only": True,
        },
        "engines": [{
            "name": "lean4-proof+correspondence",
            "path": "/verif/check",
            "serves_properties": [c["property_id"] for c in checks],
            "kind_free_text": "Lean 4 model SC + property theorems SCP (kernel-checked, axiom-audited) tied to /repo by a translator of "
                              "config.json and a differential correspondence harness (Rust, in-process) against the compiled model driver",
        }],
        "checks": checks,
        "not_applicable": na,
        "notes": "Every check rebuilds the harness against /repo's current working tree, regenerates the generated part of the model, "
                 "re-checks the property's theorems (lake build + #print axioms audit), then runs correspondence and spec oracle. "
                 "Known findings: /verif/KNOWN_FINDINGS.json.",
    }
    with open(os.path.join(ROOT, "MANIFEST.json"), "w") as f:
        json.dump(manifest, f, indent=1)
    print("wrote MANIFEST.json with", len(checks), "checks")


if __name__ == "__main__":
    main()
