#!/usr/bin/env python3
"""Writes /verif/MANIFEST.json from the table below (kept next to the checks so that claims and
checks change together)."""
import json
import os

ROOT = os.path.dirname(os.path.dirname(os.path.abspath(__file__)))

CLAIMS = {
    "C01": dict(
        technique="Lean 4 theorems over the session/line-loop model for every evaluator (slot structure) + differential fuzzing of the real library under catch_unwind/watchdog for panic and termination",
        text="Proof (Lean 4 kernel) that for EVERY line evaluator the model of execute/execute_session returns status true and exactly "
             "count(LF)+1 slots, slot i being line i evaluated in the variables left by lines <i (splitLines_length, splitLines_no_lf, "
             "splitLines_join, execute_total, slot_spec). The model is tied to src/session.rs + execute_session by comparing slot counts "
             "on every generated text. Termination of the two unbounded rewrite loops is a theorem on the model for EVERY input and every rule "
             "set whose patterns have >= 2 tokens: a completed find_match covers >= pattern-length live tokens (findMatch_count), replacing them by "
             "one lowers the measure (replaceRange_mu), a firing pass strictly decreases it and a non-firing pass is the identity (rulePass_mu, "
             "unitPass_mu), so beyond `live tokens` passes more fuel changes nothing (ruleLoop_stable, unitLoop_stable, model_fuel_suffices); the "
             "hypothesis is re-decided for the regenerated tables (gen_rules_ok, gen_units_ok); the parser terminates on EVERY token list: its fuel is never "
             "exhausted and every successful parse consumes a token (parseExpr_total, parseExpr_consumes; simultaneous induction over the five mutually "
             "recursive parser functions with explicit fuel requirements). Panic freedom and termination of the Rust code are NOT theorems: they are decided by hostile "
             "generators (byte-level, corrupted well-formed lines, curated panic shapes, all language tags, all setters) under "
             "catch_unwind with panic-site attribution and a 5 s watchdog. 14 panic sites found this way were repaired in /repo (fix: commits).",
        note="Trusted: Lean kernel; axioms propext/Classical.choice/Quot.sound only; harness; generators bound line length (<=400) and line count (<=40).",
        ref="§7 C01"),
    "C04": dict(
        technique="Lean 4 refinement proof of the session state machine (all histories of set_text/execute_session) + differential histories long-lived vs fresh calculator with configuration fingerprint hook",
        text="Proof over ALL histories of the five configuration setters: last write wins per group of settings, nothing else changes, the two separator setters commute (SCP.Setters: run_dec/_thou/_num/_pct/_money, run_frame, dec_thou_comm; the setters are model functions the driver's cfg operations go through, the implementation is driven through its real setters one call at a time, in either order, with evaluations in the transient configurations). Proof that for every evaluator, every session state and every sequence of texts the concrete session (set_text; "
             "execute_session)* refines the abstract history spec: one slot per line of each text, in order, variables threaded "
             "(setText_exec, history_refines, history_slot_counts), that execute() depends on (evaluator, text) only (execute_eq, "
             "sessions_isolated), and a kernel-checked witness that the pre-fix cursor behaviour violated it (old_cursor_violates; repaired "
             "in /repo by fix 6d1aef0). Partial for clause 1: absence of writes through shared Rc<TokenInfo> cells is runtime aliasing; "
             "decided by differential histories and the verif_fingerprint hook before/after every history.",
        note="Trusted: Lean kernel + 3 standard axioms; SC/Session.lean corresponds to src/session.rs (status/slot counts compared on every history); aliasing clause not a theorem.",
        ref="§7 C04"),
}

CLAIMS.update({
    "C02": dict(
        technique="Lean 4 proof of parser+interpreter correctness w.r.t. a reference evaluator over stratified expression trees (all trees, all number types) + bit-exact differential enumeration of renderings",
        text="Proof (for every number type incl. IEEE doubles, every tree of any depth): parsing the token sequence of a tree consumes it entirely and the "
             "interpreter returns the textbook value (parse_eval; explicit fuel bound 4*len+5 <= parseFuel proved sufficient), missing_token_adder leaves it "
             "unchanged unless a sign stands at its start position (post_stable; that case is `line_eval_partial`'s hypothesis and is decided by "
             "correspondence), side-by-side literals add (adjacent_add), and over Rat a sign negates / division by zero yields 0. String level: "
             "for the arithmetic sub-language every spacing of a line lexes to its pieces' tokens (SCP.Lex.lex_render, lex_spacing_irrelevant, "
             "tree_line_eval over the scanner model codeLex, which is compared token for token with the implementation's lexer on generated and hostile "
             "lines under 4 separator conventions); k..Y suffixes and the rest by enumeration: tree evaluated with doubles in tree order must "
             "equal the implementation bit-for-bit. Eight arithmetic defects found this way were repaired in /repo.",
        note="Trusted: Lean kernel + 3 standard axioms; tokenizers modelled (SC/Lexer.lean over regexes regenerated from config.json) and tied to the code token for token on every line of the run, not verified; model tied by line-level correspondence on the implementation's own lexed tokens (values, raw tokens).",
        ref="§7 C02"),
    "C05": dict(
        technique="Lean 4 theorems over exact rationals for all seven phrases (numbers and money) + pattern-level theorems against the regenerated rule patterns + differential oracle",
        text="Proof over Rat for ALL x, a, b, p: X+p%, X-p% (interpreter), p% of/on/off X in both operand orders, A is what % of B (0 when B=0), "
             "A is p% of what, each also for money keeping the currency; token level: the rule patterns REGENERATED from config.json match the "
             "phrases' token sequences and bind the fields the rule functions read (phrase_* theorems re-checked by the kernel on every run). "
             "Implementation compared with the exact formula (rel 1e-9) and bit-for-bit with the Float model.",
        note="Trusted: Lean kernel + 3 axioms; floating-point rounding modelled not verified; tokenizers modelled (SC/Lexer.lean over regexes regenerated from config.json) and tied to the code token for token on every line of the run, not verified.",
        ref="§7 C05"),
    "C06": dict(
        technique="Lean 4 theorems over exact rationals (conversion, money arithmetic), history theorem for update_currency over all update sequences, kernel-decided data obligations on the regenerated rate/alias tables + exhaustive pair enumeration",
        text="Proof over Rat: convert a A->B = a*(rate B/rate A), identity for A=B, +/- convert the right operand, * and / by numbers keep the currency, "
             "money/money is the ratio in the left currency; rate_frame: after ANY history of update_currency calls the rate of each currency is the "
             "last value written for it (by any name denoting it) else the configured one, false return iff unknown name and then no change; data "
             "obligations by `decide` over the tables regenerated from config.json (every rate names a currency, aliases resolve, no zero rate). "
             "Implementation: all 1024 ordered pairs exhaustively + spellings + arithmetic + update histories against the exact table.",
        note="Trusted: Lean kernel + 3 axioms; translator (cross-checks serde_json's reading of each rate); tokenizers modelled (SC/Lexer.lean over regexes regenerated from config.json) and tied to the code token for token on every line of the run, not verified.",
        ref="§7 C06"),
    "C03": dict(
        technique="Lean 4 theorems about the session map, the interpreter's assignment/use semantics, the frame of failing lines and the leftmost-then-longest name substitution + differential programs against an environment simulated outside the implementation",
        text="Proof (every number type): the session map is a finite map where the latest binding wins (get_insert); `name = e` stores the COMPUTED "
             "value and changes no other binding (assign_stores, assign_frame, exec_frame), hence a binding is a value not a reference "
             "(value_not_reference), `a = a + k` reads the old value (self_reference), a use denotes what the map holds now (use_sees_latest); a "
             "line that fails at parse or evaluation time leaves every existing binding unchanged (failed_line_frame, parseLine_frame); "
             "find_location returns exactly the LEFTMOST full match (findLocation_some_iff) and each substitution round picks the closest, then "
             "longest name (pickBest_spec). The whole-pipeline refinement to the abstract environment is decided on generated programs: Python "
             "environment simulation (doubles in tree order, bit-exact) + standalone values for non-number kinds. Two substitution/key defects "
             "found were repaired in /repo.",
        note="Trusted: Lean kernel + 3 axioms; tokenizers modelled (SC/Lexer.lean over regexes regenerated from config.json) and tied to the code token for token on every line of the run, not verified; end-to-end refinement (abs session = Env) is checked on generated programs, not proved.",
        ref="§7 C03"),
    "C07": dict(
        technique="Lean 4 proofs about the digit-string pipeline of format_number (correct rounding half-even of the exact value, digits read back, grouping shape, fraction rule) + exact-decimal oracle over the configuration space",
        text="Proof: fixedParts (the model of `{:.N}`) returns the digits of the half-even rounding of the exact value (roundQuot_nearest, "
             "roundQuot_tie_even, fixedParts_value), digits read back to the number (radixValue_radixDigits), grouping cuts the integer digits "
             "into groups of three from the right joined by exactly the separator and is undone by removing it (group_shape, group_ungroup, "
             "groupsFromRight_flatten), and format_number = sign ++ grouped integer ++ (decimal separator ++ fraction unless empty or removal "
             "enabled and all printed digits zero) for every number type (format_shape). The implementation is compared on rounding ties +-ulp, "
             "99..9.995, tiny, 10^k+-1, negatives x digits 0..9 x flags x separator pairs x number/percent/money (all currencies)/unit against "
             "Python's exact Decimal expansion. format_number was repaired in /repo (one digit string).",
        note="Trusted: Lean kernel + 3 axioms; Rust's {:.N}/Display assumed correctly rounded/shortest (soft-float model validated bit-for-bit every run).",
        ref="§7 C07"),
    "C08": dict(
        technique="Lean 4 proofs that writing with any admissible separator pair and reading back yields the same decimal string / number, that the interpreter ignores separators outside unit conversion + metamorphic differential runs under separator pairs",
        text="Proof: str::replace with a one-character pattern is character substitution (strReplace_single); for every pair of distinct non-digit "
             "separators (and for the empty thousands separator) grouped-integer ++ dec ++ fraction reads back to `ip.fp` (read_write, "
             "read_write_no_thousands), so two conventions denote the same number (read_same_number, any number type); calcItem does not depend "
             "on the separator fields when no unit conversion is involved (calc_ignores_separators). Unit conversion re-renders intermediate values "
             "in the configured convention and reads them back: SCP.C08Code proves, by induction over the tokenizer of conversion texts, that the text "
             "rewritten for decimal ',' lexes under (',' '.') and (',' '') to the tokens the original lexes to under ('.' ',') and ('.' '') "
             "(codeLex_comma), hence one conversion step (executeCode_sep) and the whole walk over a family (calculateUnit_sep) give the same amount "
             "under the four conventions, for every code and amount whose text has no ',' and every '.' inside a number (hypothesis codeTextOK, "
             "evaluated by the model on all configured codes x the amounts of the run, since f64::to_string is not modelled symbolically). "
             "Other separator strings: metamorphic run (every unit pair, fractional values, bit-exact equality). The separator leak found was repaired in /repo.",
        note="Trusted: Lean kernel + 3 axioms; the lexer model is tied per line, not verified; codeTextOK is evaluated, not proved, for doubles.",
        ref="§7 C08"),
    "C10": dict(
        technique="Lean 4 integer proofs (unit lengths, additivity, greedy decomposition for ALL durations, flooring) + kernel-decided data obligations + parse-back oracle on printed durations",
        text="Proof over integers, no bound on counts: N unit = N*len for second/minute/hour/week/year (parse_len), days identity (parse_days), months "
             "= 365*(N/12)+30*(N%12) days (parse_months, twelve_months_one_year), + and - (add_durations, sub_durations), juxtaposed durations sum "
             "(combine_2/3 + regenerated patterns match 2..6 durations), greedy printing for EVERY duration: parts sum to the magnitude, counts >= 1, "
             "units strictly descending, each part maximal (greedy_sum, greedy_counts_pos, greedy_descending, greedy_leading, greedy_zero), 'as' floors "
             "(as_floor); data: every configured pattern has >= 2 tokens. Implementation output is parsed back into (count, word) parts and compared "
             "with the integer spec incl. singular/plural.",
        note="Trusted: Lean kernel + 3 axioms; tokenizers modelled (SC/Lexer.lean over regexes regenerated from config.json) and tied to the code token for token on every line of the run, not verified; plural word choice checked by the oracle, not a theorem.",
        ref="§7 C10"),
    "C11": dict(
        technique="Lean 4 integer proofs modulo 86400 over all instants/offsets/durations + data obligation on the regenerated zone table + differential oracle over zone pairs (thorough: all ordered pairs)",
        text="Proof: `H:MM Z` is re-anchored in Z independent of the default zone (with_zone, with_zone_shows_wall), conversion keeps the instant and the "
             "shown time is wall - off1 + off2 mod 24h (convert_keeps_instant, convert_shown), +/- duration moves the shown clock mod 24h "
             "(add_duration, sub_duration), T1 to T2 is the symmetric absolute difference (to_abs, to_symmetric), printing shows `shown` "
             "(print_fields); data: all configured offsets within +-14h (zone_offsets_in_range, re-decided after regeneration). A zone-table key "
             "defect (ChST) found by the pair enumeration was repaired in /repo.",
        note="Trusted: Lean kernel + 3 axioms; time / zone tokenizers modelled (SC/Lexer.lean over regexes regenerated from config.json) and tied to the code token for token on every line of the run, not verified; set_timezone exercised; process TZ=UTC.",
        ref="§7 C11"),
    "C13": dict(
        technique="Lean 4 proof of the digit round trip for every natural number and base 2..16, rounding lemma, base-keeping arithmetic + differential round trips up to 2^70 / 1e25",
        text="Proof: reading the printed digits gives the number back for EVERY n and base (print_read via radixValue_radixDigits), printed form = prefix "
             "+ >=1 upper-case digit (printBased_nat, basedDigits_ne_nil), both letter cases read (digitOf_lower), `N to base` rounds half away from "
             "zero (convert_rounds, round_half_away), arithmetic keeps the left base (arithmetic_keeps_base). Implementation: 2^k-1/2^k/2^k+1 up to "
             "2^70, 64-bit random, 10^e up to 1e25, fractions around .5, 4x4 bases, printed literal fed back. Three defects repaired in /repo "
             "(32-bit saturation, overflow panic, hex-vs-currency ambiguity).",
        note="Trusted: Lean kernel + 3 axioms; values are doubles (integers above 2^53 are the nearest double); radix tokenizers modelled (SC/Lexer.lean over regexes regenerated from config.json) and tied to the code token for token on every line of the run, not verified.",
        ref="§7 C13"),
})

CLAIMS.update({
    "C12": dict(
        technique="Lean 4 proof that the index-chain walk of calculate_unit multiplies by a quotient of weights (linear, invertible, transitive) for every multiplying code executor, bridge and cross-kind theorems, kernel-decided data obligations equating the regenerated tables with the standard unit definitions + exhaustive pair enumeration against exact rationals",
        text="Proof over Rat, for every family whose indices are contiguous and whose neighbouring codes are mutually inverse and every code executor that "
             "multiplies by the factor its code denotes: converting from position p to q returns amount * weight p / weight q (calc_factor via "
             "calculateUnit_weights, induction over the walk in both directions), factors are invertible and transitive (factor_inverse, factor_trans), A to B "
             "and back is the identity (round_trip), A to B to C = A to C (via_third); convert inside a family and through a bridge in both directions "
             "(convert_in_family, convert_across_bridge, convert_across_bridge_rev); a target name outside the own and the bridged family yields nothing "
             "(cross_kind_none). Data obligations re-decided by the kernel on the tables regenerated from config.json: every family is such a chain "
             "(gen_chains), its weights ARE the standard definitions (gen_weights_*: 12 in = 1 ft, 3 ft = 1 yd, 1760 yd = 1 mile, 16 oz = 1 lb, 14 lb = 1 stone, "
             "decimal prefixes, 8 bit = 1 byte, 1024 multiples), bridges are 1 in = 25.4 mm and 1 oz = 28349.5231 mg with inverse codes (gen_bridges), "
             "names of different kinds never resolve (gen_kinds_separate). + - convert the right operand, * / by numbers keep the unit, quantity / "
             "quantity is a number (add_converts_right, scale_keeps_unit, ratio_is_number). That execute_code (text substitution, tokenizer, parser, "
             "interpreter) multiplies by the code's factor — the hypothesis ExecIsMult of these theorems — is itself a theorem on the model since SCP.C12Exec: "
             "executeCode_mul/_div/_id for every number type and convention (codeLex_mono, strReplace_prefix, SCP.Lex.lex_render, SCP.C02.parse_eval), "
             "gen_codes_ok (kernel-decided: every configured code is '{value}', '{value} * K' or '{value} / K' and the translator's factor equals the model "
             "reader's value of K) and gen_codes_multiply (executeCode code v = v * mult code). Partial in one hypothesis: the amount's printed text "
             "(f64::to_string) reads back as the amount; it is evaluated by the driver on every amount and result of the conversion cases, and the doubles are "
             "compared bit-for-bit by correspondence and against exact rationals on all 33x33 pairs. Three defects (two wrong factors, cross-kind conversion) were repaired in /repo.",
        note="Trusted: Lean kernel + 3 axioms; f64::to_string / str::parse round trip of finite doubles (Rust core); doubles compared rel 1e-9. The translator's reading of code texts is no longer trusted (gen_codes_ok).",
        ref="§7 C12"),
})

CLAIMS.update({
    "C09": dict(
        technique="Lean 4 proof of the calendar bijection (day number <-> valid civil date, no bound on the year) and, on top of it, theorems about the small_date rule, DateItem::calculate split into its three steps, to_duration and the date constants; kernel-decided witnesses for the pinned defects + differential oracle against Python's datetime",
        text="Proof: the model calendar is a bijection (dayNumber_civilFromDays, civilFromDays_dayNumber, civilFromDays_valid, order preserving); small_date "
             "returns a date exactly for valid in-range triples with month by number or name and the current year as default, and whatever the fields "
             "are never an invalid date (fromYmd_some_iff, smallDate_*, never_invalid); the regenerated date patterns of en and tr match the spellings' "
             "token sequences (phrase_*); date +- k days for k < 30 is the date whose day number is k away (add_days_partial, sub_days_partial, "
             "addDays_dayNumber); + n months keeps the day and moves the month index 12*year+month by n (add_months, month_index_add, "
             "add_months_general for every N = 12a+b), +- n years (add_years, sub_years), - n months when n < month (sub_months_partial); A to B = "
             "|dayNumber A - dayNumber B| days, symmetric (to_abs_days, to_symmetric); tomorrow / yesterday are today's neighbours for every clock "
             "(today_consecutive). PARTIAL where the code violates the property: >= 30 days / >= 5 weeks are re-read as 30-day months (days_30_witness, "
             "finding C09-G1), month subtraction across January does not borrow a year (sub_months_borrow_witness, C09-G2), an intermediate 29 Feb "
             "(C09-G3) - the first two are pinned by the repository's tests execute_21..23, 26 and stay open known findings; the check recognises them "
             "only when the implementation returns exactly what the defect predicts.",
        note="Trusted: Lean kernel + 3 axioms; chrono's NaiveDate = proleptic Gregorian calendar (model validated on every generated date); tokenizers modelled (SC/Lexer.lean over regexes regenerated from config.json) and tied to the code token for token on every line of the run, not verified; one defect repaired in /repo (Turkish month spellings).",
        ref="§7 C09"),
})

CLAIMS.update({
    "C14": dict(
        technique="Lean 4 theorems about from_unixtime / to_unixtime / at_date on top of the proved calendar bijection (mutual inverses for every timestamp in range, shown fields denote instant + offset, printed integer reads back) + pattern-level theorems on the regenerated rules + differential oracle against Python's datetime over default and explicit zones",
        text="Proof: `N to date` / `N to ZONE` is the instant N tagged with the configured / requested zone and is rejected outside chrono's range "
             "(from_unix, from_unix_zone, from_unix_out_of_range); `<date> as unix` = 86400 * day number = midnight UTC, time and date-time give the "
             "seconds of their instant (date_as_unix, time_as_unix, dateTime_as_unix); the two conversions are mutually inverse for EVERY timestamp "
             "in range and every zone (unix_round_trip, dateTime_round_trip); the civil date and hour/minute/second shown for an instant in a zone are "
             "in range and denote exactly instant + 60*offset (shown_fields, from the calendar bijection); the printed timestamp reads back to the "
             "same integer, every digit (raw_print_all_digits, for every integer); `<date> at <time|hour>` (at_date_time, at_date_hour); the "
             "regenerated patterns match the phrases (phrase_*). The implementation is compared with Python's datetime: instants, zones, every "
             "printed field, digits, round trips through variables, under 6+ default zones. One defect repaired in /repo (rule order: `<date> at "
             "<time> as unix` on one line); the 32-bit saturation of printed timestamps was repaired under C13.",
        note="Trusted: Lean kernel + 3 axioms; chrono from_timestamp_opt / timestamp modelled by the calendar model (validated on every generated instant); number/zone lexing and set_timezone exercised; how at_date anchors a time under a non-UTC default zone is outside this property.",
        ref="§7 C14"),
})

CLAIMS.update({
    "C17": dict(
        technique="Lean 4 invariant proof over every operation sequence of the UiTokenCollection model (add_from_byte_range, sort, update_tokens) + proof that the byte->character map sends character boundaries to character indices; tied to the code by replaying the implementation's own operation log (feature-gated hook) on the model; well-formedness oracle on multi-byte lines",
        text="Proof: for ANY byte spans and any sequence `adds ; sort ; updates` on the collection of a line (what the tokenizer does), the final tokens satisfy "
             "0 <= start < end <= number of characters, are ordered by start and never overlap (pipeline_ordered, from add_wf, sort_wf, sort_ordered, "
             "update_inv; step_wf for arbitrary interleavings); positions are character positions: the byte offset of the k-th character maps to k and "
             "the end of the line to the number of characters (pos_boundary, nchars_new, pos_le_nchars); kernel-checked witness that the former "
             "collision test accepted nested spans (old_collision_witness). Tie: every collection's operation log emitted by the implementation "
             "(hook verif_ui) is replayed on the model; final tokens and every byte->character translation must agree. 'Numbers, operators and comments "
             "have their own kind over exactly their characters' is decided by enumeration of structured lines with multi-byte words (string level, "
             "regexes modelled and tied, not verified). Three defects repaired in /repo (byte/char mixing, case-mapped copies, month name inside a comment).",
        note="Trusted: Lean kernel + 3 axioms; the hook log is complete (all mutations of the collection go through the four logged operations); which spans the tokenizers request is given by the lexer model, whose requests are compared with the implementation's operation log.",
        ref="§7 C17"),
})

CLAIMS.update({
    "C16": dict(
        technique="Lean 4 simulation proof that pattern matching, currency lookup, variable lookup and keys are invariant under token offsets and the letter case of word tokens (relation Sim, induction over find_match's scan) + metamorphic enumeration over the lines of all other generators",
        text="Proof (every number type): two token lists that agree up to offsets, original text and the letter case of word tokens (relation Sim - what extra "
             "blanks, a dropped comment and re-cased keywords do to the lexed tokens) are indistinguishable for the rewrite layers' comparisons: "
             "tokFieldCompare_case, tokEq_case, infoEq_case; find_match returns the same verdict and indices and binds Sim-related fields "
             "(findMatch_case by induction over the scan with arbitrary accumulators; findMatch_offsets for pure shifts); replacing the matched "
             "range keeps the lines related (replaceRange_tokens); currency names, variable-name search and the session key of a name are "
             "case-insensitive (readCurrency_case, infoEqTok_case, matchesAt_case, findLocation_case, varKey_case); a type-less token inside a "
             "line neither matches nor resets a pattern (untyped_skipped); for the arithmetic sub-language extra blanks provably do not change the lexed tokens "
             "(SCP.Lex.lex_spacing_irrelevant). That the regexes produce Sim-related tokens for a line and its noisy "
             "variant (month / zone lookup on case-mapped copies, comment and blank recognition) is string level and decided by the metamorphic "
             "run: blanks x comments from a hostile pool x four case patterns of every keyword class x all value kinds, values compared exactly; "
             "blank / comment-only lines give an empty slot. One defect repaired in /repo (month name inside a comment).",
        note="Trusted: Lean kernel + 3 axioms; tokenizers modelled (SC/Lexer.lean over regexes regenerated from config.json) and tied to the code token for token on every line of the run, not verified; case of unit / duration / day words and base names is not demanded and left unchanged by the generator.",
        ref="§7 C16"),
})

CLAIMS.update({
    "C18": dict(
        technique="Lean 4 refinement proof over all histories of add_rule / delete_rule (rule list of every language = original ++ survivors = what a fresh calculator gets from the survivors alone), return-value and no-op theorems for all four mutators, decline / effect theorems on the rewrite pass, registration from the pattern texts through the lexer model + histories replayed from their texts on implementation, model and a fresh implementation",
        text="Proof (every number type): add_rule fails iff the language is unknown, delete_rule iff the language or an API rule of that name is missing, and "
             "a failing call changes nothing (addRule_false_iff/_noop, deleteRule_false_iff/_noop); after ANY history the rule list of every language is "
             "the original one transformed by exactly the calls addressed to it and nothing else of the configuration changes (run_rules, run_frame, via "
             "lang_setLang / step_rules); with only internal rules to start from that list is original ++ survivors, a deletion removing the FIRST rule "
             "of the name, and registering just the survivors in order yields the same list (applyOps_base, history_eq_survivors) - the calculator is "
             "the one a fresh instance would be; a declining rule leaves the token list as if absent (tryPats_decline, decline_noop); a matching "
             "pattern whose rule returns a token replaces exactly the matched range, fields bound by name (api_effect, echo_binds_by_name, "
             "const_returns); duplicate family names / item indices / unknown families are rejected without change (addDynamicType*_false_iff/_noop); "
             "user families convert by the chain theorem of C12 (user_family_converts). Implementation: histories of 5-60 calls with checkpoints compared "
             "against the specification's return values, against a FRESH calculator replaying only the survivors, against exact chain factors, and "
             "replayed op by op on the Lean model FROM THE TEXTS: the model tokenises the patterns itself - rules in their own language, unit items in en "
             "(SC.Api; addRuleText_known_language / _unknown_language / _false_noop / _other_languages, addDynamicTypeItemText_*) - and lexes every line. "
             "set_date_rule, which rebuilds the small_date rule inside the same rule list, is modelled (SC.setDateRule) and interleaved in the histories: it keeps the "
             "registered rules of every language, in order, commutes with registrations and is idempotent (SCP.C18Date.setDateRule_api / _named / _add_comm / _idem / _frame). "
             "Two panics repaired earlier in /repo (index 0, "
             "pattern without value field).",
        note="Trusted: Lean kernel + 3 axioms; rule behaviours limited to six canned RuleTrait implementations shared by harness and model; pattern and line lexing is the model's (regexes regenerated from config.json).",
        ref="§7 C18"),
})

CLAIMS.update({
    "C19": dict(
        technique="Lean 4 congruence proof that the language tag acts only through the rule list and the keyword table (two tags with equal tables evaluate every line identically; parser and interpreter have no language parameter) + kernel-decided completeness obligations on the per-language tables regenerated from config.json + word-by-word translation parity check",
        text="Proof (every number type): the language reaches the layers behind the lexer only through its rule list and keyword->constant table: equal "
             "tables give identical evaluation of EVERY token list (applyRule_lang, rulePass_lang, ruleLoop_lang, evalInfos_lang); parser and "
             "interpreter take no language, so lines the rewrite layers leave alone evaluate identically (wordless_same); a duration keyword acts only "
             "through its constant, so words of two languages mapping to one constant denote one duration (parse_kind). Data obligations re-decided "
             "by the kernel after regeneration: every language has a word for every constant (constants_complete), every duration-group word is a "
             "duration keyword (duration_words_known), alias words for + - * exist and operator aliases are operator atoms (operator_words), 12 months "
             "with printing names and every spelling mapping into 1..12 (months_complete), date and duration formats complete (formats_complete), each "
             "language's rule functions are en's (rules_subset). Parity itself is decided on the implementation: word-by-word translations en->tr of "
             "operator-word arithmetic, durations, dates (every month spelling), date arithmetic and day keywords give identical values; tr output "
             "uses only tr month names / unit words; word-free lines give identical values and outputs. One defect repaired in /repo (month spellings).",
        note="Trusted: Lean kernel + 3 axioms; alias / keyword / month tokenizers modelled (SC/Lexer.lean over regexes regenerated from config.json) and tied to the code token for token on every line of the run, not verified; features a language configures no words for are not demanded.",
        ref="§7 C19"),
})

CLAIMS.update({
    "C15": dict(
        technique="Lean 4 fixpoint theorems per kind assembled from the formatter / reader theorems (digit string idempotence, separators read back, duration parts read back, based digits) + kernel-decided word obligations on the regenerated tables + print-then-enter enumeration over kinds x configurations x languages",
        text="Proof: printing is a fixpoint at the digit level - the digits printed for any value at n decimals denote q/10^n and printing THAT value again "
             "gives the same digits (fixed_idempotent), the printed text reads back to those digits under the separators it was printed with "
             "(printed_reads_back via C08.read_write, shape by C07.format_shape) - this covers numbers, percentages, money and unit amounts; every "
             "printed duration part reads back to its printed length unless it is `12 months` (readPart_eq, with C10.greedy_sum the parts sum to the "
             "duration), kernel-checked witness that 364 days print as `12 months 4 days` and read as 369 days (months12_witness, finding C15-J1); "
             "based integers by C13.print_read; data: every unit is printed with a word its literals are read with, compared lower-cased as the reader "
             "does, and printing month names are configured spellings (unit_words_readable, print_months_are_spellings). That every printed FORM lexes "
             "to one token of its kind is string level: decided by entering the printed form of generated values of all eight kinds under 6-40 "
             "separator / digit configurations in en and tr. PARTIAL: two open findings (C15-J1 12 months, C15-J2 SEK prints `kr` which reads as DKK - "
             "a conflict inside config.json); one defect repaired in /repo (sign of a value that rounds to zero).",
        note="Trusted: Lean kernel + 3 axioms; tokenizers modelled (SC/Lexer.lean over regexes regenerated from config.json) and tied to the code token for token on every line of the run, not verified; date-times are not among the property's kinds; readable currencies = those config.json gives the reader an alias or symbol for.",
        ref="§7 C15"),
})

NOT_YET = {}


def main():
    ids = [f"C{i:02d}" for i in range(1, 20)]
    checks = []
    for pid in ids:
        if pid not in CLAIMS:
            continue
        c = CLAIMS[pid]
        checks.append({
            "property_id": pid,
            "quick_cmd": f"./check {pid} --tier quick",
            "thorough_cmd": f"./check {pid} --tier thorough",
            "evidence_file": f"/verif/evidence/{pid}.json",
            "replay_cmd_template": f"./check {pid} --replay {{path}}",
            "engine": "lean4-proof+correspondence",
            "level_claimed": {"category": "proof", "text": c["text"], "design_ref": c["ref"]},
            "level_note": c["note"],
            "technique": c["technique"],
        })
    na = [{"property_id": pid, "reason": NOT_YET.get(pid, "not yet claimed: the model slice, theorems and correspondence for this property are still being built (see DESIGN.md §11); no check is registered, so nothing is asserted about it")}
          for pid in ids if pid not in CLAIMS]
    manifest = {
        "version": 1,
        "setup_cmd": "./check --setup",
        "hooks": {
            "guard": "verif-hooks",
            "enable": "cargo feature: the harness crate /verif/harness depends on smartcalc with features = [\"verif-hooks\"]",
            "baseline_off_cmd": "cd /repo && cargo test --workspace --no-fail-fast --offline",
            "source_commits": ["5da8a33", "fca7671"],
            "add_only": True,
        },
        "engines": [{
            "name": "lean4-proof+correspondence",
            "path": "/verif/check",
            "serves_properties": [c["property_id"] for c in checks],
            "kind_free_text": "Lean 4 model SC + property theorems SCP (kernel-checked, axiom-audited) tied to /repo by a translator of "
                              "config.json and a differential correspondence harness (Rust, in-process) against the compiled model driver",
        }],
        "checks": checks,
        "not_applicable": na,
        "notes": "Every check rebuilds the harness against /repo's current working tree, regenerates the generated part of the model, "
                 "re-checks the property's theorems (lake build + #print axioms audit), then runs correspondence and spec oracle. "
                 "Known findings: /verif/KNOWN_FINDINGS.json.",
    }
    with open(os.path.join(ROOT, "MANIFEST.json"), "w") as f:
        json.dump(manifest, f, indent=1)
    print("wrote MANIFEST.json with", len(checks), "checks")


if __name__ == "__main__":
    main()
