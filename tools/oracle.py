"""helpers for spec oracles on the implementation"""
import struct
from fractions import Fraction


def f64(bits_hex):
    return struct.unpack(">d", bytes.fromhex(bits_hex))[0]


def close(impl, spec, scale=1.0, rel=1e-9):
    """impl: float; spec: Fraction/float exact value; tolerance relative to the magnitudes involved"""
    s = float(spec)
    if impl != impl:
        return False
    tol = rel * max(1.0, abs(s), abs(scale))
    return abs(impl - s) <= tol


def dec(fr_or_str, sep=","):
    """render a decimal string 'ddd.ddd' (python notation) in the configured convention"""
    return str(fr_or_str).replace(".", sep)


def frac(s):
    return Fraction(s)


def numclass(rng):
    """a decimal literal (as python-notation string) from the value classes of the formula checks"""
    k = rng.random()
    if k < 0.08:
        return "0"
    if k < 0.35:
        return str(rng.randint(1, 200))
    if k < 0.5:
        return str(rng.randint(1000, 10**9))
    if k < 0.8:
        d = rng.randint(1, 6)
        return f"{rng.randint(0, 9999)}.{rng.randint(0, 10**d - 1):0{d}d}"
    if k < 0.9:
        return f"0.{rng.randint(1, 999999):06d}"
    return str(rng.choice([1, 3, 7, 33, 99, 100, 101, 1e3, 12345678.9, 0.1, 0.3, 0.7, 2.675, 1.005]))


def signed(rng, s, p=0.25):
    if s != "0" and rng.random() < p:
        return "-" + s
    return s
