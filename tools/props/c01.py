"""C01 — evaluation is total: no panic, no hang, one result slot per input line."""
import re
from tools import common as C, wire
from tools.gen import lines as L

LEAN_MODULES = ["SCP.C01", "SCP.C04", "SCP.Termination", "SCP.ParserTotal", "SCP.LexerInv", "SCP.RegexFuel", "SCP.RegexBounds"]
THEOREMS = ["SCP.RegexBounds.find_in_bounds", "SCP.RegexBounds.all_in_bounds", "SCP.RegexBounds.cap_in_bounds", "SCP.RegexBounds.find_from", "SCP.RegexBounds.all_chain", "SCP.RegexFuel.addThreads_stable", "SCP.RegexFuel.addThreads_model_fuel", "SCP.LexerInv.cleanupInfos_spec", "SCP.LexerInv.aliasPass_spec", "SCP.LexerInv.lexText_sorted_typed", "SCP.C01.splitLines_length", "SCP.C01.splitLines_no_lf", "SCP.C01.splitLines_join",
            "SCP.C01.execute_total", "SCP.C01.runLines_append", "SCP.C01.slot_spec",
            "SCP.C04.runLines_length", "SCP.C04.execute_eq",
            "SCP.Lemmas.Termination.findMatch_count", "SCP.Lemmas.Termination.replaceRange_mu",
            "SCP.Termination.rulePass_mu", "SCP.Termination.ruleLoop_stable", "SCP.Termination.ruleLoop_model_fuel",
            "SCP.Termination.unitPass_mu", "SCP.Termination.unitLoop_stable", "SCP.Termination.model_fuel_suffices",
            "SCP.Termination.gen_rules_ok", "SCP.Termination.gen_units_ok",
            "SCP.ParserTotal.parseExpr_total", "SCP.ParserTotal.parseExpr_consumes"]
RULE = ("texts from six streams (characters whose case mapping changes their byte length around month and zone names, en and tr; clock literals in the extreme zones under default zones at the other extreme; random characters over a hostile alphabet incl. multi-byte, atoms, braces, long digit "
        "runs; well-formed lines of all kinds with one random corruption; a curated list of panic-prone shapes; "
        "multi-line texts with LF/CRLF/mixed/trailing separators) x language tags en, tr, unknown, empty x "
        "configurations from all public setters; non-trivial = the text contains at least one token-forming "
        "character other than blanks; distinct = distinct (config, language, text)")
ASSUMPTIONS = ["line length <= 400 and <= 40 lines per text (stack depth and allocation are not modelled)",
               "a hang is an evaluation exceeding the 5 s watchdog",
               "panic freedom of the Rust code is decided by the generators + catch_unwind, not by a theorem; the "
               "theorems cover the slot structure for every evaluator and the termination of the two rewrite loops of the MODEL "
               "(rule and unit-literal passes strictly decrease the number of live tokens when every pattern has >= 2 tokens, "
               "which is re-decided on the regenerated tables) and of the MODEL parser on every token list (parseExpr_total: its fuel is "
               "never exhausted); the regex scans and the variable-substitution loop are watched by the timeout only"]
TRUSTED = ["SC/Session.lean corresponds to src/session.rs + execute_session (slot counts compared on every generated text)"]

ALPHA = list("0123456789") * 3 + list("abcdefxyzkMGTPZYob") + list(" " * 8) + list("+-*/()=%#.,:;[]{}_!?'&^|<>\"\\~`@") + \
    list("\t\r") + ["$", "€", "₺", "£", "¥", "лв", "ğ", "ü", "ş", "İ", "ı", "ß", "ŉ", "ǰ", "ΐ", "ﬁ", "中", "😀", "́", "‏", "−", "Σ", "ς"]
WORDS = ["to", "of", "on", "off", "as", "in", "at", "is", "what", "date", "unix", "hex", "binary", "octal", "decimal",
         "today", "tomorrow", "yesterday", "now", "jan", "february", "may", "dec", "days", "day", "weeks", "months", "month", "year",
         "years", "hours", "minutes", "seconds", "usd", "eur", "try", "kr", "EST", "CET", "GMT+3", "GMT-12:30", "km", "m", "kg", "byte",
         "times", "minus", "am", "pm", "PM", "{NUMBER:x}", "{TEXT:a:b}", "{GROUP:g:duration_group}", "{FOO:x}", "[NUMBER:1]",
         "[NUMBER:abc]", "[TIME:999999]", "[TIME:x]", "[MONEY:1]", "[MONEY:1;usd]", "[MONEY:x;USD]", "[PERCENT:x]", "[PERCENT:5]",
         "[OPERATOR:+]", "[FOO:1]", "0x", "0xFF", "0b101", "0o7", "0x" + "F" * 16, "0x8000000000000000", "0b" + "1" * 64,
         "0o" + "7" * 22, "1,2,3%", "1.2.3%", "%1.2.3", "99999999999999", "9999999999999999999", "99999999999999999999",
         "1e400", "24", "25:00", "12:60", "23:59:59", "0:00", "31", "32", "29", "30", "2021", "0", "00", "-1", "1/1/1", "31/12/9999", "1/13/2020", "0/0/0"]

CURATED = [
    "0x8000000000000000", "0x" + "f" * 17, "0b" + "1" * 65, "0o" + "7" * 30, "[NUMBER:abc]", "[TIME:999999]", "[TIME:86400]", "[MONEY:1]",
    "[MONEY:x;usd]", "[PERCENT:x]", "[OPERATOR:]", "1,2,3%", "1.2.3%", "%1,2,3", "1 jan 2020 at 24", "1 jan 2000 at 10:30 as unix",
    "1 jan 2020 at 99", "1 jan 2020 at -1", "99999999999999 days", "9999999999999999999 years", "99999999999 weeks", "999999999999999999 hours",
    "99999999999999999 months", "1 feb 2021 + 10 months", "31 jan 2021 + 1 month", "29 feb 2020 + 1 year", "1 jan 2021 - 1 month",
    "31 mar 2021 - 1 month", "1 dec 2021 + 12 months", "31 dec 9999 + 1 year", "1 jan 1 - 1 year", "1 jan 1 - 400 years",
    "99999999999999999999 to date", "-99999999999999999999 to date", "1e30 to date", "1664582400 to date + 9999999999 days",
    "1 jan 2020 + 99999999 days", "1 jan 2020 - 99999999 days", "today + 99999999999 days", "11:30 + 9999999999999 hours",
    "10 days + 99999999999999 days", "99999999999999 days - 10 days", "99999999999999999 seconds as weeks",
    "1 one to zero", "10 km to", "to km", "1 km to kg", "$", "€ 5", "5 %", "% 5", "%", "=", "= 5", "x =", "x = =", "= = =", "x = y = 5",
    "()", "(", ")", "(()", "1 + (", "1 + )", "(1 + 2", "1 + 2)", "((((((((((1))))))))))", "-", "+", "- -", "1 - - - 1", "* 5", "/ 0", "1 / 0",
    "1 % 0", "5 % 3", "1 2 3", "1 + + 2", "2 ** 3", "#", "# #", " ", "\t", "{", "}", "{}", "{:}", "{NUMBER}", "{NUMBER:}", "[", "]", "[]", "[:]",
    "today at 25", "today at 23", "today - 1 day as unix", "now", "now + 1 hour", "12:00 am", "12 pm", "0 am", "13 pm", "11:30 EST to", "11:30 to CET",
    "10 usd to xyz", "10 xyz to usd", "10 usd + 5 eur * 2", "10% + 5%", "10% * 5", "5 * 10%", "10 usd / 0", "10 usd / 0 usd",
    "1 day * 2", "2 * 1 day", "1 day + 1", "1 + 1 day", "11:30 * 2", "1 jan 2020 * 2", "1 jan 2020 + 1 jan 2020", "1 jan 2020 to 1 feb 2020",
    "1 jan 2020 to 11:30", "1M + 1k", "1Y * 1Y", "9" * 400, "1" + ",0" * 150, "0" * 300 + "1", "0." + "0" * 350 + "1", "(" * 200 + "1" + ")" * 200,
    "1" + " + 1" * 130, "a " * 150 + "= 1", "İ 11:30 EST", "ŉ 11:30 EST", "ğüş 12 + 5", "ǰ jan 2020", "ΐ 5 usd", "ﬁ 5 km to m", "1 şubat 2020",
    "12 subat 2020", "5 gün", "today", "tomorrow - yesterday", "yesterday to tomorrow", "100 to hex + 0x10", "0x10 to binary to octal",
    "2147483648 to hex", "-5 to hex", "1.5 to binary", "1 jan 2040 as unix", "1 jan 1960 as unix", "0 to date", "-1 to date", "1 to date to EST",
    "5 km * 2 km", "5 km / 2 km", "5 km + 3", "3 + 5 km", "5 km + 10%", "1 byte to bit", "1 yb to bit", "1 bit to yb", "1 tonne to mg", "1 stone to oz",
    "1 mile to mm", "1 mm to mile", "1 oz to tonne", "5 seconds to 10 seconds", "1 week as months", "1 year as years", "11:30 as days", "11:30 as years",
]


def rand_text(rng):
    k = rng.random()
    if k < 0.30:
        n = rng.randint(1, 30)
        return "".join(rng.choice(ALPHA) for _ in range(n))
    if k < 0.60:
        n = rng.randint(1, 8)
        parts = []
        for _ in range(n):
            r = rng.random()
            if r < 0.5:
                parts.append(rng.choice(WORDS))
            elif r < 0.7:
                parts.append(L.num(rng))
            elif r < 0.85:
                parts.append(rng.choice("+-*/()=%"))
            else:
                parts.append(rng.choice(ALPHA))
        return rng.choice([" ", " ", ""]).join(parts) if rng.random() < 0.2 else " ".join(parts)
    if k < 0.85:
        s = L.value_line(rng)
        if rng.random() < 0.7 and s:
            i = rng.randrange(len(s) + 1)
            r = rng.random()
            if r < 0.35:
                s = s[:i] + rng.choice(ALPHA) + s[i:]
            elif r < 0.6 and i < len(s):
                s = s[:i] + s[i + 1:]
            elif r < 0.8:
                s = s[:i] + " " + rng.choice(WORDS) + " " + s[i:]
            else:
                s = s[:i] + s[i:] + s[i:]
        return s
    return rng.choice(CURATED)


VAR_DEFS = ["10%", "-5%", "200", "0", "2,5", "$200", "40 eur", "3 days", "2 hours", "12/02/2020", "1 jan 2021", "11:30", "11:30 EST",
            "5 km", "250 g", "0x1F", "1024 kb", "1664582400 to date", "today", "10 usd to eur"]
VAR_USES = ["{v}", "{v} + 5", "200 on {v} + 5", "{v} on 200 + 5", "$200 off {v} + $5", "{v} of 50 * 2", "{v} to eur + 1", "{v} to m * 2", "{v} + {w}",
            "{v} - {w}", "{v} * 2 + 1", "{v} / {w}", "{v} to {w}", "{v} as hours + 1", "{v} to hex + 1", "{v} + 3 days 2 hours", "{v} {w}", "{w} {v} + 1",
            "{v} is what % of {w}", "{v} is {w} of what", "{v} at {w}", "{v} to EST + 1 hour", "{v} as unix + 1", "-{v}", "- {v} * - {w}", "({v}) + ({w})",
            "{v} = {v} + 1", "{v} = {w}", "{v} = {v} * {v}", "{v} = {v}", "{v} / {w} / {v}", "{v} to date + 1 day", "{v} % {w}", "{v} in {w}"]


def rand_program(rng):
    """assignments of values of all kinds, then uses of the names inside every phrase shape (also followed by further
    tokens), re-assignments and self-references"""
    names = rng.sample(["x", "y", "d", "discount", "my var", "my var long", "t"], rng.randint(1, 4))
    lines = []
    for n in names:
        lines.append(f"{n} = {rng.choice(VAR_DEFS)}")
    for _ in range(rng.randint(1, 6)):
        u = rng.choice(VAR_USES).replace("{v}", rng.choice(names)).replace("{w}", rng.choice(names + [rng.choice(VAR_DEFS)]))
        lines.append(u)
        if rng.random() < 0.2:
            lines.append(f"{rng.choice(names)} = {rng.choice(VAR_DEFS)}")
    return rng.choice(["\n", "\n", "\r\n"]).join(lines)


def rand_multi(rng):
    n = rng.randint(1, 6)
    return "".join(rand_text(rng)[:400] + rng.choice(["\n", "\r\n", "\n", ""] if i < n - 1 else ["", "\n", "\r\n", "\r"]) for i in range(n))


CFGS = [
    {"op": "cfg", "dec": ".", "thou": ","}, {"op": "cfg", "dec": ",", "thou": ""}, {"op": "cfg", "dec": ".", "thou": ""},
    {"op": "cfg", "dec": "", "thou": ""}, {"op": "cfg", "dec": ".", "thou": "."}, {"op": "cfg", "dec": "ab", "thou": "1"},
    {"op": "cfg", "num": [0, False, False]}, {"op": "cfg", "num": [9, True, True]}, {"op": "cfg", "num": [10, True, True]},
    {"op": "cfg", "num": [20, False, True]}, {"op": "cfg", "num": [255, False, False]}, {"op": "cfg", "pct": [12, True, True]},
    {"op": "cfg", "pct": [0, False, True]}, {"op": "cfg", "money": [True, False]}, {"op": "tz", "v": "GMT+14"}, {"op": "tz", "v": "GMT-12:30"},
    {"op": "tz", "v": "nonsense"}, {"op": "tz", "v": "GMT+19:59"}, {"op": "tz", "v": "ACDT"},
]
DEFAULT_CFG = [{"op": "cfg", "dec": ",", "thou": ".", "num": [2, True, True], "pct": [2, True, True], "money": [False, True]}, {"op": "tz", "v": "UTC"}]


def classify(res, text):
    """None if the outcome is fine, else a failure class string"""
    if "lines" in res:
        want = text.count("\n") + 1
        if res["status"] is not True:
            return "status-false"
        if len(res["lines"]) != want:
            return "slot-count"
        return None
    if res.get("hang"):
        return "hang"
    if res.get("crash"):
        return "crash"
    if "panic" in res:
        p = res["panic"]
        m = re.search(r"<- (src/[^:]+)", p)
        site = m.group(1) if m else "?"
        msg = re.sub(r"[0-9]+", "N", p.split(" @ ")[0])[:60]
        return f"panic:{site}:{msg}"
    return "abnormal"


def boundary_lines():
    """systematic boundary values of every numeric field a literal can carry (hours, minutes, seconds, days, months,
    zone offsets, radix digits): the values just inside and just outside each regex / constructor domain"""
    out = []
    for h in [0, 1, 9, 10, 11, 12, 13, 19, 20, 23, 24, 25, 29, 30, 99]:
        for m in ["00", "59", "60", "99", "5"]:
            out.append(f"{h}:{m}")
            out.append(f"{h}:{m}:59")
            out.append(f"{h}:{m}:60")
            out.append(f"{h}:{m} pm")
            out.append(f"{h}:{m} EST to CET")
        out.append(f"{h} am")
        out.append(f"{h}pm")
        out.append(f"1 jan 2020 at {h}")
        out.append(f"GMT+{h}")
        out.append(f"11:30 GMT+{h}")
        out.append(f"11:30 GMT-{h}:59")
        out.append(f"11:30 GMT+{h}:60")
    for d in [0, 1, 28, 29, 30, 31, 32, 99]:
        for mo in [0, 1, 2, 4, 12, 13, 99]:
            out.append(f"{d}/{mo}/2020")
            out.append(f"{d}/{mo}/2021 + 1 month")
            out.append(f"{d}/{mo}/0")
            out.append(f"{d}/{mo}/999999")
        for name in ["jan", "feb", "february", "apr", "dec"]:
            out.append(f"{d} {name}")
            out.append(f"{d} {name} 2020 - 1 month")
            out.append(f"{name} {d}, 2021 + 12 months")
    for n in ["0", "1", "59", "60", "86399", "86400", "4294967295", "4294967296", "-1"]:
        out.append(f"[TIME:{n}]")
        out.append(f"{n} to date")
        out.append(f"{n} seconds as hours")
    for pre, digs in [("0x", "fF09gG"), ("0b", "0123"), ("0o", "0789")]:
        for d in digs:
            out.append(pre + d)
            out.append(pre + d * 20)
    return out


def run(ctx, model_ok):
    rng = ctx.rng
    cases = []   # (cfg ops, lang, text)
    for t in CURATED + boundary_lines():
        cases.append(([], "en", t))
    for t in CURATED[::3]:
        cases.append(([], "tr", t))
    for lang in ["xx", "", "EN", "tr", "de"]:
        for t in ["1 + 2", "", "hello", "5 usd", "jan 5", "{TEXT:a}", "10 days"]:
            cases.append(([], lang, t))
    # names written as PATTERN FIELDS in front of '=' (legal text): every field kind and every configured word group x values of
    # several kinds x later lines that hold numbers, times, dates, money, percentages and durations — the variable substitution
    # must terminate and every line must get its slot, whatever such a "name" then matches
    groups_ = list(C.json.load(open(C.REPO + "/src/json/config.json", encoding="utf-8")).get("type_group", {}).keys())
    for k_ in ["NUMBER", "TEXT", "MONEY", "PERCENT", "DATE", "TIME", "MONTH", "DURATION", "DATE_TIME", "TIMEZONE", "GROUP", "DYNAMIC_TYPE"] + groups_:
        for val_ in ["5", "10:30", "1 jan 2020", "5 usd", "10%", "2 hours", "abc", "3 km"]:
            follow = rng.sample(["1 + 2\n7", "12:45", "x = 3 * 4\nx", "5 usd + 1", "3 days", "2 jan 2021", "20%", "8", "10:30 + 1 hour", "4 km to m"], 3)
            for f_ in follow:
                cases.append(([], rng.choice(["en", "en", "tr"]), f"{{{k_}:a}} = {val_}\n{f_}"))
    # the extreme zones of the table and of the GMT syntax against each other: literals in one extreme zone evaluated under a
    # default zone at the other end (offset differences of a day and more), two zones on one line
    far_w, far_e = ["NUT", "SST", "HAST", "GMT-11", "GMT-12", "GMT-12:30"], ["LINT", "NZDT", "TKT", "GMT+14", "GMT+13:45", "GMT+12:30"]
    for dz in far_w + far_e + ["UTC"]:
        for z in rng.sample(far_w + far_e, 5):
            t_ = rng.choice(["10:00", "9:30 pm", "23:59:59", "0:00", "11:30"])
            for text in (f"{t_} {z}", f"1 + 2\n{t_} {z}\n3 * 4", f"{t_} {z} {rng.choice(far_w + far_e)}", f"{t_} {z} to {rng.choice(far_w + far_e)}", f"{t_} {z} + 1 hour"):
                cases.append(([] if dz == "UTC" else [{"op": "tz", "v": dz}], "en", text))
    # characters whose lower / upper case has another byte length, growing and shrinking ones mixed so that the lengths cancel
    # (İ ŉ ǰ ß ΐ grow, Ω K Å ẞ shrink), around month names (both languages) and zone names: spans found in a case-mapped
    # copy of the line are translated back character by character
    grow, shrink = ["İ", "ŉ", "ǰ", "ß", "ΐ", "İstanbul", "ŉŉ"], ["\u2126", "\u212a", "\u212b", "ẞ", "\u2126\u2126"]
    months_tr = ["mayıs", "kasım", "eylül", "ağu", "şubat", "ağustos", "ekim", "oca"]
    months_en = ["may", "march", "december", "aug"]
    for s_ in shrink:
        for m_ in months_tr[:5]:
            for g_ in grow:
                cases.append(([], "tr", f"10 {s_} direnç 5 {m_} 2020 {g_}"))
    for s_ in ["ŉŉ", "ǰ"]:
        for z_ in ["EST", "CET"]:
            cases.append(([], "en", f"{s_} 11:30 {z_}€ ıı"))
    for _ in range(ctx.n(250, 6000)):
        lang = rng.choice(["tr", "tr", "en"])
        mon = rng.choice(months_tr if lang == "tr" else months_en)
        parts = [rng.choice(shrink), rng.choice(["direnç", "x", "10"]), f"{rng.randint(1, 28)} {mon} {rng.randint(1990, 2030)}", rng.choice(grow)]
        if rng.random() < 0.5:
            parts.insert(rng.randint(0, len(parts)), rng.choice(grow + shrink))
        if rng.random() < 0.4:
            parts.insert(rng.randint(0, len(parts)), f"{rng.randint(0, 23)}:{rng.randint(0, 59):02d} {rng.choice(['EST', 'cet', 'Pst'])}")
        rng.shuffle(parts) if rng.random() < 0.5 else None
        text = " ".join(parts)
        if rng.random() < 0.3:
            text = "1 + 1\n" + text + "\n2 * 2"
        cases.append(([], lang, text))
    n = ctx.n(2500, 150000)
    for _ in range(n):
        lang = rng.choice(["en"] * 6 + ["tr"] * 3 + ["xx"])
        r_ = rng.random()
        t = rand_multi(rng) if r_ < 0.25 else (rand_program(rng) if r_ < 0.45 else (L.text(rng, 6) if r_ < 0.5 else rand_text(rng)))
        cfg = [rng.choice(CFGS)] if rng.random() < 0.15 else []
        if rng.random() < 0.02:
            cfg.append(rng.choice(CFGS))
        cases.append((cfg, lang, t[:4000]))

    op_cases = []
    for cfg, lang, t in cases:
        ops = list(cfg) + [{"op": "exec", "lang": lang, "text": t}] + (DEFAULT_CFG if cfg else [])
        op_cases.append(ops)
    results = C.run_impl_sharded(op_cases)
    model = C.run_model([f"exec_slots\t{C.esc(t)}" for _, _, t in cases]) if model_ok else None

    seen_classes = {}
    for i, ((cfg, lang, t), rs) in enumerate(zip(cases, results)):
        r = rs[len(cfg)]
        nontrivial = bool(t.strip())
        ctx.seen((C.json.dumps(cfg), lang, t), nontrivial)
        ctx.count("lang:" + (lang if lang in ("en", "tr") else "other"))
        ctx.count("multi-line" if "\n" in t else "single-line")
        if cfg:
            ctx.count("non-default-config")
        cls = classify(r, t)
        if "lines" in r:
            for l in r["lines"]:
                ctx.count("slot:" + ("none" if l is None else "err" if "err" in l else "ok"))
            if model is not None:
                mf = model[i].split("\t")
                if (str(r["status"]).lower(), str(len(r["lines"]))) != (mf[0], mf[1]):
                    ctx.disagree({"text": t, "impl": [r["status"], len(r["lines"])], "model": mf})
                else:
                    ctx.traces_validated += 1
        if cls:
            ctx.count("FAIL:" + cls)
            k = seen_classes.get(cls, 0)
            seen_classes[cls] = k + 1
            if k < 3:   # keep at most three (shortest first would need shrinking; the texts are short)
                ctx.oracle_fail({"class": cls, "what": "evaluation did not return normally with one slot per line",
                                 "ops": op_cases[i], "impl": r})
            else:
                f = ctx.match_finding({"class": cls})
                if f:
                    ctx.known_seen[f["id"]] = ctx.known_seen.get(f["id"], 0) + 1
        if i % 400 == 0:
            ctx.sample({"lang": lang, "cfg": cfg, "text": t[:120], "outcome": "ok" if cls is None else cls,
                        "slots": len(r.get("lines", []))})


    # the model's tokenizers against the implementation's on every line of the hostile streams
    if model_ok:
        lt = []
        for cfg, lang, t in cases[:ctx.n(1500, 40000)]:
            if lang not in ("en", "tr"):
                continue
            sep = [o for o in cfg if o.get("op") in ("cfg", "tz")]
            for ln in wire.split_lines(t)[:6]:
                lt.append((sep, lang, ln))
        wire.lex_tie(ctx, lt)

    # execute_session on a re-used Session: every run returns one slot per line of the text set last, also when the SAME
    # text is set and evaluated again (what a front end does after a configuration change)
    sess_cases = []
    for si in range(ctx.n(120, 3000)):
        t1 = L.text(rng, rng.choice([1, 2, 3, 6]))
        t2 = t1 if rng.random() < 0.5 else L.text(rng, rng.choice([1, 2, 4]))
        sess_cases.append((t1, t2))
    sops = []
    for si, (t1, t2) in enumerate(sess_cases):
        sops += [{"op": "sess_new", "id": si % 7, "lang": "en"}, {"op": "sess_text", "id": si % 7, "text": t1}, {"op": "sess_run", "id": si % 7},
                 {"op": "sess_text", "id": si % 7, "text": t2}, {"op": "sess_run", "id": si % 7}]
    sres = C.run_impl(sops)
    for si, (t1, t2) in enumerate(sess_cases):
        for which, t in ((2, t1), (4, t2)):
            r = sres[5 * si + which]
            ctx.seen(("session", si, which, t), True)
            ctx.count("session-runs")
            cls = classify(r, t)
            if cls:
                ctx.oracle_fail({"class": "session:" + cls, "what": "execute_session on a re-used session did not return one slot per line",
                                 "ops": sops[5 * si:5 * si + 5], "impl": r})


def check_finding(ctx, f):
    res = C.run_impl(f["witness"]["ops"])
    text = [o for o in f["witness"]["ops"] if o["op"] == "exec"][-1]["text"]
    r = [x for x, o in zip(res, f["witness"]["ops"]) if o["op"] == "exec"][-1]
    return classify(r, text) is not None


def replay(ctx, data, model_ok):
    for f in data.get("failures", []):
        ops = f.get("ops")
        if not ops:
            continue
        res = C.run_impl(ops)
        for o, r in zip(ops, res):
            if o["op"] == "exec":
                cls = classify(r, o["text"])
                ctx.seen(C.json.dumps(ops), True)
                ctx.sample({"ops": ops, "impl": r})
                if cls:
                    ctx.oracle_fail({"class": cls, "what": "evaluation did not return normally with one slot per line",
                                     "ops": ops, "impl": r})
