"""C02 — arithmetic obeys precedence, associativity and parentheses for every expression."""
import itertools
import re, datetime
from fractions import Fraction
from tools import common as C, wire, oracle as O

LEAN_MODULES = ["SCP.C02", "SCP.Lex", "SCP.C12Exec"]
THEOREMS = ["SCP.C02." + t for t in "parse_eval post_stable line_eval_partial adjacent_add neg_value_rat pos_value_rat div_value_rat".split()] + \
    ["SC.Spec.Sum.parseExpr_toks", "SC.Spec.Sum.exec_ast", "SCP.Lex.lex_render", "SCP.Lex.lex_spacing_irrelevant", "SCP.Lex.tree_line_eval", "SCP.Lex.comment_irrelevant",
     "SCP.C12Exec.codeLex_mono", "SCP.C12Exec.basicExecute_render", "SCP.C12Exec.lexLine_render"]
RULE = ("random stratified expression trees (depth <= 12, literals: integers, fractions, attached signs, k/M/G/T/P/Z/Y suffixes, "
        "detached sign prefixes on literals and parentheses) rendered with random spacing (0-3 blanks per gap), adjacency sums, "
        "the same as right-hand side of an assignment; thorough: additionally ALL trees with <= 4 operators over a 3-literal pool x "
        "3 spacings; random trees exclude token runs `a / b / c`; a stream of sums that cancel to one unit in the last place (a + b - (a+b), big + small - big); a separate stream gives the chains `a / b / c` that are NOT a calendar date (day 29-31 of a shorter month, day 0 or 32+, month 0 or 13+), which the property keeps; oracle = the tree evaluated with IEEE doubles in tree "
        "order (bit-exact) and with exact rationals (tolerance); non-trivial = >= 1 operator; distinct = distinct line texts")
ASSUMPTIONS = ["string level: for the arithmetic sub-language (digits, separators, blanks, operator characters) `SCP.Lex.lex_render` PROVES that every "
               "spacing of a line lexes to its pieces' tokens under the scanner model `codeLex`, which is compared token for token with the "
               "implementation's own lexer on generated and hostile lines of that alphabet under 4 separator conventions; suffix letters and the "
               "rest of the regex layer stay outside the model; the case 'sign at the start position of missing_token_adder' is `_partial`",
               "operands are literals or parenthesised sums; `(a) (b)` adjacency is not claimed"]
TRUSTED = ["regex crate / lexer glue for number and operator tokens (exercised by every generated line)"]

SUFFIX = {"k": 10**3, "K": 10**3, "M": 10**6, "G": 10**9, "T": 10**12, "P": 10**15, "Z": 10**18, "Y": 10**21}


class Lit:
    def __init__(self, text_py, suffix=None):
        self.py = text_py         # python notation incl. attached sign
        self.suffix = suffix

    def render(self, sp):
        return O.dec(self.py) + (self.suffix or "")

    def fval(self):
        v = float(self.py)
        return v * float(SUFFIX[self.suffix]) if self.suffix else v

    def qval(self):
        return Fraction(self.py) * (SUFFIX[self.suffix] if self.suffix else 1)


def gdivf(a, b):
    try:
        c = a / b
    except ZeroDivisionError:
        return 0.0
    except OverflowError:
        return 0.0
    if c != c or c in (float("inf"), float("-inf")):
        return 0.0
    return c


def gdivq(a, b):
    return Fraction(0) if b == 0 else a / b


def gen_lit(rng):
    s = O.numclass(rng)
    if "e" in s or "E" in s:
        s = "7"
    if rng.random() < 0.12 and s != "0":
        s = rng.choice("-+") + s
    suf = rng.choice(list(SUFFIX)) if rng.random() < 0.08 else None
    if suf and ("." in s and len(s) > 8):
        suf = None
    return Lit(s, suf)


def gen_prim(rng, d):
    if d <= 0 or rng.random() < 0.7:
        return ("lit", gen_lit(rng))
    return ("paren", gen_sum(rng, d - 1))


def gen_unary(rng, d):
    k = rng.random()
    p = gen_prim(rng, d)
    if k < 0.12:
        return ("neg", p)
    if k < 0.16:
        return ("pos", p)
    return ("prim", p)


def gen_prod(rng, d):
    node = ("one", gen_unary(rng, d))
    while rng.random() < 0.35:
        node = (rng.choice(["mul", "div"]), node, gen_unary(rng, d))
    return node


def gen_sum(rng, d):
    node = ("one", gen_prod(rng, d))
    while rng.random() < 0.4:
        node = (rng.choice(["add", "sub", "adj"]) if d >= 99 else rng.choice(["add", "sub"]), node, gen_prod(rng, d))
    return node


def evalf(n):
    t = n[0]
    if t == "lit":
        return n[1].fval()
    if t == "paren":
        return evalf(n[1])
    if t == "prim" or t == "one":
        return evalf(n[1])
    if t == "neg":
        v = evalf(n[1])
        return v * -1.0 if n[1][0] == "lit" else -1.0 * v
    if t == "pos":
        return evalf(n[1])
    a, b = evalf(n[1]), evalf(n[2])
    if t == "mul":
        return a * b
    if t == "div":
        return gdivf(a, b)
    if t in ("add", "adj"):
        return a + b
    return a - b


def evalq(n):
    t = n[0]
    if t == "lit":
        return n[1].qval()
    if t in ("paren", "prim", "one", "pos"):
        return evalq(n[1])
    if t == "neg":
        return -evalq(n[1])
    a, b = evalq(n[1]), evalq(n[2])
    return {"mul": lambda: a * b, "div": lambda: gdivq(a, b), "add": lambda: a + b, "adj": lambda: a + b, "sub": lambda: a - b}[t]()


def nops(n):
    if n[0] == "lit":
        return 0
    if n[0] in ("paren", "prim", "one"):
        return nops(n[1])
    if n[0] in ("neg", "pos"):
        return 1 + nops(n[1])
    return 1 + nops(n[1]) + nops(n[2])


def render(n, sp):
    """sp() -> blanks for a gap"""
    t = n[0]
    if t == "lit":
        return n[1].render(sp)
    if t == "paren":
        return "(" + sp() + render(n[1], sp) + sp() + ")"
    if t in ("prim", "one"):
        return render(n[1], sp)
    if t == "neg":
        # a detached sign: at least one blank if the operand is a literal (else it would attach)
        gap = sp()
        if n[1][0] == "lit" and gap == "":
            gap = " "
        return "-" + gap + render(n[1], sp)
    if t == "pos":
        gap = sp()
        if n[1][0] == "lit" and gap == "":
            gap = " "
        return "+" + gap + render(n[1], sp)
    op = {"mul": "*", "div": "/", "add": "+", "sub": "-"}.get(t)
    if t == "adj":
        return render(n[1], sp) + " " + sp() + render(n[2], sp)
    left, right = render(n[1], sp), render(n[2], sp)
    g1, g2 = sp(), sp()
    return left + g1 + op + g2 + right


DATEY = re.compile(r"[0-9.,]+[kKMGTPZY]?\s*/\s*[-+]?[0-9.,]+[kKMGTPZY]?\s*/\s*[-+]?[0-9]")


def admissible(text):
    # excluded by the property: a / b / c token runs (dates)
    return not DATEY.search(text)


def run(ctx, model_ok):
    rng = ctx.rng
    cases = []
    curated = ["3 * - 5 + 2", "-(2+3)", "(((1+2)))*3", "x = ((1+2))", "1M + 1k", "2 * -(3+1) - 1", "10 - -3", "1 2 3", "2 * 3 4",
               "8 / 0", "0 / 0", "1 / 0 + 5", "(-5)", "((-5))", "- 5 + 2", "+ 5", "2 - 3 - 4", "2 / 4 * 8", "2 * (3 + 4) * 5", "-(-(2))",
               "1,5k * 2", "2Y / 1Z", "-3 * -4", "2 - -3 * -4", "(1 + 2) * (3 + 4)", "((2))((3))"][:25]
    spec_cur = {"3 * - 5 + 2": -13.0, "-(2+3)": -5.0, "(((1+2)))*3": 9.0, "x = ((1+2))": 3.0, "1M + 1k": 1001000.0, "2 * -(3+1) - 1": -9.0,
                "10 - -3": 13.0, "1 2 3": 6.0, "2 * 3 4": 10.0, "8 / 0": 0.0, "0 / 0": 0.0, "1 / 0 + 5": 5.0, "(-5)": -5.0, "((-5))": -5.0,
                "- 5 + 2": -3.0, "+ 5": 5.0, "2 - 3 - 4": -5.0, "2 / 4 * 8": 4.0, "2 * (3 + 4) * 5": 70.0, "-(-(2))": 2.0, "1,5k * 2": 3000.0,
                "2Y / 1Z": 2000.0, "-3 * -4": 12.0, "2 - -3 * -4": -10.0, "(1 + 2) * (3 + 4)": 21.0}
    for t, v in spec_cur.items():
        cases.append({"text": t, "f": v, "q": Fraction(v), "ops": 1, "kind": "curated"})
    n = ctx.n(3000, 150000)
    tries = 0
    while len(cases) < n + len(spec_cur) and tries < 20 * n:
        tries += 1
        d = rng.choice([0, 1, 1, 2, 2, 3, 4, 6, 12])
        tree = gen_sum(rng, d)
        if rng.random() < 0.1:
            # adjacency of literals at sum level
            tree = ("adj", tree, ("one", ("prim", ("lit", Lit(str(rng.randint(0, 99)))))))
        style = rng.random()
        if style < 0.3:
            sp = lambda: ""
        elif style < 0.6:
            sp = lambda: " "
        else:
            sp = lambda: rng.choice(["", " ", "  ", "   "])
        text = render(tree, sp)
        if len(text) > 380 or not admissible(text):
            continue
        f, q = evalf(tree), evalq(tree)
        kind = "expr"
        if rng.random() < 0.15:
            text = rng.choice(["x", "total", "my var"]) + rng.choice([" = ", "=", " =", "= "]) + text
            kind = "assign"
        cases.append({"text": text, "f": f, "q": q, "ops": nops(tree), "kind": kind})
    # sums that cancel to about one unit in the last place of their operands ('0,1 + 0,2 - 0,3', '1P + 0,1 - 1P'): the result
    # is whatever IEEE arithmetic gives in tree order, never a rounded-off 0
    from decimal import Decimal
    for _ in range(ctx.n(200, 5000)):
        k = rng.random()
        if k < 0.6:
            d1, d2 = rng.randint(1, 6), rng.randint(1, 6)
            a = Decimal(rng.randint(1, 10 ** d1)) / (10 ** d1)
            b = Decimal(rng.randint(1, 10 ** d2)) / (10 ** d2)
            sa, sb, sc = format(a, "f"), format(b, "f"), format(a + b, "f")
            lits = [Lit(sa), Lit(sb), Lit(sc)]
            tree = ("sub", ("add", ("one", ("one", ("prim", ("lit", lits[0])))), ("one", ("prim", ("lit", lits[1])))), ("one", ("prim", ("lit", lits[2]))))
        elif k < 0.8:
            big = rng.choice([("1", "P"), ("1", "T"), ("9007199254740992", None), ("1", "Z"), ("4503599627370496", None)])
            small = rng.choice(["0.1", "1", "0.5", "2", "0.3"])
            tree = ("sub", ("add", ("one", ("one", ("prim", ("lit", Lit(*big))))), ("one", ("prim", ("lit", Lit(small))))), ("one", ("prim", ("lit", Lit(*big)))))
        else:
            n0 = rng.randint(2 ** 52, 2 ** 53)
            tree = ("sub", ("one", ("one", ("prim", ("lit", Lit(str(n0 + rng.randint(1, 3))))))), ("one", ("prim", ("lit", Lit(str(n0))))))
        if rng.random() < 0.3:
            tree = ("one", ("div", ("one", ("prim", ("lit", Lit("1")))), ("prim", ("paren", tree))))
        g = rng.choice(["", " ", "  "])
        text = render(tree, lambda: g)
        if admissible(text):
            cases.append({"text": text, "f": evalf(tree), "q": evalq(tree), "ops": nops(tree), "kind": "cancel"})
    # long chains: hundreds of addends with inexact partial sums ('0,1 + 0,1 + ...', '1P 0,05 0,05 ...', also in parentheses and
    # with a factor behind): the sum is the left fold in IEEE arithmetic, whatever the number of operands
    for _ in range(ctx.n(24, 400)):
        n_add = rng.choice([100, 127, 128, 129, 130, 200, 255, 256, 257, 300, 513, 600])
        pool = rng.choice([["0.1"], ["0.05", "0.1"], ["0.1", "0.2", "0.3"], ["1.1", "0.7", "1000000.3"], ["0.01"]])
        lits = [Lit(rng.choice(pool)) for _ in range(n_add)]
        if rng.random() < 0.4:
            lits[0] = Lit("1", "P")
        mode = rng.choice(["plus", "plus", "side", "mixed", "minus"])
        f, q = lits[0].fval(), lits[0].qval()
        text = lits[0].render(None)
        for l_ in lits[1:]:
            sub = mode == "minus" and rng.random() < 0.3
            sep = " - " if sub else (" + " if mode in ("plus", "minus") or (mode == "mixed" and rng.random() < 0.5) else " ")
            text += sep + l_.render(None)
            f = f - l_.fval() if sub else f + l_.fval()
            q = q - l_.qval() if sub else q + l_.qval()
        wrap = rng.random()
        if wrap < 0.25:
            text, f, q = "(" + text + ") * 3", f * 3.0, q * 3
        elif wrap < 0.4:
            text, f, q = "2 + (" + text + ")", 2.0 + f, 2 + q
        cases.append({"text": text, "f": f, "q": q, "ops": n_add - 1, "kind": "long-chain"})
    # tiny divisors, down to the subnormal range: a divisor that is not zero divides (only a zero divisor gives 0)
    lit_ = lambda s_: ("prim", ("lit", Lit(s_)))
    one_ = lambda x: ("one", x)
    for k in [14, 15, 16, 17, 20, 40, 150, 290, 300, 305, 306, 307, 308, 309, 310, 315, 320, 322]:
        for _ in range(ctx.n(2, 20)):
            dgt = str(rng.randint(1, 9))
            t = "0." + "0" * k + dgt
            u = "0." + "0" * max(0, k - rng.randint(0, 12)) + str(rng.randint(1, 9))
            for tree in (one_(("div", one_(lit_(t)), lit_(t))),
                         one_(("div", one_(("paren", ("add", one_(one_(lit_(t))), one_(lit_(t))))) if False else one_(lit_(u)), lit_(t))),
                         one_(("div", one_(lit_(str(rng.randint(1, 9)))), lit_(t))) if k < 300 else one_(("div", one_(lit_(u)), lit_(t)))):
                g = rng.choice(["", " "])
                text = render(tree, lambda: g)
                if len(text) <= 800:
                    cases.append({"text": text, "f": evalf(tree), "q": evalq(tree), "ops": 1, "kind": "tiny-divisor"})
            text = f"({t.replace('.', ',')} + {t.replace('.', ',')}) / {t.replace('.', ',')}"
            ft = float(t)
            cases.append({"text": text, "f": gdivf(ft + ft, ft), "q": Fraction(2), "ops": 2, "kind": "tiny-divisor"})
    # quotient chains 'a / b / c' that are NOT a calendar date (day 29-31 of a short month, day 0 or 32+, month 0 or 13+):
    # the property excludes only the chains that read as a valid day/month/year
    for _ in range(ctx.n(150, 3000)):
        a = rng.choice([0, 29, 30, 31, 31, 32, 40, rng.randint(32, 99)])
        b = rng.choice([2, 2, 4, 6, 9, 11, 13, 0, rng.randint(13, 40)])
        c = rng.choice([rng.randint(1, 40), rng.randint(1, 9999), 2000, 2023, 1900])
        try:
            datetime.date(c, b, a)
            continue            # a real date: excluded by the property
        except ValueError:
            pass
        lit = lambda n: ("prim", ("lit", Lit(str(n))))
        tree = ("one", ("div", ("div", ("one", lit(a)), lit(b)), lit(c)))
        g = rng.choice(["", " ", "  "])
        sp = lambda: g
        text = render(tree, sp)
        if rng.random() < 0.2:
            text = "x = " + text
        cases.append({"text": text, "f": evalf(tree), "q": evalq(tree), "ops": 2, "kind": "near-date"})
    if not ctx.quick():
        # all trees with <= 3 binary operators over a small literal pool, three spacings
        pool = [Lit("2"), Lit("-3"), Lit("0.5")]
        def all_sums(k):
            # sums with exactly k binary operators (no parens/unary for k small; plus paren variants)
            if k == 0:
                for l in pool:
                    yield ("one", ("one", ("prim", ("lit", l))))
                return
            for op in ("add", "sub"):
                for i in range(k):
                    for s in all_sums(i):
                        for p in all_prods(k - 1 - i):
                            yield (op, s, p)
            for p in all_prods(k):
                if p[0] != "one":
                    yield ("one", p)
        def all_prods(k):
            if k == 0:
                for l in pool:
                    yield ("one", ("prim", ("lit", l)))
                return
            for op in ("mul", "div"):
                for p in all_prods(k - 1):
                    for l in pool:
                        yield (op, p, ("prim", ("lit", l)))
                    if k >= 2:
                        for s in all_sums(k - 2) if k - 2 <= 1 else []:
                            yield (op, p, ("prim", ("paren", s)))
        cnt = 0
        for k in range(0, 4):
            for tree in all_sums(k):
                for sp in (lambda: "", lambda: " ", lambda: "  "):
                    text = render(tree, sp)
                    if admissible(text):
                        cases.append({"text": text, "f": evalf(tree), "q": evalq(tree), "ops": k, "kind": "enum"})
                        cnt += 1
        ctx.count("enumerated", cnt)
    seen = set()
    uniq = []
    for c in cases:
        if c["text"] not in seen:
            seen.add(c["text"])
            uniq.append(c)
    cases = uniq
    results = C.run_impl_sharded([[{"op": "exec", "lang": "en", "text": c["text"]}] for c in cases])
    for c, rs in zip(cases, results):
        r = rs[0]
        ctx.count("kind:" + c["kind"])
        ctx.count("ops:" + str(min(c["ops"], 8)))
        l = r.get("lines", [None])[0] if "lines" in r else None
        v = l.get("ok") if l and "ok" in l else None
        ctx.seen(c["text"], c["ops"] >= 1)
        ops = [{"op": "exec", "lang": "en", "text": c["text"]}]
        if v is None or v.get("t") != "N" or v.get("nt") != "Decimal":
            ctx.oracle_fail({"class": "no-number:" + c["kind"], "what": "the arithmetic line did not evaluate to a decimal number",
                             "ops": ops, "impl": l if "lines" in r else r, "spec": c["f"]})
            continue
        got = O.f64(v["v"])
        if not (got == c["f"]) :
            # not bit-exact in tree order: is it at least the value of the expression?
            if O.close(got, c["q"], max(1.0, abs(c["f"]))):
                ctx.count("value-ok-but-not-bit-exact")
                ctx.oracle_fail({"class": "order:" + c["kind"], "what": f"value {got!r} differs from the tree-order double {c['f']!r} (same up to rounding): evaluation order changed",
                                 "ops": ops, "impl": v, "spec": c["f"]})
            else:
                ctx.oracle_fail({"class": "value:" + c["kind"], "what": f"value {got!r}, arithmetic gives {c['f']!r}", "ops": ops, "impl": v, "spec": c["f"]})
        elif len(ctx.samples) < 10 and c["ops"] >= 3:
            ctx.sample({"text": c["text"], "impl": got, "spec": c["f"]})
    if model_ok:
        co = wire.Corr(ctx, compare=("kind", "value", "raw"))
        co.run([{"lang": "en", "text": c["text"]} for c in cases[:ctx.n(2500, 30000)]] +
               [{"lang": "en", "text": c["text"]} for c in cases[ctx.n(2500, 30000):] if c["kind"] == "long-chain"][:ctx.n(24, 200)])
        ctx.dist.update({"corr:" + k: v for k, v in co.stats.items()})
        lexer_tie(ctx, [c["text"] for c in cases if c["kind"] in ("expr", "enum", "curated")])


ALPHA_A = list("0123456789") * 3 + list("  +-*/()") * 2 + [",", ".", ",", "."]
CONVS = [(",", "."), (".", ","), (".", ""), (",", "")]


def lexer_tie(ctx, texts):
    """the scanner model `codeLex` (about which SCP.Lex proves spacing irrelevance) against the implementation's lexer, token for
    token, on the arithmetic lines of this run and on hostile strings over the same alphabet, under four separator conventions"""
    rng = ctx.rng
    lines = [t for t in texts if not re.search(r"[A-Za-z=]", t)][:ctx.n(1200, 20000)]
    for _ in range(ctx.n(1500, 30000)):
        lines.append("".join(rng.choice(ALPHA_A) for _ in range(rng.randint(1, 24))))
    # a comment behind the line (SCP.Lex.comment_irrelevant): hostile comment texts
    lines = [t + rng.choice(["", "", " # note", "#1+1", " # may 5 $3 [NUMBER:1] = x", "  ## 2 * 3", " #"]) for t in lines]
    ops, req, idx = [], [], []
    # every convention is reached from the default configuration, by the two setters in either order (the second order on a part
    # of the lines): what an arithmetic line means does not depend on how the calculator got its separators
    passes = [(d_, t_, "dec-first", lines) for (d_, t_) in CONVS] + [(d_, t_, "thou-first", lines[:ctx.n(150, 2000)]) for (d_, t_) in CONVS]
    for (dec, thou, order_, lines_) in passes:
        ops.append({"op": "cfg", "dec": ",", "thou": "."})
        ops.append({"op": "cfg", "dec": dec, "thou": thou, "order": order_})
        for t in lines_:
            t2 = t if (dec, thou) == (",", ".") else t.replace(",", "\x00").replace(".", thou or "").replace("\x00", dec) if rng.random() < 0.5 else t
            ops.append({"op": "lex", "lang": "en", "text": t2})
            req.append(f"codelex\t{wire.hx(dec)}\t{wire.hx(thou)}\t{wire.hx(t2)}")
            idx.append((dec, thou, t2))
    ops.append({"op": "cfg", "dec": ",", "thou": "."})
    res = [r for r, o in zip(C.run_impl(ops), ops) if o["op"] == "lex"]
    ans = C.run_model(req)
    n_ok = n_none = 0
    for (dec, thou, t), r, a in zip(idx, res, ans):
        if a == "none":
            n_none += 1
            continue
        if "toks" not in r:
            ctx.disagree({"observable": "lexer", "text": t, "dec": dec, "thou": thou, "impl": r, "model": a})
            continue
        impl = " ".join(wire.enc_tok(x["tok"]) or "?" for x in r["toks"] if x["tok"] is not None)
        model = a.split("\t", 1)[1] if "\t" in a else ""
        if impl != model:
            ctx.disagree({"observable": "lexer tokens (model codeLex vs implementation)", "text": t, "dec": dec, "thou": thou, "impl": impl, "model": model})
        else:
            n_ok += 1
            ctx.traces_validated += 1
    ctx.dist["lexer-tie:agree"] = n_ok
    ctx.dist["lexer-tie:outside-model"] = n_none


def replay(ctx, data, model_ok):
    for f in data.get("failures", []):
        res = C.run_impl(f["ops"])
        ctx.seen(C.json.dumps(f["ops"]), True)
        ctx.sample({"ops": f["ops"], "impl": res})
        print("replayed:", C.json.dumps(f["ops"], ensure_ascii=False)[:300], "->", C.json.dumps(res[-1], ensure_ascii=False)[:300], "spec:", f.get("spec"))
    run(ctx, model_ok)
