"""C03 — a text is a straight-line program: later lines see the latest binding."""
from fractions import Fraction
from tools import common as C, wire, oracle as O
from tools.props import c02 as A

LEAN_MODULES = ["SCP.C03", "SCP.VarTermination", "SCP.VarInvariant"]
THEOREMS = ["SCP.C03." + t for t in """get_insert use_sees_latest assign_stores assign_frame exec_noassign value_not_reference
self_reference registerVar_frame parseLine_frame exec_frame failed_line_frame findLocation_some_iff pickBest_spec""".split()] + \
    ["SCP.VarTermination.varStep_lowers", "SCP.VarTermination.varLoop_stable", "SCP.VarTermination.updateTokenVariables_stable", "SCP.VarInvariant.execAst_names", "SCP.VarInvariant.parseLine_names", "SCP.VarInvariant.evalInfos_names", "SCP.VarInvariant.lineOKb_iff", "SCP.VarInvariant.session_names", "SCP.VarInvariant.session_var_loop_terminates"]
RULE = ("straight-line programs (3-12 lines) over a pool of colliding names (one-word, multi-word, prefixes of each other, names "
        "equal modulo blanks, names containing a number, names that are month or zone words (no ordinary word in the line), random letter case): assignments of arithmetic over literals and earlier "
        "names, re-assignments, self-references, copies, negated uses, values of other kinds (money, percent, duration, date, time, "
        "unit) copied through variables, lines failing at parse time and at evaluation time; oracle = an environment simulated in "
        "Python (doubles in tree order, bit-exact) and, for non-number kinds, the defining literal evaluated standalone; "
        "non-trivial = the program re-binds or copies at least one name; distinct = distinct program texts")
ASSUMPTIONS = ["uses of names that were never bound successfully are not generated (the property does not specify them)",
               "string level (names lex to word tokens) decided by enumeration + correspondence"]
TRUSTED = ["lexer glue for text tokens (exercised, not modelled)"]

NAMES = ["x", "y", "my var", "my var long", "my", "var", "ab", "a b", "total", "price", "tax rate", "item 1", "item 2", "rate"]
OTHER_KINDS = ["10 usd", "25 eur", "15%", "3 days", "2 hours 30 minutes", "12/02/2020", "11:30", "5 km", "250 g", "0x1F", "1024 kb"]


def casevar(rng, name):
    k = rng.random()
    if k < 0.6:
        return name
    if k < 0.75:
        return name.upper()
    if k < 0.9:
        return name.title()
    return "".join(ch.upper() if rng.random() < 0.5 else ch for ch in name)


def key(name):
    return name.lower()


def gen_expr(rng, env_names, depth=2):
    """expression tree over literals and bound number names (tuple format of c02 plus ('var', name))"""
    def prim(d):
        r = rng.random()
        if env_names and r < 0.5:
            return ("var", rng.choice(env_names))
        if d <= 0 or r < 0.85:
            return ("lit", A.gen_lit(rng))
        return ("paren", summ(d - 1))

    def unary(d):
        p = prim(d)
        r = rng.random()
        if r < 0.1 and p[0] != "lit":
            return ("neg", p)
        return ("prim", p)

    def prod(d):
        n = ("one", unary(d))
        while rng.random() < 0.3:
            n = (rng.choice(["mul", "div"]), n, unary(d))
        return n

    def summ(d):
        n = ("one", prod(d))
        while rng.random() < 0.4:
            n = (rng.choice(["add", "sub"]), n, prod(d))
        return n
    return summ(depth)


def evalf(n, env):
    t = n[0]
    if t == "var":
        return env[key(n[1])]
    if t == "lit":
        return n[1].fval()
    if t in ("paren", "prim", "one", "pos"):
        return evalf(n[1], env)
    if t == "neg":
        return -1.0 * evalf(n[1], env)
    a, b = evalf(n[1], env), evalf(n[2], env)
    return {"mul": lambda: a * b, "div": lambda: A.gdivf(a, b), "add": lambda: a + b, "sub": lambda: a - b}[t]()


def render(n, rng):
    t = n[0]
    if t == "var":
        return casevar(rng, n[1])
    if t == "lit":
        return n[1].render(None)
    if t == "paren":
        return "(" + render(n[1], rng) + ")"
    if t in ("prim", "one"):
        return render(n[1], rng)
    if t == "neg":
        return "- " + render(n[1], rng)
    op = {"mul": "*", "div": "/", "add": "+", "sub": "-"}[t]
    return render(n[1], rng) + " " + op + " " + render(n[2], rng)


def admissible(txt):
    """no a / b / c chain, also not through names (a name holding a number matches {NUMBER:..} too)"""
    t = txt.lower()
    for n in sorted(NAMES, key=len, reverse=True):
        t = t.replace(n, "1")
    return A.admissible(t)


def gen_program(rng):
    env = {}       # key -> float        (number-valued names)
    other = {}     # key -> defining literal text (non-number kinds)
    lines = []     # (text, expect) expect: ("num", float) | ("same-as", literal) | ("fail",) | ("skip",)
    names = rng.sample(NAMES, rng.randint(2, 6))
    rebinds = 0
    for _ in range(rng.randint(3, 12)):
        r = rng.random()
        numnames = [n for n in names if key(n) in env]
        if r < 0.45 or not (env or other):
            n = rng.choice(names)
            if rng.random() < 0.2:
                lit = rng.choice(OTHER_KINDS)
                lines.append((f"{casevar(rng, n)} = {lit}", ("same-as", lit)))
                if key(n) in env or key(n) in other:
                    rebinds += 1
                env.pop(key(n), None)
                other[key(n)] = lit
            else:
                e = gen_expr(rng, numnames)
                txt = render(e, rng)
                if not admissible(txt):
                    continue
                v = evalf(e, env)
                lines.append((f"{casevar(rng, n)} = {txt}", ("num", v)))
                if key(n) in env or key(n) in other:
                    rebinds += 1
                other.pop(key(n), None)
                env[key(n)] = v
        elif r < 0.6 and numnames:
            e = gen_expr(rng, numnames, 1)
            txt = render(e, rng)
            if not admissible(txt):
                continue
            lines.append((txt, ("num", evalf(e, env))))
        elif r < 0.7 and other:
            k = rng.choice(list(other))
            n = [x for x in names if key(x) == k][0]
            if rng.random() < 0.5:
                lines.append((casevar(rng, n), ("same-as", other[k])))
            else:
                m = rng.choice(names)
                if key(m) != k:
                    lines.append((f"{m} = {casevar(rng, n)}", ("same-as", other[k])))
                    env.pop(key(m), None)
                    other[key(m)] = other[k]
                    rebinds += 1
        elif r < 0.8 and numnames:
            # copy, then (maybe later) rebind the source: value not reference
            src, dst = rng.choice(numnames), rng.choice(names)
            if key(src) != key(dst):
                lines.append((f"{dst} = {casevar(rng, src)}", ("num", env[key(src)])))
                other.pop(key(dst), None)
                env[key(dst)] = env[key(src)]
                rebinds += 1
        elif r < 0.92:
            bound = [n for n in names if key(n) in env or key(n) in other]
            if bound:
                n = rng.choice(bound)
                bad = rng.choice([f"{n} = 1 +", f"{n} = )", f"{n} = 2 * 1 usd", f"{n} = (3", f"{n} = * 4", ")(", f"{n} = 1 day * 2"])
                lines.append((bad, ("fail",)))
        else:
            lines.append((rng.choice(["", "   ", "# a comment"]), ("skip",)))
        if rng.random() < 0.12:
            # a name used while it is still plain text, then bound, then the IDENTICAL line again (a use denotes what the
            # name holds at that point of the text, whatever the line evaluated to earlier)
            unbound = [n for n in names if key(n) not in env and key(n) not in other]
            if unbound:
                n = rng.choice(unbound)
                k, v = rng.randint(1, 50), rng.randint(2, 9)
                use = rng.choice([f"{n} + {k}", f"{k} + {n}", f"{n} * {k}"])
                lines.append((use, ("skip",)))
                lines.append((f"{n} = {v}", ("num", float(v))))
                env[key(n)] = float(v)
                lines.append((use, ("num", float(v * k) if "*" in use else float(v + k))))
                rebinds += 1
    return lines, rebinds


def run(ctx, model_ok):
    rng = ctx.rng
    progs = [gen_program(rng) for _ in range(ctx.n(500, 20000))]
    curated = [
        ([("my var = 2", ("num", 2.0)), ("my my var + 1", ("num", 3.0))], 1),
        ([("ab = 1", ("num", 1.0)), ("a b = 2", ("num", 2.0)), ("a b + 1", ("num", 3.0)), ("ab + 1", ("num", 2.0))], 1),
        ([("a1 = 5", ("skip",))], 0),
        ([("x = 1", ("num", 1.0)), ("y = x", ("num", 1.0)), ("x = 7", ("num", 7.0)), ("y", ("num", 1.0)), ("x = x + 1", ("num", 8.0)), ("x", ("num", 8.0))], 2),
        ([("my var = 1", ("num", 1.0)), ("my var long = 2", ("num", 2.0)), ("my var long + my var", ("num", 3.0)), ("my var + my var long", ("num", 3.0))], 1),
        ([("x = 5", ("num", 5.0)), ("x = 1 +", ("fail",)), ("x", ("num", 5.0)), ("x = 2 * 1 usd", ("fail",)), ("x + 1", ("num", 6.0))], 1),
        ([("tax + 10", ("skip",)), ("tax = 2", ("num", 2.0)), ("tax + 10", ("num", 12.0)), ("tax + 10", ("num", 12.0))], 1),
        ([("Total = 4", ("num", 4.0)), ("TOTAL * 2", ("num", 8.0)), ("total = total - 1", ("num", 3.0)), ("tOtAl", ("num", 3.0))], 1),
        # names that are not ordinary words: month names and zone names (their tokens are Month / Timezone, not Text); the lines
        # that use them contain no ordinary word at all
        ([("may = 1200", ("num", 1200.0)), ("april = 1000", ("num", 1000.0)), ("april + may", ("num", 2200.0)), ("may * 2", ("num", 2400.0))], 0),
        ([("march = 10", ("num", 10.0)), ("march = march * 2", ("num", 20.0)), ("march", ("num", 20.0))], 1),
        ([("est = 3", ("num", 3.0)), ("est * 2", ("num", 6.0)), ("EST + 1", ("num", 4.0))], 0),
        ([("dec = 4", ("num", 4.0)), ("x = dec + dec", ("num", 8.0)), ("dec = x", ("num", 8.0)), ("dec / 2", ("num", 4.0))], 1),
        # names with non-ASCII letters, re-assigned and used in another letter case (the session key folds case like the lookup does)
        ([("Ölçü = 1", ("num", 1.0)), ("ölçü = 2", ("num", 2.0)), ("ölçü", ("num", 2.0)), ("ÖLÇÜ + 1", ("num", 3.0))], 1),
        ([("Ödeme = 1", ("num", 1.0)), ("ödeme = ödeme + 1", ("num", 2.0)), ("ödeme = ödeme + 1", ("num", 3.0)), ("ödeme", ("num", 3.0))], 2),
        ([("çay = 3", ("num", 3.0)), ("Çay = 4", ("num", 4.0)), ("çay + 1", ("num", 5.0))], 1),
        ([("Ürün fiyat = 5", ("num", 5.0)), ("ürün Fiyat = 7", ("num", 7.0)), ("ürün fiyat * 2", ("num", 14.0))], 1),
        ([("цена = 5", ("num", 5.0)), ("Цена = 6", ("num", 6.0)), ("ЦЕНА * 2", ("num", 12.0))], 1),
    ]
    # names of several words whose FIRST word is not an ordinary word (a month, a zone, an alias word: the stored token is not the
    # word as typed)
    curated += [
        ([("march budget = 500", ("num", 500.0)), ("march budget * 2", ("num", 1000.0)), ("x = march budget + 1", ("num", 501.0)), ("x", ("num", 501.0))], 0),
        ([("may total = 3", ("num", 3.0)), ("may total = may total + 1", ("num", 4.0)), ("May Total * 2", ("num", 8.0))], 1),
        ([("euro rate = 5", ("num", 5.0)), ("x = euro rate + 1", ("num", 6.0)), ("euro rate * x", ("num", 30.0))], 0),
        ([("est fee = 7", ("num", 7.0)), ("est fee + 1", ("num", 8.0))], 0),
        ([("june rent = 900", ("num", 900.0)), ("july rent = 950", ("num", 950.0)), ("june rent + july rent", ("num", 1850.0))], 0),
    ]
    for _ in range(ctx.n(20, 400)):
        first = rng.sample(["march", "may", "june", "april", "dec", "euro", "est", "cet", "oct", "sept"], 2)
        second = rng.sample(["budget", "total", "rent", "rate", "fee"], 2)
        n1, n2 = f"{first[0]} {second[0]}", f"{first[1]} {second[1]}"
        v1, v2 = float(rng.randint(1, 500)), float(rng.randint(1, 500))
        op_ = rng.choice("+-*")
        r_ = {"+": v1 + v2, "-": v1 - v2, "*": v1 * v2}[op_]
        curated.append(([(f"{n1} = {int(v1)}", ("num", v1)), (f"{n2} = {int(v2)}", ("num", v2)), (f"{n1} {op_} {n2}", ("num", r_)),
                         (f"z = {n1} {op_} {n2}", ("num", r_)), (f"{n1} = z", ("num", r_)), (f"{n1.title()} * 2", ("num", r_ * 2))], 1))
    for _ in range(ctx.n(30, 600)):
        # random programs over month / zone names only
        pool = rng.sample(["may", "march", "april", "june", "dec", "oct", "est", "cet", "pst", "jst"], 3)
        vals, lines_ = {}, []
        for n_ in pool[:2]:
            v_ = float(rng.randint(1, 500))
            vals[n_] = v_
            lines_.append((f"{n_} = {int(v_)}", ("num", v_)))
        a_, b_ = pool[0], pool[1]
        op_ = rng.choice("+-*")
        r_ = {"+": vals[a_] + vals[b_], "-": vals[a_] - vals[b_], "*": vals[a_] * vals[b_]}[op_]
        lines_.append((f"{a_} {op_} {b_}", ("num", r_)))
        lines_.append((f"{pool[2]} = {a_} {op_} {b_}", ("num", r_)))
        lines_.append((f"{rng.choice([pool[2], pool[2].upper(), pool[2].capitalize()])} * 2", ("num", r_ * 2)))
        curated.append((lines_, 0))
    progs = curated + progs
    texts = ["\n".join(t for t, _ in lines) for lines, _ in progs]
    res = C.run_impl_sharded([[{"op": "exec", "lang": "en", "text": t}] for t in texts])
    # standalone evaluation of the non-number literals (oracle for 'same-as')
    lits = sorted({e[1] for lines, _ in progs for _, e in lines if e[0] == "same-as"})
    lres = C.run_impl([{"op": "exec", "lang": "en", "text": l} for l in lits])
    litval = {l: (r["lines"][0].get("ok"), r["lines"][0].get("out")) for l, r in zip(lits, lres) if "lines" in r and r["lines"][0] and "ok" in r["lines"][0]}
    for (lines, rebinds), text, rs in zip(progs, texts, res):
        r = rs[0]
        ops = [{"op": "exec", "lang": "en", "text": text}]
        ctx.seen(text, rebinds > 0)
        ctx.count("lines", len(lines))
        if "lines" not in r or len(r["lines"]) != len(lines):
            ctx.oracle_fail({"class": "abnormal", "what": "program did not return one slot per line", "ops": ops, "impl": r})
            continue
        for i, ((lt, exp), l) in enumerate(zip(lines, r["lines"])):
            ctx.count("expect:" + exp[0])
            bad = None
            if exp[0] == "skip":
                continue
            if exp[0] == "fail":
                if l is not None and "ok" in l and l["ok"] is not None:
                    # a line we expected to fail evaluated: not demanded by the property (only the frame is)
                    ctx.count("expected-fail-but-value")
                continue
            v = l.get("ok") if l else None
            if v is None:
                bad = "line did not evaluate to a value"
            elif exp[0] == "num":
                if v.get("t") != "N":
                    bad = f"kind {v.get('t')} instead of a number"
                elif not (O.f64(v["v"]) == exp[1]):
                    bad = f"value {O.f64(v['v'])!r}, the environment semantics give {exp[1]!r}"
            else:
                want = litval.get(exp[1])
                if want is not None and (v != want[0]):
                    bad = f"value {v} differs from the standalone value {want[0]} of {exp[1]!r}"
            if bad:
                ctx.oracle_fail({"class": "env:" + exp[0], "what": f"line {i} ({lt!r}): {bad}", "ops": ops, "impl": [x if x is None else (x.get("ok"), x.get("err")) for x in r["lines"]],
                                 "spec": [e for _, e in lines]})
                break
        if len(ctx.samples) < 8 and rebinds >= 2:
            ctx.sample({"program": text, "impl": [x if x is None else x.get("out", "err") for x in r["lines"]]})
    if model_ok:
        co = wire.Corr(ctx, compare=("kind", "value", "calc", "raw"))
        co.run([{"lang": "en", "text": t} for t in texts[:ctx.n(400, 8000)]])
        ctx.dist.update({"corr:" + k: v for k, v in co.stats.items()})


def replay(ctx, data, model_ok):
    for f in data.get("failures", []):
        res = C.run_impl(f["ops"])
        ctx.seen(C.json.dumps(f["ops"]), True)
        ctx.sample({"ops": f["ops"], "impl": res})
        print("replayed:", C.json.dumps(f["ops"], ensure_ascii=False)[:300], "->", C.json.dumps(res[-1], ensure_ascii=False)[:400])
    run(ctx, model_ok)
