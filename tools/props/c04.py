"""C04 — evaluation never changes the calculator; sessions isolate and persist correctly."""
from tools import common as C
from tools.gen import lines as L
from tools import oracle as O

LEAN_MODULES = ["SCP.C04", "SCP.Setters"]
THEOREMS = ["SCP.C04.setText_exec", "SCP.C04.history_refines", "SCP.C04.history_slot_counts",
            "SCP.C04.execute_eq", "SCP.C04.sessions_isolated", "SCP.C04.old_cursor_violates",
            "SCP.C04.runLines_length"] + ["SCP.Setters." + t for t in "dec_thou_comm run_dec run_thou run_num run_pct run_money run_frame run_same_last run_eq_of_same_last".split()]
RULE = ("histories of set_text/execute_session calls on 1-3 sessions (en / tr) of one long-lived calculator, interleaved with "
        "execute() calls in both languages; texts of 1-6 generated lines (assignments, uses, failing lines, all value kinds), texts aimed at "
        "caches (a word used as plain text, then bound, then the identical line again; the same text set and evaluated twice; operator words "
        "of both languages on one calculator); a history "
        "is non-trivial when it re-uses a session with texts of different line counts or re-uses the calculator after "
        ">=1 other evaluation; distinct = distinct op sequences")
ASSUMPTIONS = ["absence of writes through the shared Rc<TokenInfo> cells of the configuration is runtime aliasing the "
               "pure model cannot exhibit: decided by differential histories (long-lived vs fresh calculator) and the "
               "verif_fingerprint hook, not by a theorem",
               "the clock does not cross midnight UTC during a batch (batches are re-run if it does)"]
TRUSTED = ["Session model SC/Session.lean corresponds to src/session.rs + execute_session (checked by the history "
           "correspondence of this run)"]


def canon_line(l):
    if l is None:
        return None
    if "err" in l:
        return "err"
    return ("ok", C.json.dumps(l.get("ok"), sort_keys=True), l.get("out"))


def canon_lines(res):
    if "lines" not in res:
        return ("abnormal", res.get("panic") or res.get("hang") or res.get("crash") or str(res)[:100])
    return (res["status"], [canon_line(l) for l in res["lines"]])


def nlines(t):
    return t.count("\n") + 1


WORDS_USE = ["apples", "boxes", "tax", "rate"]
ALIAS_LINES = ["2 times 3", "5 kere 2", "8 eksi 3", "10 minus 4", "3 carpi 4", "6 add 1", "7 topla 2", "3 gun 2 saat", "2 days 1 hour"]


def tricky_text(rng):
    """texts aimed at caches: a line whose word is plain text now and a variable later, the identical line again;
    operator words of both languages"""
    w = rng.choice(WORDS_USE)
    use = rng.choice([f"{w} + 10", f"2 {w}", f"3 {w} + 1", f"{w} * 2"])
    k = rng.random()
    if k < 0.35:
        return rng.choice([use, f"{use}\n{w} = {rng.randint(2, 9)}\n{use}", f"{w} = {rng.randint(2, 9)}\n{use}", f"{w} = {rng.randint(2, 9)}"])
    if k < 0.6:
        return rng.choice(ALIAS_LINES) + ("\n" + rng.choice(ALIAS_LINES) if rng.random() < 0.4 else "")
    return L.text(rng, rng.choice([1, 1, 2, 3, 6]), names=["x", "y", "my var", "total"])


def gen_history(ctx):
    rng = ctx.rng
    nsess = rng.randint(1, 3)
    ops = [{"op": "reset"}] if rng.random() < 0.1 else []
    hist = []
    slang = {}
    for sid in range(nsess):
        slang[sid] = rng.choice(["en", "en", "tr"])
        ops.append({"op": "sess_new", "id": sid, "lang": slang[sid]})
    k = rng.randint(2, 8)
    last_text = {}
    for _ in range(k):
        if rng.random() < 0.25:
            t = tricky_text(rng) if rng.random() < 0.5 else L.text(rng, 4)
            lang = rng.choice(["en", "en", "tr"])
            ops.append({"op": "exec", "lang": lang, "text": t})
            hist.append(("exec", None, t, lang))
        else:
            sid = rng.randrange(nsess)
            if sid in last_text and rng.random() < 0.2:
                t = last_text[sid]          # the same text set and evaluated again
            else:
                t = tricky_text(rng)
            last_text[sid] = t
            ops.append({"op": "sess_text", "id": sid, "text": t})
            ops.append({"op": "sess_run", "id": sid})
            hist.append(("sess", sid, t, slang[sid]))
    return nsess, ops, hist


def run(ctx, model_ok):
    run_lines_independence(ctx)
    run_session_programs(ctx)
    run_eval_then_register(ctx)
    run_config_change(ctx)
    run_near_inputs(ctx)
    n_hist = ctx.n(150, 6000)
    cases = []
    for _ in range(n_hist):
        cases.append(gen_history(ctx))
    # curated corpus first: the witness of D1 and variable persistence / isolation
    corpus = [
        (1, [{"op": "sess_new", "id": 0, "lang": "en"}, {"op": "sess_text", "id": 0, "text": "1\n2\n3"}, {"op": "sess_run", "id": 0},
             {"op": "sess_text", "id": 0, "text": "4"}, {"op": "sess_run", "id": 0}],
         [("sess", 0, "1\n2\n3", "en"), ("sess", 0, "4", "en")]),
        (2, [{"op": "sess_new", "id": 0, "lang": "en"}, {"op": "sess_new", "id": 1, "lang": "en"},
             {"op": "sess_text", "id": 0, "text": "a = 5"}, {"op": "sess_run", "id": 0},
             {"op": "sess_text", "id": 1, "text": "a = 7\nb = 1"}, {"op": "sess_run", "id": 1},
             {"op": "sess_text", "id": 0, "text": "a + 1\nb + 1\na = a * 2"}, {"op": "sess_run", "id": 0},
             {"op": "sess_text", "id": 1, "text": "a + 1"}, {"op": "sess_run", "id": 1},
             {"op": "sess_text", "id": 0, "text": "a"}, {"op": "sess_run", "id": 0}],
         [("sess", 0, "a = 5", "en"), ("sess", 1, "a = 7\nb = 1", "en"), ("sess", 0, "a + 1\nb + 1\na = a * 2", "en"), ("sess", 1, "a + 1", "en"), ("sess", 0, "a", "en")]),
    ]
    cases = corpus + cases

    # --- implementation: the histories on ONE long-lived calculator, fingerprint around them
    flat = [{"op": "fingerprint"}]
    for _, ops, _ in cases:
        flat.extend(ops)
        flat.append({"op": "fingerprint"})
    res = C.run_impl(flat)
    fp0 = res[0].get("fp")
    pos = 1
    per_case = []
    for _, ops, _ in cases:
        per_case.append(res[pos:pos + len(ops)])
        pos += len(ops)
        fp = res[pos].get("fp")
        pos += 1
        if fp != fp0:
            ctx.oracle_fail({"class": "config-written", "what": "verif_fingerprint changed across evaluations",
                             "ops": ops, "fp_before": fp0, "fp_after": fp})
            fp0 = fp

    # --- oracle: each session's runs == one fresh execute of the concatenated texts;
    #             each execute() == exec_fresh of the same text
    oracle_ops = []
    index = []
    for ci, (nsess, ops, hist) in enumerate(cases):
        for sid in range(nsess):
            texts = [t for (k, s, t, lg) in hist if k == "sess" and s == sid]
            if texts:
                slg = [lg for (k, s, t, lg) in hist if k == "sess" and s == sid][0]
                oracle_ops.append({"op": "exec_fresh", "lang": slg, "text": "\n".join(texts)})
                index.append((ci, "sess", sid))
        for hi, (k, s, t, lg) in enumerate(hist):
            if k == "exec":
                oracle_ops.append({"op": "exec_fresh", "lang": lg, "text": t})
                index.append((ci, "exec", hi))
    ores = [r[0] for r in C.run_impl_sharded([[o] for o in oracle_ops], shards=14)]
    omap = {idx: r for idx, r in zip(index, ores)}

    # --- model: session machine with the echo evaluator (status + slot counts)
    model_lines = []
    for nsess, ops, hist in cases:
        for op in ops:
            if op["op"] == "sess_new":
                model_lines.append(f"sess_new\t{op['id']}")
            elif op["op"] == "sess_text":
                model_lines.append(f"sess_text\t{op['id']}\t{C.esc(op['text'])}")
            elif op["op"] == "sess_run":
                model_lines.append(f"sess_run\t{op['id']}")
            elif op["op"] == "exec":
                model_lines.append(f"exec_slots\t{C.esc(op['text'])}")
    mout = C.run_model(model_lines) if model_ok else None
    mi = 0

    for ci, ((nsess, ops, hist), rs) in enumerate(zip(cases, per_case)):
        key = C.json.dumps(ops, sort_keys=True, ensure_ascii=False)
        sess_counts = {}
        nontrivial = False
        got_by_sess = {sid: [] for sid in range(nsess)}
        hi = 0
        for op, r in zip(ops, rs):
            m = None
            if op["op"] in ("sess_new", "sess_text", "sess_run", "exec") and mout is not None:
                m = mout[mi]
                mi += 1
            if op["op"] == "sess_text":
                sid = op["id"]
                sess_counts.setdefault(sid, set()).add(nlines(op["text"]))
                if len(sess_counts[sid]) > 1:
                    nontrivial = True
            if op["op"] == "sess_run":
                sid = op["id"]
                st, ls = canon_lines(r) if "lines" in r else (None, None)
                if "lines" not in r:
                    ctx.oracle_fail({"class": "abnormal:" + str(canon_lines(r)[1])[:80], "what": "execute_session did not return", "ops": ops, "impl": r})
                    continue
                got_by_sess[sid].extend(ls)
                if m is not None:
                    mf = m.split("\t")
                    if (str(st).lower(), str(len(ls))) != (mf[0], mf[1]):
                        ctx.disagree({"ops": ops, "op": op, "impl": [st, len(ls)], "model": mf[:2]})
                    else:
                        ctx.traces_validated += 1
            if op["op"] == "exec":
                while hist[hi][0] != "exec":
                    hi += 1
                want = omap[(ci, "exec", hi)]
                hi += 1
                if ci > 0:
                    nontrivial = True
                if canon_lines(r) != canon_lines(want):
                    ctx.oracle_fail({"class": "history-dependence", "what": "execute() result differs from a fresh calculator",
                                     "ops": ops, "text": op["text"], "long_lived": canon_lines(r), "fresh": canon_lines(want)})
                if m is not None and "lines" in r:
                    mf = m.split("\t")
                    if (str(r["status"]).lower(), str(len(r["lines"]))) != (mf[0], mf[1]):
                        ctx.disagree({"ops": ops, "op": op, "impl": [r["status"], len(r["lines"])], "model": mf[:2]})
                    else:
                        ctx.traces_validated += 1
        for sid in range(nsess):
            if (ci, "sess", sid) in omap:
                want = canon_lines(omap[(ci, "sess", sid)])
                got = (True, got_by_sess[sid])
                if want != got:
                    ctx.oracle_fail({"class": "session-history", "what": "re-used session does not evaluate every line once, in order, with persisting variables",
                                     "ops": ops, "session": sid, "impl": got, "spec(fresh execute of concatenation)": want})
        ctx.seen(key, nontrivial)
        ctx.count("histories")
        ctx.count("sessions", nsess)
        if ci < 3 or (nontrivial and len(ctx.samples) < 6):
            ctx.sample({"ops": ops[:12], "impl": [canon_lines(r) if "lines" in r else r for r in rs][:12]})


def run_lines_independence(ctx):
    """variable-free value lines evaluated on ONE long-lived calculator (partly inside multi-line texts) must
    equal their evaluation on a fresh calculator, line by line: no hidden state survives an evaluation"""
    rng = ctx.rng
    pool_units = [("km", "m"), ("kg", "g"), ("mb", "kb"), ("inch", "mm"), ("mile", "yard"), ("lb", "oz")]
    pool_cur = [("usd", "try"), ("eur", "usd"), ("gbp", "jpy"), ("dkk", "sek")]
    lines = []
    for _ in range(ctx.n(600, 20000)):
        k = rng.random()
        v = rng.choice(["0", "0", "1", "5", "2,5", "-3", "1000", "0,001", L.num(rng)])
        if k < 0.3:
            a, b = rng.choice(pool_units)
            if rng.random() < 0.5:
                a, b = b, a
            lines.append(f"{v} {a} to {b}")
        elif k < 0.5:
            a, b = rng.choice(pool_cur)
            lines.append(f"{v} {a} to {b}")
        elif k < 0.65:
            lines.append(rng.choice([f"{v} + 10%", f"10% of {v}", f"{v} is what % of 50", f"{v} days", f"{v} to hex" if v.isdigit() else f"{v} * 2"]))
        else:
            lines.append(L.value_line(rng))
    # group into texts of 1..5 lines
    texts, i = [], 0
    while i < len(lines):
        n = rng.randint(1, 5)
        texts.append(lines[i:i + n])
        i += n
    ops = [{"op": "exec", "lang": "en", "text": "\n".join(t)} for t in texts]
    res = C.run_impl(ops)
    fres = [r[0] for r in C.run_impl_sharded([[{"op": "exec_fresh", "lang": "en", "text": l}] for l in lines], shards=14)]
    li = 0
    prev = []
    for t, r in zip(texts, res):
        if "lines" not in r:
            li += len(t)
            continue
        for ln, got in zip(t, r["lines"]):
            want = fres[li]
            li += 1
            ctx.seen(("indep", ln, len(prev)), len(prev) > 0)
            ctx.count("independence-lines")
            if "lines" not in want:
                continue
            a, b = canon_line(got), canon_line(want["lines"][0])
            if a != b:
                ctx.oracle_fail({"class": "history-dependence", "what": f"line {ln!r} evaluates differently on a calculator that evaluated other lines before",
                                 "ops": [{"op": "reset"}] + [{"op": "exec", "lang": "en", "text": p} for p in prev[-40:]] + [{"op": "exec", "lang": "en", "text": ln}],
                                 "long_lived": a, "fresh": b})
            prev.append(ln)


def run_eval_then_register(ctx):
    """evaluations in front of a registration must not change what the registration does: calculator A evaluates some lines,
    then registers units / a rule / a rate and evaluates probe lines; calculator B only registers and probes"""
    rng = ctx.rng
    for ci in range(ctx.n(60, 1500)):
        pre = [{"op": "exec", "lang": rng.choice(["en", "en", "tr"]), "text": rng.choice([L.value_line(rng), "1 + 2", "2 km to m", "5 usd to eur", "10 kg to lb", "x = 3\nx * 2"])}
               for _ in range(rng.randint(1, 4))]
        w = ["zzv" + c for c in "abc"]
        regs = [{"op": "dtype_add", "name": "famv"},
                {"op": "dtype_item", "name": "famv", "index": 0, "format": "{value} " + w[0], "parse": ["{NUMBER:value} {TEXT:type:" + w[0] + "}"], "up": "{value} / 2", "down": "{value} * 2", "names": [w[0]]},
                {"op": "dtype_item", "name": "famv", "index": 1, "format": "{value} " + w[1], "parse": ["{NUMBER:value} {TEXT:type:" + w[1] + "}"], "up": "{value} / 4", "down": "{value} * 4", "names": [w[1]]},
                {"op": "dtype_item", "name": "metric-length", "index": 9, "format": "{value} Mm", "parse": ["{NUMBER:value} {TEXT:type:megameter}"], "up": "{value} / 1000", "down": "{value} * 1000", "names": ["megameter"]},
                {"op": "rule_add", "lang": "en", "name": "rv", "kind": "const", "patterns": ["{NUMBER:a} quux"], "v": 42},
                {"op": "rate", "cur": "try", "v": rng.choice([10.0, 33.3, 7.5])}]
        rng.shuffle(regs[3:])
        probes = [{"op": "exec", "lang": "en", "text": t} for t in
                  ["10 " + w[0] + " to " + w[1], "8 " + w[1] + " to " + w[0], "3 megameter", "3 megameter to km", "7 quux", "7 quux + 1", "1 usd to try", "2 km to m", "1 + 2"]]
        a = C.run_impl([{"op": "reset"}] + pre + regs + probes + [{"op": "reset"}])
        b = C.run_impl([{"op": "reset"}] + regs + probes + [{"op": "reset"}])
        ra = [canon_lines(x) for x in a[1 + len(pre) + len(regs):-1]]
        rb = [canon_lines(x) for x in b[1 + len(regs):-1]]
        rets_a = [x.get("ret") for x in a[1 + len(pre):1 + len(pre) + len(regs)]]
        rets_b = [x.get("ret") for x in b[1:1 + len(regs)]]
        ctx.seen(("eval-then-register", ci), True)
        ctx.count("eval-then-register")
        if rets_a != rets_b:
            ctx.oracle_fail({"class": "registration-after-evaluation", "what": f"registrations return {rets_a} after evaluations, {rets_b} on a fresh calculator",
                             "ops": [{"op": "reset"}] + pre + regs + [{"op": "reset"}]})
            continue
        for p_, x, y in zip(probes, ra, rb):
            if x != y:
                ctx.oracle_fail({"class": "registration-after-evaluation", "what": f"{p_['text']!r} evaluates to {x} when lines were evaluated before the registrations, to {y} otherwise",
                                 "ops": [{"op": "reset"}] + pre + regs + [p_, {"op": "reset"}]})
                break


def run_config_change(ctx):
    """the result of a text is determined by the configuration at the time, the text and the date: a calculator that evaluated
    lines under another configuration before evaluates like a fresh calculator given the same final configuration"""
    rng = ctx.rng
    CONF = [{"dec": ",", "thou": "."}, {"dec": ".", "thou": ","}, {"dec": ".", "thou": ""}, {"dec": ",", "thou": ""}]
    LINES = ["1.500 + 1", "1,500 + 1", "2,5 * 2", "2.5 * 2", "3.25 * 2", "-(1.500) * 2", "10,5% of 200", "10.5% of 200", "1.234,5 usd + 1 usd", "1,234.5 usd + 1 usd",
             "2,5 km to m", "2.5 km to m", "x = 1.250\nx / 2", "12,5 eur", "1.000 kg to g", "0,5 + 0.5", "10 usd to eur", "11:30 EST to CET", "5 march 2020 + 2 days"]
    UNIT_LINES = ["10 inch to mm", "2 inch to mm", "1536 byte to mb", "1 oz to g", "100 g + 1 oz", "1,5 inch to mm", "1.5 inch to mm", "2,5 km to m", "25,4 mm to inch"]
    LINES = LINES + UNIT_LINES[:5]
    # the same line before and after a change of the separators, also in the transient configurations a single setter call leaves
    # (decimal = thousands): whatever an evaluation remembered must not outlive the configuration it was computed under
    curated = []
    for L_ in UNIT_LINES:
        for first in ({"dec": "."}, {"thou": ","}, {"dec": ".", "thou": ","}, {"dec": ".", "thou": ""}, {}):
            for c2 in CONF:
                curated.append(([dict(op="cfg", **first)], [{"op": "exec", "lang": "en", "text": L_}], [dict(op="cfg", **c2)], [{"op": "exec", "lang": "en", "text": L_}]))
    if ctx.quick():
        curated = curated[::2] + rng.sample(curated, 20)
    for ci, (setc1, pre, setc2, probes) in enumerate(curated):
        a = C.run_impl([{"op": "reset"}] + setc1 + pre + setc2 + probes + [{"op": "reset"}])
        b = C.run_impl([{"op": "reset"}] + setc2 + probes + [{"op": "reset"}])
        ra = [canon_lines(x) for x in a[1 + len(setc1) + len(pre) + len(setc2):-1]]
        rb = [canon_lines(x) for x in b[1 + len(setc2):-1]]
        ctx.seen(("config-change-curated", ci), True)
        ctx.count("config-change-histories:same-line-before-and-after")
        for p_, x, y in zip(probes, ra, rb):
            if x != y:
                ctx.oracle_fail({"class": "history-dependence:config-change", "what": f"{p_['text']!r} evaluates to {x} after it was evaluated under another configuration, to {y} on a fresh calculator with the same configuration",
                                 "ops": [{"op": "reset"}] + setc1 + pre + setc2 + [p_, {"op": "reset"}]})
                break
    for ci in range(ctx.n(120, 3000)):
        c1, c2 = rng.sample(CONF, 2)
        extra = rng.choice([[], [{"op": "cfg", "num": [rng.randint(0, 4), rng.random() < 0.5, True]}], [{"op": "tz", "v": rng.choice(["EST", "CET", "GMT+5:30"])}]])
        pre = [{"op": "exec", "lang": "en", "text": t} for t in rng.sample(LINES, rng.randint(2, 6))]
        probes = [{"op": "exec", "lang": "en", "text": t} for t in rng.sample(LINES, 8)]
        setc1 = [dict(op="cfg", **c1)]
        setc2 = [dict(op="cfg", **c2)] + extra
        a = C.run_impl([{"op": "reset"}] + setc1 + pre + setc2 + probes + [{"op": "reset"}])
        b = C.run_impl([{"op": "reset"}] + setc2 + probes + [{"op": "reset"}])
        ra = [canon_lines(x) for x in a[1 + len(setc1) + len(pre) + len(setc2):-1]]
        rb = [canon_lines(x) for x in b[1 + len(setc2):-1]]
        ctx.seen(("config-change", ci), True)
        ctx.count("config-change-histories")
        for p_, x, y in zip(probes, ra, rb):
            if x != y:
                ctx.oracle_fail({"class": "history-dependence:config-change", "what": f"{p_['text']!r} evaluates to {x} after lines were evaluated under another configuration, to {y} on a fresh calculator with the same configuration",
                                 "ops": [{"op": "reset"}] + setc1 + pre + setc2 + [p_, {"op": "reset"}]})
                break


def run_near_inputs(ctx):
    """evaluating a line leaves nothing behind that a later, NEARLY EQUAL line could pick up: pairs of lines of one shape whose
    quantities are both huge (beyond 2^53 / 10^12) or differ only far behind the decimal separator, evaluated one after the other on
    one calculator (and as two lines of one text), against a fresh calculator each"""
    rng = ctx.rng
    SHAPES = ["{a} byte to tb", "{a} km to mm", "{a} mm to km", "{a} kg to tonne", "{a} usd to eur", "{a} * 2", "{a}% of 50", "{a} bit to byte",
              "{a} seconds", "{a} gram to kg", "{a} inch to mm", "{a} + 1 km", "{a} usd + 1 eur"]
    for i in range(ctx.n(80, 2000)):
        shape = rng.choice(SHAPES)
        k = rng.random()
        if k < 0.4:
            base = rng.choice([10 ** 13, 2 ** 53, 10 ** 15, 9300000000000, 10 ** 18])
            a, b = base * rng.randint(1, 9), base * rng.randint(1, 9) + rng.choice([0, 1, 1000])
            xs = [str(a), str(b)]
        elif k < 0.5:
            xs = [f"{rng.randint(1, 99)}{suf}" for suf in rng.sample(["T", "P", "Z", "Y"], 2)]
        elif k < 0.8:
            whole = rng.choice(["0", "1", "12", "100"])
            z = "0" * rng.randint(5, 9)
            xs = [f"{whole},{z}{rng.randint(1, 9)}", f"{whole},{z}{rng.randint(1, 9)}{rng.randint(1, 9)}"]
            if rng.random() < 0.4:
                xs[0] = whole
        else:
            v = rng.randint(1, 10 ** 6)
            xs = [str(v), f"{v},000000{rng.randint(1, 4)}"]
        if xs[0] == xs[1]:
            continue
        rng.shuffle(xs)
        t1, t2 = shape.format(a=xs[0]), shape.format(a=xs[1])
        both = C.run_impl([{"op": "reset"}, {"op": "exec", "lang": "en", "text": t1}, {"op": "exec", "lang": "en", "text": t2}, {"op": "exec", "lang": "en", "text": t1 + "\n" + t2},
                           {"op": "reset"}, {"op": "exec", "lang": "en", "text": t2}, {"op": "reset"}])
        second, text2, fresh = canon_lines(both[2]), canon_lines(both[3]), canon_lines(both[5])
        ctx.seen(("near-inputs", t1, t2), True)
        ctx.count("near-input-pairs")
        two = (text2[0], text2[1][1:]) if isinstance(text2[1], list) else text2
        if second != fresh or two != fresh:
            ctx.oracle_fail({"class": "history-dependence:near-inputs", "what": f"{t2!r} evaluates to {second if second != fresh else two} after {t1!r} was evaluated, to {fresh} on a fresh calculator",
                             "ops": [{"op": "reset"}, {"op": "exec", "lang": "en", "text": t1}, {"op": "exec", "lang": "en", "text": t2}, {"op": "reset"}]})


def run_session_programs(ctx):
    """straight-line programs with an environment oracle (C03 generator), fed to ONE session in several texts"""
    from tools.props import c03
    rng = ctx.rng
    progs = [c03.gen_program(rng) for _ in range(ctx.n(150, 5000))]
    ops, layout = [], []
    for pi, (lines, _) in enumerate(progs):
        ops.append({"op": "sess_new", "id": 0, "lang": "en"})
        chunks, i = [], 0
        while i < len(lines):
            n = rng.randint(1, 4)
            chunks.append(lines[i:i + n])
            i += n
        for ch in chunks:
            ops.append({"op": "sess_text", "id": 0, "text": "\n".join(t for t, _ in ch)})
            ops.append({"op": "sess_run", "id": 0})
        layout.append(chunks)
    res = C.run_impl(ops)
    i = 0
    for (lines, rebinds), chunks in zip(progs, layout):
        i += 1
        case_ops = [{"op": "sess_new", "id": 0, "lang": "en"}]
        bad = None
        for ch in chunks:
            case_ops.append(ops[i])
            case_ops.append(ops[i + 1])
            r = res[i + 1]
            i += 2
            if bad or "lines" not in r or len(r["lines"]) != len(ch):
                bad = bad or "session run did not return one slot per line"
                continue
            for (lt, exp), l in zip(ch, r["lines"]):
                if exp[0] == "num":
                    v = l.get("ok") if l else None
                    if v is None or v.get("t") != "N" or O.f64(v["v"]) != exp[1]:
                        bad = f"line {lt!r}: got {v if v else (l and l.get('err'))}, the environment semantics give {exp[1]!r}"
                        break
        ctx.seen(("sessprog", C.json.dumps(case_ops, ensure_ascii=False)), len(chunks) > 1)
        ctx.count("session-programs")
        if bad:
            ctx.oracle_fail({"class": "session-variables", "what": bad, "ops": [{"op": "reset"}] + case_ops})


def replay(ctx, data, model_ok):
    for f in data.get("failures", []):
        ops = f.get("ops")
        if not ops:
            continue
        res = C.run_impl([{"op": "reset"}] + ops)
        ctx.sample({"ops": ops, "impl": res[1:]})
    run(ctx, model_ok)
