"""C05 — percentage phrases compute the textbook formulas for numbers and money."""
from fractions import Fraction
from tools import common as C, wire, oracle as O

LEAN_MODULES = ["SCP.C05"]
THEOREMS = ["SCP.C05." + t for t in """plus_percent minus_percent money_plus_percent money_minus_percent of_number on_number
off_number of_money on_money off_money what_percent what_percent_zero what_percent_money total_from_percent
total_from_percent_money phrase_of_1 phrase_of_2 phrase_on_1 phrase_on_2 phrase_off_1 phrase_off_2 phrase_what_percent
phrase_total_from_percent""".split()]
RULE = ("the seven phrases x both operand orders x both percent spellings (behind + / - a negative percentage also with the sign outside the spelling: '-%p', '- p%') x X/A/B/p from value classes {0, small, large, "
        "fractions with 1-6 digits, negative; integer parts of four and more digits with and without the thousands separator} x plain / money in every currency that has a rate; non-trivial = the phrase "
        "evaluated to a value (not an error) and at least one operand is non-zero; distinct = distinct line texts")
ASSUMPTIONS = ["formula theorems are over exact rationals; the implementation's doubles are compared with the exact value "
               "with relative tolerance 1e-9, and bit-for-bit with the Float instance of the model"]
TRUSTED = ["floating-point rounding error of the formulas (modelled, not verified)"]

CURS = None


def currencies():
    global CURS
    if CURS is None:
        cfg = C.json.load(open(C.REPO + "/src/json/config.json", encoding="utf-8"))
        CURS = sorted(k for k in cfg["currency_rates"].keys() if k.upper() in cfg["currencies"])
    return CURS


def lit(rng, s):
    """the literal in the default convention; an integer part of four and more digits is sometimes written with the thousands
    separator ('1.000,5', '2.000.000')"""
    t = O.dec(s)
    sign = "-" if t.startswith("-") else ""
    body = t[len(sign):]
    ip, _, fp = body.partition(",")
    if len(ip) > 3 and ip.isdigit() and rng.random() < 0.5:
        g = []
        while len(ip) > 3:
            g.insert(0, ip[-3:])
            ip = ip[:-3]
        g.insert(0, ip)
        ip = ".".join(g)
    return sign + ip + ("," + fp if fp else "")


def pct_text(rng, p, after_operator=False):
    t = lit(rng, p)
    if t.startswith("-") and after_operator and rng.random() < 0.4:
        # behind an operator the sign may stand outside the percent spelling: '200 + -%10', '200 + - 10%'
        return "-%" + t[1:] if rng.random() < 0.6 else "- " + t[1:] + "%"
    return (t + "%") if rng.random() < 0.6 else ("%" + t)


def gen_case(rng):
    phrase = rng.choice(["plus", "minus", "of", "on", "off", "what", "total"])
    x = O.signed(rng, O.numclass(rng))
    p = O.signed(rng, O.numclass(rng), 0.15)
    b = O.signed(rng, O.numclass(rng))
    cur = rng.choice(currencies()) if rng.random() < 0.4 else None
    fx, fp, fb = Fraction(x), Fraction(p), Fraction(b)

    def amt(s):
        if cur is None:
            return lit(rng, s)
        return lit(rng, s) + rng.choice([" ", ""]) + (cur if rng.random() < 0.7 else cur.upper())
    order = rng.random() < 0.5
    glue = rng.choice([" + ", " + ", "+", " +"]) if phrase == "plus" else rng.choice([" - ", " - ", "-", " -"])
    if phrase == "plus":
        text = f"{amt(x)}{glue}{pct_text(rng, p, True)}"
        spec = fx * (1 + fp / 100)
        kind = "M" if cur else "N"
    elif phrase == "minus":
        text = f"{amt(x)}{glue}{pct_text(rng, p, True)}"
        spec = fx * (1 - fp / 100)
        kind = "M" if cur else "N"
    elif phrase in ("of", "on", "off"):
        text = f"{pct_text(rng, p)} {phrase} {amt(x)}" if order else f"{amt(x)} {phrase} {pct_text(rng, p)}"
        spec = {"of": fx * fp / 100, "on": fx * (1 + fp / 100), "off": fx * (1 - fp / 100)}[phrase]
        kind = "M" if cur else "N"
    elif phrase == "what":
        text = f"{amt(x)} is what % of {amt(b)}"
        spec = Fraction(0) if fb == 0 else 100 * fx / fb
        kind = "P"
    else:
        text = f"{amt(x)} is {pct_text(rng, p)} of what"
        spec = Fraction(0) if fp == 0 else 100 * fx / fp
        kind = "M" if cur else "N"
    if rng.random() < 0.3:
        text = text.replace(" is ", " IS ").replace(" of ", " Of ").replace(" on ", " ON ").replace(" off ", " oFF ").replace(" what", " What")
    return {"phrase": phrase, "text": text, "spec": spec, "kind": kind, "cur": cur, "x": x, "p": p, "b": b}


def run(ctx, model_ok):
    rng = ctx.rng
    cases = [gen_case(rng) for _ in range(ctx.n(3000, 120000))]
    curated = ["200 + 10%", "200 - 10%", "10% of 200", "200 of 10%", "%10 on 200", "10% off 200", "-50 + 10%", "50 + -10%",
               "0 + 10%", "5 is what % of 0", "5 is 0% of what", "0 is what % of 5", "10 usd is what % of 50 usd",
               "$100 + 10%", "100 try - 25%", "6% off 40 eur", "6% on 40", "20 is 10% of what", "20 usd is 10% of what"]
    execs = [{"op": "exec", "lang": "en", "text": c["text"]} for c in cases]
    res = C.run_impl(execs)
    for c, r in zip(cases, res):
        ctx.count("phrase:" + c["phrase"])
        ctx.count("money" if c["cur"] else "plain")
        l = r.get("lines", [None])[0] if "lines" in r else None
        ok = l is not None and "ok" in l and l["ok"] is not None
        nontrivial = ok and (Fraction(c["x"]) != 0 or Fraction(c["p"]) != 0)
        ctx.seen(c["text"], nontrivial)
        if not ok:
            ctx.count("not-a-value")
            ctx.oracle_fail({"class": "no-value:" + c["phrase"], "what": "the phrase did not evaluate to a value",
                             "ops": [{"op": "exec", "lang": "en", "text": c["text"]}], "impl": l if "lines" in r else r})
            continue
        v = l["ok"]
        got_kind = v["t"]
        val = O.f64(v["v"]) if "v" in v else None
        scale = max(abs(float(Fraction(c["x"]))), abs(float(Fraction(c["x"]) * Fraction(c["p"]) / 100)))
        bad = None
        if got_kind != c["kind"]:
            bad = f"kind {got_kind} instead of {c['kind']}"
        elif c["kind"] == "M" and v["cur"].lower() != c["cur"]:
            bad = f"currency {v['cur']} instead of {c['cur']}"
        elif not O.close(val, c["spec"], scale):
            bad = f"value {val!r} but the formula gives {float(c['spec'])!r}"
        if bad:
            ctx.oracle_fail({"class": "formula:" + c["phrase"], "what": bad, "ops": [{"op": "exec", "lang": "en", "text": c["text"]}],
                             "impl": v, "spec": str(c["spec"])})
        if len(ctx.samples) < 10 and nontrivial:
            ctx.sample({"text": c["text"], "impl": v, "spec": float(c["spec"])})
    # the same phrases under the other separator conventions (literals rewritten into the convention): the formulas do not depend
    # on how the calculator is configured to read and print numbers
    other_texts = []
    for (dec_, thou_) in [(".", ","), (".", ""), (",", "")]:
        sub = [c for c in cases[:ctx.n(900, 12000)] if "'" not in c["text"]]
        texts = [c["text"].replace(".", "\x00").replace(",", dec_).replace("\x00", thou_) for c in sub]
        cfg_ = {"op": "cfg", "dec": dec_, "thou": thou_}
        res2 = C.run_impl([cfg_] + [{"op": "exec", "lang": "en", "text": t} for t in texts] + [{"op": "cfg", "dec": ",", "thou": "."}])[1:-1]
        for c, t2, r in zip(sub, texts, res2):
            rops = [cfg_, {"op": "exec", "lang": "en", "text": t2}, {"op": "cfg", "dec": ",", "thou": "."}]
            ctx.count(f"conv:{dec_}{thou_ or '∅'}")
            ctx.seen((dec_, thou_, t2), Fraction(c["x"]) != 0 or Fraction(c["p"]) != 0)
            l = r.get("lines", [None])[0] if "lines" in r else None
            if not (l is not None and "ok" in l and l["ok"] is not None):
                ctx.oracle_fail({"class": "no-value:" + c["phrase"] + ":other-convention", "what": f"the phrase did not evaluate to a value under dec={dec_!r} thou={thou_!r}",
                                 "ops": rops, "impl": l if "lines" in r else r})
                continue
            v = l["ok"]
            val = O.f64(v["v"]) if "v" in v else None
            scale = max(abs(float(Fraction(c["x"]))), abs(float(Fraction(c["x"]) * Fraction(c["p"]) / 100)))
            if v["t"] != c["kind"] or (c["kind"] == "M" and v["cur"].lower() != c["cur"]) or not O.close(val, c["spec"], scale):
                ctx.oracle_fail({"class": "formula:" + c["phrase"] + ":other-convention", "what": f"under dec={dec_!r} thou={thou_!r}: {v}, the formula gives {float(c['spec'])!r} ({c['kind']})",
                                 "ops": rops, "impl": v, "spec": str(c["spec"])})
        other_texts += [(dec_, thou_, t) for t in texts[:ctx.n(150, 1500)]]
    # correspondence with the model (values bit-exact, kinds, output)
    if model_ok:
        co = wire.Corr(ctx, compare=("kind", "value"))
        co.run([{"lang": "en", "text": c["text"]} for c in cases[:ctx.n(1500, 20000)]] + [{"lang": "en", "text": t} for t in curated] +
               [{"lang": "en", "text": t, "cfg": [{"op": "cfg", "dec": d_, "thou": t_}]} for (d_, t_, t) in other_texts])
        ctx.dist.update({"corr:" + k: v for k, v in co.stats.items()})


def replay(ctx, data, model_ok):
    for f in data.get("failures", []):
        res = C.run_impl(f["ops"])
        ctx.seen(C.json.dumps(f["ops"]), True)
        ctx.sample({"ops": f["ops"], "impl": res})
        print("replayed:", C.json.dumps(f["ops"], ensure_ascii=False), "->", C.json.dumps(res, ensure_ascii=False)[:300])
    run(ctx, model_ok)
