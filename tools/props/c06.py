"""C06 — money literals, currency conversion and money arithmetic follow the rate table."""
from decimal import Decimal
from fractions import Fraction
from tools import common as C, wire, oracle as O

LEAN_MODULES = ["SCP.C06"]
THEOREMS = ["SCP.C06." + t for t in """convertCurrency_formula convertCurrency_self convert_rule add_money sub_money div_money
mul_number div_number rate_setRate updateCurrency_frame updateCurrency_false_iff updateCurrency_false_noop rate_updateCurrency
rate_frame rates_have_currency aliases_resolve no_zero_rate""".split()]
RULE = ("EXHAUSTIVE over all ordered pairs of currencies that have a rate (conversion 'a A to B' with two amounts each), plus "
        "random literal spellings (symbol / code / alias, 0-2 blanks, k/M suffix in both syntaxes, upper/lower case), money "
        "arithmetic (+ - between two currencies, * / by numbers, money / money) and histories of update_currency calls (by code, "
        "alias, symbol, unknown name) interleaved with conversions; non-trivial = evaluated to a value with a non-zero amount; "
        "distinct = distinct (history, line)")
ASSUMPTIONS = ["formula theorems over exact rationals; implementation doubles compared with relative tolerance 1e-9 and bit-for-bit "
               "with the Float model", "spellings the money regexes do not support (ISO code before the amount) are not demanded"]
TRUSTED = ["serde_json reads each rate of config.json as the correctly rounded double (cross-checked by the translator)"]

_cfg = None


def cfg():
    global _cfg
    if _cfg is None:
        raw = open(C.REPO + "/src/json/config.json", encoding="utf-8").read()
        _cfg = C.json.loads(raw, parse_float=lambda s: s)
    return _cfg


def tables():
    c = cfg()
    cur = {k.lower(): v for k, v in c["currencies"].items()}
    rates = {cur[k]["code"]: Fraction(Decimal(v)) for k, v in c["currency_rates"].items() if k in cur}
    alias = {a: t for a, t in c["currency_alias"].items() if t in cur}
    return cur, rates, alias


def read_currency(name):
    cur, _, alias = tables()
    k = name.lower()
    if k in alias:
        return cur[alias[k]]["code"]
    if k in cur:
        return cur[k]["code"]
    return None


ZONE_OR_WORD = None


def spelling(rng, code, amount):
    """a literal for `amount` (python-notation string) of currency `code`; returns text"""
    cur, _, alias = tables()
    info = cur[code.lower()]
    names = [code.lower(), code.upper(), code.capitalize()] + [a for a, t in alias.items() if t == code.lower()]
    a = O.dec(amount)
    k = rng.random()
    sym = [n for n in names if not n.isalpha()]
    if sym and k < 0.3:
        s = rng.choice(sym)
        return s + a if rng.random() < 0.5 else a + rng.choice(["", " "]) + s
    name = rng.choice([n for n in names if n.isalpha() and len(n) >= 2])
    return a + rng.choice(["", " ", "  "]) + name


def money_val(l):
    if l is None or "ok" not in l or l["ok"] is None:
        return None
    return l["ok"]


def run(ctx, model_ok):
    rng = ctx.rng
    cur, rates, alias = tables()
    codes = sorted(rates.keys())
    cases = []   # dict(text, expect=(kind, cur, Fraction), cfg=[...], klass)
    # exhaustive conversion pairs
    for A in codes:
        for B in codes:
            for amt in (["1", "1234.56"] if ctx.quick() else ["1", "1234.56", "0", "-7.5", "1000000", "0.01"]):
                conn = rng.choice(["to", "in", "as", "into", "TO"])
                text = f"{O.dec(amt)} {A.lower()} {conn} {B.lower()}"
                cases.append({"text": text, "expect": ("M", B, Fraction(amt) * rates[B] / rates[A]), "klass": "convert-pair", "scale": float(Fraction(amt))})
    ctx.exhaustive = True
    ctx.count("pairs", len(codes) * len(codes))
    n = ctx.n(1500, 40000)
    for _ in range(n):
        A, B = rng.choice(codes), rng.choice(codes)
        a, b = O.signed(rng, O.numclass(rng), 0.1), O.numclass(rng)
        k = rng.random()
        if k < 0.25:
            text = spelling(rng, A, a)
            exp = ("M", A, Fraction(a))
            kl = "literal"
        elif k < 0.35:
            suf, mul = rng.choice([("k", 10**3), ("K", 10**3), ("M", 10**6)])
            a = str(rng.randint(1, 999))
            if rng.random() < 0.5 and any(not x.isalpha() for x in [n for n, t in alias.items() if t == A.lower()]):
                s = rng.choice([n for n, t in alias.items() if t == A.lower() and not n.isalpha()])
                text = f"{s}{a}{suf}"
            else:
                text = f"{a}{suf} {A.lower()}"
            exp = ("M", A, Fraction(a) * mul)
            kl = "suffix"
        elif k < 0.5:
            text = f"{spelling(rng, A, a)} {rng.choice(['to', 'in', 'as', 'into'])} {rng.choice([B.lower(), B.upper()] + [n for n, t in alias.items() if t == B.lower() and n.isalpha()])}"
            exp = ("M", B, Fraction(a) * rates[B] / rates[A])
            kl = "convert"
        elif k < 0.65:
            op = rng.choice("+-")
            text = f"{O.dec(a)} {A.lower()} {op} {O.dec(b)} {B.lower()}"
            conv = Fraction(b) * rates[A] / rates[B]
            exp = ("M", A, Fraction(a) + conv if op == "+" else Fraction(a) - conv)
            kl = "add-sub"
        elif k < 0.8:
            op = rng.choice("*/")
            text = f"{O.dec(a)} {A.lower()} {op} {O.dec(b)}"
            exp = ("M", A, Fraction(a) * Fraction(b) if op == "*" else (Fraction(0) if Fraction(b) == 0 else Fraction(a) / Fraction(b)))
            kl = "scale"
        else:
            text = f"{O.dec(a)} {A.lower()} / {O.dec(b)} {B.lower()}"
            conv = Fraction(b) * rates[A] / rates[B]
            exp = ("N", None, Fraction(0) if conv == 0 else Fraction(a) / conv)
            kl = "ratio"
        cases.append({"text": text, "expect": exp, "klass": kl, "scale": max(abs(float(Fraction(a))), abs(float(Fraction(b))))})
    # histories of rate updates: every evaluation involves a currency whose rate was written
    hist_cases = []
    unrated = sorted(k.upper() for k in cur if cur[k]["code"] not in rates)[:40]
    for _ in range(ctx.n(120, 4000)):
        cur_rates = dict(rates)
        ops = []
        touched = []
        pairs_seen = []   # ordered pairs already evaluated in this history: evaluated again after further updates (a result
        #                   remembered per pair must not survive an update of one of its currencies, however the update spells it)
        warm = rng.random() < 0.5
        for step in range(rng.randint(2, 8)):
            if (rng.random() < 0.45 or not touched) and not (warm and step == 0):
                code = rng.choice(touched) if touched and rng.random() < 0.35 else rng.choice(rng.choice(pairs_seen)) if pairs_seen and rng.random() < 0.6 else (rng.choice(unrated) if rng.random() < 0.1 else ("USD" if rng.random() < 0.15 else rng.choice(codes)))
                names = [code.lower(), code.upper()] + [n for n, t in alias.items() if t == code.lower()]
                name = rng.choice(names) if rng.random() < 0.85 else rng.choice(["zzz", "", "us", "dollars"])
                v = rng.choice(["2", "0.5", "123.456", "1", "0.0001", "1000000", "3", "7.25"])
                target = read_currency(name)
                ops.append({"op": "rate", "cur": name, "v": v, "code": target, "expect_ret": target is not None})
                if target is not None:
                    cur_rates[target] = Fraction(v)
                    if target not in touched:
                        touched.append(target)
            else:
                aliased = sorted({t.upper() for t in alias.values() if t.upper() in cur_rates})
                X = rng.choice(touched) if touched else (rng.choice(aliased) if aliased and rng.random() < 0.6 else rng.choice(codes))
                Y = rng.choice([c for c in codes if c in cur_rates] + touched)
                A, B = (X, Y) if rng.random() < 0.5 else (Y, X)
                if pairs_seen and rng.random() < 0.45:
                    A, B = rng.choice(pairs_seen)
                pairs_seen.append((A, B))
                amt, amt2 = rng.choice(["1", "100", "12.5"]), rng.choice(["3", "40", "0.75"])
                k = rng.random()
                if k < 0.5:
                    text = f"{O.dec(amt)} {A.lower()} to {B.lower()}"
                    exp = ("M", B, Fraction(amt) * cur_rates[B] / cur_rates[A])
                elif k < 0.8:
                    op = rng.choice("+-")
                    text = f"{O.dec(amt)} {A.lower()} {op} {O.dec(amt2)} {B.lower()}"
                    conv = Fraction(amt2) * cur_rates[A] / cur_rates[B]
                    exp = ("M", A, Fraction(amt) + conv if op == "+" else Fraction(amt) - conv)
                else:
                    text = f"{O.dec(amt)} {A.lower()} / {O.dec(amt2)} {B.lower()}"
                    exp = ("N", None, Fraction(amt) / (Fraction(amt2) * cur_rates[A] / cur_rates[B]))
                ops.append({"op": "exec", "lang": "en", "text": text, "expect": exp, "scale": float(Fraction(amt))})
        hist_cases.append(ops)

    # every alias / symbol spelling of update_currency, between two evaluations of the same ordered pair (both directions): what was
    # evaluated before the update must not be remembered behind it, however the update names the currency
    for a_name, tgt in sorted(alias.items()):
        T = cur[tgt]["code"]
        if T not in rates:
            continue
        other = "EUR" if T == "USD" else "USD"
        for name in (a_name, a_name.upper(), T.lower()):
            cr = dict(rates)
            ops = []

            def ev(A, B, amt="10"):
                ops.append({"op": "exec", "lang": "en", "text": f"{O.dec(amt)} {A.lower()} to {B.lower()}",
                            "expect": ("M", B, Fraction(amt) * cr[B] / cr[A]), "scale": float(Fraction(amt))})
            ev(other, T)
            ev(T, other)
            for v in ("10", "0.25"):
                target = read_currency(name)
                ops.append({"op": "rate", "cur": name, "v": v, "code": target, "expect_ret": target is not None})
                if target is not None:
                    cr[target] = Fraction(v)
                ev(other, T)
                ev(T, other)
            hist_cases.append(ops)

    # ---- run plain cases
    res = C.run_impl([{"op": "exec", "lang": "en", "text": c["text"]} for c in cases])
    for c, r in zip(cases, res):
        check_value(ctx, c, r, [{"op": "exec", "lang": "en", "text": c["text"]}])
    # ---- literals with a k/M suffix under other language tags (the second language, tags the configuration does not know):
    #      the amount, its suffix and the currency are read by the same tokenizer whatever the tag
    sub = [c for c in cases if c["klass"] == "suffix"]
    tagged = [(c, rng.choice(["tr", "de", "EN", "", "en-US", "xx"])) for c in sub[:ctx.n(150, 3000)]]
    res = C.run_impl([{"op": "exec", "lang": t, "text": c["text"]} for c, t in tagged])
    for (c, t), r in zip(tagged, res):
        check_value(ctx, dict(c, klass="suffix-other-tag"), r, [{"op": "exec", "lang": t, "text": c["text"]}])
    # ---- run histories (fresh calculator each)
    flat = []
    for ops in hist_cases:
        flat.append({"op": "reset"})
        for o in ops:
            flat.append({k: v for k, v in o.items() if k in ("op", "cur", "v", "lang", "text")})
    flat.append({"op": "reset"})
    hres = C.run_impl(flat)
    i = 0
    for ops in hist_cases:
        i += 1
        clean = [{k: v for k, v in o.items() if k in ("op", "cur", "v", "lang", "text")} for o in ops]
        for o in ops:
            r = hres[i]
            i += 1
            if o["op"] == "rate":
                ctx.seen(("hist", C.json.dumps(clean), i), True)
                ctx.count("rate-update:" + ("known" if o["expect_ret"] else "unknown"))
                if r.get("ret") != o["expect_ret"]:
                    ctx.oracle_fail({"class": "update-return", "what": f"update_currency({o['cur']!r}) returned {r.get('ret')} expected {o['expect_ret']}",
                                     "ops": [{"op": "reset"}] + clean, "impl": r})
            else:
                check_value(ctx, {"text": o["text"], "expect": o["expect"], "klass": "history", "scale": o["scale"]}, r, [{"op": "reset"}] + clean)
    # ---- correspondence with the model
    if model_ok:
        co = wire.Corr(ctx, compare=("kind", "value", "out"))
        sub = cases[::max(1, len(cases) // ctx.n(1500, 20000))]
        co.run([{"lang": "en", "text": c["text"]} for c in sub])
        hc = []
        for ops in hist_cases[:ctx.n(40, 1000)]:
            cfgops = []
            for o in ops:
                if o["op"] == "rate":
                    if o["code"]:
                        cfgops.append({"op": "rate", "cur": o["cur"], "v": o["v"], "code": o["code"]})
                else:
                    hc.append({"lang": "en", "text": o["text"], "cfg": list(cfgops) or [{"op": "cfg"}], "reset_after": True})
        co.run(hc)
        ctx.dist.update({"corr:" + k: v for k, v in co.stats.items()})


def check_value(ctx, c, r, ops):
    l = r.get("lines", [None])[0] if "lines" in r else None
    v = money_val(l)
    kind, code, spec = c["expect"]
    ctx.count("class:" + c["klass"])
    ctx.seen((c["klass"], C.json.dumps(ops, ensure_ascii=False)), v is not None and spec != 0)
    if v is None:
        ctx.oracle_fail({"class": "no-value:" + c["klass"], "what": "did not evaluate to a value", "ops": ops, "impl": l if "lines" in r else r})
        return
    bad = None
    if v["t"] != kind:
        bad = f"kind {v['t']} instead of {kind}"
    elif kind == "M" and v["cur"] != code:
        bad = f"currency {v['cur']} instead of {code}"
    elif not O.close(O.f64(v["v"]), spec, max(c.get("scale", 1.0), abs(float(spec)))):
        bad = f"amount {O.f64(v['v'])!r}, the rate table gives {float(spec)!r}"
    if bad:
        ctx.oracle_fail({"class": "money:" + c["klass"], "what": bad, "ops": ops, "impl": v, "spec": [kind, code, str(spec)]})
    elif len(ctx.samples) < 10 and ctx.rng.random() < 0.01:
        ctx.sample({"ops": ops[-3:], "impl": v, "spec": float(spec)})


def replay(ctx, data, model_ok):
    for f in data.get("failures", []):
        res = C.run_impl(f["ops"])
        ctx.seen(C.json.dumps(f["ops"]), True)
        ctx.sample({"ops": f["ops"], "impl": res})
        print("replayed:", C.json.dumps(f["ops"], ensure_ascii=False)[:300], "->", C.json.dumps(res[-1], ensure_ascii=False)[:300])
    run(ctx, model_ok)
