"""C07 — numbers print correctly rounded, grouped and signed in every format setting."""
import struct
import decimal
from decimal import Decimal, ROUND_HALF_EVEN
decimal.getcontext().prec = 1500
from tools import common as C, wire, oracle as O

LEAN_MODULES = ["SCP.C07", "SCP.Setters"]
THEOREMS = ["SCP.C07." + t for t in """digitOf_radixDigit radixValue_append radixValue_radixDigits radixDigits_ne_nil roundQuot_nearest
roundQuot_tie_even fixedParts_value group_ungroup group_empty_sep group_shape groupsFromRight_flatten format_shape splitDot_join""".split()] + ["SCP.Setters.run_num", "SCP.Setters.run_pct", "SCP.Setters.run_money", "SCP.Setters.run_frame"]
RULE = ("values injected exactly ([NUMBER:x] / [PERCENT:x] atoms, money and unit literals) from the classes {rounding ties "
        "k+0.5*10^-N +- ulp, 99..9.995, |x| < 10^-N, 10^k +- 1 up to 1e22, negatives, random doubles} x decimal digits 0..9 x "
        "zero-fraction removal x rounding x 5 separator pairs x kinds number/percent/money (every currency's digits, symbol, "
        "placement)/unit; oracle = exact decimal expansion of the double rounded half-even (Python Decimal), grouped; "
        "non-trivial = the value has a non-zero fraction or >= 4 integer digits; distinct = distinct (config, kind, value); user-defined units "
        "registered with every combination of (digits in {unset,0,3}) x (rounding in {unset,on,off}) x (remove-zero in {unset,on,off}) "
        "print by their own settings")
ASSUMPTIONS = ["Rust's `{:.N}` / Display are correctly rounded / shortest (the model's soft-float versions are proved / validated against them on every run)",
               "decimal digits 0..9 as the property says (10..22 are exercised without oracle for panics only in C01)"]
TRUSTED = ["atom lexer glue ([NUMBER:x] parses x with str::parse::<f64>)"]

SEPS = [(",", "."), (".", ","), (",", ""), (".", ""), (",", " "), (",", "&nbsp;"), (".", ", "), (",", "''"), (",", "\u202f")]


def fixed(x, n):
    d = Decimal(abs(x))
    q = d.quantize(Decimal(1).scaleb(-n), rounding=ROUND_HALF_EVEN)
    s = format(q, "f")
    return s


def short(x):
    s = repr(abs(x))
    if "e" in s or "E" in s:
        s = format(Decimal(s), "f")
    if s.endswith(".0"):
        s = s[:-2]
    return s


def spec_format(x, dec, thou, digits, remove_zero, rounding):
    s = fixed(x, digits) if rounding else short(x)
    ip, _, fp = s.partition(".")
    groups = []
    while len(ip) > 3:
        groups.insert(0, ip[-3:])
        ip = ip[:-3]
    groups.insert(0, ip)
    # the sign belongs to the ROUNDED value: a negative number whose printed digits are all zero is printed without '-'
    # (otherwise '-0,00' typed back would print '0,00': C15); see DESIGN.md §7 C07
    out = ("-" if x < 0 and set(s) - {"0", "."} else "") + thou.join(groups)
    if fp and not (remove_zero and set(fp) <= {"0"}):
        out += dec + fp
    return out


def ulp_neighbors(x):
    b = struct.unpack(">Q", struct.pack(">d", x))[0]
    return [struct.unpack(">d", struct.pack(">Q", b + d))[0] for d in (-1, 0, 1) if 0 < b + d < 0x7ff0000000000000]


def values(rng, digits):
    out = []
    k = rng.randint(0, 10**rng.randint(0, 7))
    tie = (k + 0.5) / 10**digits
    out += ulp_neighbors(tie)
    out += ulp_neighbors(float("9" * rng.randint(1, 8) + "." + "9" * max(0, digits - 1) + "5") if digits < 9 else 99.9999999995)
    out.append(rng.random() / 10**(digits + rng.randint(0, 2)))
    e = rng.randint(0, 22)
    out += [float(10**e), float(10**e - 1), float(10**e + 1)]
    out.append(rng.uniform(-1e7, 1e7))
    out.append(round(rng.uniform(0, 1e5), rng.randint(0, 5)))
    out += [0.995, 1.005, 99.995, 0.5, 1.5, 2.5, 0.125, 1234567.891, 0.0, 1e21, 999.9995, 0.045, 1e-7]
    res = []
    for v in out:
        if v == v and abs(v) < 1e23:
            res.append(v)
            if rng.random() < 0.3:
                res.append(-v)
    return res


def pyfloat_text(x):
    """decimal text that str::parse::<f64> reads back to exactly x"""
    return format(Decimal(repr(x)), "f") if ("e" in repr(x) or "E" in repr(x)) else repr(x)


def run(ctx, model_ok):
    rng = ctx.rng
    cfgj = C.json.load(open(C.REPO + "/src/json/config.json", encoding="utf-8"))
    curs = sorted(cfgj["currencies"].keys())
    cases = []
    configs = []
    for digits in range(0, 10):
        for rz in (True, False):
            for rnd in (True, False):
                configs.append((digits, rz, rnd))
    rng.shuffle(configs)
    per = ctx.n(6, 60)
    for (digits, rz, rnd) in configs:
        dec, thou = rng.choice(SEPS)
        # percentages and money have their own settings: they differ from the number settings in half of the configurations
        pd, prz, prnd = (digits, rz, rnd) if rng.random() < 0.5 else (rng.randint(0, 9), rng.random() < 0.5, rng.random() < 0.5)
        mrz, mrnd = (rz, rnd) if rng.random() < 0.5 else (rng.random() < 0.5, rng.random() < 0.5)
        cfg = [{"op": "cfg", "dec": dec, "thou": thou, "num": [digits, rz, rnd], "pct": [pd, prz, prnd], "money": [mrz, mrnd]}]
        vals = values(rng, digits)
        if not ctx.quick():
            for _ in range(8):
                vals += values(rng, digits)
        rng.shuffle(vals)
        for v in vals[:per * 4]:
            kind = rng.choice(["number", "number", "percent", "money", "unit"])
            t = pyfloat_text(v)
            if kind == "number":
                text, want = f"[NUMBER:{t}]", spec_format(v, dec, thou, digits, rz, rnd)
            elif kind == "percent":
                text, want = f"[PERCENT:{t}]", "%" + spec_format(v, dec, thou, pd, prz, prnd)
            elif kind == "money":
                code = rng.choice(curs)
                info = cfgj["currencies"][code]
                if abs(v) >= 1e15 or "e" in repr(v).lower():
                    continue
                lit = t.replace(".", dec)
                text = f"{lit} {code.lower()}"
                p = spec_format(v, dec, thou, info["decimalDigits"], mrz, mrnd)
                sym = info["symbol"]
                want = (sym + (" " if info["spaceBetweenAmountAndSymbol"] else "") + p) if info["symbolOnLeft"] else (p + (" " if info["spaceBetweenAmountAndSymbol"] else "") + sym)
            else:
                if abs(v) >= 1e15 or "e" in repr(v).lower():
                    continue
                lit = t.replace(".", dec)
                text = f"{lit} km"
                want = spec_format(v, dec, thou, 2, True, True) + " Kilometer"
            cases.append({"cfg": cfg, "lang": "en", "text": text, "want": want, "v": v, "kind": kind, "digits": digits})
    # ONE setter at a time between evaluations: after a full configuration and a print of every kind, only the number, only the
    # percentage or only the money settings change, and every kind is printed again — what a print remembers about the settings
    # must not outlive a change of any one of them
    for _ in range(ctx.n(40, 1200)):
        dec, thou = rng.choice(SEPS)
        st_ = {"num": [2, True, True], "pct": [2, True, True], "money": [False, True]} if rng.random() < 0.5 else \
              {"num": [rng.randint(0, 6), rng.random() < 0.5, rng.random() < 0.5], "pct": [rng.randint(0, 6), rng.random() < 0.5, rng.random() < 0.5], "money": [rng.random() < 0.5, rng.random() < 0.5]}
        first = True
        hops = []
        for step in range(rng.randint(2, 4)):
            if first:
                cfg = [{"op": "cfg", "dec": dec, "thou": thou, "num": st_["num"], "pct": st_["pct"], "money": st_["money"]}]
                first = False
            else:
                which = rng.choice(["num", "pct", "pct", "money"])
                st_[which] = [rng.choice([0, 1, 3, 4, 5]), rng.random() < 0.5, rng.random() < 0.5] if which != "money" else [rng.random() < 0.5, rng.random() < 0.5]
                cfg = [{"op": "cfg", which: st_[which]}]
            full = [{"op": "cfg", "dec": dec, "thou": thou, "num": st_["num"], "pct": st_["pct"], "money": st_["money"]}]
            for kind in ("number", "percent", "money"):
                v = rng.choice([1234.5678, 0.123456, 1234.5, 99.995, 1000000.25, 7.0])
                t = pyfloat_text(v)
                if kind == "number":
                    text, want = f"[NUMBER:{t}]", spec_format(v, dec, thou, *st_["num"][:1], st_["num"][1], st_["num"][2])
                elif kind == "percent":
                    text, want = f"[PERCENT:{t}]", "%" + spec_format(v, dec, thou, st_["pct"][0], st_["pct"][1], st_["pct"][2])
                else:
                    info = cfgj["currencies"]["USD" if "USD" in cfgj["currencies"] else "usd"]
                    p_ = spec_format(v, dec, thou, info["decimalDigits"], st_["money"][0], st_["money"][1])
                    text = f"{t.replace('.', dec)} usd"
                    want = (info["symbol"] + (" " if info["spaceBetweenAmountAndSymbol"] else "") + p_) if info["symbolOnLeft"] else (p_ + (" " if info["spaceBetweenAmountAndSymbol"] else "") + info["symbol"])
                hops = hops + cfg + [{"op": "exec", "lang": "en", "text": text}]
                cases.append({"cfg": cfg, "lang": "en", "text": text, "want": want, "v": v, "kind": kind, "digits": st_["num"][0], "hist_ops": hops, "full": full})
                cfg = []
    # run (config cases are stateful: sequential, default restored by Corr-like framing)
    ops = []
    DEFAULT = [{"op": "cfg", "dec": ",", "thou": ".", "num": [2, True, True], "pct": [2, True, True], "money": [False, True]}]
    for c in cases:
        ops.extend(c["cfg"])
        ops.append({"op": "exec", "lang": "en", "text": c["text"]})
    ops.extend(DEFAULT)
    res = C.run_impl(ops)
    i = 0
    for c in cases:
        i += len(c["cfg"])
        r = res[i]
        i += 1
        l = r.get("lines", [None])[0] if "lines" in r else None
        v = c["v"]
        nontrivial = (v != int(v)) or abs(v) >= 1000
        ctx.seen((C.json.dumps(c["cfg"]), c["kind"], repr(v), c["text"]), nontrivial)
        ctx.count("kind:" + c["kind"])
        ctx.count("digits:" + str(c["digits"]))
        case_ops = (c["hist_ops"] if "hist_ops" in c else c["cfg"] + [{"op": "exec", "lang": "en", "text": c["text"]}]) + DEFAULT
        if l is None or "out" not in l:
            ctx.oracle_fail({"class": "no-output:" + c["kind"], "what": "value did not print", "ops": case_ops, "impl": l if "lines" in r else r, "spec": c["want"]})
            continue
        if c["kind"] in ("money", "unit"):
            # the literal must have been read exactly for the oracle to apply
            ok = l.get("ok") or {}
            if "v" not in ok or O.f64(ok["v"]) != v:
                ctx.count("literal-not-exact(skipped)")
                continue
        if l["out"] != c["want"]:
            ctx.oracle_fail({"class": "print:" + c["kind"], "what": f"printed {l['out']!r}, correct rounding/grouping gives {c['want']!r} for the value {v!r}",
                             "ops": case_ops, "impl": l["out"], "spec": c["want"]})
        elif len(ctx.samples) < 10 and nontrivial and rng.random() < 0.02:
            ctx.sample({"cfg": c["cfg"][0], "text": c["text"], "printed": l["out"]})
    # user-defined units carry their own digit count and flags (add_dynamic_type_item): every combination
    items = []
    idx = 1
    for digs in (None, 0, 3):
        for rnd in (None, True, False):
            for rz in (None, True, False):
                items.append({"op": "dtype_item", "name": "fmtfam", "index": idx, "format": "{value} zzf" + "abcdefghijklmnopqrstuvwxyz"[(idx - 1) // 5] + "vwxyz"[(idx - 1) % 5],
                              "parse": ["{NUMBER:value} {TEXT:type:zzf" + "abcdefghijklmnopqrstuvwxyz"[(idx - 1) // 5] + "vwxyz"[(idx - 1) % 5] + "}"],
                              "up": "{value} / 10", "down": "{value} * 10", "names": ["zzf" + "abcdefghijklmnopqrstuvwxyz"[(idx - 1) // 5] + "vwxyz"[(idx - 1) % 5]],
                              **({} if digs is None else {"digits": digs}), **({} if rnd is None else {"rounding": rnd}),
                              **({} if rz is None else {"remove_zero": rz}), "_flags": (digs, rnd, rz)})
                idx += 1
    uops = [{"op": "reset"}, {"op": "dtype_add", "name": "fmtfam"}] + [{k: v for k, v in it.items() if k != "_flags"} for it in items]
    ucases = []
    for it in items:
        digs, rnd, rz = it["_flags"]
        d_eff, rnd_eff, rz_eff = (2 if digs is None else digs), (True if rnd is None else rnd), (True if rz is None else rz)
        for v in (values(rng, d_eff) + (values(rng, d_eff) if not ctx.quick() else []))[:ctx.n(6, 30)]:
            if abs(v) >= 1e15 or "e" in repr(v).lower():
                continue
            word = it["names"][0]
            ucases.append({"text": pyfloat_text(v).replace(".", ",") + " " + word, "v": v, "flags": it["_flags"],
                           "want": spec_format(v, ",", ".", d_eff, rz_eff, rnd_eff) + " " + word})
    ures = C.run_impl(uops + [{"op": "exec", "lang": "en", "text": c["text"]} for c in ucases] + [{"op": "reset"}])
    for c, r in zip(ucases, ures[len(uops):]):
        l = r.get("lines", [None])[0] if "lines" in r else None
        ctx.seen(("user-unit", c["text"], str(c["flags"])), True)
        ctx.count("kind:user-unit")
        ok = (l or {}).get("ok") or {}
        if "v" not in ok or O.f64(ok["v"]) != c["v"]:
            ctx.count("literal-not-exact(skipped)")
            continue
        if l.get("out") != c["want"]:
            ctx.oracle_fail({"class": "print:user-unit", "what": f"unit registered with (digits, rounding, remove-zero) = {c['flags']} printed {l.get('out')!r}, its settings give {c['want']!r}",
                             "ops": uops + [{"op": "exec", "lang": "en", "text": c["text"]}, {"op": "reset"}], "impl": l.get("out"), "spec": c["want"]})
    if model_ok:
        # soft-float edge self-test + output correspondence
        ml, io = [], []
        for c in cases[:ctx.n(400, 5000)]:
            b = struct.pack(">d", c["v"]).hex()
            io.append({"op": "f64", "fn": "fixed", "arg": "bits:" + b, "n": c["digits"]})
            ml.append(f"f64fixed\t{b}\t{c['digits']}")
            io.append({"op": "f64", "fn": "short", "arg": "bits:" + b})
            ml.append(f"f64short\t{b}")
        ri, rm = C.run_impl(io), C.run_model(ml)
        for o, a, b in zip(io, ri, rm):
            if a.get("s") != b:
                ctx.disagree({"what": "soft-float edge differs from Rust", "op": o, "impl": a, "model": b})
            else:
                ctx.traces_validated += 1
        co = wire.Corr(ctx, compare=("kind", "value", "out"))
        co.run([{"lang": "en", "text": c["text"], "cfg": c.get("full", c["cfg"])} for c in cases[:ctx.n(600, 8000)]])
        ctx.dist.update({"corr:" + k: v for k, v in co.stats.items()})


def replay(ctx, data, model_ok):
    for f in data.get("failures", []):
        res = C.run_impl(f["ops"])
        ctx.seen(C.json.dumps(f["ops"]), True)
        ctx.sample({"ops": f["ops"], "impl": res})
        print("replayed:", C.json.dumps(f["ops"], ensure_ascii=False)[:300], "->", C.json.dumps([r for r in res if "lines" in r], ensure_ascii=False)[:300], "spec:", f.get("spec"))
    run(ctx, model_ok)
