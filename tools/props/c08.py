"""C08 — separators affect only reading and printing of numbers, never the computed value."""
import re
from tools import common as C, wire, oracle as O
from tools.gen import lines as L, corpus

LEAN_MODULES = ["SCP.C08", "SCP.C08Code", "SCP.Setters"]
THEOREMS = ["SCP.Setters." + t for t in "dec_thou_comm setThousand_writes setDecimal_writes run_dec run_thou run_same_last".split()] + \
    ["SCP.C08." + t for t in "strReplace_single read_write read_write_no_thousands read_same_number calc_ignores_separators".split()] + \
    ["SCP.C08Code." + t for t in "readLiteral_comma codeLex_comma executeCode_comma executeCode_sep calculateUnitWith_congr calculateUnit_sep convertUnitWith_congr convertUnit_sep exec_sep".split()]
RULE = ("every evaluable line of the shared generators (arithmetic, money, percent phrases, dates, durations, times, units incl. "
        "fractional conversions within and across families, a user-registered family whose conversion codes are not plain scalings, based numbers, variables over 2-3 lines) written in the default "
        "convention and rewritten into each of the conventions (',' '.'), ('.' ','), ('.' ''), (',' ''), with thousands "
        "separators inserted into literals that have a fraction; each configuration is reached from the previous case's one by set_decimal_seperator / set_thousand_separator in either order; metamorphic oracle: identical values (bit-exact) under both "
        "configurations; non-trivial = the line contains a literal with a fraction or a unit/currency conversion; distinct = "
        "distinct (line, convention)")
ASSUMPTIONS = ["unit conversion renders intermediate values in the configured convention and reads them back (executeCode): "
               "SCP.C08Code proves that the four conventions compute the same step / the same walk over a family, for every code and amount "
               "whose substituted text contains no ',' and has every '.' inside a number (codeTextOK); that hypothesis is evaluated by the "
               "model on every configured conversion code x the amounts of this run (it concerns f64::to_string, which is not modelled "
               "symbolically); conventions other than the four of the property (exotic separators) are decided by the metamorphic run"]
TRUSTED = ["number / money / percent lexer glue (exercised)"]

CONV = [(",", "."), (".", ","), (".", ""), (",", "")]
NUM = re.compile(r"(\d+),(\d+)")
COMMA_DATE = re.compile(r"([a-zA-Z]{3,9} \d{1,2}), (\d{1,4})")


def rewrite(text, dec, thou, rng):
    def rep(m):
        ip, fp = m.group(1), m.group(2)
        if thou and len(ip) > 3 and rng.random() < 0.7:
            g = []
            while len(ip) > 3:
                g.insert(0, ip[-3:])
                ip = ip[:-3]
            g.insert(0, ip)
            ip = thou.join(g)
        return ip + dec + fp
    return NUM.sub(rep, text)


INT = re.compile(r"(?<![\w.,:/#x])\d{4,}(?![\w.,:%])")


def mark_ints(text, rng):
    """choose integer literals (no fraction) of four and more digits that will be written with the thousands separator"""
    return INT.sub(lambda m: ("\x01" + m.group(0) + "\x02") if rng.random() < 0.6 else m.group(0), text)


def render_ints(text, thou):
    def rep(m):
        ip = m.group(1)
        if not thou:
            return ip
        g = []
        while len(ip) > 3:
            g.insert(0, ip[-3:])
            ip = ip[:-3]
        g.insert(0, ip)
        return thou.join(g)
    return re.sub("\x01(\\d+)\x02", rep, text)


UNITS = ["mm", "cm", "dm", "m", "dam", "hm", "km", "mg", "cg", "dg", "g", "dag", "hg", "kg", "tonne", "bit", "byte", "kb", "mb", "gb", "tb",
         "inch", "ft", "yard", "furlong", "mile", "oz", "lb", "stone"]
FAM = {u: f for f, us in {"len": ["mm", "cm", "dm", "m", "dam", "hm", "km", "inch", "ft", "yard", "furlong", "mile"],
                           "w": ["mg", "cg", "dg", "g", "dag", "hg", "kg", "tonne", "oz", "lb", "stone"], "mem": ["bit", "byte", "kb", "mb", "gb", "tb"]}.items() for u in us}


# a user-registered family whose conversion codes are not plain scalings (the amount stands inside parentheses / in a sum)
REG = [{"op": "dtype_add", "name": "tempv"},
       {"op": "dtype_item", "name": "tempv", "index": 0, "format": "{value} degf", "parse": ["{NUMBER:value} {TEXT:type:degf}"], "up": "({value} - 32) / 1.8", "down": "{value}", "names": ["degf"]},
       {"op": "dtype_item", "name": "tempv", "index": 1, "format": "{value} degc", "parse": ["{NUMBER:value} {TEXT:type:degc}"], "up": "{value} + 273.15", "down": "{value} * 1.8 + 32", "names": ["degc"]},
       {"op": "dtype_item", "name": "tempv", "index": 2, "format": "{value} degk", "parse": ["{NUMBER:value} {TEXT:type:degk}"], "up": "{value}", "down": "{value} - 273.15", "names": ["degk"]}]


def gen_line(rng):
    k = rng.random()
    if k < 0.06:
        a, b = rng.sample(["degf", "degc", "degk"], 2)
        v = rng.choice(["98,6", "37,5", "310,15", "-40", "0,5", "1234,5678", L.num(rng)])
        return rng.choice([f"{v} {a} to {b}", f"t = {v} {a}\nt to {b}", f"{v} {a} to {b} to {a}"])
    if k < 0.35:
        a = rng.choice(UNITS)
        b = rng.choice([u for u in UNITS if FAM[u] == FAM[a]])
        v = rng.choice(["1,5", "2,25", "0,001", "1234,5678", "1", "3", L.num(rng)])
        return rng.choice([f"{v} {a} to {b}", f"{v} {a} + {L.num(rng)} {b}", f"{v} {a} * 1,5", f"{v} {a} / 2,5 {b}"])
    if k < 0.5:
        return "x = " + L.value_line(rng) + "\nx * 1,5\ny = x\ny"
    for _ in range(5):
        lg, t = corpus.line(rng)
        # literals that are already written with the thousands separator are left to the rewriter of this module
        if lg == "en" and not re.search(r"\d\.\d", t):
            return t
    return L.value_line(rng)


def run(ctx, model_ok):
    rng = ctx.rng
    base = []
    while len(base) < ctx.n(1200, 40000):
        t = gen_line(rng)
        base.append(mark_ints(t, rng))
    # literals of every length from 30 to 100 characters (ungrouped form), with and without a fraction: a reader that treats a
    # particular length differently is met whatever that length is (the grouped spelling of the same number is 4/3 as long)
    first_long = len(base)
    for n_ in range(30, 101):
        ds = str(rng.randint(1, 9)) + "".join(rng.choice("0123456789") for _ in range(n_ - 1))
        base.append(f"\x01{ds}\x02 / 1000")
        base.append(f"{ds[:-2]},5 {rng.choice(['kg', 'km', 'usd', '* 2'])}")
        if n_ % 4 == 0:
            base.append(f"{ds[:-1]}% of 50")
    marked = base
    base = [render_ints(t, ".") for t in marked]
    ops = [{"op": "exec", "lang": "en", "text": t} for t in base]
    r0 = C.run_impl(REG + ops)[len(REG):]
    ops2, idx = [], []
    for bi, t in enumerate(base):
        for (dec, thou) in (CONV if bi >= first_long else rng.sample(CONV, 2 if ctx.quick() else 4)):
            t2 = render_ints(rewrite(marked[bi], dec, thou, rng), thou)
            # the configuration is reached from whatever the previous case left, by the two setters in either order
            ops2.append({"op": "cfg", "dec": dec, "thou": thou, "order": rng.choice(["dec-first", "thou-first"])})
            ops2.append({"op": "exec", "lang": "en", "text": t2})
            idx.append((bi, dec, thou, t2))
    ops2.append({"op": "cfg", "dec": ",", "thou": "."})
    r2 = C.run_impl(REG + ops2)[len(REG):]
    for j, (bi, dec, thou, t2) in enumerate(idx):
        a, b = r0[bi], r2[2 * j + 1]
        nontrivial = ("," in base[bi]) or (" to " in base[bi]) or ("\x01" in marked[bi])
        ctx.seen((t2, dec, thou), nontrivial)
        ctx.count(f"conv:{dec}{thou or '∅'}")
        if "lines" not in a or "lines" not in b:
            continue
        va = [None if l is None else (l.get("ok") if "ok" in l else "err") for l in a["lines"]]
        vb = [None if l is None else (l.get("ok") if "ok" in l else "err") for l in b["lines"]]
        if all(x in (None, "err") for x in va):
            ctx.count("base-not-evaluable")
            continue
        if va != vb:
            ctx.oracle_fail({"class": "separator-dependence", "what": f"value differs between the default convention and dec={dec!r} thou={thou!r}",
                             "ops": [{"op": "exec", "lang": "en", "text": base[bi]}] + ([ops2[2 * j - 2]] if j else []) + [ops2[2 * j], {"op": "exec", "lang": "en", "text": t2},
                                     {"op": "cfg", "dec": ",", "thou": "."}], "default": va, "other": vb})
        elif len(ctx.samples) < 8 and nontrivial and rng.random() < 0.01:
            ctx.sample({"default": base[bi], "other": t2, "dec": dec, "thou": thou, "value": va})
    if model_ok:
        vals = [0.0, 1.0, -1.0, 2.5, 0.001, 1e-7, 1234.5678, 1e21, 1e300, 5e-324, float("inf"), float("-inf"), float("nan"), -0.0, 123456789012345680.0, 0.1 + 0.2]
        vals += [rng.uniform(-1e6, 1e6) for _ in range(40)] + [rng.uniform(0, 1) * 10 ** rng.randint(-30, 30) for _ in range(40)]
        code_hypothesis(ctx, vals)
        co = wire.Corr(ctx, compare=("kind", "value"))
        co.run([{"lang": "en", "text": t2, "cfg": [{"op": "cfg", "dec": dec, "thou": thou}]} for (bi, dec, thou, t2) in idx[:ctx.n(600, 6000)] + [x for x in idx[ctx.n(600, 6000):] if x[0] >= first_long] if " deg" not in t2])
        ctx.dist.update({"corr:" + k: v for k, v in co.stats.items()})


def code_hypothesis(ctx, values):
    """hypothesis of SCP.C08Code.executeCode_comma on every configured conversion code x sample amounts"""
    import struct
    cfg = C.json.load(open(C.REPO + "/src/json/config.json", encoding="utf-8"))
    codes = set()
    for fam in cfg["types"]:
        for it in fam["items"]:
            for k in ("upgrade_code", "downgrade_code"):
                if it.get(k) is not None:
                    codes.add(it[k])
    for b in cfg["type_conversion"]:
        codes |= {b["to_source_calculation"], b["to_target_calculation"]}
    req, idx = [], []
    for code in sorted(codes):
        for v in values:
            req.append(f"codehyp\t{wire.hx(code)}\t{struct.pack('>d', v).hex()}")
            idx.append((code, v))
    for (code, v), a in zip(idx, C.run_model(req)):
        ctx.count("code-hypothesis:checked")
        if a != "1":
            ctx.disagree({"observable": "hypothesis codeTextOK of SCP.C08Code.executeCode_comma", "code": code, "value": v, "model": a})


def replay(ctx, data, model_ok):
    for f in data.get("failures", []):
        res = C.run_impl(f["ops"])
        ctx.seen(C.json.dumps(f["ops"]), True)
        ctx.sample({"ops": f["ops"], "impl": res})
        print("replayed:", C.json.dumps(f["ops"], ensure_ascii=False)[:400], "->", C.json.dumps([r.get("lines") for r in res if "lines" in r], ensure_ascii=False)[:400])
    run(ctx, model_ok)
