"""C09 — dates are read as calendar dates and date arithmetic is calendar arithmetic."""
import datetime
from tools import common as C, wire, oracle as O

LEAN_MODULES = ["SCP.C09", "SCP.Calendar"]
THEOREMS = ["SCP.C09." + t for t in """fromYmd_some_iff fromYmd_invalid smallDate_numeric smallDate_named smallDate_default_year never_invalid
phrase_month_day_comma_year phrase_month_day_year phrase_numeric phrase_day_month_year phrase_day_month phrase_tr dayNumber_in_range
addDays_dayNumber addDays_some add_days_partial sub_days_partial days_30_witness add_months month_index_add sub_months_partial
sub_months_borrow_witness add_years sub_years add_months_general to_abs_days to_symmetric today_consecutive today_dayNumber""".split()] + \
    ["SCP.Calendar." + t for t in "dayNumber_civilFromDays civilFromDays_valid civilFromDays_dayNumber dayNumber_lt_iff year_length".split()]
RULE = ("dates: all month ends, days 28..31, 29 Feb of leap / non-leap / century years, 31 Dec / 1 Jan, years 1, 4, 100, 400, 1900, 2000, current, "
        "9999 + uniform random in 1..9999; every spelling (d/m/y, 'd Mon y', 'd Month y', 'Mon d, y', 'Mon d y', 'd Mon' = current year) in en and "
        "(d/m/y, 'd ay y', 'd ay', every configured month name) in tr; impossible triples (day 0, 29..32, month 0 / 13) must not be dates; "
        "offsets N in {0,1,6,7,27..32,59..61,364..367,10^4, random} x {day, week, month, year} x {+,-} against Python's datetime (independent "
        "calendar); all pairs for 'to' in both orders; today / tomorrow / yesterday against the clock, in both languages; the model's constants "
        "against the implementation's; dates and date arithmetic shown under default zones on both sides of Greenwich (value and printed form as under UTC); non-trivial = month / year rollover, leap day, or an offset of at least one month; distinct = distinct lines")
ASSUMPTIONS = ["the run date supplies `now`; the theorems hold for every clock",
               "results whose target day does not exist (31 Jan + 1 month, 29 Feb + 1 year) are not demanded by the property and are skipped"]
TRUSTED = ["month-name and number lexing (regex layer) is exercised, not modelled", "chrono's NaiveDate = proleptic Gregorian calendar (modelled by SC.Chrono, proved a bijection)"]

MON_EN = ["jan", "feb", "mar", "apr", "may", "jun", "jul", "aug", "sep", "oct", "nov", "dec"]
LONG_EN = ["january", "february", "march", "april", "may", "june", "july", "august", "september", "october", "november", "december"]
UNIT_EN = {"day": ["day", "days"], "week": ["week", "weeks"], "month": ["month", "months"], "year": ["year", "years"]}
UNIT_TR = {"day": ["gün", "gun"], "week": ["hafta"], "month": ["ay"], "year": ["yıl", "yil"]}
YEAR, MONTH, DAY = 31536000, 2592000, 86400

_TR = None


def tr_months():
    global _TR
    if _TR is None:
        cfg = C.json.load(open(C.REPO + "/src/json/config.json", encoding="utf-8"))
        L = cfg["languages"]["tr"]
        names = [[] for _ in range(12)]
        for tab in ("long_months", "short_months"):
            for n, k in L[tab].items():
                if 1 <= k <= 12:
                    names[k - 1].append(n)
        _TR = names
    return _TR


def valid(y, m, d):
    try:
        datetime.date(y, m, d)
        return True
    except ValueError:
        return False


def gen_date(rng, this_year):
    k = rng.random()
    ys = [1, 4, 100, 400, 1900, 2000, this_year, 9999, 2020, 2021, 2024]
    if k < 0.35:
        y = rng.choice(ys)
    else:
        y = rng.randint(1, 9999)
    m = rng.randint(1, 12)
    j = rng.random()
    if j < 0.3:
        d = rng.choice([28, 29, 30, 31])
    elif j < 0.4:
        d = 1
    else:
        d = rng.randint(1, 28)
    if rng.random() < 0.08:
        m, d = rng.choice([(12, 31), (1, 1), (2, 29), (2, 28), (3, 1)])
    while not valid(y, m, d):
        d -= 1
    return (y, m, d)


def spell(rng, lang, y, m, d, this_year, allow_default=True):
    """returns (text, uses_default_year)"""
    if lang == "en":
        forms = ["num", "dmy", "dMy", "mdy,", "mdy"]
        if allow_default and y == this_year:
            forms.append("dm")
        f = rng.choice(forms)
        mon = rng.choice([MON_EN[m - 1], LONG_EN[m - 1]])
        if f == "num":
            return f"{d}/{m}/{y}"
        if f in ("dmy", "dMy"):
            return f"{d} {mon} {y}"
        if f == "mdy,":
            return f"{mon} {d}, {y}"
        if f == "mdy":
            return f"{mon} {d} {y}"
        return f"{d} {mon}"
    forms = ["num", "dmy"]
    if allow_default and y == this_year:
        forms.append("dm")
    f = rng.choice(forms)
    mon = rng.choice(tr_months()[m - 1])
    if f == "num":
        return f"{d}/{m}/{y}"
    if f == "dmy":
        return f"{d} {mon} {y}"
    return f"{d} {mon}"


def days_from_civil(y, m, d):
    """proleptic Gregorian day number (any year, also <= 0 and > 9999: chrono's range is wider than Python's)"""
    y -= m <= 2
    era = (y if y >= 0 else y - 399) // 400
    yoe = y - era * 400
    doy = (153 * (m + (-3 if m > 2 else 9)) + 2) // 5 + d - 1
    doe = yoe * 365 + yoe // 4 - yoe // 100 + doy
    return era * 146097 + doe - 719468


def civil_from_days(z):
    z += 719468
    era = (z if z >= 0 else z - 146096) // 146097
    doe = z - era * 146097
    yoe = (doe - doe // 1460 + doe // 36524 - doe // 146096) // 365
    y = yoe + era * 400
    doy = doe - (365 * yoe + yoe // 4 - yoe // 100)
    mp = (5 * doy + 2) // 153
    d = doy - (153 * mp + 2) // 5 + 1
    m = mp + (3 if mp < 10 else -9)
    return (y + (m <= 2), m, d)


def valid_any(y, m, d):
    if not (1 <= m <= 12) or d < 1:
        return False
    leap = y % 4 == 0 and (y % 100 != 0 or y % 400 == 0)
    return d <= [31, 29 if leap else 28, 31, 30, 31, 30, 31, 31, 30, 31, 30, 31][m - 1]


def impl_sim(y, m, d, secs, add):
    """the code as it is (SC.Eval.dateCalc): years of 365 days, months of 30 days, no year borrow; chrono's year range
    is wider than 1..9999, so the prediction is computed with a calendar of its own"""
    ny = abs(secs) // YEAR
    if ny:
        y = y + ny if add else y - ny
        if not valid_any(y, m, d):
            return None
        secs -= YEAR * ny
    nm = abs(secs) // MONTH
    if nm:
        if add:
            total = m - 1 + nm
            y, m = y + total // 12, total % 12 + 1
        else:
            y = y - nm // 12
            m = m - nm % 12
            if m <= 0:
                m += 12
        if not valid_any(y, m, d):
            return None
        secs -= MONTH * nm
    days = secs // DAY
    return civil_from_days(days_from_civil(y, m, d) + (days if add else -days))


def unit_secs(n, u):
    if u == "day":
        return n * DAY
    if u == "week":
        return n * 7 * DAY
    if u == "month":
        return (365 * (n // 12) + 30 * (n % 12)) * DAY
    return 365 * n * DAY


def spec_calc(y, m, d, n, u, add):
    """calendar arithmetic; returns (y,m,d), 'skip' (target day does not exist / out of 1..9999)"""
    sign = 1 if add else -1
    if u in ("day", "week"):
        try:
            r = datetime.date(y, m, d) + datetime.timedelta(days=sign * n * (7 if u == "week" else 1))
        except (OverflowError, ValueError):
            return "skip"
        return (r.year, r.month, r.day)
    idx = 12 * y + (m - 1) + sign * n * (12 if u == "year" else 1)
    y2, m2 = idx // 12, idx % 12 + 1
    if not (1 <= y2 <= 9999) or not valid(y2, m2, d):
        return "skip"
    return (y2, m2, d)


def val(l):
    return l.get("ok") if l and "ok" in l else None


def run(ctx, model_ok):
    rng = ctx.rng
    now = C.run_impl([{"op": "now"}])[0]
    this_year = now["ymd"][0]
    cases = []
    # 1. spellings -----------------------------------------------------------------------------
    for _ in range(ctx.n(1500, 60000)):
        lang = rng.choice(["en", "en", "tr"])
        y, m, d = gen_date(rng, this_year)
        cases.append({"lang": lang, "text": spell(rng, lang, y, m, d, this_year), "kind": "read", "ymd": (y, m, d)})
    # every configured month name of every language, every month
    for mi in range(12):
        for name in [MON_EN[mi], LONG_EN[mi]]:
            cases.append({"lang": "en", "text": f"15 {name} 2021", "kind": "read", "ymd": (2021, mi + 1, 15)})
        for name in tr_months()[mi]:
            cases.append({"lang": "tr", "text": f"15 {name} 2021", "kind": "read", "ymd": (2021, mi + 1, 15)})
    # impossible dates
    for _ in range(ctx.n(300, 6000)):
        lang = rng.choice(["en", "tr"])
        y = rng.choice([1900, 2000, 2020, 2021, 2023, 2024, 2100, this_year, rng.randint(1, 9999)])
        m, d = rng.choice([(2, 30), (2, 31), (4, 31), (6, 31), (9, 31), (11, 31), (2, 29), (1, 32), (12, 32), (5, 0), (13, 1), (0, 1), (13, 31)])
        if valid(y, m, d) if 1 <= m <= 12 and d >= 1 else False:
            continue
        if 1 <= m <= 12:
            text = spell(rng, lang, y, m, d, this_year, allow_default=False)
        else:
            text = f"{d}/{m}/{y}"
        cases.append({"lang": lang, "text": text, "kind": "invalid", "ymd": (y, m, d)})
    # 2. arithmetic -----------------------------------------------------------------------------
    NS = [0, 1, 2, 3, 4, 6, 7, 11, 12, 13, 14, 23, 24, 25, 27, 28, 29, 30, 31, 32, 59, 60, 61, 364, 365, 366, 367, 10**4]
    for _ in range(ctx.n(4000, 200000)):
        lang = rng.choice(["en", "en", "en", "tr"])
        y, m, d = gen_date(rng, this_year)
        u = rng.choice(["day", "day", "week", "month", "month", "year"])
        n = rng.choice(NS) if rng.random() < 0.8 else rng.randint(0, 400)
        if u == "year" and n > 500:
            n = rng.randint(1, 300)
        add = rng.random() < 0.5
        words = (UNIT_EN if lang == "en" else UNIT_TR)[u]
        text = f"{spell(rng, lang, y, m, d, this_year)} {'+' if add else '-'} {n} {rng.choice(words)}"
        cases.append({"lang": lang, "text": text, "kind": "arith", "ymd": (y, m, d), "n": n, "u": u, "add": add})
    # 3. A to B ---------------------------------------------------------------------------------
    for _ in range(ctx.n(700, 30000)):
        a, b = gen_date(rng, this_year), gen_date(rng, this_year)
        ta, tb = spell(rng, "en", *a, this_year), spell(rng, "en", *b, this_year)
        k_ = rng.random()
        if k_ < 0.7:
            cases.append({"lang": "en", "text": f"{ta} to {tb}\n{tb} to {ta}", "kind": "to", "a": a, "b": b})
        else:
            # one of the two dates carries a zone label (converted to a zone, directly or through a variable): a date is a
            # calendar date, the difference stays the same number of days
            z = rng.choice(["CET", "JST", "IST", "EST", "PST", "GMT+3", "GMT-5", "NZDT", "HAST"])
            cases.append({"lang": "en", "text": f"start = {ta} to {z}\nstart to {tb}\n{tb} to start", "kind": "to-var", "a": a, "b": b})
    # 4. constants -------------------------------------------------------------------------------
    for lang, words in (("en", ["today", "tomorrow", "yesterday"]), ("tr", ["bugün", "yarın", "dün"]), ("tr", ["bugun", "yarin", "dun"])):
        cases.append({"lang": lang, "text": "\n".join(words) + f"\n{words[1]} - 1 {UNIT_EN['day'][0] if lang == 'en' else 'gün'}", "kind": "const", "words": words})

    ops = [{"op": "now"}] + [{"op": "exec", "lang": c["lang"], "text": c["text"]} for c in cases] + [{"op": "now"}]
    res = C.run_impl(ops)
    if res[0].get("ymd") != res[-1].get("ymd"):
        res = C.run_impl(ops)
    today = datetime.date(*res[0]["ymd"])
    for c, r in zip(cases, res[1:-1]):
        rops = [{"op": "exec", "lang": c["lang"], "text": c["text"]}]
        ctx.count("kind:" + c["kind"])
        ctx.count("lang:" + c["lang"])
        if "lines" not in r:
            ctx.oracle_fail({"class": "abnormal", "what": "no result", "ops": rops, "impl": r})
            continue
        ls = r["lines"]
        v = val(ls[0])
        bad, cls = None, c["kind"]
        if c["kind"] == "read":
            y, m, d = c["ymd"]
            ctx.seen(c["text"], d >= 28 or (m, d) == (1, 1))
            if v is None or v.get("t") != "D" or tuple(v["ymd"]) != (y, m, d):
                bad = f"the spelling denotes {y}-{m}-{d}, evaluated to {v if v else ls[0]}"
                cls = "read:" + c["lang"]
        elif c["kind"] == "invalid":
            ctx.seen(c["text"], True)
            if v is not None and v.get("t") in ("D", "DT"):
                bad = f"impossible date {c['ymd']} accepted as {v}"
        elif c["kind"] == "arith":
            y, m, d = c["ymd"]
            n, u, add = c["n"], c["u"], c["add"]
            spec = spec_calc(y, m, d, n, u, add)
            ctx.seen(c["text"], u in ("month", "year") or n >= 28)
            if spec == "skip":
                ctx.count("arith:not-demanded")
                continue
            got = tuple(v["ymd"]) if v is not None and v.get("t") == "D" else None
            if got != spec:
                sim = impl_sim(y, m, d, unit_secs(n, u), add)
                bad = f"{y}-{m}-{d} {'+' if add else '-'} {n} {u}: the calendar gives {spec}, evaluated to {got if got else ls[0]}"
                cls = "arith:" + u
                if got == sim:
                    # the code behaves as its known defects predict: which one?
                    if u in ("day", "week") and unit_secs(n, u) >= MONTH:
                        cls = "G1:days-reread-as-months"
                    elif u == "month" and not add and m - n % 12 <= 0:
                        cls = "G2:month-subtraction-without-year-borrow"
                    elif sim is None and u == "month" and n >= 12 and not valid(y + (n // 12 if add else -(n // 12)), m, d):
                        cls = "G3:intermediate-date-does-not-exist"
        elif c["kind"] in ("to", "to-var"):
            a, b = datetime.date(*c["a"]), datetime.date(*c["b"])
            want = abs((a - b).days) * DAY
            ctx.seen(c["text"], a != b)
            if c["kind"] == "to-var":
                v, v2 = (val(ls[1]) if len(ls) > 1 else None), (val(ls[2]) if len(ls) > 2 else None)
            else:
                v2 = val(ls[1]) if len(ls) > 1 else None
            for vv, what in ((v, "A to B"), (v2, "B to A")):
                if vv is None or vv.get("t") != "Du" or vv["secs"] != want:
                    bad = f"{what}: {abs((a - b).days)} days expected, evaluated to {vv}"
        elif c["kind"] == "const":
            ctx.seen(c["text"], True)
            vs = [val(l) for l in ls]
            want = [today, today + datetime.timedelta(days=1), today - datetime.timedelta(days=1), today]
            for vv, w, word in zip(vs, want, c["words"] + ["tomorrow - 1 day"]):
                if vv is None or vv.get("t") != "D" or tuple(vv["ymd"]) != (w.year, w.month, w.day):
                    bad = f"'{word}' should be {w}, evaluated to {vv}"
        if bad:
            ctx.oracle_fail({"class": cls, "what": bad, "ops": rops, "impl": [val(l) if l else None for l in ls]})
        elif len(ctx.samples) < 10 and c["kind"] in ("arith", "to") and rng.random() < 0.01:
            ctx.sample({"text": c["text"], "lang": c["lang"], "values": [val(l) for l in ls]})
    # consecutive days under every default zone (a zone-aware `today` must move tomorrow and yesterday with it)
    zops, zones = [], ["GMT+13", "GMT-12", "GMT+14", "EST", "JST", "IST", "GMT-11", "GMT+12"]
    for z in zones:
        zops += [{"op": "tz", "v": z}, {"op": "exec", "lang": "en", "text": "today\ntomorrow\nyesterday"}, {"op": "exec", "lang": "tr", "text": "bugün\nyarın\ndün"}]
    zops.append({"op": "tz", "v": "UTC"})
    zres = C.run_impl(zops)
    for zi, z in enumerate(zones):
        for r, lang in ((zres[3 * zi + 1], "en"), (zres[3 * zi + 2], "tr")):
            ctx.seen(("const-zone", z, lang), True)
            ctx.count("const-under-zone")
            ds = [val(l) for l in r.get("lines", [])]
            try:
                t0, t1, t2 = [datetime.date(*d["ymd"]) for d in ds]
                ok = (t1 - t0).days == 1 and (t0 - t2).days == 1
            except Exception:
                ok = False
            if not ok:
                ctx.oracle_fail({"class": "const-zone", "what": f"under the default zone {z} today / tomorrow / yesterday are {ds}: not consecutive days",
                                 "ops": [{"op": "tz", "v": z}, {"op": "exec", "lang": lang, "text": "today\ntomorrow\nyesterday" if lang == "en" else "bugün\nyarın\ndün"}, {"op": "tz", "v": "UTC"}]})
    # the shown date under a default zone: a date is a calendar day, the configured zone does not move it (what is printed under any
    # default zone is what is printed under UTC)
    shown = []
    for z in ["EST", "PST", "GMT-5", "GMT-11:30", "GMT-12", "HAST", "CET", "NPT", "GMT+14", "NZST"]:
        for _ in range(ctx.n(4, 40)):
            lang = rng.choice(["en", "tr"])
            y, m, d = rng.choice([this_year, rng.randint(1, 9999), rng.randint(1900, 2100)]), rng.randint(1, 12), rng.choice([1, 28, rng.randint(1, 28)])
            shown.append((z, lang, rng.choice([f"{d}/{m}/{y}", f"{d}/{m}/{y} + {rng.randint(0, 400)} {'days' if lang == 'en' else 'gün'}",
                                                 f"{d}/{m}/{y} - {rng.randint(1, 11)} {'months' if lang == 'en' else 'ay'}"])))
    sops = []
    for z, lang, t in shown:
        sops += [{"op": "tz", "v": "UTC"}, {"op": "exec", "lang": lang, "text": t}, {"op": "tz", "v": z}, {"op": "exec", "lang": lang, "text": t}]
    sops.append({"op": "tz", "v": "UTC"})
    sres = C.run_impl(sops)
    for i, (z, lang, t) in enumerate(shown):
        a, b = sres[4 * i + 1], sres[4 * i + 3]
        la = a["lines"][0] if a.get("lines") else None
        lb = b["lines"][0] if b.get("lines") else None
        va, vb = val(la), val(lb)
        ctx.seen(("shown", z, lang, t), True)
        ctx.count("shown-under-zone")
        if va is None or va.get("t") != "D":
            ctx.count("shown-under-zone:not-a-date")
            continue
        if vb is None or vb.get("t") != "D" or vb["ymd"] != va["ymd"] or lb.get("out") != la.get("out"):
            ctx.oracle_fail({"class": "shown-date", "what": f"'{t}' is {va['ymd']} shown as {la.get('out')!r} under UTC; under the default zone {z} it is {vb.get('ymd') if vb else vb} shown as {lb.get('out') if lb else None!r}",
                             "ops": [{"op": "tz", "v": z}, {"op": "exec", "lang": lang, "text": t}, {"op": "tz", "v": "UTC"}]})
    # the model's date constants against the implementation's (tie of SC.Rules.constDate)
    if model_ok:
        req = [f"now\t{res[0]['secs']}"]
        words = [("en", "today"), ("en", "tomorrow"), ("en", "yesterday"), ("tr", "bugün"), ("tr", "yarın"), ("tr", "dün")]
        req += [f"constdate\t{l}\t{wire.hx(w)}" for l, w in words]
        ans = C.run_model(req)[1:]
        lex = C.run_impl([{"op": "exec", "lang": l, "text": w} for l, w in words])
        for (l, w), a, r in zip(words, ans, lex):
            vv = val(r["lines"][0]) if "lines" in r else None
            got = "-".join(str(x) for x in vv["ymd"]) if vv and vv.get("t") == "D" else str(vv)
            ctx.traces_validated += 1
            if a != got:
                ctx.disagree({"observable": "constdate", "lang": l, "word": w, "model": a, "impl": got})
        co = wire.Corr(ctx, compare=("kind", "value", "out"))
        sub = [c for c in cases if c["kind"] != "const"]
        rng.shuffle(sub)
        co.run([{"lang": c["lang"], "text": c["text"]} for c in sub[:ctx.n(2500, 40000)]])
        ctx.dist.update({"corr:" + k: v for k, v in co.stats.items()})


def check_finding(ctx, f):
    """is the open finding still reproducible on the implementation?"""
    res = C.run_impl(f["witness_ops"])
    got = [val(l) for r in res if "lines" in r for l in r["lines"]]
    return any(g is not None and g.get("t") == "D" and list(g["ymd"]) == f["witness_observed"] for g in got) or \
        (f.get("witness_observed") is None and all(g is None for g in got))


def replay(ctx, data, model_ok):
    for f in data.get("failures", []):
        res = C.run_impl(f["ops"])
        ctx.seen(C.json.dumps(f["ops"]), True)
        ctx.sample({"ops": f["ops"], "impl": res})
        print("replayed:", C.json.dumps(f["ops"], ensure_ascii=False)[:400], "->",
              C.json.dumps([r.get("lines") for r in res if "lines" in r], ensure_ascii=False)[:400])
    run(ctx, model_ok)
