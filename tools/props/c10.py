"""C10 — durations: unit lengths, additivity, greedy printing and 'as' flooring."""
from tools import common as C, wire, oracle as O

LEAN_MODULES = ["SCP.C10", "SCP.C18Date"]
THEOREMS = ["SCP.C10." + t for t in """parse_len parse_days parse_months twelve_months_one_year add_durations sub_durations combine_2 combine_3
phrase_combine_2 phrase_combine_6 partsFrom_sum partsFrom_pos partsFrom_desc partsFrom_leading greedy_sum greedy_counts_pos
greedy_descending greedy_zero greedy_leading as_floor patterns_at_least_two""".split()] + ["SCP.C18Date.deleteRule_keeps_internal"]
RULE = ("counts {0,1,2, carry boundaries 59/60/61, 23/24/25, 6/7/8, 29/30/31, 364/365/366, 11/12/13, random up to 10^6} x all unit "
        "spellings (en, and tr for juxtaposed parts); sequences of 1-7 juxtaposed parts in random order with repetitions; + and -; 'as' each of the "
        "five targets; oracle = integer spec; the printed text is parsed back into (count, word) parts: sum = |d|, greedy, "
        "strictly descending, singular iff count 1; non-trivial = >= 2 parts or a carry boundary; distinct = distinct lines")
ASSUMPTIONS = ["counts <= 10^6 as the property says (the theorems have no bound)"]
TRUSTED = ["duration words are matched case-sensitively by design (not demanded)"]

LEN = {"second": 1, "minute": 60, "hour": 3600, "day": 86400, "week": 604800, "month": 2592000, "year": 31536000}
ORDER = ["year", "month", "week", "day", "hour", "minute", "second"]


def unit_secs(n, u):
    if u == "month":
        return (365 * (n // 12) + 30 * (n % 12)) * 86400
    return n * LEN[u]


def count(rng):
    return rng.choice([0, 1, 2, 59, 60, 61, 23, 24, 25, 6, 7, 8, 29, 30, 31, 364, 365, 366, 11, 12, 13, rng.randint(0, 100), rng.randint(0, 10**6)])


def word(rng, u, n):
    return rng.choice([u, u + "s"])


def greedy(d):
    parts = []
    for u in ORDER:
        if u == "second":
            if d > 0:
                parts.append((d, u))
        elif d >= LEN[u]:
            parts.append((d // LEN[u], u))
            d %= LEN[u]
    return parts


TR = {"saniye": "second", "dakika": "minute", "saat": "hour", "gün": "day", "hafta": "week", "ay": "month", "yıl": "year"}
TR_IN = {"second": ["saniye"], "minute": ["dakika"], "hour": ["saat"], "day": ["gün", "gun"], "week": ["hafta"], "month": ["ay"], "year": ["yıl", "yil"]}


def parse_out(out, lang="en"):
    toks = out.split()
    if len(toks) % 2:
        return None
    parts = []
    for i in range(0, len(toks), 2):
        if not toks[i].isdigit():
            return None
        w = toks[i + 1]
        if lang == "tr":
            if w not in TR:
                return None
            parts.append((int(toks[i]), TR[w], w))
            continue
        base = w[:-1] if w.endswith("s") else w
        if base not in LEN:
            return None
        parts.append((int(toks[i]), base, w))
    return parts


def run(ctx, model_ok):
    rng = ctx.rng
    cases = []
    for _ in range(ctx.n(2500, 100000)):
        k = rng.random()
        nparts = rng.choice([1, 1, 2, 2, 3, 4, 5, 6, 7])
        parts = [(count(rng), rng.choice(ORDER)) for _ in range(nparts)]
        text = " ".join(f"{n} {word(rng, u, n)}" for n, u in parts)
        total = sum(unit_secs(n, u) for n, u in parts)
        kind = "seq"
        if k < 0.25:
            n2, u2 = count(rng), rng.choice(ORDER)
            op = rng.choice("+-")
            # the operator with blanks around it, or glued to the count ('3 months -1 month')
            glue = rng.random() < 0.4
            text = f"{text} {op}{n2} {word(rng, u2, n2)}" if glue else f"{text} {op} {n2} {word(rng, u2, n2)}"
            total = total + unit_secs(n2, u2) if op == "+" else total - unit_secs(n2, u2)
            kind = "arith"
            if glue and rng.random() < 0.3:
                lang_glue_tr = True
                text = " ".join(f"{n} {rng.choice(TR_IN[u])}" for n, u in parts) + f" {op}{n2} {rng.choice(TR_IN[u2])}"
            else:
                lang_glue_tr = False
        elif k < 0.5:
            tgt = rng.choice(["second", "minute", "hour", "day", "week"])
            text = f"{text} {rng.choice(['as', 'to', 'in', 'into'])} {word(rng, tgt, 2)}"
            total = (abs(total) // LEN[tgt]) * LEN[tgt]
            kind = "as"
        lang = "tr" if (kind == "arith" and lang_glue_tr) else "en"
        if kind == "seq" and rng.random() < 0.25:
            # the same in Turkish (the language has no plural forms and no conversion word)
            lang = "tr"
            text = " ".join(f"{n} {rng.choice(TR_IN[u])}" for n, u in parts)
        cases.append({"text": text, "secs": total, "kind": kind, "nparts": nparts, "lang": lang})
    # durations held in variables: a name written next to a duration (or next to another name) adds like the duration it holds,
    # and + / - and 'as' see the value, in both languages
    for _ in range(ctx.n(400, 8000)):
        lang = rng.choice(["en", "en", "tr"])
        spell = (lambda n, u: f"{n} {word(rng, u, n)}") if lang == "en" else (lambda n, u: f"{n} {rng.choice(TR_IN[u])}")
        pa = [(count(rng), rng.choice(ORDER)) for _ in range(rng.choice([1, 1, 2, 3]))]
        pb = [(count(rng), rng.choice(ORDER)) for _ in range(rng.choice([1, 1, 2]))]
        ta, tb = " ".join(spell(n, u) for n, u in pa), " ".join(spell(n, u) for n, u in pb)
        sa, sb = sum(unit_secs(n, u) for n, u in pa), sum(unit_secs(n, u) for n, u in pb)
        na, nb = rng.choice([("x", "y"), ("shift", "pause"), ("sure", "mola"), ("d1", "d2")])
        k = rng.random()
        if k < 0.3:
            text, total = f"{na} = {ta}\n{na} {tb}", sa + sb
        elif k < 0.5:
            text, total = f"{na} = {ta}\n{tb} {na}", sa + sb
        elif k < 0.7:
            text, total = f"{na} = {ta}\n{nb} = {tb}\n{na} {nb}", sa + sb
        elif k < 0.85:
            op = rng.choice("+-")
            text, total = f"{na} = {ta}\n{na} {op} {tb}", (sa + sb if op == "+" else sa - sb)
        else:
            text, total = f"{na} = {ta}\n{nb} = {tb}\n{na} {nb} {ta}", 2 * sa + sb
        cases.append({"text": text, "secs": total, "kind": "var", "nparts": len(pa) + len(pb), "lang": lang, "last": True})
    # the built-in duration rules are not addressable through the API: delete_rule with the name of one of them (alone, or after an
    # API rule of that name was registered and deleted) returns false resp. removes only the API rule, and durations read as before
    dur_rules = [k for k in C.json.load(open(C.REPO + "/src/json/config.json", encoding="utf-8"))["languages"]["en"]["rules"] if "duration" in k]
    probe = [("90 minutes as hours", 3600), ("10 days as weeks", 604800), ("2 hours 30 minutes", 9000), ("1 week 3 days", 864000), ("3 hours - 30 minutes", 9000)]
    for name in dur_rules:
        for with_api in (False, True):
            hist = [{"op": "reset"}]
            if with_api:
                hist.append({"op": "rule_add", "lang": "en", "name": name, "kind": "const", "patterns": ["zzq {NUMBER:n}"], "v": 1})
            hist.append({"op": "rule_del", "lang": "en", "name": name})
            hr = C.run_impl(hist + [{"op": "exec", "lang": "en", "text": t} for t, _ in probe] + [{"op": "reset"}])
            ctx.count("delete-built-in-name")
            if bool(hr[len(hist) - 1].get("ret")) != with_api:
                ctx.oracle_fail({"class": "delete-built-in", "what": f"delete_rule('en', {name!r}) returned {hr[len(hist) - 1].get('ret')} ({'an API rule of that name was registered' if with_api else 'no API rule of that name'})", "ops": hist + [{"op": "reset"}]})
            for (t, secs), r in zip(probe, hr[len(hist):-1]):
                l = r.get("lines", [None])[0] if "lines" in r else None
                v = l.get("ok") if l and "ok" in l else None
                ctx.seen(("after-delete", name, with_api, t), True)
                if v is None or v.get("t") != "Du" or v["secs"] != secs:
                    ctx.oracle_fail({"class": "duration-after-delete", "what": f"after delete_rule('en', {name!r}) {t!r} evaluates to {v}, the unit lengths give {secs} s",
                                     "ops": hist + [{"op": "exec", "lang": "en", "text": t}, {"op": "reset"}], "spec": secs})
    res = C.run_impl([{"op": "exec", "lang": c["lang"], "text": c["text"]} for c in cases])
    for c, r in zip(cases, res):
        l = r.get("lines", [None])[-1 if c.get("last") else 0] if "lines" in r else None
        ops = [{"op": "exec", "lang": c["lang"], "text": c["text"]}]
        ctx.seen(c["text"], c["nparts"] >= 2 or c["kind"] != "seq")
        ctx.count("lang:" + c["lang"])
        ctx.count("kind:" + c["kind"])
        ctx.count("parts:" + str(c["nparts"]))
        v = l.get("ok") if l and "ok" in l else None
        if v is None or v.get("t") != "Du":
            ctx.oracle_fail({"class": "no-duration:" + c["kind"], "what": "did not evaluate to a duration", "ops": ops, "impl": l if "lines" in r else r, "spec": c["secs"]})
            continue
        bad = None
        if v["secs"] != c["secs"]:
            bad = f"duration {v['secs']} s, the unit lengths give {c['secs']} s"
        else:
            parts = parse_out(l["out"], c["lang"])
            d = abs(c["secs"])
            if parts is None:
                bad = f"output {l['out']!r} is not a list of (count, unit word)"
            else:
                want = greedy(d)
                got = [(n, u) for n, u, _ in parts]
                if sum(n * LEN[u] for n, u in got) != d:
                    bad = f"printed parts {l['out']!r} sum to {sum(n * LEN[u] for n, u in got)} s, the magnitude is {d} s"
                elif got != want:
                    bad = f"printed parts {l['out']!r} are not the greedy decomposition {want}"
                else:
                    for n, u, w in parts:
                        if c["lang"] == "en" and (n == 1) != (w == u):
                            bad = f"wrong singular/plural word in {l['out']!r}"
        if bad:
            ctx.oracle_fail({"class": "duration:" + c["kind"], "what": bad, "ops": ops, "impl": [v, l.get("out")], "spec": c["secs"]})
        elif len(ctx.samples) < 8 and c["nparts"] >= 3 and rng.random() < 0.01:
            ctx.sample({"text": c["text"], "secs": v["secs"], "printed": l["out"]})
    if model_ok:
        co = wire.Corr(ctx, compare=("kind", "value", "out", "calc"))
        co.run([{"lang": c["lang"], "text": c["text"]} for c in cases[:ctx.n(1500, 20000)] + [c for c in cases if c["kind"] == "var"][:ctx.n(300, 4000)]])
        ctx.dist.update({"corr:" + k: v for k, v in co.stats.items()})


def replay(ctx, data, model_ok):
    for f in data.get("failures", []):
        res = C.run_impl(f["ops"])
        ctx.seen(C.json.dumps(f["ops"]), True)
        ctx.sample({"ops": f["ops"], "impl": res})
        print("replayed:", C.json.dumps(f["ops"], ensure_ascii=False)[:300], "->", C.json.dumps([r.get("lines") for r in res], ensure_ascii=False)[:300], "spec:", f.get("spec"))
    run(ctx, model_ok)
