"""C11 — clock times and zones: conversion keeps the instant, arithmetic is modulo 24 h."""
from tools import common as C, wire, oracle as O

LEAN_MODULES = ["SCP.C11", "SCP.RegexFields"]
THEOREMS = ["SCP.C11." + t for t in """with_zone with_zone_shows_wall convert_keeps_instant convert_shown add_duration sub_duration to_abs
to_symmetric print_fields zone_offsets_in_range phrase_with_zone""".split()] + \
    ["SCP.RegexFields.gen_time_fields_in_range", "SCP.RegexFields.gen_zone_fields_in_range"]
RULE = ("times H:MM[:SS] in 24-hour form and 1-11 am/pm form x source zone x target zone x default zone (set_timezone) x durations (0 s .. 3 days, whole hours, whole minutes, and 2^31 .. 2^40 s, i.e. beyond 32-bit second counts); "
        "quick: random pairs over all expressible zone names and GMT+-h[:mm] forms; thorough: ALL ordered pairs of expressible "
        "zones; oracle = integer spec (instant = today's midnight UTC + wall - 60*offset; shown = (instant + 60*offset) mod 86400); "
        "non-trivial = source and target offsets differ or a duration crosses midnight; distinct = distinct (default zone, line)")
ASSUMPTIONS = ["12:xx am/pm is left out (the suite pins it to 12:xx)", "zone names that the zone syntax cannot express (more than 4 letters) or that "
               "are also currency codes / unit names / keywords are excluded (computed from config.json)",
               "the harness runs with the process time zone UTC (chrono::Local round trip in time_with_timezone is the identity)"]
TRUSTED = ["time / zone lexer glue and set_timezone (regex based; exercised, not modelled)"]


def zones():
    cfg = C.json.load(open(C.REPO + "/src/json/config.json", encoding="utf-8"))
    bad = set()
    for k in cfg["currencies"]:
        bad.add(k.lower())
    for k in cfg["currency_alias"]:
        bad.add(k.lower())
    for fam in cfg["types"]:
        for it in fam["items"]:
            for n in it["names"]:
                bad.add(n.lower())
    for lang in cfg["languages"].values():
        for k in list(lang["long_months"]) + list(lang["short_months"]) + list(lang["constant_pair"]) + list(lang["alias"]):
            bad.add(k.lower())
        for g in lang["word_group"].values():
            for w in g:
                bad.add(w.lower())
    bad |= {"am", "pm", "to", "of", "on", "off", "as", "in", "at", "is", "what", "date", "unix"}
    out = {}
    for z, off in cfg["timezones"].items():
        if 2 <= len(z) <= 4 and z.isalpha() and z.lower() not in bad and not z.startswith("GMT"):
            out[z] = off
    return out


def gmt_forms(rng):
    h = rng.randint(0, 14)
    mm = rng.choice([None, "00", "30", "45"])
    sign = rng.choice(["+", "-"])
    txt = f"GMT{sign}{h}" + ("" if mm is None else rng.choice([":", ""]) + mm)
    if mm is not None and ":" not in txt[4:] and h < 10:
        # 'GMT+530' style: hour [0-1]?[0-9] then minute: ambiguous for h >= 10 without colon; keep the colon form there
        pass
    off = (h * 60 + (int(mm) if mm else 0)) * (1 if sign == "+" else -1)
    return txt, off


def run(ctx, model_ok):
    rng = ctx.rng
    Z = zones()
    names = sorted(Z)
    ctx.count("expressible-zones", len(names))
    now = C.run_impl([{"op": "now"}])[0]
    midnight = now["secs"] - now["secs"] % 86400
    cases = []

    def zone(rng):
        if rng.random() < 0.2:
            t, o = gmt_forms(rng)
            if ":" not in t and len(t) > 6:
                t, o = "GMT+3", 180
            return t, o, t
        z = rng.choice(names)
        shown = z
        return (z if rng.random() < 0.7 else z.lower()), Z[z], shown
    pairs = []
    if not ctx.quick():
        for a in names:
            for b in names:
                pairs.append((a, b))
        ctx.exhaustive = True
    n = ctx.n(3000, 20000)
    # the extremes of the table against each other (offset differences of a day and more): default zone at one end, the zone
    # on the line at the other
    west = sorted(names, key=lambda z: Z[z])[:4]
    east = sorted(names, key=lambda z: Z[z])[-4:]
    frac = [z for z in names if Z[z] % 60 != 0]
    defaults = [("UTC", 0)] + [(z, Z[z]) for z in rng.sample(names, 5)] + [(z, Z[z]) for z in rng.sample(frac, min(3, len(frac)))] + \
        [("GMT+3", 180), ("GMT-5:30", -330), ("GMT+5:30", 330), ("GMT-0:30", -30), ("GMT+0:45", 45)] + \
        [(z, Z[z]) for z in (west[0], east[-1], east[0])] + [("GMT-11", -660), ("GMT+13:45", 825)]
    for i in range(n + len(pairs)):
        dz, doff = rng.choice(defaults) if rng.random() < 0.4 else ("UTC", 0)
        h, m, s = rng.randint(0, 23), rng.randint(0, 59), rng.choice([None, None, rng.randint(0, 59)])
        if rng.random() < 0.15:
            h = rng.choice([0, 23])
        wall = h * 3600 + m * 60 + (s or 0)
        k = rng.random()
        if k < 0.25 and 1 <= h % 12 <= 11:
            hh = h % 12
            mer = ("pm" if h >= 12 else "am")
            mer = rng.choice([mer, mer.upper()])
            ttxt = f"{hh}:{m:02d}{rng.choice([' ', ''])}{mer}" if rng.random() < 0.7 else None
            if ttxt is None:
                ttxt = f"{hh}{rng.choice([' ', ''])}{mer}"
                wall = h * 3600
            elif s is not None:
                wall = h * 3600 + m * 60
        else:
            ttxt = f"{h}:{m:02d}" + (f":{s:02d}" if s is not None else "")
        if i < len(pairs):
            (z1t, z2t) = pairs[i]
            o1, o2, n2 = Z[z1t], Z[z2t], z2t
            n1 = z1t
        else:
            z1t, o1, n1 = zone(rng)
            z2t, o2, n2 = zone(rng)
            if doff != 0 and rng.random() < 0.35:
                # the zone on the line from the end of the table opposite to the default zone
                z1t = rng.choice(west if doff > 0 else east)
                o1, n1 = Z[z1t], z1t
            if doff != 0 and rng.random() < 0.2:
                z2t = rng.choice(west if doff > 0 else east)
                o2, n2 = Z[z2t], z2t
        kind = rng.choice(["plain", "zone", "convert", "convert", "add", "sub", "to"])
        cfg = [] if dz == "UTC" else [{"op": "tz", "v": dz}]
        if kind == "plain":
            text = ttxt
            inst, zn, zo = midnight + wall - doff * 60, dz.upper(), doff
        elif kind == "zone":
            text = f"{ttxt} {z1t}"
            inst, zn, zo = midnight + wall - o1 * 60, n1.upper(), o1
        elif kind == "convert":
            text = f"{ttxt} {z1t} {rng.choice(['to', 'in', 'as', 'into'])} {z2t}"
            inst, zn, zo = midnight + wall - o1 * 60, n2.upper(), o2
        elif kind in ("add", "sub"):
            d = rng.choice([rng.randint(0, 86400 * 3), 3600 * rng.randint(0, 48), 60 * rng.randint(0, 2000), rng.randint(0, 86400 * 3), rng.randint(2 ** 31, 2 ** 33), rng.randint(2 ** 32, 2 ** 40)])
            dh, dm, ds = d // 3600, (d % 3600) // 60, d % 60
            dt = " ".join(p for p in [f"{dh} hours" if dh else "", f"{dm} minutes" if dm else "", f"{ds} seconds" if ds or not (dh or dm) else ""] if p)
            text = f"{ttxt} {z1t} {'+' if kind == 'add' else '-'} {dt}"
            base = midnight + wall - o1 * 60
            inst, zn, zo = (base + d % 86400 if kind == "add" else base - d % 86400), n1.upper(), o1
        else:
            h2, m2 = rng.randint(0, 23), rng.randint(0, 59)
            if rng.random() < 0.3:
                # one of the two times in the first or the last hour of the day
                h2 = rng.choice([0, 23])
            text = f"{ttxt} to {h2}:{m2:02d}"
            if rng.random() < 0.4:
                # the first time comes from a variable bound on an earlier line (same default zone)
                text = f"a = {ttxt}\na to {h2}:{m2:02d}"
            inst, zn, zo = abs((h2 * 3600 + m2 * 60) - wall), None, None
            kv = rng.random()
            if kv < 0.2:
                # both times carry the same explicit zone and come from variables: the difference of the instants is the
                # difference of the wall clocks, whatever the default zone is
                text = f"a = {ttxt} {z1t}\nb = {h2}:{m2:02d} {z1t}\na to b"
            elif kv < 0.3:
                # a time of the default zone against a time in an explicit zone: the difference of the two instants
                text = f"{ttxt} to {h2}:{m2:02d} {z1t}"
                inst = abs((h2 * 3600 + m2 * 60 - o1 * 60) - (wall - doff * 60))
        cases.append({"cfg": cfg, "text": text, "kind": kind, "inst": inst, "zn": zn, "zo": zo, "nontriv": (kind == "convert" and o1 != o2) or kind in ("add", "sub", "zone")})
    ops = []
    for c in cases:
        ops.extend(c["cfg"])
        ops.append({"op": "exec", "lang": "en", "text": c["text"]})
        if c["cfg"]:
            ops.append({"op": "tz", "v": "UTC"})
    res = C.run_impl(ops)
    i = 0
    for c in cases:
        i += len(c["cfg"])
        r = res[i]
        i += 1 + (1 if c["cfg"] else 0)
        case_ops = c["cfg"] + [{"op": "exec", "lang": "en", "text": c["text"]}] + ([{"op": "tz", "v": "UTC"}] if c["cfg"] else [])
        l = r.get("lines", [None])[-1] if "lines" in r and r["lines"] else None
        v = l.get("ok") if l and "ok" in l else None
        ctx.seen((C.json.dumps(c["cfg"]), c["text"]), c["nontriv"])
        ctx.count("kind:" + c["kind"])
        bad = None
        if c["kind"] == "to":
            if v is None or v.get("t") != "Du" or v["secs"] != c["inst"]:
                bad = f"difference {v}, expected {c['inst']} s"
        else:
            if v is None or v.get("t") != "Ti":
                bad = "did not evaluate to a time"
            elif v["secs"] != c["inst"]:
                bad = f"instant {v['secs']} (midnight{v['secs'] - midnight:+d} s), the spec gives midnight{c['inst'] - midnight:+d} s"
            elif v["tz"][1] != c["zo"] or v["tz"][0] != c["zn"]:
                bad = f"zone {v['tz']}, expected {[c['zn'], c['zo']]}"
            else:
                sh = (c["inst"] + c["zo"] * 60) % 86400
                want = f"{sh // 3600:02d}:{sh % 3600 // 60:02d}:{sh % 60:02d} {c['zn']}"
                if l["out"] != want:
                    bad = f"printed {l['out']!r}, the shown time is {want!r}"
        if bad:
            ctx.oracle_fail({"class": "time:" + c["kind"], "what": bad, "ops": case_ops, "impl": [v, l.get("out") if l else None]})
        elif len(ctx.samples) < 8 and c["nontriv"] and rng.random() < 0.01:
            ctx.sample({"cfg": c["cfg"], "text": c["text"], "printed": l["out"]})
    if model_ok:
        co = wire.Corr(ctx, compare=("kind", "value", "out", "calc"))
        co.run([{"lang": "en", "text": c["text"], "cfg": c["cfg"]} for c in cases[:ctx.n(1200, 12000)]])
        ctx.dist.update({"corr:" + k: v for k, v in co.stats.items()})


def replay(ctx, data, model_ok):
    for f in data.get("failures", []):
        res = C.run_impl(f["ops"])
        ctx.seen(C.json.dumps(f["ops"]), True)
        ctx.sample({"ops": f["ops"], "impl": res})
        print("replayed:", C.json.dumps(f["ops"], ensure_ascii=False)[:300], "->", C.json.dumps([r.get("lines") for r in res if "lines" in r], ensure_ascii=False)[:300])
    run(ctx, model_ok)
