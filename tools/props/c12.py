"""C12 — unit conversion matches the unit definitions; linear, invertible, transitive."""
import re
from decimal import Decimal
from fractions import Fraction
from tools import common as C, wire, oracle as O

LEAN_MODULES = ["SCP.C12", "SCP.C12Exec"]
THEOREMS = ["SCP.C12." + t for t in """calc_factor factor_self factor_inverse factor_trans round_trip via_third convert_in_family
convert_across_bridge convert_across_bridge_rev cross_kind_none gen_chains gen_weights_imperial_length gen_weights_imperial_weight
gen_weights_metric_length gen_weights_metric_weight gen_weights_memory gen_bridges gen_kinds_separate add_converts_right
add_needs_conversion scale_keeps_unit ratio_is_number""".split()] + ["SCP.Lemmas.C12.calculateUnit_weights"] + \
    ["SCP.C12Exec." + t for t in """codeLex_mono strReplace_prefix executeCode_text executeCode_text_id lex_binary lex_single basicExecute_tree
executeCode_mul executeCode_div executeCode_id gen_codes_ok gen_codes_multiply litOK_of_text readsBack_rat basicExecute_render step_up step_down""".split()]
RULE = ("EXHAUSTIVE over all ordered pairs of configured units (33 x 33, same kind and different kinds) x amounts {0, 1, 2.5, 0.001, "
        "1e6, -3, 1234.5678, random} x a random parse spelling of the source and name of the target, 'a A to B' compared with the exact "
        "rational factor computed from config.json by an independent reading (rel 1e-9) and against the textbook definitions "
        "(1 in = 25.4 mm, 12 in = 1 ft, 3 ft = 1 yd, 1760 yd = 1 mile, 16 oz = 1 lb, 14 lb = 1 stone, 1 oz = 28.3495231 g, 8 bit = 1 byte, "
        "1024 multiples, decimal prefixes); round trips through a variable, A->B->C vs A->C, + - * / between quantities and numbers, "
        "different kinds (must not convert, must not add); 8 separator configurations ((',' '.'), ('.' ','), ('.' ''), (',' ''), and the thousands separators ' ', \"'\", '_' that only printing uses; quick: all pairs under the default, a 12% sample of pairs under each other one); non-trivial = pair of distinct units; distinct = "
        "distinct (convention, line)")
ASSUMPTIONS = ["`execute_code` (text substitution + tokenizer + parser + interpreter) multiplies by the factor its code denotes (hypothesis ExecIsMult of "
               "the SCP.C12 theorems): since SCP.C12Exec this is a THEOREM on the model for every configured code (gen_codes_multiply: executeCode code v = v * mult code; "
               "the translator's factor table is re-derived from the model's own reader, gen_codes_ok) under ONE remaining hypothesis — the amount's printed text "
               "(f64::to_string) is a literal that reads back as the amount — which the driver evaluates on every amount and result of the conversion cases "
               "(counter amount-reads-back); model executeCode over doubles vs implementation is still compared bit-for-bit and against exact rationals",
               "floating-point rounding: implementation compared with relative tolerance 1e-9"]
TRUSTED = ["unit literal lexing ('{NUMBER:value} {TEXT:type:<name>}' patterns are modelled from the implementation's own tokenisation)"]

CODE = re.compile(r"^\{value\}(?:\s*([*/])\s*([0-9]+(?:\.[0-9]+)?))?$")
KIND = {"imperial-unit-length": "length", "metric-length": "length", "imperial-unit-weight": "weight", "metric-weight": "weight",
        "memory": "memory"}
# the textbook definitions, in base units (mm, mg, bit), independent of config.json
TEXTBOOK = {
    "mm": 1, "cm": 10, "dm": 100, "m": 1000, "dam": 10**4, "hm": 10**5, "km": 10**6,
    "in": Fraction(254, 10), "ft": Fraction(254 * 12, 10), "yard": Fraction(254 * 36, 10), "furlong": Fraction(254 * 36 * 220, 10),
    "mile": Fraction(254 * 36 * 1760, 10),
    "mg": 1, "cg": 10, "dg": 100, "g": 1000, "dag": 10**4, "hg": 10**5, "kg": 10**6, "tonne": 10**9,
    "oz": Fraction(283495231, 10**4), "lb": Fraction(283495231 * 16, 10**4), "st": Fraction(283495231 * 224, 10**4),
    "bit": 1, "byte": 8, "kb": 8 * 1024, "mb": 8 * 1024**2, "gb": 8 * 1024**3, "tb": 8 * 1024**4, "pb": 8 * 1024**5,
    "eb": 8 * 1024**6, "zb": 8 * 1024**7, "yb": 8 * 1024**8,
}

_T = None


def mult(code):
    m = CODE.match(code)
    if not m:
        raise ValueError("untranslatable code " + code)
    if m.group(1) is None:
        return Fraction(1)
    c = Fraction(Decimal(m.group(2)))
    return c if m.group(1) == "*" else 1 / c


def tables():
    """units: list of dict(group, index, names, words, weight (in units of the family's lowest item), kind);
    base(u): weight in the kind's base unit via the bridges"""
    global _T
    if _T is not None:
        return _T
    cfg = C.json.loads(open(C.REPO + "/src/json/config.json", encoding="utf-8").read(), parse_float=lambda s: s)
    fams = {}
    for fam in cfg["types"]:
        items = sorted([i for i in fam["items"] if i.get("upgrade_code") is not None and i.get("downgrade_code") is not None], key=lambda i: int(i["index"]))
        w = Fraction(1)
        out = []
        for k, it in enumerate(items):
            if k > 0:
                w = w * mult(it["downgrade_code"])
            words = []
            for p in it["parse"]:
                m = re.match(r"^\{NUMBER:value\} (?:\{TEXT:type:(\w+)\}|(\w+))$", p)
                if m:
                    words.append(m.group(1) or m.group(2))
            out.append({"group": fam["name"], "index": int(it["index"]), "names": it["names"], "words": words, "weight": w,
                        "kind": KIND.get(fam["name"]), "up": it["upgrade_code"], "down": it["downgrade_code"]})
        fams[fam["name"]] = out
    # scale of each family in the base unit of its kind, through the bridges (source side scaled by to_source code)
    scale = {}
    for b in cfg["type_conversion"]:
        s, t = b["source"], b["target"]
        ws = next(u["weight"] for u in fams[s["name"]] if u["index"] == int(s["index"]))
        wt = next(u["weight"] for u in fams[t["name"]] if u["index"] == int(t["index"]))
        scale.setdefault(t["name"], Fraction(1))
        # 1 unit of source item = mult(to_source) units of target item
        scale[s["name"]] = scale[t["name"]] * wt * mult(b["to_source_calculation"]) / ws
    units = []
    for name, items in fams.items():
        for u in items:
            u["base"] = u["weight"] * scale.get(name, Fraction(1))
            units.append(u)
    _T = (units, cfg)
    return _T


AMOUNTS = ["0", "1", "2.5", "0.001", "1000000", "-3", "1234.5678"]


def lit(amount, dec=","):
    return amount.replace(".", dec)


def val(l):
    return l.get("ok") if l and "ok" in l else None


def run(ctx, model_ok):
    rng = ctx.rng
    units, cfg = tables()
    # textbook definitions vs the independent reading of config.json
    for u in units:
        key = u["names"][0]
        if key in TEXTBOOK and Fraction(TEXTBOOK[key]) != u["base"]:
            ctx.oracle_fail({"class": "definition:" + key, "what": f"config.json defines 1 {key} = {u['base']} base units, the standard definition is {TEXTBOOK[key]}",
                             "ops": [{"op": "exec", "lang": "en", "text": f"1 {key} to {units[0]['names'][0]}"}]})
    # thousands separators the literal syntax does not know (' ', "'", '_') are settable too: they only ever appear in printed results
    convs = [(",", "."), (".", ","), (".", ""), (",", ""), (",", " "), (".", "'"), (",", "_"), (".", " ")]
    cases = []   # (dec, thou, text, checker kind, data)
    for ci, (dec, thou) in enumerate(convs):
        for a in units:
            for b in units:
                if ctx.quick() and ci > 0 and rng.random() > 0.12:
                    continue
                amts = AMOUNTS if (not ctx.quick() or a is b) else rng.sample(AMOUNTS, 3)
                amts = list(amts) + [O.numclass(rng), str(rng.randint(1000, 10 ** rng.randint(4, 9)))]
                for amt in (amts if a["kind"] == b["kind"] else amts[:2]):
                    sw = rng.choice(a["words"])
                    tn = rng.choice(b["names"])
                    cases.append((dec, thou, f"{lit(amt, dec)} {sw} to {tn}", "conv", (amt, a, b)))
        n_extra = ctx.n(1500, 30000) // len(convs)
        for _ in range(n_extra):
            a = rng.choice(units)
            same = [u for u in units if u["kind"] == a["kind"]]
            b, c = rng.choice(same), rng.choice(same)
            x, y = O.numclass(rng), O.numclass(rng)
            if y == "0":
                y = "4"
            k = rng.random()
            sa, sb = rng.choice(a["words"]), rng.choice(b["words"])
            if k < 0.2:
                cases.append((dec, thou, f"q = {lit(x, dec)} {sa} to {b['names'][0]}\nq to {a['names'][0]}", "round", (x, a, b)))
            elif k < 0.4:
                cases.append((dec, thou, f"q = {lit(x, dec)} {sa} to {b['names'][0]}\nq to {c['names'][0]}\n{lit(x, dec)} {sa} to {c['names'][0]}", "trans", (x, a, b, c)))
            elif k < 0.6:
                op = rng.choice("+-")
                cases.append((dec, thou, f"{lit(x, dec)} {sa} {op} {lit(y, dec)} {sb}", "addsub", (x, y, a, b, op)))
            elif k < 0.75:
                op = rng.choice("*/")
                cases.append((dec, thou, f"{lit(x, dec)} {sa} {op} {lit(y, dec)}", "scale", (x, y, a, op)))
            elif k < 0.9:
                cases.append((dec, thou, f"{lit(x, dec)} {sa} / {lit(y, dec)} {sb}", "ratio", (x, y, a, b)))
            else:
                other = rng.choice([u for u in units if u["kind"] != a["kind"]])
                op = rng.choice("+-")
                cases.append((dec, thou, f"{lit(x, dec)} {sa} {op} {lit(y, dec)} {rng.choice(other['words'])}", "mixed", (a, other)))
    ops = []
    cur = (",", ".")
    readback = set()
    for (dec, thou, text, kind, data) in cases:
        if (dec, thou) != cur:
            ops.append({"op": "cfg", "dec": dec, "thou": thou})
            cur = (dec, thou)
        ops.append({"op": "exec", "lang": "en", "text": text})
    ops.append({"op": "cfg", "dec": ",", "thou": "."})
    res = [r for r, o in zip(C.run_impl(ops), ops) if o["op"] == "exec"]
    for (dec, thou, text, kind, data), r in zip(cases, res):
        rops = [{"op": "cfg", "dec": dec, "thou": thou}, {"op": "exec", "lang": "en", "text": text}, {"op": "cfg", "dec": ",", "thou": "."}]
        ctx.count("kind:" + kind)
        ctx.count(f"conv:{dec}{thou or '∅'}")
        if "lines" not in r:
            ctx.oracle_fail({"class": "abnormal", "what": "no result", "ops": rops, "impl": r})
            continue
        ls = r["lines"]
        bad = None

        def dy(l, unit, amount, what):
            v = val(l)
            if v is None or v.get("t") != "DY":
                return f"{what}: not a quantity ({l})"
            if (v["group"], v["index"]) != (unit["group"], unit["index"]):
                return f"{what}: unit {(v['group'], v['index'])}, expected {(unit['group'], unit['index'])}"
            if not O.close(O.f64(v["v"]), amount, scale=float(amount)):
                return f"{what}: amount {O.f64(v['v'])!r}, the unit definitions give {float(amount)!r}"
            return None
        if kind == "conv":
            amt, a, b = data
            ctx.seen((dec, thou, text), a is not b)
            if a["kind"] == b["kind"]:
                bad = dy(ls[0], b, Fraction(amt) * a["base"] / b["base"], "conversion")
                # hypothesis of SCP.C12Exec.gen_codes_multiply on the amount and on the result (the results of the one-step
                # conversions are the intermediate amounts of the longer walks)
                readback.add((dec, thou, float(Fraction(amt))))
                v_ = val(ls[0])
                if v_ is not None and v_.get("t") == "DY":
                    readback.add((dec, thou, O.f64(v_["v"])))
            else:
                v = val(ls[0])
                if v is not None and v.get("t") == "DY" and KIND.get(v["group"]) != a["kind"]:
                    bad = f"a {a['kind']} was converted into a {KIND.get(v['group'])}: {v}"
        elif kind == "round":
            x, a, b = data
            ctx.seen((dec, thou, text), a is not b)
            bad = dy(ls[1], a, Fraction(x), "A to B and back") if len(ls) > 1 else "missing line"
        elif kind == "trans":
            x, a, b, c = data
            ctx.seen((dec, thou, text), a is not b and b is not c)
            if len(ls) < 3:
                bad = "missing line"
            else:
                bad = dy(ls[1], c, Fraction(x) * a["base"] / c["base"], "A to B to C") or dy(ls[2], c, Fraction(x) * a["base"] / c["base"], "A to C")
        elif kind == "addsub":
            x, y, a, b, op = data
            ctx.seen((dec, thou, text), a is not b)
            yy = Fraction(y) * b["base"] / a["base"]
            bad = dy(ls[0], a, Fraction(x) + yy if op == "+" else Fraction(x) - yy, "quantity " + op + " quantity")
        elif kind == "scale":
            x, y, a, op = data
            ctx.seen((dec, thou, text), True)
            bad = dy(ls[0], a, Fraction(x) * Fraction(y) if op == "*" else Fraction(x) / Fraction(y), "quantity " + op + " number")
        elif kind == "ratio":
            x, y, a, b = data
            ctx.seen((dec, thou, text), a is not b)
            v = val(ls[0])
            want = Fraction(x) / (Fraction(y) * b["base"] / a["base"])
            if v is None or v.get("t") != "N":
                bad = f"the ratio of two quantities is not a plain number: {ls[0]}"
            elif not O.close(O.f64(v["v"]), want, scale=float(want)):
                bad = f"ratio {O.f64(v['v'])!r}, expected {float(want)!r}"
        elif kind == "mixed":
            a, other = data
            ctx.seen((dec, thou, text), True)
            v = val(ls[0])
            if v is not None:
                bad = f"quantities of different kinds ({a['kind']}, {other['kind']}) were combined into {v}"
        if bad:
            cls = kind
            if kind == "conv":
                cls = f"conv:{data[1]['names'][0]}->{data[2]['names'][0]}"
            ctx.oracle_fail({"class": cls, "what": bad, "ops": rops, "impl": [val(l) if l else None for l in ls]})
        elif len(ctx.samples) < 10 and kind != "conv" and rng.random() < 0.02:
            ctx.sample({"text": text, "dec": dec, "thou": thou, "values": [val(l) for l in ls]})
    if model_ok:
        import struct
        rb = sorted(x for x in readback if x[2] == x[2] and abs(x[2]) != float("inf"))
        ans = C.run_model([f"readsback\t{wire.hx(d)}\t{wire.hx(t)}\t{struct.pack('>d', v).hex()}" for (d, t, v) in rb])
        for (d, t, v), a_ in zip(rb, ans):
            ctx.count("amount-reads-back:" + ("holds" if a_ == "1" else "fails"))
            if a_ != "1" and len(ctx.samples) < 14:
                ctx.sample({"amount-does-not-read-back": repr(v), "dec": d, "thou": t})
    # ---- the definitions still hold after further units were registered in the configured families (below the first and
    # ---- behind the last index): conversions between configured units do not involve the new items
    fams = {}
    for u in units:
        fams.setdefault(u["group"], []).append(u["index"])
    reg = [{"op": "reset"}]
    for gi, (g, idxs) in enumerate(sorted(fams.items())):
        for tag, idx in (("a", min(idxs) - 1), ("z", max(idxs) + 1)):
            if idx < 0:
                continue
            w = f"zzf{'abcdefgh'[gi % 8]}{tag}"
            reg.append({"op": "dtype_item", "name": g, "index": idx, "format": "{value} " + w, "parse": ["{NUMBER:value} {TEXT:type:" + w + "}"],
                        "up": "{value} / 7", "down": "{value} * 7", "names": [w]})
    pairs = [(a, b) for a in units for b in units if a["kind"] == b["kind"] and a is not b]
    if ctx.quick():
        pairs = rng.sample(pairs, min(len(pairs), 250))
    amts = [(rng.choice(["1", "2.5", "1000", O.numclass(rng)]), a, b) for (a, b) in pairs]
    rr = C.run_impl(reg + [{"op": "exec", "lang": "en", "text": f"{lit(x)} {rng.choice(a['words'])} to {rng.choice(b['names'])}"} for (x, a, b) in amts] + [{"op": "reset"}])
    for r_ in rr[1:len(reg)]:
        ctx.count("registered-into-configured-family:" + str(r_.get("ret")))
    for (x, a, b), r in zip(amts, rr[len(reg):-1]):
        ctx.count("conv-after-registration")
        ctx.seen(("after-registration", x, a["names"][0], b["names"][0]), True)
        v = val(r["lines"][0]) if "lines" in r and r["lines"] else None
        want = Fraction(x) * a["base"] / b["base"]
        if v is None or v.get("t") != "DY" or (v["group"], v["index"]) != (b["group"], b["index"]) or not O.close(O.f64(v["v"]), want, scale=float(want)):
            ctx.oracle_fail({"class": f"conv-after-registration:{a['names'][0]}->{b['names'][0]}",
                             "what": f"after registering further units in the configured families {x} {a['names'][0]} to {b['names'][0]} gives {v}, the unit definitions give {float(want)!r}",
                             "ops": reg + [{"op": "exec", "lang": "en", "text": f"{lit(x)} {a['words'][0]} to {b['names'][0]}"}, {"op": "reset"}]})
    ctx.exhaustive = True
    ctx.notes.append(f"{len(units)} units, {len(units) ** 2} ordered pairs, each visited under {len(convs)} separator convention(s)")
    if model_ok:
        co = wire.Corr(ctx, compare=("kind", "value", "out"))
        sub = [c for c in cases if c[3] != "conv" or c[4][1] is not c[4][2]]
        rng.shuffle(sub)
        co.run([{"lang": "en", "text": t, "cfg": ([] if (d, th) == (",", ".") else [{"op": "cfg", "dec": d, "thou": th}])}
                for (d, th, t, k, _) in sub[:ctx.n(2500, 25000)]])
        ctx.dist.update({"corr:" + k: v for k, v in co.stats.items()})


def replay(ctx, data, model_ok):
    for f in data.get("failures", []):
        res = C.run_impl(f["ops"])
        ctx.seen(C.json.dumps(f["ops"]), True)
        ctx.sample({"ops": f["ops"], "impl": res})
        print("replayed:", C.json.dumps(f["ops"], ensure_ascii=False)[:400], "->",
              C.json.dumps([r.get("lines") for r in res if "lines" in r], ensure_ascii=False)[:400])
    run(ctx, model_ok)
