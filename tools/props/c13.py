"""C13 — based integer literals and base conversion round-trip."""
from tools import common as C, wire, oracle as O

LEAN_MODULES = ["SCP.C13"]
THEOREMS = ["SCP.C13." + t for t in "print_read printBased_nat digitOf_lower basedDigits_ne_nil convert_rounds round_half_away arithmetic_keeps_base".split()] + \
    ["SCP.C07.radixValue_radixDigits"]
RULE = ("n in {0, 1, 2^k-1, 2^k, 2^k+1 : k <= 70 and k in 96 .. 256 (beyond 2^128, where 128-bit integer arithmetic saturates)} + random 64-bit + decimal literals up to 1e50 + fractional N around .5; all 4 x 4 "
        "source/target bases, with and without 'to', upper/lower-case digits and prefixes; round trip: the printed literal is "
        "fed back and must denote the same integer (exact for n < 2^53, the nearest double above); arithmetic keeps the left "
        "operand's base; non-trivial = n >= 2^31 or fractional N or arithmetic; distinct = distinct lines")
ASSUMPTIONS = ["values are doubles: integers above 2^53 are the nearest representable double; the round trip is checked on that double"]
TRUSTED = ["radix lexer glue (parse_radix folds number*radix+digit in f64)"]

BASES = {"hex": (16, "0x", "Hexadecimal"), "octal": (8, "0o", "Octal"), "binary": (2, "0b", "Binary"), "decimal": (10, "", "Decimal")}


def lit(n, base, rng):
    if base == "decimal":
        return str(n)
    b, pre, _ = BASES[base]
    digs = {16: format(n, "x"), 8: format(n, "o"), 2: format(n, "b")}[b]
    if rng.random() < 0.3:
        digs = digs.upper()
    if rng.random() < 0.2:
        pre = pre.upper()
    return pre + digs


def run(ctx, model_ok):
    rng = ctx.rng
    ns = {0, 1, 2, 7, 8, 15, 16, 255, 256, 1000, 65535, 10**6}
    for k in list(range(1, 71)) + [96, 100, 126, 127, 128, 129, 130, 160, 200, 256]:
        ns |= {2**k - 1, 2**k, 2**k + 1}
    for _ in range(ctx.n(200, 5000)):
        ns.add(rng.getrandbits(rng.randint(1, 64)))
    for e in list(range(1, 26)) + [30, 38, 39, 40, 50]:
        ns.add(10**e)
    # hexadecimal digit strings that CONTAIN a digit followed by a currency code made of hex letters (2bbd, 7cdf, 1aed, 3bad ...):
    # the money reader runs before the number reader
    cfgj = C.json.load(open(C.REPO + "/src/json/config.json", encoding="utf-8"))
    hexcodes = sorted(c for c in cfgj["currencies"] if all(ch in "ABCDEF" for ch in c.upper()))
    for code in hexcodes:
        for _ in range(ctx.n(2, 12)):
            pre = "".join(rng.choice("0123456789abcdef") for _ in range(rng.randint(0, 4))) or "1"
            post = "".join(rng.choice("0123456789abcdef") for _ in range(rng.randint(0, 4)))
            ns.add(int((pre.lstrip("0") or "1") + rng.choice("0123456789") + code + post, 16))
    ns = sorted(ns)
    cases = []
    for n in ns:
        src = rng.choice(list(BASES))
        tgts = list(BASES) if not ctx.quick() else rng.sample(list(BASES), 2)
        for tgt in tgts:
            conn = rng.choice(["to ", "", "into ", "as "])
            word = tgt if tgt != "hex" else rng.choice(["hex", "hexadecimal"])
            text = f"{lit(n, src, rng)} {conn}{word}"
            cases.append({"text": text, "n": float(n), "tgt": tgt, "kind": "convert"})
    # the prefix letter itself can start a currency code: '0XCD' / '0xaf12' are 205 and 44818, not zero XCD / XAF
    xcodes = sorted(c.upper() for c in cfgj["currencies"] if c.upper().startswith("X") and all(ch in "ABCDEF" for ch in c.upper()[1:]))
    for code in xcodes:
        for pre in ("0x", "0X"):
            for tail in ["", "0", "12", "".join(rng.choice("0123456789abcdefABCDEF") for _ in range(rng.randint(1, 5)))]:
                for rest in (code[1:], code[1:].lower()):
                    digs = rest + tail
                    tgt = rng.choice(list(BASES))
                    cases.append({"text": f"{pre}{digs} to {tgt}", "n": float(int(digs, 16)), "tgt": tgt, "kind": "convert"})
    for _ in range(ctx.n(150, 3000)):
        v = rng.randint(0, 10**6) + rng.choice([0.5, 0.49999, 0.50001, 0.25, 0.75])
        tgt = rng.choice(["hex", "octal", "binary"])
        import math
        want = float(math.floor(v + 0.5))
        cases.append({"text": f"{str(v).replace('.', ',')} to {tgt}", "n": want, "tgt": tgt, "kind": "round"})
    for _ in range(ctx.n(150, 3000)):
        a, b = rng.randint(0, 2**40), rng.randint(0, 2**20)
        sa, sb = rng.choice(["hex", "octal", "binary"]), rng.choice(list(BASES))
        op = rng.choice("+-*")
        val = {"+": a + b, "-": a - b, "*": a * b}[op]
        if val < 0:
            continue
        cases.append({"text": f"{lit(a, sa, rng)} {op} {lit(b, sb, rng)}", "n": float(val), "tgt": sa, "kind": "arith"})
    # literals padded with leading zeros to a fixed width (values below and beyond 2^128)
    for _ in range(ctx.n(60, 1500)):
        n = rng.choice([rng.getrandbits(rng.randint(1, 64)), rng.getrandbits(160), 2 ** rng.randint(120, 200) + rng.getrandbits(40), rng.getrandbits(130)])
        src = rng.choice(["hex", "octal", "binary"])
        b, pre, _ = BASES[src]
        digs = {16: format(n, "x"), 8: format(n, "o"), 2: format(n, "b")}[b]
        digs = "0" * rng.choice([1, 8, 24, 40, 80]) + digs
        tgt = rng.choice(list(BASES))
        cases.append({"text": f"{pre}{digs} to {tgt}", "n": float(n), "tgt": tgt, "kind": "convert"})
    # words in front of the literal whose lower / upper case has another byte length (İ, ß, ŉ): parsers that look at a case-mapped
    # copy of the line must still find the literal where it is
    for code in hexcodes[:6] + ["ff"]:
        for w in ["İndirim", "İade", "straße", "ŉx", "İİİ"]:
            digs = rng.choice("123456789") + code.lower() + rng.choice(["", "0", "7f"])
            for tgt in rng.sample(list(BASES), 2):
                pre = rng.choice(["0x", "0X"])
                cases.append({"text": f"{w} {pre}{digs} to {tgt}", "n": float(int(digs, 16)), "tgt": tgt, "kind": "convert"})
            cases.append({"text": f"{w} 0x{digs}", "n": float(int(digs, 16)), "tgt": "hex", "kind": "convert"})
    # a fractional value whose base tag comes from arithmetic on a based literal, held in a variable, then converted
    import math as _m
    for _ in range(ctx.n(150, 3000)):
        a, b = rng.randint(1, 2**24), rng.choice([3, 7, 9, 11, 6, 13])
        sa = rng.choice(["hex", "octal", "binary"])
        tgt = rng.choice(list(BASES))
        v = a / b
        want = float(_m.floor(v + 0.5))
        conn = rng.choice(["to ", "", "as "])
        cases.append({"text": f"x = {lit(a, sa, rng)} / {b}\nx {conn}{tgt}", "n": want, "tgt": tgt, "kind": "var-round"})
    res = C.run_impl([{"op": "exec", "lang": "en", "text": c["text"]} for c in cases])
    back = []
    for c, r in zip(cases, res):
        l = r.get("lines", [None])[-1] if "lines" in r and r["lines"] else None
        ops = [{"op": "exec", "lang": "en", "text": c["text"]}]
        ctx.seen(c["text"], c["n"] >= 2**31 or c["kind"] != "convert")
        ctx.count("kind:" + c["kind"])
        ctx.count("target:" + c["tgt"])
        v = l.get("ok") if l and "ok" in l else None
        if v is None or v.get("t") != "N":
            ctx.oracle_fail({"class": "no-number:" + c["kind"], "what": "did not evaluate to a number", "ops": ops, "impl": l if "lines" in r else r})
            continue
        bad = None
        if O.f64(v["v"]) != c["n"]:
            bad = f"value {O.f64(v['v'])!r} instead of {c['n']!r}"
        elif v["nt"] != BASES[c["tgt"]][2]:
            bad = f"base tag {v['nt']} instead of {BASES[c['tgt']][2]}"
        else:
            out = l["out"]
            b, pre, _ = BASES[c["tgt"]]
            if c["tgt"] != "decimal":
                if not out.startswith(pre) or len(out) <= len(pre):
                    bad = f"printed {out!r} lacks the prefix {pre!r} or digits"
                else:
                    try:
                        got = int(out[len(pre):], b)
                    except ValueError:
                        got = None
                    if got is None or float(got) != c["n"]:
                        bad = f"printed {out!r} denotes {got}, the value is {c['n']!r}"
                    elif out[len(pre):] != out[len(pre):].upper():
                        bad = f"printed {out!r} has lower-case digits"
                    else:
                        back.append((c, out))
        if bad:
            ctx.oracle_fail({"class": "radix:" + c["kind"], "what": bad, "ops": ops, "impl": [v, l.get("out")], "spec": c["n"]})
    # feed the printed literals back in
    r2 = C.run_impl([{"op": "exec", "lang": "en", "text": out} for _, out in back])
    for (c, out), r in zip(back, r2):
        l = r.get("lines", [None])[0] if "lines" in r else None
        v = l.get("ok") if l and "ok" in l else None
        ctx.count("read-back")
        if v is None or v.get("t") != "N" or O.f64(v["v"]) != c["n"] or l["out"] != out:
            ctx.oracle_fail({"class": "radix:read-back", "what": f"printed literal {out!r} reads back as {v} / prints {l and l.get('out')!r}",
                             "ops": [{"op": "exec", "lang": "en", "text": c["text"]}, {"op": "exec", "lang": "en", "text": out}], "spec": c["n"]})
        elif len(ctx.samples) < 8 and c["n"] >= 2**31 and ctx.rng.random() < 0.05:
            ctx.sample({"text": c["text"], "printed": out, "reads back": O.f64(v["v"])})
    if model_ok:
        co = wire.Corr(ctx, compare=("kind", "value", "out"))
        co.run([{"lang": "en", "text": c["text"]} for c in cases[:ctx.n(1600, 10000)]])
        ctx.dist.update({"corr:" + k: v for k, v in co.stats.items()})


def replay(ctx, data, model_ok):
    for f in data.get("failures", []):
        res = C.run_impl(f["ops"])
        ctx.seen(C.json.dumps(f["ops"]), True)
        ctx.sample({"ops": f["ops"], "impl": res})
        print("replayed:", C.json.dumps(f["ops"], ensure_ascii=False)[:300], "->", C.json.dumps([r.get("lines") for r in res], ensure_ascii=False)[:300])
    run(ctx, model_ok)
