"""C14 — unix timestamps convert to and from date-times as mutual inverses."""
import datetime
from tools import common as C, wire, oracle as O

LEAN_MODULES = ["SCP.C14"]
THEOREMS = ["SCP.C14." + t for t in """toInt_intCast from_unix from_unix_zone from_unix_out_of_range date_as_unix time_as_unix dateTime_as_unix
unix_round_trip dateTime_round_trip shown_fields raw_print_all_digits at_date_time at_date_hour phrase_to_date phrase_to_zone
phrase_as_unix""".split()]
RULE = ("timestamps {0, +-1, +-86399, +-86400, 2^31-1, 2^31, 2^32, first second of year 1, last second of year 9999, around every one of them; within 15 h of the first second of the current and the next year} + "
        "uniform random over years 1..9999 (negative included) x default zone in {UTC, EST, IST(+5:30), NPT(+5:45), GMT+14-like extremes, random "
        "configured zones} x explicit target zone / none x spellings ('N to date', 'N to ZONE', 'N ZONE', 'N date'); the printed date-time is "
        "parsed and compared field by field with Python's datetime of N + 60*offset; '<date> as unix' for the dates of C09's generator, plain and after the date was put into an explicit zone ('D to Z as unix', on one line and through a variable: still midnight UTC of D); time and "
        "date-time 'as unix' against the instant of the value itself; round trips N -> date-time -> N and date-time -> N -> date-time through "
        "variables; digits of the printed timestamp; '<date> at <time> as unix' written on one line; non-trivial = |N| >= 2^31, negative, or a "
        "non-UTC zone; distinct = distinct (default zone, text)")
ASSUMPTIONS = ["how `<date> at <time>` anchors the time in a non-UTC default zone is not part of this property (exercised with the UTC default only)"]
TRUSTED = ["number / zone lexing and set_timezone are regex code outside the model (exercised)", "chrono NaiveDateTime::from_timestamp_opt = civil-from-days (modelled, calendar bijection proved)"]

EPOCH = datetime.datetime(1970, 1, 1)
LONG = ["January", "February", "March", "April", "May", "June", "July", "August", "September", "October", "November", "December"]
MON = ["Jan", "Feb", "Mar", "Apr", "May", "Jun", "Jul", "Aug", "Sep", "Oct", "Nov", "Dec"]
MIN_TS = -62135596800
MAX_TS = 253402300799
SPECIAL = [0, 1, -1, 86399, -86399, 86400, -86400, 2**31 - 1, 2**31, 2**32, -2**31, -2**31 - 1, MIN_TS, MAX_TS, 951782400, 4107542400, 1664582400]
_Z = None


def zones():
    global _Z
    if _Z is None:
        cfg = C.json.load(open(C.REPO + "/src/json/config.json", encoding="utf-8"))
        # the zone regex reads names of 2..4 capital letters (longer configured names are C11's business)
        # ... and that are not also currency codes ('5 TMT' is an amount of Turkmen manat, as C11's quantifier says)
        cur = {k.upper() for k in cfg["currencies"]} | {k.upper() for k in cfg["currency_alias"]}
        _Z = sorted((k.upper(), v) for k, v in cfg["timezones"].items() if 2 <= len(k) <= 4 and k.isalpha() and k.upper() not in cur)
        # the GMT syntax, in particular hour 0 with minutes and both signs
        _Z += [("GMT-0:30", -30), ("GMT+0:30", 30), ("GMT-00:20", -20), ("GMT+0:45", 45), ("GMT-0:59", -59), ("GMT-1:30", -90), ("GMT+5:45", 345),
               ("GMT+14", 840), ("GMT-12", -720), ("GMT-9:30", -570)]
    return _Z


YEAR_EDGES = []


def gen_ts(rng):
    k = rng.random()
    if YEAR_EDGES and k < 0.12:
        # within 15 hours of the first second of the current / the next year: the shown zone decides whether the year is printed
        return rng.choice(YEAR_EDGES) + rng.randint(-15 * 3600, 15 * 3600)
    if k < 0.3:
        return rng.choice(SPECIAL) + rng.choice([0, 0, 1, -1, 59, -59, 3600, -3600])
    if k < 0.5:
        return rng.randint(0, 2**32)
    return rng.randint(MIN_TS, MAX_TS)


def civil(n):
    """(y, m, d, H, M, S) of n seconds after the epoch, None outside years 1..9999"""
    try:
        t = EPOCH + datetime.timedelta(seconds=n)
    except OverflowError:
        return None
    return (t.year, t.month, t.day, t.hour, t.minute, t.second)


def val(l):
    return l.get("ok") if l and "ok" in l else None


def parse_out(out):
    """'1 Oct 2022 00:00:00 UTC' or '1 Oct 00:00:00 UTC' (current year) -> (d, mon, y|None, H, M, S, zone)"""
    p = out.split(" ")
    try:
        if len(p) == 5:
            d, mon, y, hms, z = p
            y = int(y)
        elif len(p) == 4:
            d, mon, hms, z = p
            y = None
        else:
            return None
        h, mi, s = hms.split(":")
        return (int(d), (MON.index(mon) if mon in MON else LONG.index(mon)) + 1, y, int(h), int(mi), int(s), z)
    except (ValueError, IndexError):
        return None


def run(ctx, model_ok):
    rng = ctx.rng
    now = C.run_impl([{"op": "now"}])[0]
    this_year = now["ymd"][0]
    import datetime as _dt
    YEAR_EDGES[:] = [int((_dt.datetime(y_, 1, 1) - _dt.datetime(1970, 1, 1)).total_seconds()) for y_ in (this_year, this_year + 1)]
    zs = zones()
    named = [z for z in zs if z[0] in ("UTC", "EST", "IST", "NPT", "LINT", "BIT", "CET", "PST", "JST", "ACST")]
    groups = []   # (default zone name or None, list of cases)
    defaults = [None, "EST", "IST", "NPT", "GMT-0:30", "GMT+5:45"] + ([rng.choice(zs)[0] for _ in range(2)] if ctx.quick() else [z[0] for z in rng.sample(zs, 20)])
    per = ctx.n(500, 12000)
    for dz in defaults:
        cases = []
        for _ in range(per):
            n = gen_ts(rng)
            k = rng.random()
            if k < 0.3:
                cases.append({"text": f"{n} {rng.choice(['to', 'as', 'into'])} date" if rng.random() < 0.8 else f"{n} date", "kind": "from", "n": n, "zone": None})
            elif k < 0.5:
                z = rng.choice(named + [rng.choice(zs)])
                cases.append({"text": f"{n} to {z[0]}" if rng.random() < 0.7 else f"{n} {z[0]}", "kind": "from", "n": n, "zone": z})
            elif k < 0.7:
                z = rng.choice([None, None] + named)
                frm = f"{n} to date" if z is None else f"{n} to {z[0]}"
                cases.append({"text": f"x = {frm}\nx {rng.choice(['as', 'to', 'in'])} {rng.choice(['unix', 'unixtime', 'unixtimestamp'])}\ny = x as unix\ny to date",
                              "kind": "round", "n": n, "zone": z})
            elif k < 0.85:
                y, m, d = rng.randint(1, 9999), rng.randint(1, 12), rng.randint(1, 28)
                dt = f"{d}/{m}/{y}" if rng.random() < 0.5 else f"{d} {MON[m-1].lower()} {y}"
                kz = rng.random()
                if kz < 0.6:
                    cases.append({"text": f"{dt} {rng.choice(['as', 'to'])} unix", "kind": "date", "ymd": (y, m, d)})
                else:
                    # a date that was put into an explicit zone is still that calendar date: midnight UTC of it
                    z = rng.choice(named + [rng.choice(zs)])
                    if kz < 0.8:
                        cases.append({"text": f"{dt} to {z[0]} as unix", "kind": "date", "ymd": (y, m, d), "zoned": z[0]})
                    else:
                        cases.append({"text": f"d = {dt} to {z[0]}\nd as unix", "kind": "date", "ymd": (y, m, d), "zoned": z[0], "line": 1})
            elif k < 0.93:
                h, mi, s = rng.randint(0, 23), rng.randint(0, 59), rng.randint(0, 59)
                z = rng.choice([None, None] + named)
                t = f"{h}:{mi:02d}:{s:02d}" + ("" if z is None else " " + z[0])
                cases.append({"text": f"{t}\n{t} as unix", "kind": "time"})
            elif dz is None:
                y, m, d = rng.randint(1, 9999), rng.randint(1, 12), rng.randint(1, 28)
                h, mi = rng.randint(0, 23), rng.randint(0, 59)
                kat = rng.random()
                if kat < 0.3:
                    # the clock time comes from a variable and carries a zone of its own ('meeting = 10:30 EST'): the date-time is
                    # that instant — restricted to times whose UTC time of day falls on the same day (see ASSUMPTIONS)
                    z = rng.choice(named)
                    if 0 <= h * 60 + mi - z[1] < 1440:
                        how = rng.choice(["direct", "converted"])
                        first = f"m = {h}:{mi:02d} {z[0]}" if how == "direct" else f"m = {(h * 60 + mi - z[1]) // 60}:{(h * 60 + mi - z[1]) % 60:02d} to {z[0]}"
                        cases.append({"text": f"{first}\n{d} {MON[m-1].lower()} {y} at m as unix", "kind": "at", "ymd": (y, m, d), "hm": (h, mi), "off": z[1], "oneline": False})
                elif kat < 0.6:
                    cases.append({"text": f"x = {d} {MON[m-1].lower()} {y} at {h}:{mi:02d}\nx as unix", "kind": "at", "ymd": (y, m, d), "hm": (h, mi), "oneline": False})
                else:
                    cases.append({"text": f"{d} {MON[m-1].lower()} {y} at {h}:{mi:02d} as unix", "kind": "at", "ymd": (y, m, d), "hm": (h, mi), "oneline": True})
        # every spelling of the GMT syntax as explicit zone (sign, hour 0, minutes), not left to the draw
        for g in [z for z in zs if z[0].startswith("GMT")]:
            for _ in range(2):
                n = gen_ts(rng)
                cases.append({"text": f"{n} to {g[0]}", "kind": "from", "n": n, "zone": g})
        groups.append((dz, cases))
    ops = []
    for dz, cases in groups:
        ops.append({"op": "tz", "v": dz or "UTC"})
        ops.append({"op": "get_tz"})
        ops.extend({"op": "exec", "lang": "en", "text": c["text"]} for c in cases)
    ops.append({"op": "tz", "v": "UTC"})
    res = C.run_impl(ops)
    i = 0
    for dz, cases in groups:
        tzr = res[i + 1].get("tz", ["UTC", 0])
        i += 2
        want_off = dict(zs).get(dz) if dz else 0
        if want_off is not None and tzr[1] != want_off:
            ctx.oracle_fail({"class": "default-zone", "what": f"set_timezone({dz!r}) stores the offset {tzr[1]} minutes, the zone is {want_off} minutes from UTC",
                             "ops": [{"op": "tz", "v": dz or "UTC"}, {"op": "get_tz"}, {"op": "tz", "v": "UTC"}]})
        for c in cases:
            r = res[i]
            i += 1
            rops = [{"op": "tz", "v": dz or "UTC"}, {"op": "exec", "lang": "en", "text": c["text"]}, {"op": "tz", "v": "UTC"}]
            ctx.count("kind:" + c["kind"])
            ctx.count("default:" + (dz or "UTC"))
            if "lines" not in r:
                ctx.oracle_fail({"class": "abnormal", "what": "no result", "ops": rops, "impl": r})
                continue
            ls = r["lines"]
            v = val(ls[0])
            bad, cls = None, c["kind"]

            def check_dt(vv, l, n, zone):
                zname, zoff = (zone if zone else tzr)
                if vv is None or vv.get("t") != "DT" or vv["secs"] != n:
                    return f"not the instant {n}: {vv}"
                if vv["tz"][0] != zname.upper() or vv["tz"][1] != zoff:
                    return f"zone {vv['tz']}, expected {[zname, zoff]}"
                cv = civil(n + 60 * zoff)
                if cv is None:
                    return None
                po = parse_out(l.get("out", ""))
                want = (cv[2], cv[1], None if cv[0] == this_year else cv[0], cv[3], cv[4], cv[5], zname.upper())
                if po != want:
                    return f"printed {l.get('out')!r}, the instant in that zone is {cv}"
                return None
            if c["kind"] == "from":
                n = c["n"]
                ctx.seen((dz, c["text"]), abs(n) >= 2**31 or n < 0 or dz is not None or c["zone"] is not None)
                bad = check_dt(v, ls[0], n, c["zone"])
            elif c["kind"] == "round":
                n = c["n"]
                ctx.seen((dz, c["text"]), True)
                if len(ls) < 4:
                    bad = "missing lines"
                else:
                    bad = check_dt(v, ls[0], n, c["zone"])
                    v1, v2, v3 = val(ls[1]), val(ls[2]), val(ls[3])
                    for vv in (v1, v2):
                        if not bad and (vv is None or vv.get("t") != "N" or vv.get("nt") != "Raw" or O.f64(vv["v"]) != float(n)):
                            bad = f"date-time of {n} as unix gave {vv}"
                    if not bad and ls[1].get("out") != str(n):
                        bad = f"the printed timestamp {ls[1].get('out')!r} does not show every digit of {n}"
                    if not bad:
                        bad = check_dt(v3, ls[3], n, None)
            elif c["kind"] == "date":
                y, m, d = c["ymd"]
                want = (datetime.date(y, m, d) - datetime.date(1970, 1, 1)).days * 86400
                ctx.seen((dz, c["text"]), y < 1970 or y >= 2038 or "zoned" in c)
                if "zoned" in c:
                    ctx.count("date-in-explicit-zone-as-unix")
                li = c.get("line", 0)
                v = val(ls[li]) if len(ls) > li else None
                if v is None or v.get("t") != "N" or v.get("nt") != "Raw" or O.f64(v["v"]) != float(want):
                    bad = f"midnight UTC of {y}-{m}-{d} is {want}, evaluated to {v}"
                elif ls[li].get("out") != str(want):
                    bad = f"the printed timestamp {ls[li].get('out')!r} does not show every digit of {want}"
            elif c["kind"] == "time":
                ctx.seen((dz, c["text"]), dz is not None)
                v1 = val(ls[1]) if len(ls) > 1 else None
                if v is None or v.get("t") != "Ti":
                    ctx.count("time:not-lexed")
                elif v1 is None or v1.get("t") != "N" or O.f64(v1["v"]) != float(v["secs"]):
                    bad = f"the time denotes the instant {v['secs']}, as unix gave {v1}"
            elif c["kind"] == "at":
                y, m, d = c["ymd"]
                h, mi = c["hm"]
                want = (datetime.date(y, m, d) - datetime.date(1970, 1, 1)).days * 86400 + h * 3600 + mi * 60 - 60 * c.get("off", 0)
                ctx.seen((dz, c["text"]), True)
                vv = val(ls[0]) if c["oneline"] else (val(ls[1]) if len(ls) > 1 else None)
                if vv is None or vv.get("t") != "N" or O.f64(vv["v"]) != float(want):
                    bad = f"{y}-{m}-{d} {h}:{mi:02d} UTC is {want}, evaluated to {vv if vv else ls[-1]}"
                    if c["oneline"]:
                        cls = "A5:date-at-time-as-unix-on-one-line"
            if bad:
                ctx.oracle_fail({"class": cls, "what": bad, "ops": rops, "impl": [val(l) if l else None for l in ls]})
            elif len(ctx.samples) < 10 and c["kind"] == "round" and rng.random() < 0.02:
                ctx.sample({"default_zone": dz or "UTC", "text": c["text"], "out": [l.get("out") if l else None for l in ls]})
    if model_ok:
        co = wire.Corr(ctx, compare=("kind", "value", "out"))
        cc = []
        for dz, cases in groups:
            sub = list(cases)
            rng.shuffle(sub)
            for c in sub[:ctx.n(300, 3000)]:
                cc.append({"lang": "en", "text": c["text"], "cfg": ([] if dz is None else [{"op": "tz", "v": dz}])})
        co.run(cc)
        ctx.dist.update({"corr:" + k: v for k, v in co.stats.items()})


def check_finding(ctx, f):
    res = C.run_impl(f["witness_ops"])
    got = [l for r in res if "lines" in r for l in r["lines"]]
    return any(l is not None and "err" in l for l in got)


def replay(ctx, data, model_ok):
    for f in data.get("failures", []):
        res = C.run_impl(f["ops"])
        ctx.seen(C.json.dumps(f["ops"]), True)
        ctx.sample({"ops": f["ops"], "impl": res})
        print("replayed:", C.json.dumps(f["ops"], ensure_ascii=False)[:400], "->",
              C.json.dumps([r.get("lines") for r in res if "lines" in r], ensure_ascii=False)[:400])
    run(ctx, model_ok)
