"""C15 — printed results can be typed back in: formatter and reader agree."""
from tools import common as C, wire
from tools.gen import lines as L

LEAN_MODULES = ["SCP.C15"]
THEOREMS = ["SCP.C15." + t for t in "fixed_idempotent printed_reads_back readPart_eq months12_witness unit_words_readable print_months_are_spellings".split()] + \
    ["SCP.C13.print_read", "SCP.C07.format_shape", "SCP.C08.read_write", "SCP.C10.greedy_sum"]
RULE = ("value classes per kind: numbers (rounding ties, 0, negatives, 10^k +- 1, up to 10^15, tiny fractions), percentages, money in every currency "
        "that has an alias or symbol the reader knows (from config.json: TRY USD SEK DKK BGN EUR; negative amounts), durations (1-7 parts of every "
        "unit, carry boundaries, en and tr), times with every 2-4 letter zone class, times under default zones with whole-hour and fractional offsets, dates (full and current-year form, every month, en and tr), "
        "all 33 units x amounts, dates in the years 1-150 reached by subtracting years, based integers (hex / octal / binary up to 2^60, hex digits that contain 0B0 / 0B1 / 0E / 0D) x separator conventions (',' '.'), ('.' ','), ('.' ''), (',' '') "
        "x number / percentage digit configurations (0-9 digits, remove-zero and rounding flags; the quick tier always includes 4 digits rounded and 5-6 digits unrounded) ; oracle: the printed form of the line, entered "
        "as a new line under the same configuration and language, prints identically; dates (en and tr, every year class, with day arithmetic) and clock times under default zones incl. the extreme offsets on both sides (GMT+14, LINT, NZST, GMT-12, GMT-11:30) and zones drawn from the list; non-trivial = printed form differs from the entered text; "
        "distinct = distinct (configuration, language, text)")
ASSUMPTIONS = ["date-times are not in the property's list of kinds", "a currency counts as readable when config.json gives the reader an alias or symbol for it"]
TRUSTED = ["that every printed form lexes to one token of its kind is string level (regexes not modelled): decided by this enumeration"]

CONV = [(",", "."), (".", ","), (".", ""), (",", "")]
DUR_EN = ["second", "minute", "hour", "day", "week", "month", "year"]
DUR_TR = ["saniye", "dakika", "saat", "gün", "hafta", "ay", "yıl"]
_T = None


def tables():
    global _T
    if _T is None:
        cfg = C.json.load(open(C.REPO + "/src/json/config.json", encoding="utf-8"))
        cur = sorted({v.upper() for v in cfg["currency_alias"].values() if v.upper() in cfg["currencies"] or v in cfg["currencies"]})
        units = []
        for fam in cfg["types"]:
            for it in fam["items"]:
                if it.get("upgrade_code") is not None:
                    units.append(it["names"][0])
        zones = sorted(z.upper() for z in cfg["timezones"] if 2 <= len(z) <= 4 and z.isalpha())
        months = {l: [sorted([k for k, v in cfg["languages"][l]["short_months"].items() if v == m + 1], key=lambda s: s.encode())[-1] for m in range(12)]
                  for l in cfg["languages"]}
        _T = (cur, units, zones, months)
    return _T


def numlit(rng, dec):
    k = rng.random()
    if k < 0.15:
        s = rng.choice(["0", "1", "0.5", "2.675", "1.005", "0.995", "99.995", "999.5", "0.004", "0.005", "1000", "999999.999", "1234567.891", "0.1", "0.000001"])
    elif k < 0.5:
        s = str(rng.randint(0, 10 ** rng.randint(1, 15)))
    elif k < 0.9:
        d = rng.randint(1, 6)
        s = f"{rng.randint(0, 10 ** rng.randint(1, 9))}.{rng.randint(0, 10 ** d - 1):0{d}d}"
    else:
        s = str(10 ** rng.randint(1, 12) + rng.choice([-1, 1]))
    if rng.random() < 0.2 and s != "0":
        s = "-" + s
    return s.replace(".", dec)


def gen_case(rng, dec, this_year):
    """returns (lang, text, kind)"""
    cur, units, zones, months = tables()
    k = rng.random()
    lang = "en"
    if k < 0.2:
        return lang, numlit(rng, dec), "number"
    if k < 0.3:
        return lang, numlit(rng, dec) + "%", "percent"
    if k < 0.45:
        c = rng.choice(cur)
        return lang, f"{numlit(rng, dec)} {c.lower()}", "money:" + c
    if k < 0.6:
        lang = rng.choice(["en", "tr"])
        words = DUR_EN if lang == "en" else DUR_TR
        parts = []
        for _ in range(rng.randint(1, 5)):
            n = rng.choice([1, 2, 3, 7, 11, 12, 13, 23, 24, 29, 30, 51, 52, 59, 60, 61, 364, 365, rng.randint(0, 2000)])
            i = rng.randrange(7)
            w = words[i] + ("s" if lang == "en" and n != 1 else "")
            parts.append(f"{n} {w}")
        return lang, " ".join(parts), "duration"
    if k < 0.7:
        z = rng.choice(zones + ["UTC", "EST", "GMT+3", "GMT-5:30"])
        t = f"{rng.randint(0, 23)}:{rng.randint(0, 59):02d}" + (f":{rng.randint(0, 59):02d}" if rng.random() < 0.5 else "")
        return lang, f"{t} {z}", "time"
    if k < 0.82:
        lang = rng.choice(["en", "tr"])
        y = rng.choice([this_year, this_year, rng.randint(1, 9999), rng.randint(1900, 2100)])
        m, d = rng.randint(1, 12), rng.randint(1, 28)
        if rng.random() < 0.15:
            # a date in the years 1 .. 150 reached by arithmetic
            y = rng.randint(1900, 2100)
            back = y - rng.randint(1, 150)
            return lang, f"{d}/{m}/{y} - {back} {'years' if lang == 'en' else 'yıl'}", "date"
        return lang, f"{d}/{m}/{y}", "date"
    if k < 0.94:
        u = rng.choice(units)
        return lang, f"{numlit(rng, dec)} {u}", "unit"
    n = rng.randint(0, 2 ** rng.randint(1, 60))
    if rng.random() < 0.2:
        # a negative result with a base tag (printed as a two's complement pattern): conversion of a negative number, or a
        # difference of based literals
        m_ = rng.choice([rng.randint(1, 2 ** 31), rng.randint(2 ** 31, 2 ** 40), rng.randint(1, 1000)])
        return lang, rng.choice([f"-{m_} to hex", f"-{m_} to binary", f"0x0 - {hex(m_)}", f"{hex(rng.randint(0, 99))} - {hex(m_)}", f"0o7 - {oct(m_)}"]), "based"
    if rng.random() < 0.25:
        # printed hexadecimal digits that spell another literal prefix inside: 0B0 / 0B1 (binary), 0E.., 0D..
        hx = lambda k: "".join(rng.choice("0123456789abcdef") for _ in range(k))
        return lang, "0x" + (hx(rng.randint(0, 4)).lstrip("0") or "1") + rng.choice(["0b0", "0b1", "0b11", "0b10", "0e1", "0d1", "0b"]) + hx(rng.randint(0, 4)), "based"
    return lang, rng.choice([hex(n), oct(n), bin(n)]), "based"


def m_long(rng):
    return rng.random() < 0.5


def first(r):
    if "lines" not in r or not r["lines"]:
        return None, None
    l = r["lines"][0]
    if l is None:
        return None, None
    if "err" in l:
        return "err", None
    return l.get("ok"), l.get("out")


def run(ctx, model_ok):
    rng = ctx.rng
    now = C.run_impl([{"op": "now"}])[0]
    this_year = now["ymd"][0]
    groups = []
    n_cfg = 6 if ctx.quick() else 40
    for gi in range(n_cfg):
        dec, thou = CONV[gi % 4]
        if gi < 4:
            nd, pd = [2, True, True], [2, True, True]
            money = [False, True]
        elif gi == 4:
            # many printed fraction digits, nothing removed, rounded: every digit of the print must be read back
            nd, pd, money = [4, False, True], [4, False, True], [False, True]
        elif gi == 5:
            # no rounding: the value is printed with all its digits
            nd, pd, money = [6, True, False], [5, False, False], [True, False]
        else:
            nd = [rng.randint(0, 9), rng.random() < 0.5, rng.random() < 0.8]
            pd = [rng.randint(0, 9), rng.random() < 0.5, rng.random() < 0.8]
            money = [rng.random() < 0.5, rng.random() < 0.8]
        cfgop = {"op": "cfg", "dec": dec, "thou": thou, "num": nd, "pct": pd, "money": money}
        cases = [gen_case(rng, dec, this_year) for _ in range(ctx.n(700, 4000))]
        groups.append((cfgop, cases))
    DEFAULT = {"op": "cfg", "dec": ",", "thou": ".", "num": [2, True, True], "pct": [2, True, True], "money": [False, True]}
    ops = []
    for cfgop, cases in groups:
        ops.append(cfgop)
        ops.extend({"op": "exec", "lang": l, "text": t} for (l, t, k) in cases)
    ops.append(DEFAULT)
    r1 = C.run_impl(ops)
    # second pass: the printed forms
    ops2, idx = [], []
    i = 0
    for cfgop, cases in groups:
        i += 1
        ops2.append(cfgop)
        for (l, t, k) in cases:
            v, out = first(r1[i])
            i += 1
            if v in (None, "err") or out is None:
                ctx.count("base-not-evaluable:" + k.split(":")[0])
                continue
            if out == "":
                # a zero duration has no printed form at all (C10.greedy_zero): nothing to enter
                ctx.count("empty-printed-form:" + k.split(":")[0])
                continue
            ops2.append({"op": "exec", "lang": l, "text": out})
            idx.append((len(ops2) - 1, cfgop, l, t, k, v, out))
    ops2.append(DEFAULT)
    r2 = C.run_impl(ops2)
    for (j, cfgop, l, t, k, v, out) in idx:
        v2, out2 = first(r2[j])
        ctx.seen((C.json.dumps(cfgop), l, t), out != t)
        ctx.count("kind:" + k.split(":")[0])
        rops = [cfgop, {"op": "exec", "lang": l, "text": t}, {"op": "exec", "lang": l, "text": out}, DEFAULT]
        if out2 != out:
            cls = "roundtrip:" + k
            if k == "duration" and ("12 months" in out or "12 ay" in out):
                cls = "J1:printed-12-months"
            ctx.oracle_fail({"class": cls, "what": f"'{t}' prints as '{out}', which entered again gives {out2!r} ({v2 if out2 is None else ''})", "ops": rops})
        elif len(ctx.samples) < 10 and out != t and rng.random() < 0.003:
            ctx.sample({"cfg": cfgop, "lang": l, "text": t, "printed": out})
    # ---- clock times under a default zone other than UTC (whole-hour and fractional offsets): printed, entered again ----
    zs = ["NPT", "GMT+5:30", "GMT-3:30", "ACST", "EST", "CET", "GMT+14", "GMT-12"]
    tcases = []
    # dates under a default zone: every zone of the list and the extreme offsets on both sides (the printed day is the entered day)
    _, _, znames, months = tables()
    dzs = zs + ["NZST", "LINT", "GMT+12", "GMT+13:45", "GMT+11:59", "GMT-11:30", "BIT", "PST", "JST"] + rng.sample(znames, ctx.n(4, 40))
    for dz in dzs:
        for _ in range(ctx.n(6, 60)):
            lang = rng.choice(["en", "tr"])
            y = rng.choice([this_year, rng.randint(1, 9999), rng.randint(1900, 2100)])
            m, d = rng.randint(1, 12), rng.choice([1, 28, rng.randint(1, 28), 31 if m_long(rng) else 15])
            if d == 31:
                m = rng.choice([1, 3, 5, 7, 8, 10, 12])
            tcases.append((dz, rng.choice([f"{d}/{m}/{y}", f"{d}/{m}/{y} + {rng.randint(0, 40)} {'days' if lang == 'en' else 'gün'}"]), lang))
    for dz in (zs if not ctx.quick() else rng.sample(zs, 4)):
        for _ in range(ctx.n(40, 600)):
            t = f"{rng.randint(0, 23)}:{rng.randint(0, 59):02d}" + (f":{rng.randint(0, 59):02d}" if rng.random() < 0.4 else "")
            if rng.random() < 0.3:
                t = f"{rng.randint(1, 11)}:{rng.randint(0, 59):02d} {rng.choice(['am', 'pm'])}"
            if rng.random() < 0.3:
                t += " " + rng.choice(["EST", "CET", "IST", "UTC"])
            tcases.append((dz, t, "en"))
    o1 = []
    for dz, t, lg in tcases:
        o1 += [{"op": "tz", "v": dz}, {"op": "exec", "lang": lg, "text": t}]
    o1.append({"op": "tz", "v": "UTC"})
    q1 = C.run_impl(o1)
    o2, keep = [], []
    for i, (dz, t, lg) in enumerate(tcases):
        v, out = first(q1[2 * i + 1])
        if v in (None, "err") or not out:
            ctx.count("base-not-evaluable:time-zone")
            continue
        o2 += [{"op": "tz", "v": dz}, {"op": "exec", "lang": lg, "text": out}]
        keep.append((dz, t, out, lg, v.get("t") if isinstance(v, dict) else None))
    o2.append({"op": "tz", "v": "UTC"})
    q2 = C.run_impl(o2)
    for i, (dz, t, out, lg, kind) in enumerate(keep):
        v2, out2 = first(q2[2 * i + 1])
        ctx.seen(("tz", dz, lg, t), out != t)
        what = "date-under-zone" if kind == "D" else "time-under-zone"
        ctx.count("kind:" + what)
        if out2 != out:
            ctx.oracle_fail({"class": "roundtrip:" + what, "what": f"default zone {dz}: '{t}' prints as '{out}', which entered again gives {out2!r}",
                             "ops": [{"op": "tz", "v": dz}, {"op": "exec", "lang": lg, "text": t}, {"op": "exec", "lang": lg, "text": out}, {"op": "tz", "v": "UTC"}]})
    if model_ok:
        co = wire.Corr(ctx, compare=("kind", "value", "out"))
        cc = []
        for (j, cfgop, l, t, k, v, out) in idx[:ctx.n(1500, 15000)]:
            cc.append({"lang": l, "text": out, "cfg": [cfgop]})
        co.run(cc)
        ctx.dist.update({"corr:" + k: v for k, v in co.stats.items()})


def check_finding(ctx, f):
    res = C.run_impl(f["witness_ops"])
    outs = [first(r)[1] for r in res if "lines" in r]
    return len(outs) >= 2 and outs[0] is not None and outs[1] != outs[0]


def replay(ctx, data, model_ok):
    for f in data.get("failures", []):
        res = C.run_impl(f["ops"])
        ctx.seen(C.json.dumps(f["ops"]), True)
        ctx.sample({"ops": f["ops"], "impl": [first(r) for r in res if "lines" in r]})
        print("replayed:", C.json.dumps(f["ops"], ensure_ascii=False)[:400], "->", C.json.dumps([first(r) for r in res if "lines" in r], ensure_ascii=False)[:400])
    run(ctx, model_ok)
