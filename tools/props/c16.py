"""C16 — blanks, comments and letter case of keywords never change a value."""
import re
from tools import common as C, wire
from tools.gen import lines as L, corpus

LEAN_MODULES = ["SCP.C16", "SCP.Lex", "SCP.RegexLint"]
THEOREMS = ["SCP.C16." + t for t in """lowerEq_congr_left tokFieldCompare_case tokEq_case infoEq_case findMatch_case readCurrency_case
infoEqTok_case matchesAt_case findLocation_case varKey_case untyped_skipped findMatch_offsets replaceRange_tokens""".split()] + \
    ["SCP.Lex.lex_render", "SCP.Lex.lex_spacing_irrelevant", "SCP.Lex.comment_irrelevant", "SCP.RegexLint.gen_blank_runs_unbounded"]
RULE = ("base = every evaluable line / short program of the shared generators (arithmetic, money, percent phrases, dates, durations, times with "
        "zones, units, based numbers, unix, magnitude suffix + currency word, variables over 2-3 lines, variables assigned twice); rewritings: (1) 1-3 extra blanks at every existing blank, around "
        "operator characters and at both ends; (2) an appended '# comment' from a hostile pool (month names, numbers, atoms, '=', currency "
        "symbols, zones, '#', words of the line); (3) lower / UPPER / Capitalised / rAnDoM case of every currency code, month name, zone name, "
        "connective keyword (to of on off as in into at is what) and variable name in the line; (4) blank-only and comment-only lines must "
        "give an empty slot; oracle: the values (kind and payload) of all lines are identical to those of the base text; non-trivial = the "
        "rewriting changed the text; distinct = distinct (base, rewritten) pairs")
ASSUMPTIONS = ["letter case of unit, duration and day words and of base names (hex, ...) is not part of the property and is left unchanged",
               "a blank is U+0020 (TAB is not a blank for this calculator)"]
TRUSTED = ["token-level theorems cover the rewrite layers; that the regexes yield the same tokens for the rewritten text is decided by this enumeration"]

CONNECTIVES = {"to", "of", "on", "off", "as", "in", "into", "at", "is", "what"}
MONTHS = set(L.MONTHS_EN) | {"january", "february", "march", "april", "june", "july", "august", "september", "october", "november", "december"}
ZONES = {"est", "cet", "utc", "pst", "ist", "jst", "gmt"}
COMMENTS = ["note", "may 5", "12", "1 + 1", "[NUMBER:5]", "= 3", "$5", "€", "EST", "10:30", "# again", "x = 9", "20%", "usd", "to eur", "jan 1, 2020", "0x10", "5 km", "{NUMBER:a}", "тест", "İ"]
_CUR = None


def currencies():
    global _CUR
    if _CUR is None:
        cfg = C.json.load(open(C.REPO + "/src/json/config.json", encoding="utf-8"))
        _CUR = {k.lower() for k in cfg["currencies"].keys()} | {a for a in cfg["currency_alias"].keys() if a.isalpha() and a.isascii()}
    return _CUR


def recase(rng, w):
    k = rng.randint(0, 3)
    if k == 0:
        return w.lower()
    if k == 1:
        return w.upper()
    if k == 2:
        return w.capitalize()
    return "".join(ch.upper() if rng.random() < 0.5 else ch.lower() for ch in w)


WORD = re.compile(r"[^\W\d_]+")


def rewrite_case(rng, text, names):
    """change the case of the keyword classes; variable names (multi-word) consistently per occurrence"""
    def rep(m):
        w = m.group(0)
        lw = w.lower()
        # a word glued to a digit is a suffix / literal part (1k, 0xff, 10usd handled by the money class below)
        if m.start() > 0 and text[m.start() - 1].isdigit() and lw not in currencies():
            return w
        if lw in CONNECTIVES or lw in MONTHS or lw in ZONES or lw in currencies() or lw in names:
            if lw in ("m", "k"):
                return w
            if lw == "in":
                # 'in' is also the unit inch: behind a number or a conversion word it is a unit word, whose case is left alone
                before = text[:m.start()].rstrip().lower()
                if before[-1:].isdigit() or before.split()[-1:] in (["to"], ["as"], ["into"], ["in"]):
                    return w
            return recase(rng, w)
        return w
    return WORD.sub(rep, text)


def rewrite_blanks(rng, text):
    out = []
    for line in text.split("\n"):
        s = re.sub(r" ", lambda m: " " * rng.randint(1, 4), line)
        s = re.sub(r"(?<=[0-9a-z)%]) ?([*()=]) ?(?=[0-9a-z(%$€])", lambda m: " " * rng.randint(0, 2) + m.group(1) + " " * rng.randint(0, 2), s)
        out.append(" " * rng.randint(0, 3) + s + " " * rng.randint(0, 3))
    return "\n".join(out)


def rewrite_comment(rng, text):
    out = []
    for line in text.split("\n"):
        if rng.random() < 0.7:
            words = line.split()
            pool = COMMENTS + (words[-2:] if words else [])
            c = " ".join(rng.choice(pool) for _ in range(rng.randint(1, 3)))
            line = line + rng.choice([" #", " # ", "  #", "#"]) + c
        out.append(line)
    return "\n".join(out)


def vals(r):
    if "lines" not in r:
        return None
    out = []
    for l in r["lines"]:
        if l is None:
            out.append(None)
        elif "err" in l:
            out.append("err")
        else:
            out.append(l.get("ok"))
    return out


def alias_words():
    cfg = C.json.load(open(C.REPO + "/src/json/config.json", encoding="utf-8"))
    return sorted(a for a in cfg["currency_alias"] if a.isalpha() and a.isascii())


def base_text(rng):
    k = rng.random()
    if k < 0.12:
        # currency ALIAS words (tl, dollar, kroner, ...), not only ISO codes
        a, b = rng.choice(alias_words()), rng.choice(alias_words())
        return rng.choice([f"{L.num(rng)} {a}", f"{L.num(rng)} usd to {a}", f"{L.num(rng)} {a} to {b}", f"{L.num(rng)} {a} + {L.num(rng)} {b}",
                           f"10% of {L.num(rng)} {a}"]), set()
    if k < 0.18:
        # magnitude suffix, then blanks, then a currency word: '2k usd', '1,5M eur to usd'
        a, b = rng.choice(["usd", "eur", "try", "gbp", "jpy", rng.choice(alias_words())]), rng.choice(["usd", "eur", "try", "dkk"])
        amt = f"{rng.choice([str(rng.randint(1, 900)), L.num(rng)])}{rng.choice('kKMGT')}"
        return rng.choice([f"{amt} {a}", f"{amt} {a} to {b}", f"salary = {amt} {a}\nsalary / 12", f"{amt} {a} + 10%", f"{amt} {a} + {rng.randint(1, 99)} {a}"]), {"salary"}
    if k < 0.55:
        # the corpus of all properties' generators (English lines)
        for _ in range(5):
            lg, t = corpus.line(rng)
            if lg == "en":
                return t, set()
        return L.value_line(rng), set()
    if k < 0.65:
        # the same variable assigned twice, then used: every occurrence gets its own letter case
        n1 = rng.choice(L.NAMES + ["total", "çay", "über", "prix été", "цена"])
        t = f"{n1} = {L.value_line(rng)}\n{n1} = {L.value_line(rng)}\n{n1}{rng.choice(['', ' + 0', ' * 2'])}"
        return t, set(n1.split())
    names = rng.sample(L.NAMES + ["çay", "ölçü", "über", "prix été", "цена", "τιμή"], 2)
    n1, n2 = names
    t = f"{n1} = {L.value_line(rng)}\n{n2} = {n1}{rng.choice(['', ' * 2', ' + ' + n1])}\n{n2}{rng.choice(['', ' + 1', ' / 2'])}"
    ns = set()
    for n in names:
        ns |= set(n.split())
    return t, ns


def run(ctx, model_ok):
    rng = ctx.rng
    bases = []
    while len(bases) < ctx.n(1500, 40000):
        t, names = base_text(rng)
        t = t.replace("\r\n", "\n")
        bases.append((t, names))
    r0 = C.run_impl([{"op": "exec", "lang": "en", "text": t} for t, _ in bases])
    pairs = []
    for (t, names), r in zip(bases, r0):
        v = vals(r)
        if v is None or all(x in (None, "err") for x in v):
            ctx.count("base-not-evaluable")
            continue
        for kind in ("blanks", "comment", "case", "all"):
            if kind == "blanks":
                t2 = rewrite_blanks(rng, t)
            elif kind == "comment":
                t2 = rewrite_comment(rng, t)
            elif kind == "case":
                t2 = rewrite_case(rng, t, names)
            else:
                t2 = rewrite_comment(rng, rewrite_blanks(rng, rewrite_case(rng, t, names)))
            pairs.append((t, t2, kind, v))
    # blank-only / comment-only lines
    empties = []
    for _ in range(ctx.n(150, 3000)):
        k = rng.random()
        if k < 0.3:
            empties.append(" " * rng.randint(0, 6))
        else:
            empties.append(" " * rng.randint(0, 3) + "#" + " ".join(rng.choice(COMMENTS) for _ in range(rng.randint(0, 3))) + " " * rng.randint(0, 2))
    r1 = C.run_impl([{"op": "exec", "lang": "en", "text": t2} for (_, t2, _, _) in pairs] +
                    [{"op": "exec", "lang": "en", "text": "7\n" + e + "\n8"} for e in empties])
    for (t, t2, kind, v), r in zip(pairs, r1):
        ctx.seen((t, t2), t != t2)
        ctx.count("rewrite:" + kind)
        v2 = vals(r)
        if v2 != v:
            # which line differs
            ctx.oracle_fail({"class": "rewrite:" + kind, "what": f"values differ after the rewriting ({kind}): {v} vs {v2}",
                             "ops": [{"op": "exec", "lang": "en", "text": t}, {"op": "exec", "lang": "en", "text": t2}]})
        elif len(ctx.samples) < 10 and kind == "all" and rng.random() < 0.01:
            ctx.sample({"base": t, "rewritten": t2, "values": v})
    for e, r in zip(empties, r1[len(pairs):]):
        ctx.seen(("empty", e), True)
        ctx.count("empty-lines")
        v = vals(r)
        if v is None or len(v) != 3 or v[1] is not None:
            ctx.oracle_fail({"class": "blank-or-comment-line", "what": f"a line of blanks / a comment evaluated to something: {v}",
                             "ops": [{"op": "exec", "lang": "en", "text": "7\n" + e + "\n8"}]})
    if model_ok:
        # the model's lower-casing (SC.lowerChar) against the implementation's `char::to_lowercase` on every code point of the
        # blocks the model covers (ASCII, Latin-1, Latin Extended-A, Greek and Cyrillic capitals, four compatibility letters)
        uni = C.run_impl([{"op": "unicode"}])[0]
        rust_lower = {cp: lows for cp, lows in uni.get("lower", [])}
        cps = list(range(0x20, 0x180)) + list(range(0x384, 0x3AC)) + list(range(0x400, 0x430)) + [0x1E9E, 0x212A, 0x2126, 0x212B]
        cps = [cp for cp in cps if cp != 0x3A3]   # capital sigma: `str::to_lowercase` has a position-dependent rule
        ans = C.run_model([f"lower\t{wire.hx(chr(cp))}" for cp in cps])
        for cp, a in zip(cps, ans):
            want = "".join(chr(x) for x in rust_lower.get(cp, [cp]))
            got = bytes.fromhex(a).decode("utf-8", "replace")
            ctx.traces_validated += 1
            if got != want:
                ctx.disagree({"observable": "lower-casing of one character", "cp": hex(cp), "model": got, "impl": want})
        ctx.dist["case-table-code-points"] = len(cps)
        co = wire.Corr(ctx, compare=("kind", "value"))
        sub = [p for p in pairs if p[2] == "all"]
        rng.shuffle(sub)
        co.run([{"lang": "en", "text": t2} for (_, t2, _, _) in sub[:ctx.n(1200, 12000)]])
        ctx.dist.update({"corr:" + k: v for k, v in co.stats.items()})


def replay(ctx, data, model_ok):
    for f in data.get("failures", []):
        res = C.run_impl(f["ops"])
        ctx.seen(C.json.dumps(f["ops"]), True)
        ctx.sample({"ops": f["ops"], "impl": [vals(r) for r in res]})
        print("replayed:", C.json.dumps(f["ops"], ensure_ascii=False)[:400], "->", C.json.dumps([vals(r) for r in res], ensure_ascii=False)[:400])
    run(ctx, model_ok)
